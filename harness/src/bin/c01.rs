//! C01 harness: completeness of the STARK prover/verifier pair over the parametric AIR family (`wf_harness::airfam`).
//!   c01 corr <seed> <n> <group>      -> lines "<case> => <impl result>"; groups: opts tinfo ctx fri
//!        (shape-level admissibility: what the real constructors accept / panic on, #composition columns, #FRI layers)
//!   c01 falsify <seed> <n>           -> completeness falsifier: JSON failure records, then "evaluations=<n> failures=<k>"
//!   c01 replay '<json case>'         -> runs one case, prints its outcome (exit 0 always)
//!   c01 probe <seed> <n>             -> (diagnostic) outcome of ill-formed FRI schedules / q >= LDE, never a failure
//! Oracle of the falsifier: the family's reference validity predicate `is_valid` (independent of the library): valid
//! => prove = Ok, verify = Ok, verify(from_bytes(to_bytes(proof))) = Ok, to_bytes(from_bytes(bytes)) = bytes.
//! Build with --release: debug builds run `Trace::validate` and debug-only degree checks.
//! `corr ... deep`: the algebraic model (deep_poly / v_deep / segment / ood_lhs of coq/Model/Stark.v over Z/p) against the REAL composer code:
//! prover/src/composer/mod.rs and verifier/src/composer.rs are compiled into this binary straight from /repo (#[path]), so the
//! comparison follows the working tree on every run without any hook in /repo.
extern crate alloc;
extern crate winter_air as air;
extern crate winter_math as math;
extern crate winter_utils as utils;
mod prover_src {
    pub use winter_prover::{StarkDomain, TracePolyTable};
    pub mod constraints { pub use winter_prover::CompositionPoly; }
    #[allow(dead_code, unused_imports)]
    #[path = "/repo/prover/src/composer/mod.rs"]
    pub mod composer;
}
mod verifier_src {
    #[allow(dead_code, unused_imports)]
    #[path = "/repo/verifier/src/composer.rs"]
    pub mod composer;
}
use std::panic::AssertUnwindSafe;

use wf_harness::{airfam::*, catch, jstr, prng::Rng, silence_panics, toy::ToyHasher};
use winter_air::{proof::Proof, Air, AirContext, Assertion, AuxRandElements, ConstraintCompositionCoefficients, EvaluationFrame, FieldExtension, GkrVerifier,
    LagrangeKernelRandElements, ProofOptions, TraceInfo, TransitionConstraintDegree};
use winter_crypto::{
    hashers::{Blake3_192, Blake3_256, Rp62_248, Rp64_256, RpJive64_256, Sha3_256},
    DefaultRandomCoin, ElementHasher, RandomCoin,
};
use winter_fri::FriOptions;
use winter_math::{fields::{f128, f62, f64}, ExtensibleField, ExtensionOf, FieldElement, StarkField};
use winter_prover::{matrix::ColMatrix, DefaultConstraintEvaluator, DefaultTraceLde, Prover, ProverGkrProof, StarkDomain, Trace, TracePolyTable};
use winter_verifier::{verify, AcceptableOptions};

// ------------------------------------------------------------------------------------------------ cases
#[derive(Clone, Debug, PartialEq, Eq)]
struct Opts { q: usize, blowup: usize, grind: u32, ext: u8, fold: usize, rem: usize }

#[derive(Clone, Debug, PartialEq, Eq)]
struct Case { field: String, hasher: String, opts: Opts, spec: Spec, lag: usize }  // lag > 0: the Lagrange-kernel family with `lag` auxiliary columns (spec: only log_n is used)

fn ext_of(e: u8) -> FieldExtension { match e { 1 => FieldExtension::None, 2 => FieldExtension::Quadratic, _ => FieldExtension::Cubic } }

fn arr<T: std::fmt::Display>(v: &[T]) -> String { format!("[{}]", v.iter().map(|x| x.to_string()).collect::<Vec<_>>().join(",")) }
fn barr(v: &[bool]) -> String { arr(&v.iter().map(|&b| b as u8).collect::<Vec<_>>()) }

fn case_json(c: &Case) -> String {
    let s = &c.spec;
    let asr: Vec<String> = s.assertions.iter().map(|a| match a {
        AKind::Single { col, step } => format!("[0,{},{},0]", col, step),
        AKind::Periodic { col, first, stride } => format!("[1,{},{},{}]", col, first, stride),
        AKind::Sequence { col, first, stride } => format!("[2,{},{},{}]", col, first, stride),
    }).collect();
    format!("{{\"lag\":{},\"field\":{},\"hasher\":{},\"opts\":{{\"q\":{},\"blowup\":{},\"grind\":{},\"ext\":{},\"fold\":{},\"rem\":{}}},\"spec\":{{\"width\":{},\"log_n\":{},\"degs\":{},\"periodic\":{},\"use_per\":{},\"hold\":{},\"exemptions\":{},\"assertions\":[{}],\"aux_width\":{},\"aux_rands\":{},\"aux_assert_last\":{},\"seed\":{},\"constant_trace\":{},\"rot\":{}}}}}",
        c.lag, jstr(&c.field), jstr(&c.hasher), c.opts.q, c.opts.blowup, c.opts.grind, c.opts.ext, c.opts.fold, c.opts.rem,
        s.width, s.log_n, arr(&s.degs), arr(&s.periodic), barr(&s.use_per), barr(&s.hold), s.exemptions, asr.join(","),
        s.aux_width, s.aux_rands, s.aux_assert_last as u8, s.seed, s.constant_trace as u8, arr(&s.rot))
}

// minimal JSON reader (objects, arrays, unsigned integers, strings without escapes beyond \" \\)
#[derive(Clone, Debug)]
enum J { N(u64), S(String), A(Vec<J>), O(Vec<(String, J)>) }
impl J {
    fn get_opt(&self, k: &str) -> Option<&J> { match self { J::O(v) => v.iter().find(|(a, _)| a == k).map(|(_, b)| b), _ => None } }
    fn get(&self, k: &str) -> &J { match self { J::O(v) => v.iter().find(|(a, _)| a == k).map(|(_, b)| b).unwrap_or_else(|| panic!("missing key {}", k)), _ => panic!("not an object") } }
    fn n(&self) -> u64 { match self { J::N(x) => *x, _ => panic!("not a number") } }
    fn s(&self) -> String { match self { J::S(x) => x.clone(), _ => panic!("not a string") } }
    fn a(&self) -> &Vec<J> { match self { J::A(x) => x, _ => panic!("not an array") } }
}
struct P<'a> { b: &'a [u8], i: usize }
impl<'a> P<'a> {
    fn ws(&mut self) { while self.i < self.b.len() && (self.b[self.i] as char).is_whitespace() { self.i += 1; } }
    fn val(&mut self) -> J {
        self.ws();
        match self.b[self.i] {
            b'{' => { self.i += 1; let mut v = vec![]; loop { self.ws(); if self.b[self.i] == b'}' { self.i += 1; break; } if self.b[self.i] == b',' { self.i += 1; continue; }
                        let k = match self.val() { J::S(s) => s, _ => panic!("key") }; self.ws(); assert_eq!(self.b[self.i], b':'); self.i += 1; let x = self.val(); v.push((k, x)); } J::O(v) }
            b'[' => { self.i += 1; let mut v = vec![]; loop { self.ws(); if self.b[self.i] == b']' { self.i += 1; break; } if self.b[self.i] == b',' { self.i += 1; continue; } v.push(self.val()); } J::A(v) }
            b'"' => { self.i += 1; let mut s = String::new(); while self.b[self.i] != b'"' { if self.b[self.i] == b'\\' { self.i += 1; } s.push(self.b[self.i] as char); self.i += 1; } self.i += 1; J::S(s) }
            b't' => { self.i += 4; J::N(1) }
            b'f' => { self.i += 5; J::N(0) }
            _ => { let st = self.i; while self.i < self.b.len() && self.b[self.i].is_ascii_digit() { self.i += 1; } J::N(std::str::from_utf8(&self.b[st..self.i]).unwrap().parse().expect("number")) }
        }
    }
}
fn case_of_json(txt: &str) -> Case {
    let j = P { b: txt.as_bytes(), i: 0 }.val();
    let (o, s) = (j.get("opts"), j.get("spec"));
    let us = |x: &J| x.a().iter().map(|v| v.n() as usize).collect::<Vec<_>>();
    let bs = |x: &J| x.a().iter().map(|v| v.n() != 0).collect::<Vec<_>>();
    let assertions = s.get("assertions").a().iter().map(|a| { let t = us(a); match t[0] { 0 => AKind::Single { col: t[1], step: t[2] }, 1 => AKind::Periodic { col: t[1], first: t[2], stride: t[3] }, _ => AKind::Sequence { col: t[1], first: t[2], stride: t[3] } } }).collect();
    Case { lag: j.get_opt("lag").map(|x| x.n() as usize).unwrap_or(0), field: j.get("field").s(), hasher: j.get("hasher").s(),
        opts: Opts { q: o.get("q").n() as usize, blowup: o.get("blowup").n() as usize, grind: o.get("grind").n() as u32, ext: o.get("ext").n() as u8, fold: o.get("fold").n() as usize, rem: o.get("rem").n() as usize },
        spec: Spec { width: s.get("width").n() as usize, log_n: s.get("log_n").n() as u32, degs: us(s.get("degs")).iter().map(|&x| x as u32).collect(), periodic: us(s.get("periodic")),
            use_per: bs(s.get("use_per")), hold: bs(s.get("hold")), exemptions: s.get("exemptions").n() as usize, assertions, aux_width: s.get("aux_width").n() as usize,
            aux_rands: s.get("aux_rands").n() as usize, aux_assert_last: s.get("aux_assert_last").n() != 0, seed: s.get("seed").n(), constant_trace: s.get("constant_trace").n() != 0,
            rot: s.get_opt("rot").map(|x| us(x).iter().map(|&x| x as u32).collect()).unwrap_or_default() } }
}

// ------------------------------------------------------------------------------------------------ one run
fn clip(s: &str) -> String { let t: String = s.chars().map(|c| if c == '\n' { ' ' } else { c }).collect(); if t.len() > 160 { t[..160].to_string() } else { t } }

/// "ok" | "invalid-trace" | "prove-err:…" | "prove-panic:…" | "verify-err:…" | "verify-panic:…" | "reparse-err:…" | "reparse-panic:…" |
/// "reverify-err:…" | "reverify-panic:…" | "rebytes-differ"
fn run_one<B, H>(spec: &Spec, opts: &ProofOptions) -> String
where B: StarkField + ExtensibleField<2> + ExtensibleField<3> + 'static, H: ElementHasher<BaseField = B> + Send + Sync {
    let cols = gen_main::<B>(spec);
    let avals = assertion_values(spec, &cols);
    if !is_valid(spec, &cols, &avals) { return "invalid-trace".into(); }
    let trace = FamTrace::new(spec, cols);
    let prover = FamProver::<B, H, DefaultRandomCoin<H>>::new(opts.clone());
    let pi = prover.get_pub_inputs(&trace);
    let proof = match catch(AssertUnwindSafe(|| prover.prove(trace))) { Ok(Ok(p)) => p, Ok(Err(e)) => return format!("prove-err:{}", clip(&e.to_string())), Err(m) => return format!("prove-panic:{}", clip(&m)) };
    let bytes = proof.to_bytes();
    let acc = AcceptableOptions::OptionSet(vec![opts.clone()]);
    match catch(AssertUnwindSafe(|| verify::<FamAir<B>, H, DefaultRandomCoin<H>>(proof, pi.clone(), &acc))) {
        Ok(Ok(())) => {}, Ok(Err(e)) => return format!("verify-err:{}", clip(&e.to_string())), Err(m) => return format!("verify-panic:{}", clip(&m)) }
    let p2 = match catch(AssertUnwindSafe(|| Proof::from_bytes(&bytes))) { Ok(Ok(p)) => p, Ok(Err(e)) => return format!("reparse-err:{}", clip(&e.to_string())), Err(m) => return format!("reparse-panic:{}", clip(&m)) };
    if p2.to_bytes() != bytes { return "rebytes-differ".into(); }
    match catch(AssertUnwindSafe(|| verify::<FamAir<B>, H, DefaultRandomCoin<H>>(p2, pi, &acc))) {
        Ok(Ok(())) => {}, Ok(Err(e)) => return format!("reverify-err:{}", clip(&e.to_string())), Err(m) => return format!("reverify-panic:{}", clip(&m)) }
    "ok".into()
}


// ------------------------------------------------------------------------------------------------ Lagrange-kernel family
// main: one column 0,1,2,.. (next = cur + 1, col0[0] = 0); aux: `w - 1` columns (sum r_i) * main and the Lagrange kernel column
// (last), built from log2(n) random elements drawn by a dummy GKR step — the generic-field version of winterfell/src/tests.rs.
#[derive(Debug, Clone, Default)]
pub struct LagGkrVerifier;
impl GkrVerifier for LagGkrVerifier {
    type GkrProof = usize;
    type Error = String;
    fn verify<E, Hh>(&self, gkr_proof: usize, public_coin: &mut impl RandomCoin<BaseField = E::BaseField, Hasher = Hh>) -> Result<LagrangeKernelRandElements<E>, String>
    where E: FieldElement, Hh: ElementHasher<BaseField = E::BaseField> {
        if gkr_proof > 64 { return Err("bad gkr proof".into()); }
        let mut v = Vec::with_capacity(gkr_proof);
        for _ in 0..gkr_proof { v.push(public_coin.draw().map_err(|e| e.to_string())?); }
        Ok(LagrangeKernelRandElements::new(v))
    }
}
pub struct LagAir<B: StarkField> { ctx: AirContext<B> }
impl<B: StarkField + ExtensibleField<2> + ExtensibleField<3>> Air for LagAir<B> {
    type BaseField = B;
    type PublicInputs = ();
    type GkrProof = usize;
    type GkrVerifier = LagGkrVerifier;
    fn new(trace_info: TraceInfo, _pi: (), options: ProofOptions) -> Self {
        let aw = trace_info.aux_segment_width();
        LagAir { ctx: AirContext::new_multi_segment(trace_info, vec![TransitionConstraintDegree::new(1)], vec![TransitionConstraintDegree::new(1)], 1, 1, Some(aw - 1), options) }
    }
    fn context(&self) -> &AirContext<B> { &self.ctx }
    fn evaluate_transition<E: FieldElement<BaseField = B>>(&self, frame: &EvaluationFrame<E>, _p: &[E], result: &mut [E]) { result[0] = frame.next()[0] - frame.current()[0] - E::ONE; }
    fn get_assertions(&self) -> Vec<Assertion<B>> { vec![Assertion::single(0, 0, B::ZERO)] }
    fn evaluate_aux_transition<F, E>(&self, _m: &EvaluationFrame<F>, _a: &EvaluationFrame<E>, _p: &[F], _r: &[E], _result: &mut [E])
    where F: FieldElement<BaseField = B>, E: FieldElement<BaseField = B> + ExtensionOf<F> {}
    fn get_aux_assertions<E: FieldElement<BaseField = B>>(&self, _r: &[E]) -> Vec<Assertion<E>> { vec![Assertion::single(0, 0, E::ZERO)] }
    fn get_auxiliary_proof_verifier<E: FieldElement<BaseField = B>>(&self) -> LagGkrVerifier { LagGkrVerifier }
}
pub struct LagTrace<B: StarkField> { main: ColMatrix<B>, info: TraceInfo }
impl<B: StarkField> Trace for LagTrace<B> {
    type BaseField = B;
    fn info(&self) -> &TraceInfo { &self.info }
    fn main_segment(&self) -> &ColMatrix<B> { &self.main }
    fn read_main_frame(&self, row_idx: usize, frame: &mut EvaluationFrame<B>) {
        let next = (row_idx + 1) % self.main.num_rows();
        self.main.read_row_into(row_idx, frame.current_mut());
        self.main.read_row_into(next, frame.next_mut());
    }
}
pub struct LagProver<B: StarkField, H> { options: ProofOptions, aw: usize, _p: std::marker::PhantomData<(B, H)> }
impl<B, H> Prover for LagProver<B, H>
where B: StarkField + ExtensibleField<2> + ExtensibleField<3> + 'static, H: ElementHasher<BaseField = B> + Send + Sync {
    type BaseField = B;
    type Air = LagAir<B>;
    type Trace = LagTrace<B>;
    type HashFn = H;
    type RandomCoin = DefaultRandomCoin<H>;
    type TraceLde<E: FieldElement<BaseField = B>> = DefaultTraceLde<E, H>;
    type ConstraintEvaluator<'a, E: FieldElement<BaseField = B>> = DefaultConstraintEvaluator<'a, LagAir<B>, E>;
    fn get_pub_inputs(&self, _t: &LagTrace<B>) {}
    fn options(&self) -> &ProofOptions { &self.options }
    fn new_trace_lde<E: FieldElement<BaseField = B>>(&self, trace_info: &TraceInfo, main_trace: &ColMatrix<B>, domain: &StarkDomain<B>) -> (Self::TraceLde<E>, TracePolyTable<E>) { DefaultTraceLde::new(trace_info, main_trace, domain) }
    fn new_evaluator<'a, E: FieldElement<BaseField = B>>(&self, air: &'a LagAir<B>, aux: Option<AuxRandElements<E>>, cc: ConstraintCompositionCoefficients<E>) -> Self::ConstraintEvaluator<'a, E> { DefaultConstraintEvaluator::new(air, aux, cc) }
    fn generate_gkr_proof<E: FieldElement<BaseField = B>>(&self, main_trace: &LagTrace<B>, public_coin: &mut Self::RandomCoin) -> (ProverGkrProof<Self>, LagrangeKernelRandElements<E>) {
        let k = main_trace.main.num_rows().ilog2() as usize;
        let v: Vec<E> = (0..k).map(|_| public_coin.draw().unwrap()).collect();
        (k, LagrangeKernelRandElements::new(v))
    }
    fn build_aux_trace<E: FieldElement<BaseField = B>>(&self, main_trace: &LagTrace<B>, aux: &AuxRandElements<E>) -> ColMatrix<E> {
        let main = main_trace.main_segment();
        let r = aux.lagrange().expect("lagrange random elements");
        let sum = r.iter().fold(E::ZERO, |a, &x| a + x) + aux.rand_elements().iter().fold(E::ZERO, |a, &x| a + x);
        let mut cols: Vec<Vec<E>> = (1..self.aw).map(|_| main.get_column(0).iter().map(|v| sum.mul_base(*v)).collect()).collect();
        let n = main.num_rows();
        cols.push((0..n).map(|row| r.iter().enumerate().fold(E::ONE, |acc, (bit, &ri)| if row & (1 << bit) == 0 { acc * (E::ONE - ri) } else { acc * ri })).collect());
        ColMatrix::new(cols)
    }
}

fn run_lag<B, H>(log_n: u32, aw: usize, opts: &ProofOptions) -> String
where B: StarkField + ExtensibleField<2> + ExtensibleField<3> + 'static, H: ElementHasher<BaseField = B> + Send + Sync {
    let n = 1usize << log_n;
    let col: Vec<B> = (0..n).map(|i| B::from(i as u32)).collect();
    // reference validity (independent of the library): increments by one from zero
    if col[0] != B::ZERO || (0..n - 1).any(|i| col[i + 1] != col[i] + B::ONE) { return "invalid-trace".into(); }
    // number of ordinary auxiliary random elements: 0, 1 or 2 depending on the width, so that both the GKR draw and the
    // ordinary aux-randomness draw happen (their order matters to the transcript: seeded change C04-m2)
    let nr = aw % 3;
    let info = match catch(move || TraceInfo::new_multi_segment(1, aw, nr, n, vec![])) { Ok(i) => i, Err(_) => return "inadmissible".into() };
    let trace = LagTrace { main: ColMatrix::new(vec![col]), info };
    let prover = LagProver::<B, H> { options: opts.clone(), aw, _p: std::marker::PhantomData };
    finish_run::<LagAir<B>, H, _>(catch(AssertUnwindSafe(|| prover.prove(trace))), (), opts)
}

fn finish_run<A, H, Er: std::fmt::Display>(res: Result<Result<Proof, Er>, String>, pi: A::PublicInputs, opts: &ProofOptions) -> String
where A: Air, A::PublicInputs: Clone, H: ElementHasher<BaseField = A::BaseField> {
    let proof = match res { Ok(Ok(p)) => p, Ok(Err(e)) => return format!("prove-err:{}", clip(&e.to_string())), Err(m) => return format!("prove-panic:{}", clip(&m)) };
    let bytes = proof.to_bytes();
    let acc = AcceptableOptions::OptionSet(vec![opts.clone()]);
    match catch(AssertUnwindSafe(|| verify::<A, H, DefaultRandomCoin<H>>(proof, pi.clone(), &acc))) {
        Ok(Ok(())) => {}, Ok(Err(e)) => return format!("verify-err:{}", clip(&e.to_string())), Err(m) => return format!("verify-panic:{}", clip(&m)) }
    let p2 = match catch(AssertUnwindSafe(|| Proof::from_bytes(&bytes))) { Ok(Ok(p)) => p, Ok(Err(e)) => return format!("reparse-err:{}", clip(&e.to_string())), Err(m) => return format!("reparse-panic:{}", clip(&m)) };
    if p2.to_bytes() != bytes { return "rebytes-differ".into(); }
    match catch(AssertUnwindSafe(|| verify::<A, H, DefaultRandomCoin<H>>(p2, pi, &acc))) {
        Ok(Ok(())) => {}, Ok(Err(e)) => return format!("reverify-err:{}", clip(&e.to_string())), Err(m) => return format!("reverify-panic:{}", clip(&m)) }
    "ok".into()
}

const FIELDS: [&str; 3] = ["f62", "f64", "f128"];
fn hashers_of(field: &str) -> &'static [&'static str] {
    match field { "f62" => &["blake3_256", "blake3_192", "sha3_256", "rp62_248", "toy"], "f64" => &["blake3_256", "blake3_192", "sha3_256", "rp64_256", "rpjive64_256", "toy"], _ => &["blake3_256", "blake3_192", "sha3_256", "toy"] }
}
fn ext_supported(field: &str, ext: u8) -> bool { !(field == "f128" && ext == 3) }

fn make_opts(o: &Opts) -> Option<ProofOptions> { catch(|| ProofOptions::new(o.q, o.blowup, o.grind, ext_of(o.ext), o.fold, o.rem)).ok() }

fn run_case(c: &Case) -> String {
    let opts = match make_opts(&c.opts) { Some(o) => o, None => return "options-rejected".into() };
    type B62 = f62::BaseElement; type B64 = f64::BaseElement; type B128 = f128::BaseElement;
    macro_rules! go { ($b:ty, $h:ty) => { if c.lag > 0 { run_lag::<$b, $h>(c.spec.log_n, c.lag, &opts) } else { run_one::<$b, $h>(&c.spec, &opts) } } }
    match (c.field.as_str(), c.hasher.as_str()) {
        ("f62", "blake3_256") => go!(B62, Blake3_256<B62>),
        ("f62", "blake3_192") => go!(B62, Blake3_192<B62>),
        ("f62", "sha3_256") => go!(B62, Sha3_256<B62>),
        ("f62", "rp62_248") => go!(B62, Rp62_248),
        ("f62", "toy") => go!(B62, ToyHasher<B62>),
        ("f64", "blake3_256") => go!(B64, Blake3_256<B64>),
        ("f64", "blake3_192") => go!(B64, Blake3_192<B64>),
        ("f64", "sha3_256") => go!(B64, Sha3_256<B64>),
        ("f64", "rp64_256") => go!(B64, Rp64_256),
        ("f64", "rpjive64_256") => go!(B64, RpJive64_256),
        ("f64", "toy") => go!(B64, ToyHasher<B64>),
        ("f128", "blake3_256") => go!(B128, Blake3_256<B128>),
        ("f128", "blake3_192") => go!(B128, Blake3_192<B128>),
        ("f128", "sha3_256") => go!(B128, Sha3_256<B128>),
        ("f128", "toy") => go!(B128, ToyHasher<B128>),
        _ => "unsupported-field-hasher".into(),
    }
}

// ------------------------------------------------------------------------------------------------ admissibility (by the REAL constructors)
fn degrees_of(spec: &Spec) -> Option<(Vec<TransitionConstraintDegree>, Vec<TransitionConstraintDegree>)> {
    catch(AssertUnwindSafe(|| {
        let main: Vec<_> = (0..spec.width).map(|c| if spec.hold[c] || spec.rot_of(c) > 0 { TransitionConstraintDegree::new(1) } else { match spec.per_index(c) {
            Some(i) => TransitionConstraintDegree::with_cycles(spec.degs[c] as usize, vec![spec.periodic[i]]),
            None => TransitionConstraintDegree::new(spec.degs[c] as usize) } }).collect();
        let aux: Vec<_> = (0..spec.aux_width).map(|j| TransitionConstraintDegree::new(if j == 0 { 2 } else { 1 })).collect();
        (main, aux)
    })).ok()
}

/// well-formedness of the spec as a member of the family (index ranges etc.), independent of the library
fn spec_wellformed(s: &Spec) -> bool {
    let n = s.n();
    s.width >= 1 && s.degs.len() == s.width && s.use_per.len() == s.width && s.hold.len() == s.width && (s.rot.is_empty() || s.rot.len() == s.width)
        && s.degs.iter().all(|&d| d >= 1) && s.periodic.iter().all(|&p| p >= 2 && p.is_power_of_two() && p <= n)
        && !s.assertions.is_empty()
        && s.assertions.iter().all(|a| match a {
            AKind::Single { col, step } => *col < s.width && *step < n,
            AKind::Periodic { col, first, stride } => *col < s.width && *stride >= 2 && stride.is_power_of_two() && *stride <= n && first < stride && s.hold[*col],
            AKind::Sequence { col, first, stride } => *col < s.width && *stride >= 2 && stride.is_power_of_two() && *stride <= n && first < stride })
        && { let mut cols: Vec<usize> = s.assertions.iter().map(|a| assertion_steps(a, n).0).collect(); cols.sort(); cols.windows(2).all(|w| w[0] != w[1]) }
        && (s.aux_width > 0 || s.aux_rands == 0) && !s.aux_assert_last
}

/// Do the real constructors accept (TraceInfo, degrees, AirContext, exemptions)?  Returns (ce_blowup-implied num columns) on acceptance.
fn ctx_accepts<B: StarkField>(spec: &Spec, opts: &ProofOptions) -> Option<usize> {
    let (main, aux) = degrees_of(spec)?;
    catch(AssertUnwindSafe(|| {
        let info = if spec.aux_width > 0 { TraceInfo::new_multi_segment(spec.width, spec.aux_width, spec.aux_rands, spec.n(), vec![]) } else { TraceInfo::new(spec.width, spec.n()) };
        let ctx: AirContext<B> = if spec.aux_width > 0 {
            AirContext::new_multi_segment(info, main, aux, spec.assertions.len(), spec.aux_width + spec.aux_assert_last as usize, None, opts.clone())
        } else { AirContext::new(info, main, spec.assertions.len(), opts.clone()) };
        ctx.set_num_transition_exemptions(spec.exemptions).num_constraint_composition_columns()
    })).ok()
}


/// Reference admissibility of the family member's shape, written from the documented rules (mirror of Shape.ctx_model in
/// coq/Model/Stark.v), independent of the library: used to notice a library that starts REJECTING parameter sets of the
/// supported class (the falsifier would otherwise skip them silently).
fn ref_ctx_accepts(s: &Spec, blowup: usize) -> bool {
    let n = s.n() as u128;
    let pow2 = |x: u128| x > 0 && x & (x - 1) == 0;
    let degs: Vec<(u128, Vec<u128>)> = (0..s.width).map(|c| if s.hold[c] || s.rot_of(c) > 0 { (1, vec![]) } else { match s.per_index(c) {
        Some(i) => (s.degs[c] as u128, vec![s.periodic[i] as u128]), None => (s.degs[c] as u128, vec![]) } })
        .chain((0..s.aux_width).map(|j| (if j == 0 { 2 } else { 1 }, vec![]))).collect();
    if degs.iter().any(|(b, cyc)| *b == 0 || cyc.iter().any(|&c| c < 2 || !pow2(c))) { return false; }
    if n < 8 || !pow2(n) || s.width == 0 || s.width + s.aux_width > 255 || (s.aux_width == 0 && s.aux_rands != 0) || s.aux_rands > 255 { return false; }
    if s.assertions.is_empty() { return false; }
    let min_blowup = |b: u128, k: u128| (b + k - 1).next_power_of_two().max(2);
    let ce = degs.iter().map(|(b, cyc)| min_blowup(*b, cyc.len() as u128)).max().unwrap_or(0);
    if (blowup as u128) < ce { return false; }
    let e = s.exemptions as u128;
    if e == 0 || e > n / 2 + 1 { return false; }
    degs.iter().all(|(b, cyc)| { let ed = b * (n - 1) + cyc.iter().map(|c| (n / c) * (c - 1)).sum::<u128>(); e + ed <= ce * n - 1 + n })
}

/// admissible in the sense of the property: constructors accept, FRI schedule well-formed, fewer queries than LDE points,
/// extension supported by the field
fn admissible(c: &Case) -> bool {
    if c.lag > 0 {
        let lde = c.spec.n() * c.opts.blowup;
        return c.lag >= 2 && c.lag <= 254 && c.spec.log_n >= 3 && c.spec.log_n <= 16 && make_opts(&c.opts).is_some() && fri_wellformed(lde, c.opts.blowup, c.opts.fold, c.opts.rem)
            && c.opts.q < lde && ext_supported(&c.field, c.opts.ext) && hashers_of(&c.field).contains(&c.hasher.as_str());
    }
    if !spec_wellformed(&c.spec) || c.spec.log_n < 3 || c.spec.log_n > 20 { return false; }
    let opts = match make_opts(&c.opts) { Some(o) => o, None => return false };
    let lde = c.spec.n() * c.opts.blowup;
    if !fri_wellformed(lde, c.opts.blowup, c.opts.fold, c.opts.rem) || c.opts.q >= lde { return false; }
    if !ext_supported(&c.field, c.opts.ext) || !hashers_of(&c.field).contains(&c.hasher.as_str()) { return false; }
    ctx_accepts::<f64::BaseElement>(&c.spec, &opts).is_some()
}

// ------------------------------------------------------------------------------------------------ shrinking
fn fail_class(out: &str) -> String {
    let kind = out.split(':').next().unwrap_or("").to_string();
    let rest: String = out[kind.len()..].chars().take(40).map(|c| if c.is_ascii_digit() { '#' } else { c }).collect();
    format!("{}{}", kind, rest)
}

fn drop_col(s: &Spec, c: usize) -> Option<Spec> {
    if s.width <= 1 { return None; }
    let mut t = s.clone();
    t.width -= 1; t.degs.remove(c); t.use_per.remove(c); t.hold.remove(c); if !t.rot.is_empty() { t.rot.remove(c); }
    t.assertions = s.assertions.iter().filter_map(|a| { let (col, _) = assertion_steps(a, s.n()); if col == c { None } else { let nc = if col > c { col - 1 } else { col };
        Some(match a { AKind::Single { step, .. } => AKind::Single { col: nc, step: *step }, AKind::Periodic { first, stride, .. } => AKind::Periodic { col: nc, first: *first, stride: *stride },
                       AKind::Sequence { first, stride, .. } => AKind::Sequence { col: nc, first: *first, stride: *stride } }) } }).collect();
    if t.assertions.is_empty() { t.assertions.push(AKind::Single { col: 0, step: 0 }); }
    Some(t)
}

fn shrinks(c: &Case) -> Vec<Case> {
    let mut v = vec![];
    let s = &c.spec;
    let with = |f: &dyn Fn(&mut Case)| { let mut d = c.clone(); f(&mut d); d };
    // fewer columns (halve from the end, then single drops)
    if s.width > 1 {
        let mut t = s.clone(); let keep = (s.width + 1) / 2;
        let mut ok = true; for c in (keep..s.width).rev() { match drop_col(&t, c) { Some(u) => t = u, None => { ok = false; break; } } }
        if ok { v.push(Case { spec: t, ..c.clone() }); }
        for col in [s.width - 1, 0] { if let Some(t) = drop_col(s, col) { v.push(Case { spec: t, ..c.clone() }); } }
    }
    if s.log_n > 3 { v.push(with(&|d| { d.spec.log_n -= 1; let n = d.spec.n(); d.spec.exemptions = d.spec.exemptions.min(n / 2 + 1);
        for p in d.spec.periodic.iter_mut() { *p = (*p).min(n); }
        d.spec.assertions = d.spec.assertions.iter().map(|a| match a { AKind::Single { col, step } => AKind::Single { col: *col, step: step % n },
            AKind::Periodic { col, first, stride } => { let st = (*stride).min(n); AKind::Periodic { col: *col, first: first % st, stride: st } },
            AKind::Sequence { col, first, stride } => { let st = (*stride).min(n); AKind::Sequence { col: *col, first: first % st, stride: st } } }).collect(); })); }
    if s.aux_width > 0 { v.push(with(&|d| { d.spec.aux_width = 0; d.spec.aux_rands = 0; d.spec.aux_assert_last = false; }));
        if s.aux_width > 1 { v.push(with(&|d| d.spec.aux_width = 1)); } if s.aux_rands > 1 { v.push(with(&|d| d.spec.aux_rands = 1)); } }
    if !s.periodic.is_empty() { v.push(with(&|d| { d.spec.periodic.clear(); for u in d.spec.use_per.iter_mut() { *u = false; } })); }
    if s.degs.iter().any(|&d| d > 1) { v.push(with(&|d| for x in d.spec.degs.iter_mut() { *x = 1; })); v.push(with(&|d| for x in d.spec.degs.iter_mut() { if *x > 1 { *x -= 1; } })); }
    if s.exemptions > 1 { v.push(with(&|d| d.spec.exemptions = 1)); v.push(with(&|d| d.spec.exemptions -= 1)); }
    if s.assertions.len() > 1 { for i in 0..s.assertions.len() { v.push(with(&|d| { d.spec.assertions.remove(i); })); } }
    for i in 0..s.assertions.len() { if let AKind::Sequence { col, .. } | AKind::Periodic { col, .. } = s.assertions[i] { if !matches!(s.assertions[i], AKind::Periodic { .. }) || true {
        v.push(with(&|d| d.spec.assertions[i] = AKind::Single { col, step: 0 })); } } }
    if !s.rot.is_empty() { v.push(with(&|d| d.spec.rot.clear())); }
    if s.hold.iter().any(|&h| h) && !s.assertions.iter().any(|a| matches!(a, AKind::Periodic { .. })) { v.push(with(&|d| for h in d.spec.hold.iter_mut() { *h = false; })); }
    if s.constant_trace { v.push(with(&|d| d.spec.constant_trace = false)); }
    if c.lag > 2 { v.push(with(&|d| d.lag = 2)); }
    // options
    let o = &c.opts;
    if o.q > 1 { v.push(with(&|d| d.opts.q = 1)); v.push(with(&|d| d.opts.q /= 2)); v.push(with(&|d| d.opts.q -= 1)); }
    if o.grind > 0 { v.push(with(&|d| d.opts.grind = 0)); }
    if o.ext > 1 { v.push(with(&|d| d.opts.ext = 1)); }
    if o.blowup > 2 { v.push(with(&|d| d.opts.blowup /= 2)); }
    if o.fold > 2 { v.push(with(&|d| d.opts.fold = 2)); v.push(with(&|d| d.opts.fold /= 2)); }
    if o.rem > 0 { v.push(with(&|d| d.opts.rem = 0)); v.push(with(&|d| d.opts.rem = (d.opts.rem + 1) / 2 - 1)); }
    if c.hasher != "blake3_256" { v.push(with(&|d| d.hasher = "blake3_256".into())); }
    if c.field != "f128" && c.opts.ext != 3 { v.push(with(&|d| d.field = "f128".into())); }
    if c.field != "f64" { v.push(with(&|d| d.field = "f64".into())); }
    v
}

fn shrink(c: &Case, out: &str, budget: &mut usize) -> (Case, String) {
    let class = fail_class(out);
    let (mut cur, mut cur_out) = (c.clone(), out.to_string());
    'outer: loop {
        for cand in shrinks(&cur) {
            if *budget == 0 { break 'outer; }
            if cand == cur || !admissible(&cand) { continue; }
            *budget -= 1;
            let o = run_case(&cand);
            if o != "ok" && o != "invalid-trace" && fail_class(&o) == class { cur = cand; cur_out = o; continue 'outer; }
        }
        break;
    }
    (cur, cur_out)
}

// ------------------------------------------------------------------------------------------------ generators
struct Tally { evals: usize, fails: usize, skipped: usize, classes: Vec<String>, strata: std::collections::BTreeMap<String, usize> }

fn check(c: &Case, t: &mut Tally, stratum: &str) {
    if !admissible(c) {
        // the library's constructors and the reference rules must agree on what is admissible
        if c.lag == 0 && spec_wellformed(&c.spec) && c.spec.log_n >= 3 && c.spec.log_n <= 20 {
            if let Some(o) = make_opts(&c.opts) {
                let (lib, reference) = (ctx_accepts::<f64::BaseElement>(&c.spec, &o).is_some(), ref_ctx_accepts(&c.spec, c.opts.blowup));
                if lib != reference {
                    t.evals += 1; t.fails += 1;
                    println!("{{\"what\":\"completeness:constructors-disagree-with-reference-admissibility\",\"input\":{},\"expected\":\"accepted = {}\",\"actual\":\"accepted = {}\",\"stratum\":{}}}", case_json(c), reference, lib, jstr(stratum));
                }
            }
        }
        t.skipped += 1; *t.strata.entry(format!("SKIPPED:{}", stratum)).or_insert(0) += 1; return;
    }
    if c.lag == 0 && !ref_ctx_accepts(&c.spec, c.opts.blowup) {
        t.evals += 1; t.fails += 1;
        println!("{{\"what\":\"completeness:constructors-disagree-with-reference-admissibility\",\"input\":{},\"expected\":\"accepted = false\",\"actual\":\"accepted = true\",\"stratum\":{}}}", case_json(c), jstr(stratum));
    }
    let out = run_case(c);
    t.evals += 1;
    *t.strata.entry(stratum.to_string()).or_insert(0) += 1;
    if out == "ok" { return; }
    if out == "invalid-trace" { // generator defect, not a property failure: report loudly as a harness failure
        t.fails += 1;
        println!("{{\"what\":\"harness:generator-produced-invalid-trace\",\"input\":{},\"expected\":\"valid trace\",\"actual\":\"invalid\"}}", case_json(c));
        return;
    }
    t.fails += 1;
    let class = fail_class(&out);
    // shrink only the first few of each class (the rest are reported unshrunk)
    let seen = t.classes.iter().filter(|x| **x == class).count();
    t.classes.push(class);
    let (m, mout) = if seen < 2 { let mut b = 150; shrink(c, &out, &mut b) } else { (c.clone(), out.clone()) };
    let kind = mout.split(':').next().unwrap_or("").to_string();
    println!("{{\"what\":{},\"input\":{},\"expected\":\"prove Ok; verify Ok; verify(from_bytes(to_bytes(proof))) Ok\",\"actual\":{},\"stratum\":{},\"unshrunk\":{},\"replay\":{}}}",
        jstr(&format!("completeness:{}", kind)), case_json(&m), jstr(&mout), jstr(stratum), case_json(c), jstr(&format!("c01 replay '{}'", case_json(&m))));
}

fn base_opts() -> Opts { Opts { q: 3, blowup: 4, grind: 0, ext: 1, fold: 4, rem: 3 } }

/// repair a spec so that its declared degrees fit the given blowup (keeps the intent of the stratum)
fn fit_degrees(s: &mut Spec, blowup: usize) {
    for c in 0..s.width {
        let cyc = if s.per_index(c).is_some() { 1 } else { 0 };
        let maxd = (blowup + 1 - cyc) as u32;
        if s.degs[c] > maxd { s.degs[c] = maxd; }
        if s.degs[c] < 1 { s.degs[c] = 1; }
    }
}

fn pick_fh(r: &mut Rng, ext: u8) -> (String, String) {
    loop {
        let f = *r.pick(&FIELDS);
        if !ext_supported(f, ext) { continue; }
        let hs = hashers_of(f);
        // the toy hasher is for the model correspondence; sample it rarely here
        let h = hs[r.below(hs.len() as u64) as usize];
        if h == "toy" && !r.chance(1, 4) { continue; }
        return (f.to_string(), h.to_string());
    }
}

/// A well-formed FRI schedule for an LDE domain of the given size (random among the well-formed ones)
fn pick_fri(r: &mut Rng, lde: usize, blowup: usize) -> (usize, usize) {
    for _ in 0..64 {
        let fold = *r.pick(&[2usize, 4, 8, 16]);
        let rem = *r.pick(&[0usize, 1, 3, 7, 15, 31, 63, 127, 255]);
        if fri_wellformed(lde, blowup, fold, rem) { return (fold, rem); }
    }
    (2, 0)
}

fn boundary_stream(r: &mut Rng, t: &mut Tally, thorough: bool) {
    // ---- degenerate but valid traces (constant / zero / low-degree columns), every field
    for f in FIELDS {
        for (name, mk) in [
            ("degenerate:one-constant-column", Box::new(|| { let mut s = Spec::simple(1, 4, 1, 5); s.hold = vec![true]; s }) as Box<dyn Fn() -> Spec>),
            ("degenerate:all-hold-3", Box::new(|| { let mut s = Spec::simple(3, 3, 1, 6); s.hold = vec![true; 3]; s.assertions = vec![AKind::Periodic { col: 1, first: 1, stride: 4 }, AKind::Single { col: 0, step: 7 }]; s })),
            ("degenerate:zero-trace", Box::new(|| { let mut s = Spec::simple(2, 4, 2, 7); s.constant_trace = true; s })),
            ("degenerate:zero-trace-deg3-aux", Box::new(|| { let mut s = Spec::simple(2, 3, 3, 8); s.constant_trace = true; s.aux_width = 2; s.aux_rands = 2; s })),
            ("degenerate:low-degree-x^1", Box::new(|| { let mut s = Spec::simple(1, 4, 1, 9); s.rot = vec![1]; s })),
            ("degenerate:low-degree-x^3,x^n/2", Box::new(|| { let mut s = Spec::simple(2, 5, 1, 10); s.rot = vec![3, 16]; s.assertions = vec![AKind::Sequence { col: 0, first: 1, stride: 2 }]; s })),
            ("degenerate:low-degree-mixed-hold", Box::new(|| { let mut s = Spec::simple(3, 4, 1, 11); s.rot = vec![2, 0, 5]; s.hold = vec![false, true, false]; s })),
            ("degenerate:one-full-degree-among-constants", Box::new(|| { let mut s = Spec::simple(3, 4, 2, 12); s.hold = vec![true, false, true]; s })),
        ] {
            for (ext, blowup) in [(1u8, 2usize), (2, 4), (3, 8)] {
                if !ext_supported(f, ext) { continue; }
                let s = mk();
                let lde = s.n() * blowup;
                let (fold, rem) = pick_fri(r, lde, blowup);
                let c = Case { lag: 0, field: f.into(), hasher: hashers_of(f)[r.below(3) as usize].into(), opts: Opts { q: 2, blowup, grind: 0, ext, fold, rem }, spec: s };
                check(&c, t, name);
            }
        }
    }
    // ---- width boundaries: 1, 2, 8, 9 (segment boundary), 16, 17, 254, 255, 254+1 aux, 1+254 aux
    for &(w, aw) in &[(1usize, 0usize), (2, 0), (8, 0), (9, 0), (16, 0), (17, 0), (64, 0), (254, 0), (255, 0), (254, 1), (1, 254), (128, 127), (7, 1), (8, 8), (9, 9)] {
        for rep in 0..(if thorough { 3 } else { 1 }) {
            let mut s = Spec::simple(w, 3 + (rep as u32 % 2), 1 + (r.below(3) as u32), r.next_u64());
            s.aux_width = aw; s.aux_rands = if aw > 0 { 1 + r.below(3) as usize } else { 0 };
            s.assertions = vec![AKind::Single { col: w - 1, step: s.n() - 1 }];
            let ext = 1 + r.below(3) as u8;
            let (f, h) = pick_fh(r, ext);
            let blowup = *r.pick(&[4usize, 8]);
            fit_degrees(&mut s, blowup);
            let (fold, rem) = pick_fri(r, s.n() * blowup, blowup);
            check(&Case { lag: 0, field: f, hasher: h, opts: Opts { q: 1 + r.below(6) as usize, blowup, grind: 0, ext, fold, rem }, spec: s }, t, &format!("width:{}+{}", w, aw));
        }
    }
    // ---- degree boundaries: every degree 1..=blowup+1 for blowup 2,4,8(,16), with and without a periodic column, x exemptions 1,2,d,blowup,n/2+1
    for &blowup in &[2usize, 4, 8, 16] {
        if blowup == 16 && !thorough { continue; }
        for d in 1..=(blowup as u32 + 1) {
            for per in [false, true] {
                for &log_n in &[3u32, 5] {
                    let n = 1usize << log_n;
                    let mut exs = vec![1usize, 2, d as usize, d as usize + 1, blowup, n / 2, n / 2 + 1];
                    exs.sort(); exs.dedup();
                    for ex in exs {
                        if ex < 1 || ex > n / 2 + 1 { continue; }
                        if !thorough && log_n == 5 && blowup == 8 && d % 2 == 0 { continue; }
                        let mut s = Spec::simple(2, log_n, d, r.next_u64());
                        if per { s.periodic = vec![*r.pick(&[2usize, 4, n])]; s.use_per = vec![true, false]; }
                        s.exemptions = ex;
                        let ext = 1 + r.below(3) as u8;
                        let (f, h) = pick_fh(r, ext);
                        let (fold, rem) = pick_fri(r, n * blowup, blowup);
                        check(&Case { lag: 0, field: f, hasher: h, opts: Opts { q: 1 + r.below(4) as usize, blowup, grind: 0, ext, fold, rem }, spec: s }, t,
                            &format!("degree:{}{}", if d as usize == blowup + 1 { "blowup+1" } else if d == 1 { "1" } else { "mid" }, if per { "+periodic" } else { "" }));
                    }
                }
            }
        }
    }
    // ---- assertion kinds: single (0, n-1, mid), periodic (first 0 / non-zero), sequence (first 0 / non-zero; 2 .. n/2 values incl. >= 64)
    for &log_n in &[3u32, 5, 7, 8] {
        if log_n == 8 && !thorough { continue; }
        let n = 1usize << log_n;
        let mut kinds: Vec<(String, AKind, bool)> = vec![
            ("single:first-step".into(), AKind::Single { col: 0, step: 0 }, false), ("single:last-step".into(), AKind::Single { col: 0, step: n - 1 }, false),
            ("single:mid".into(), AKind::Single { col: 0, step: n / 2 + 1 }, false),
            ("periodic:first=0".into(), AKind::Periodic { col: 0, first: 0, stride: 2 }, true), ("periodic:first=0,stride=n".into(), AKind::Periodic { col: 0, first: 0, stride: n }, true),
            ("periodic:first>0".into(), AKind::Periodic { col: 0, first: 1, stride: 2 }, true), ("periodic:first=stride-1".into(), AKind::Periodic { col: 0, first: n / 2 - 1, stride: n / 2 }, true),
        ];
        let mut stride = 2;
        while stride <= n {
            let nv = n / stride;
            let tag = if nv >= 64 { ">=64-values" } else if nv == 1 { "1-value" } else { "<64-values" };
            kinds.push((format!("sequence:first=0:{}", tag), AKind::Sequence { col: 0, first: 0, stride }, false));
            kinds.push((format!("sequence:first>0:{}", tag), AKind::Sequence { col: 0, first: stride - 1, stride }, false));
            if stride > 2 { kinds.push((format!("sequence:first>0:{}", tag), AKind::Sequence { col: 0, first: 1, stride }, false)); }
            stride *= 2;
        }
        for (name, a, hold) in kinds {
            let mut s = Spec::simple(2, log_n, 2, r.next_u64());
            if hold { s.hold[0] = true; }
            s.assertions = vec![a, AKind::Single { col: 1, step: r.below(n as u64) as usize }];
            let ext = 1 + r.below(3) as u8;
            let (f, h) = pick_fh(r, ext);
            let blowup = *r.pick(&[2usize, 4, 8]);
            let (fold, rem) = pick_fri(r, n * blowup, blowup);
            check(&Case { lag: 0, field: f, hasher: h, opts: Opts { q: 1 + r.below(5) as usize, blowup, grind: 0, ext, fold, rem }, spec: s }, t, &format!("assertion:{}", name));
        }
    }
    // ---- query-count boundaries: 1, 2, LDE-1, 254, 255 (needs LDE >= 256)
    for &(log_n, blowup, q) in &[(3u32, 2usize, 1usize), (3, 2, 15), (3, 2, 2), (4, 4, 63), (5, 8, 255), (6, 4, 255), (7, 2, 255), (5, 8, 254), (5, 8, 253), (4, 16, 255), (3, 32, 255), (3, 64, 255), (3, 128, 255), (3, 128, 1), (12, 64, 255), (13, 128, 255)] {
        if log_n == 13 && !thorough { continue; }
        for ext in 1..=3u8 {
            if !thorough && ext == 2 && q != 255 { continue; }
            let s = Spec::simple(1 + r.below(3) as usize, log_n, 2, r.next_u64());
            let (f, h) = pick_fh(r, ext);
            let (fold, rem) = pick_fri(r, s.n() * blowup, blowup);
            check(&Case { lag: 0, field: f, hasher: h, opts: Opts { q, blowup, grind: 0, ext, fold, rem }, spec: s }, t, &format!("queries:{}", if q == 255 { "255".to_string() } else if q + 1 == (1 << log_n) * blowup { "lde-1".into() } else { "other".into() }));
        }
    }
    // 255 columns AND 255 queries together
    {
        let s = Spec::simple(255, 3, 1, r.next_u64());
        check(&Case { lag: 0, field: "f64".into(), hasher: "blake3_256".into(), opts: Opts { q: 255, blowup: 32, grind: 0, ext: 1, fold: 4, rem: 7 }, spec: s }, t, "width:255+queries:255");
        let mut s = Spec::simple(200, 3, 1, r.next_u64()); s.aux_width = 55; s.aux_rands = 3;
        check(&Case { lag: 0, field: "f62".into(), hasher: "rp62_248".into(), opts: Opts { q: 255, blowup: 32, grind: 0, ext: 2, fold: 8, rem: 15 }, spec: s }, t, "width:255+queries:255");
    }
    // ---- FRI schedules: every (blowup, fold, rem) that is well formed for a few LDE sizes
    let mut sched = vec![];
    for &blowup in &[2usize, 4, 8, 16, 32, 64, 128] { for &fold in &[2usize, 4, 8, 16] { for &rem in &[0usize, 1, 3, 7, 15, 31, 63, 127, 255] { for &log_n in &[3u32, 4, 6] {
        let lde = (1usize << log_n) * blowup;
        if lde > (1 << 12) || !fri_wellformed(lde, blowup, fold, rem) { continue; }
        sched.push((blowup, fold, rem, log_n));
    } } } }
    let take = if thorough { sched.len() } else { 90 };
    let stepk = (sched.len() / take).max(1);
    for (i, &(blowup, fold, rem, log_n)) in sched.iter().enumerate() {
        if i % stepk != (r.0 as usize % stepk) && !thorough { continue; }
        let mut s = Spec::simple(1 + r.below(3) as usize, log_n, 1 + r.below(3) as u32, r.next_u64());
        fit_degrees(&mut s, blowup);
        let ext = 1 + r.below(3) as u8;
        let (f, h) = pick_fh(r, ext);
        let lde = s.n() * blowup;
        let nl = FriOptions::new(blowup, fold, rem).num_fri_layers(lde);
        check(&Case { lag: 0, field: f, hasher: h, opts: Opts { q: 1 + r.below(8.min(lde as u64 - 1)) as usize, blowup, grind: 0, ext, fold, rem }, spec: s }, t, &format!("fri:layers={}", nl.min(4)));
    }
    // ---- grinding 0..=16 (20 in thorough)
    for g in [0u32, 1, 2, 7, 8, 12, 16].into_iter().chain(if thorough { vec![20u32] } else { vec![] }) {
        let s = Spec::simple(2, 3, 2, r.next_u64());
        let ext = 1 + r.below(3) as u8;
        let (f, h) = pick_fh(r, ext);
        check(&Case { lag: 0, field: f, hasher: h, opts: Opts { q: 3, blowup: 4, grind: g, ext, fold: 2, rem: 1 }, spec: s }, t, "grinding");
    }
    // ---- every field x every hasher x every extension once, on a mid-size member with aux segment and periodic column
    for f in FIELDS { for h in hashers_of(f) { for ext in 1..=3u8 {
        if !ext_supported(f, ext) { continue; }
        let mut s = Spec::simple(3, 4, 3, r.next_u64());
        s.periodic = vec![4]; s.use_per = vec![false, true, false]; s.degs = vec![3, 2, 1]; s.exemptions = 2;
        s.aux_width = 2; s.aux_rands = 2;
        s.assertions = vec![AKind::Sequence { col: 0, first: 1, stride: 4 }, AKind::Single { col: 2, step: 15 }];
        check(&Case { lag: 0, field: f.into(), hasher: (*h).into(), opts: Opts { q: 4, blowup: 4, grind: 1, ext, fold: 4, rem: 3 }, spec: s }, t, &format!("matrix:{}:{}:ext{}", f, h, ext));
    } } }
    // ---- Lagrange-kernel auxiliary column (with 1, 2, 7, 253 ordinary auxiliary columns before it) on every field / extension
    for f in FIELDS { for ext in 1..=3u8 { for &(log_n, aw) in &[(3u32, 2usize), (5, 3), (4, 8), (3, 254), (10, 2)] {
        if !ext_supported(f, ext) || (log_n == 10 && !(thorough || ext == 2)) { continue; }
        let blowup = *r.pick(&[2usize, 4, 8]);
        let (fold, rem) = pick_fri(r, (1usize << log_n) * blowup, blowup);
        let hs = hashers_of(f);
        let c = Case { lag: aw, field: f.into(), hasher: hs[r.below(hs.len() as u64 - 1) as usize].into(), opts: Opts { q: 1 + r.below(7) as usize, blowup, grind: 0, ext, fold, rem }, spec: Spec::simple(1, log_n, 1, 0) };
        check(&c, t, "lagrange-kernel");
    } } }
    let _ = base_opts();
}

fn random_stream(r: &mut Rng, t: &mut Tally, n: usize) {
    let mut tries = 0;
    let start = t.evals;
    while t.evals - start < n && tries < n * 20 {
        tries += 1;
        let blowup = *r.pick(&[2usize, 2, 4, 4, 8, 16, 32]);
        let mx = if r.chance(1, 8) { 8 } else { 6 };
        let mut s = random_spec(r, mx, blowup);
        fit_degrees(&mut s, blowup);
        // exemptions from the whole allowed range, biased to the small ones
        let n_ = s.n();
        s.exemptions = match r.below(6) { 0 | 1 => 1, 2 => 2, 3 => 1 + r.below(4) as usize, 4 => n_ / 2 + 1, _ => 1 + r.below((n_ / 2 + 1) as u64) as usize };
        // degenerate variants
        match r.below(10) { 0 => s.constant_trace = true, 1 => { for h in s.hold.iter_mut() { *h = true; } }, 2 => { s.rot = (0..s.width).map(|_| r.below(n_ as u64 / 2) as u32).collect(); }, _ => {} }
        if r.chance(1, 12) { s.aux_assert_last = false; }
        let ext = 1 + r.below(3) as u8;
        let (f, h) = pick_fh(r, ext);
        let lde = n_ * blowup;
        let (fold, rem) = pick_fri(r, lde, blowup);
        let q = match r.below(8) { 0 => 1, 1 => (lde - 1).min(255), 2 => 255.min(lde - 1), _ => 1 + r.below(12.min(lde as u64 - 1)) as usize };
        let lag = if r.chance(1, 12) { 2 + r.below(6) as usize } else { 0 };
        let c = Case { lag, field: f, hasher: h, opts: Opts { q, blowup, grind: if r.chance(1, 4) { r.below(6) as u32 } else { 0 }, ext, fold, rem }, spec: s };
        check(&c, t, if lag > 0 { "random-lagrange" } else { "random" });
    }
}


/// cross-check of the falsifier's oracle `is_valid` with the library's own `Trace::validate` (which panics on an invalid trace):
/// honest traces and traces with one mutated cell (which stays valid only when the cell takes part in exempt transitions only
/// and in no assertion).  A disagreement is reported as a harness failure.
fn oracle_crosscheck(r: &mut Rng, t: &mut Tally, n: usize) {
    type B = f64::BaseElement;
    for i in 0..n {
        let blowup = *r.pick(&[4usize, 8]);
        let mut s = random_spec(r, 5, blowup);
        fit_degrees(&mut s, blowup);
        s.aux_width = 0; s.aux_rands = 0;
        s.exemptions = 1 + r.below(4.min(s.n() as u64 / 2 + 1)) as usize;
        let opts = ProofOptions::new(2, blowup, 0, FieldExtension::None, 2, 0);
        if !spec_wellformed(&s) || ctx_accepts::<B>(&s, &opts).is_none() { continue; }
        let mut cols = gen_main::<B>(&s);
        let avals = assertion_values(&s, &cols);
        if i % 2 == 1 { // mutate one cell AFTER the public assertion values were fixed
            let (c, row) = (r.below(s.width as u64) as usize, r.below(s.n() as u64) as usize);
            cols[c][row] += B::from(1 + r.below(3) as u32);
        }
        let mine = is_valid(&s, &cols, &avals);
        let trace = FamTrace::new(&s, cols);
        let air = FamAir::<B>::new(trace.info().clone(), PubInputs { spec: s.clone(), avals: avals.clone() }, opts.clone());
        let theirs = catch(AssertUnwindSafe(|| trace.validate::<FamAir<B>, B>(&air, None))).is_ok();
        t.evals += 1;
        *t.strata.entry(format!("oracle-crosscheck:{}", if mine { "valid" } else { "invalid" })).or_insert(0) += 1;
        if mine != theirs {
            t.fails += 1;
            let c = Case { lag: 0, field: "f64".into(), hasher: "blake3_256".into(), opts: Opts { q: 2, blowup, grind: 0, ext: 1, fold: 2, rem: 0 }, spec: s };
            println!("{{\"what\":\"harness:oracle-disagrees-with-Trace::validate\",\"input\":{},\"expected\":\"is_valid = {}\",\"actual\":\"Trace::validate accepts = {}\",\"mutated\":{}}}", case_json(&c), mine, theirs, i % 2 == 1);
        }
    }
}

// ------------------------------------------------------------------------------------------------ shape correspondence
fn deg_tok(b: usize, cyc: &[usize]) -> String { if cyc.is_empty() { format!("{}", b) } else { format!("{}:{}", b, cyc.iter().map(|c| c.to_string()).collect::<Vec<_>>().join(",")) } }

fn corr_opts(r: &mut Rng, n: usize, out: &mut Vec<String>) {
    let mut push = |q: usize, b: usize, g: u32, e: u8, f: usize, m: usize| {
        let res = catch(move || ProofOptions::new(q, b, g, ext_of(e), f, m));
        out.push(format!("opts {} {} {} {} {} {} => {}", q, b, g, e, f, m, match res {
            Ok(o) => { let fo = catch(AssertUnwindSafe(|| o.to_fri_options())); format!("ok {}", if fo.is_ok() { "fri-ok" } else { "fri-panic" }) }, Err(_) => "panic".into() }));
    };
    for q in [0usize, 1, 2, 254, 255, 256, 257, 1000] { push(q, 8, 0, 1, 4, 3); }
    for b in 0..=130usize { push(3, b, 0, 1, 4, 3); }
    for b in [255usize, 256, 512, 1 << 20] { push(3, b, 0, 1, 4, 3); }
    for g in [0u32, 1, 31, 32, 33, 64, 255, 256] { push(3, 8, g, 2, 4, 3); }
    for f in 0..=40usize { push(3, 8, 0, 3, f, 3); }
    for f in [64usize, 128, 256] { push(3, 8, 0, 3, f, 3); }
    for m in 0..=260usize { push(3, 8, 0, 1, 2, m); }
    for m in [511usize, 1023, (1usize << 61) - 1, 1usize << 61] { push(3, 8, 0, 1, 2, m); }
    for _ in 0..n {
        let q = *r.pick(&[0usize, 1, 7, 255, 256]) + r.below(2) as usize * r.below(200) as usize;
        let b = if r.chance(3, 4) { 1usize << r.below(9) } else { r.below(300) as usize };
        let g = r.below(40) as u32;
        let f = if r.chance(3, 4) { 1usize << r.below(6) } else { r.below(40) as usize };
        let m = if r.chance(3, 4) { (1usize << r.below(10)) - 1 } else { r.below(300) as usize };
        push(q, b, g, 1 + r.below(3) as u8, f, m);
    }
}

fn corr_tinfo(r: &mut Rng, n: usize, out: &mut Vec<String>) {
    let mut push = |main: usize, aux: usize, rands: usize, len: usize| {
        let a = catch(move || TraceInfo::new_multi_segment(main, aux, rands, len, vec![]));
        let b = catch(move || TraceInfo::new(main, len));
        out.push(format!("tinfo {} {} {} {} => {} {}", main, aux, rands, len, match a { Ok(t) => format!("ok:{}:{}", t.width(), t.is_multi_segment() as u8), Err(_) => "panic".into() }, if b.is_ok() { "ok" } else { "panic" }));
    };
    for w in [0usize, 1, 2, 254, 255, 256, 257] { for a in [0usize, 1, 2, 253, 254, 255, 256] { for rands in [0usize, 1, 255, 256] { push(w, a, rands, 8); } } }
    for len in (0..=40usize).chain([63, 64, 65, 1 << 10, (1 << 10) + 1, 1 << 20, 1 << 31, 1 << 40, (1usize << 61) + 1]) { push(3, 0, 0, len); push(3, 2, 1, len); }
    for _ in 0..n { push(r.below(300) as usize, if r.chance(1, 2) { 0 } else { r.below(300) as usize }, if r.chance(1, 2) { 0 } else { r.below(300) as usize }, if r.chance(3, 4) { 1usize << r.below(12) } else { r.below(100) as usize }); }
}

/// ctx <main_w> <aux_w> <rands> <log_n> <blowup> <n_assert> <n_aux_assert> <use_new(0/1)> <ex|-> M <main degs…> A <aux degs…>
fn corr_ctx(r: &mut Rng, n: usize, out: &mut Vec<String>) {
    let mut push = |mw: usize, aw: usize, rands: usize, log_n: u32, blowup: usize, na: usize, naa: usize, use_new: bool, ex: Option<usize>, md: Vec<(usize, Vec<usize>)>, ad: Vec<(usize, Vec<usize>)>| {
        let case = format!("ctx {} {} {} {} {} {} {} {} {} M {} A {}", mw, aw, rands, log_n, blowup, na, naa, use_new as u8, ex.map(|e| e.to_string()).unwrap_or("-".into()),
            md.iter().map(|(b, c)| deg_tok(*b, c)).collect::<Vec<_>>().join(" "), ad.iter().map(|(b, c)| deg_tok(*b, c)).collect::<Vec<_>>().join(" "));
        let res = catch(AssertUnwindSafe(|| {
            let mk = |v: &Vec<(usize, Vec<usize>)>| v.iter().map(|(b, c)| if c.is_empty() { TransitionConstraintDegree::new(*b) } else { TransitionConstraintDegree::with_cycles(*b, c.clone()) }).collect::<Vec<_>>();
            let (m, a) = (mk(&md), mk(&ad));
            let info = TraceInfo::new_multi_segment(mw, aw, rands, 1usize << log_n, vec![]);
            let opts = ProofOptions::new(1, blowup, 0, FieldExtension::None, 2, 0);
            let ctx: AirContext<f64::BaseElement> = if use_new { AirContext::new(info, m, na, opts) } else { AirContext::new_multi_segment(info, m, a, na, naa, None, opts) };
            let ctx = match ex { Some(e) => ctx.set_num_transition_exemptions(e), None => ctx };
            format!("ok ce={} cols={} lde={} ex={}", ctx.ce_domain_size(), ctx.num_constraint_composition_columns(), ctx.lde_domain_size(), ctx.num_transition_exemptions())
        }));
        out.push(format!("{} => {}", case, res.unwrap_or_else(|_| "panic".into())));
    };
    // boundary sweep: degree d (with 0..2 cycles) x blowup x exemptions x trace length
    for log_n in [3u32, 4, 6] {
        let nn = 1usize << log_n;
        for blowup in [2usize, 4, 8, 16] {
            for d in 0..=(blowup + 2) {
                for cyc in [vec![], vec![2usize], vec![nn], vec![4, 8], vec![1usize], vec![3usize], vec![2 * nn]] {
                    let mut exs: Vec<Option<usize>> = vec![None, Some(0), Some(1), Some(2), Some(d), Some(d + 1), Some(blowup), Some(blowup + 1), Some(nn / 2), Some(nn / 2 + 1), Some(nn / 2 + 2)];
                    if log_n == 3 { for e in 3..=6 { exs.push(Some(e)); } }
                    for ex in exs { push(2, 0, 0, log_n, blowup, 1, 0, true, ex, vec![(1, vec![]), (d, cyc.clone())], vec![]); }
                }
            }
        }
    }
    // structural rejections
    push(1, 0, 0, 3, 2, 0, 0, true, None, vec![(1, vec![])], vec![]);                 // no assertion
    push(1, 0, 0, 3, 2, 1, 0, true, None, vec![], vec![]);                             // no degrees
    push(1, 1, 1, 3, 2, 1, 1, true, None, vec![(1, vec![])], vec![]);                  // new() with multi-segment info
    push(1, 1, 1, 3, 2, 1, 1, false, None, vec![(1, vec![])], vec![]);                 // multi-segment, no aux degrees
    push(1, 1, 1, 3, 2, 1, 0, false, None, vec![(1, vec![])], vec![(1, vec![])]);      // multi-segment, no aux assertions
    push(1, 1, 1, 3, 2, 1, 1, false, Some(2), vec![(1, vec![])], vec![(2, vec![])]);   // fine
    push(1, 0, 0, 3, 2, 1, 0, false, None, vec![(1, vec![])], vec![(1, vec![])]);      // single-segment with aux degrees
    push(1, 0, 0, 3, 2, 1, 1, false, None, vec![(1, vec![])], vec![]);                 // single-segment with aux assertions
    push(1, 1, 0, 3, 2, 1, 1, false, None, vec![(1, vec![])], vec![(2, vec![])]);      // aux segment with zero random elements
    for _ in 0..n {
        let log_n = 3 + r.below(6) as u32; let nn = 1usize << log_n;
        let blowup = 1usize << (1 + r.below(5));
        let aw = if r.chance(1, 3) { 1 + r.below(3) as usize } else { 0 };
        let mw = 1 + r.below(4) as usize;
        let mut gen = |r: &mut Rng| -> (usize, Vec<usize>) { let b = match r.below(5) { 0 => blowup + 1, 1 => blowup, 2 => blowup + 2, _ => 1 + r.below(blowup as u64 + 1) as usize };
            let nc = *r.pick(&[0usize, 0, 0, 1, 1, 2]); (b, (0..nc).map(|_| 1usize << (1 + r.below(log_n as u64))).collect()) };
        let md: Vec<_> = (0..mw).map(|_| gen(r)).collect();
        let ad: Vec<_> = (0..aw).map(|_| gen(r)).collect();
        let ex = match r.below(6) { 0 => None, 1 => Some(1), 2 => Some(2), 3 => Some(nn / 2 + 1), 4 => Some(1 + r.below(nn as u64 / 2 + 2) as usize), _ => Some(1 + r.below(blowup as u64 + 2) as usize) };
        push(mw, aw, if aw > 0 { 1 } else { 0 }, log_n, blowup, 1, if aw > 0 { 1 } else { 0 }, aw == 0 && r.chance(1, 2), ex, md, ad);
    }
}

fn corr_fri(r: &mut Rng, n: usize, out: &mut Vec<String>) {
    let mut push = |lde: usize, blowup: usize, fold: usize, rem: usize| {
        let layers = catch(move || FriOptions::new(blowup, fold, rem).num_fri_layers(lde));
        out.push(format!("fri {} {} {} {} => {} wf={}", lde, blowup, fold, rem, match layers { Ok(l) => format!("layers={}", l), Err(_) => "panic".into() }, fri_wellformed(lde, blowup, fold, rem) as u8));
    };
    for log_lde in 4..=14u32 { for blowup in [2usize, 4, 8, 16, 32, 64, 128] { for fold in [2usize, 4, 8, 16] { for rem in [0usize, 1, 3, 7, 15, 31, 63, 127, 255] {
        let lde = 1usize << log_lde; if lde < 8 * blowup { continue; }
        push(lde, blowup, fold, rem);
    } } } }
    for _ in 0..n { let blowup = 1usize << (1 + r.below(7)); push(blowup << (3 + r.below(10)), blowup, 1usize << (1 + r.below(4)), (1usize << r.below(9)) - 1); }
}


// ------------------------------------------------------------------------------------------------ algebraic correspondence (group `deep`)
trait Fx: StarkField + ExtensibleField<2> + ExtensibleField<3> + 'static { const NAME: &'static str; fn hx(&self) -> String; fn rnd(r: &mut Rng) -> Self; }
impl Fx for f64::BaseElement { const NAME: &'static str = "f64"; fn hx(&self) -> String { format!("{:x}", self.as_int()) } fn rnd(r: &mut Rng) -> Self { Self::new(r.next_u64()) } }
impl Fx for f62::BaseElement { const NAME: &'static str = "f62"; fn hx(&self) -> String { format!("{:x}", self.as_int()) } fn rnd(r: &mut Rng) -> Self { Self::new(r.next_u64() >> 3) } }
impl Fx for f128::BaseElement { const NAME: &'static str = "f128"; fn hx(&self) -> String { format!("{:x}", self.as_int()) } fn rnd(r: &mut Rng) -> Self { Self::new(r.next_u128()) } }
fn hxs<B: Fx>(v: &[B]) -> String { if v.is_empty() { "-".into() } else { v.iter().map(|e| e.hx()).collect::<Vec<_>>().join(",") } }

fn corr_deep_one<B: Fx>(r: &mut Rng, log_n: u32, blowup: usize, width: usize, cols: usize, kind: u64, out: &mut Vec<String>) {
    use prover_src::composer::DeepCompositionPoly;
    use verifier_src::composer::DeepComposer;
    use winter_air::{proof::Table, DeepCompositionCoefficients};
    use winter_math::{fft, polynom};
    use winter_prover::{CompositionPoly, CompositionPolyTrace};
    let n = 1usize << log_n;
    // trace polynomials (coefficients): random / constant / low degree / zero
    let polys: Vec<Vec<B>> = (0..width).map(|c| (0..n).map(|i| match (kind + c as u64) % 4 {
        0 => B::rnd(r), 1 => if i == 0 { B::rnd(r) } else { B::ZERO }, 2 => if i <= 2 { B::rnd(r) } else { B::ZERO }, _ => if kind == 7 { B::ZERO } else { B::rnd(r) } }).collect()).collect();
    // composition polynomial H with at most n * cols coefficients (sometimes fewer / zero)
    let hlen = match kind % 3 { 0 => n * cols, 1 => n * cols - r.below(n as u64) as usize, _ => if kind == 8 { 0 } else { 1 + r.below((n * cols) as u64) as usize } };
    let mut h: Vec<B> = (0..hlen).map(|_| B::rnd(r)).collect();
    let z = B::rnd(r);
    let gam: Vec<B> = (0..width).map(|_| B::rnd(r)).collect();
    let del: Vec<B> = (0..cols).map(|_| B::rnd(r)).collect();
    let g = B::get_root_of_unity(log_n);
    let lde = n * blowup;
    let g_lde = B::get_root_of_unity(lde.ilog2());
    let npos = 4.min(lde);
    let mut positions: Vec<usize> = (0..npos).map(|_| r.below(lde as u64) as usize).collect();
    positions.sort_unstable(); positions.dedup();
    let xs: Vec<B> = positions.iter().map(|&p| B::GENERATOR * g_lde.exp((p as u64).into())).collect();
    let case = format!("deep {} {} {} z={} g={} G {} D {} T {} H {} X {}", B::NAME, n, cols, z.hx(), g.hx(), hxs(&gam), hxs(&del),
        polys.iter().map(|p| hxs(p)).collect::<Vec<_>>().join(";"), hxs(&h), hxs(&xs));
    let res = catch(AssertUnwindSafe(|| {
        let domain = StarkDomain::from_twiddles(fft::get_twiddles::<B>(n), blowup, B::GENERATOR);
        // real CompositionPoly: interpolate the evaluations of H over the constraint evaluation coset and cut into columns
        h.resize(n * blowup, B::ZERO);
        let ce_evals: Vec<B> = (0..n * blowup).map(|i| polynom::eval(&h, B::GENERATOR * g_lde.exp((i as u64).into()))).collect();
        let comp = CompositionPoly::new(CompositionPolyTrace::new(ce_evals), &domain, cols);
        let hz = comp.evaluate_at(z);
        let hrows: Vec<Vec<B>> = xs.iter().map(|&x| comp.evaluate_at(x)).collect();
        let tp = TracePolyTable::<B>::new(ColMatrix::new(polys.clone()));
        let ood = tp.get_ood_frame(z);
        let ood2 = tp.get_ood_frame(z);
        let cc = DeepCompositionCoefficients { trace: gam.clone(), constraints: del.clone(), lagrange: None };
        let mut d = DeepCompositionPoly::new(z, cc);
        d.add_trace_polys(tp, ood);
        d.add_composition_poly(comp, hz.clone());
        let deg = d.degree();
        let evals = d.evaluate(&domain);
        let pe: Vec<B> = positions.iter().map(|&p| evals[p]).collect();
        // real verifier composer on the opened rows
        let spec = Spec::simple(width, log_n, 1, 1);
        let air = FamAir::<B>::new(TraceInfo::new(width, n), PubInputs { spec: spec.clone(), avals: vec![vec![B::ZERO]] }, ProofOptions::new(1, blowup, 0, FieldExtension::None, 2, 0));
        let cc = DeepCompositionCoefficients { trace: gam.clone(), constraints: del.clone(), lagrange: None };
        let composer = DeepComposer::<B>::new(&air, &positions, z, cc);
        let trows: Vec<B> = xs.iter().flat_map(|&x| polys.iter().map(move |p| polynom::eval(p, x)).collect::<Vec<_>>()).collect();
        let mut tb = Vec::new(); winter_utils::Serializable::write_into(&trows, &mut tb);
        let tb = &tb[tb.len() - trows.len() * B::ELEMENT_BYTES..];
        let ttab = Table::<B>::from_bytes(tb, xs.len(), width).unwrap();
        let hflat: Vec<B> = hrows.iter().flatten().copied().collect();
        let mut hb = Vec::new(); winter_utils::Serializable::write_into(&hflat, &mut hb);
        let hb = &hb[hb.len() - hflat.len() * B::ELEMENT_BYTES..];
        let htab = Table::<B>::from_bytes(hb, xs.len(), cols).unwrap();
        let t = composer.compose_trace_columns(ttab, None, ood2.main_frame(), None, None);
        let c = composer.compose_constraint_evaluations(htab, hz.clone());
        let vd = composer.combine_compositions(t, c);
        format!("deg={} hz={} evals={} vdeep={}", deg, hxs(&hz), hxs(&pe), hxs(&vd))
    }));
    out.push(format!("{} => {}", case, res.unwrap_or_else(|m| format!("panic:{}", clip(&m)))));
}

fn corr_deep(r: &mut Rng, n: usize, out: &mut Vec<String>) {
    let mut k = 0u64;
    for i in 0..n {
        let log_n = if i % 10 == 9 { 5 } else { 3 + (i % 2) as u32 };
        let blowup = *r.pick(&[2usize, 4, 8]);
        let width = 1 + r.below(3) as usize;
        let cols = 1 + r.below(blowup as u64) as usize;
        k += 1;
        match i % 3 { 0 => corr_deep_one::<f64::BaseElement>(r, log_n, blowup, width, cols, k % 9, out), 1 => corr_deep_one::<f62::BaseElement>(r, log_n, blowup, width, cols, k % 9, out),
                      _ => corr_deep_one::<f128::BaseElement>(r, log_n, blowup, width, cols, k % 9, out) }
    }
}

/// diagnostic: what happens outside the well-formedness condition (never counted as failure)
fn probe(r: &mut Rng, n: usize) {
    let mut seen = std::collections::BTreeMap::<String, (usize, String)>::new();
    for _ in 0..n {
        let blowup = *r.pick(&[2usize, 4, 8, 16, 32]);
        let log_n = 3 + r.below(3) as u32;
        let lde = (1usize << log_n) * blowup;
        let fold = *r.pick(&[2usize, 4, 8, 16]);
        let rem = *r.pick(&[0usize, 1, 3, 7, 15, 31, 63, 127, 255]);
        let q = if r.chance(1, 3) { lde + r.below(3) as usize } else { 2 };
        let wf = fri_wellformed(lde, blowup, fold, rem);
        if wf && q < lde { continue; }
        if q > 255 { continue; }
        let c = Case { lag: 0, field: "f64".into(), hasher: "blake3_256".into(), opts: Opts { q, blowup, grind: 0, ext: 1, fold, rem }, spec: Spec::simple(1, log_n, 1, r.next_u64()) };
        let out = run_case(&c);
        let key = format!("wf={} q<lde={} -> {}", wf as u8, (q < lde) as u8, fail_class(&out));
        let e = seen.entry(key).or_insert((0, case_json(&c))); e.0 += 1;
    }
    for (k, (cnt, ex)) in seen { println!("{} x{} e.g. {}", k, cnt, ex); }
}

fn main() {
    silence_panics();
    let args: Vec<String> = std::env::args().collect();
    let seed: u64 = args.get(2).and_then(|s| s.parse().ok()).unwrap_or(1);
    let n: usize = args.get(3).and_then(|s| s.parse().ok()).unwrap_or(100);
    let mut r = Rng::new(seed);
    match args.get(1).map(|s| s.as_str()) {
        Some("corr") => {
            let mut out = Vec::new();
            match args.get(4).map(|s| s.as_str()).unwrap_or("") {
                "opts" => corr_opts(&mut r, n, &mut out),
                "tinfo" => corr_tinfo(&mut r, n, &mut out),
                "ctx" => corr_ctx(&mut r, n, &mut out),
                "fri" => corr_fri(&mut r, n, &mut out),
                "deep" => corr_deep(&mut r, n, &mut out),
                g => { eprintln!("unknown group {}", g); std::process::exit(2); }
            }
            let mut s = out.join("\n"); s.push('\n'); print!("{}", s);
        }
        Some("falsify") => {
            let thorough = args.get(4).map(|s| s == "thorough").unwrap_or(false);
            let mut t = Tally { evals: 0, fails: 0, skipped: 0, classes: vec![], strata: Default::default() };
            boundary_stream(&mut r, &mut t, thorough);
            oracle_crosscheck(&mut r, &mut t, if thorough { 3000 } else { 300 });
            let b = t.evals;
            random_stream(&mut r, &mut t, n);
            let strata: Vec<String> = t.strata.iter().map(|(k, v)| format!("{}={}", k, v)).collect();
            eprintln!("strata: {}", strata.join(" "));
            println!("boundary={} random={} skipped-inadmissible={}", b, t.evals - b, t.skipped);
            println!("evaluations={} failures={}", t.evals, t.fails);
        }
        Some("replay") => {
            let c = case_of_json(args.get(2).expect("json"));
            let adm = admissible(&c);
            println!("admissible={} outcome={}", adm, run_case(&c));
        }
        Some("probe") => probe(&mut r, n),
        _ => { eprintln!("usage: c01 corr <seed> <n> <group> | c01 falsify <seed> <n> [thorough] | c01 replay '<json>' | c01 probe <seed> <n>"); std::process::exit(2); }
    }
}
