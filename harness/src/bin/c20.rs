use wf_harness::{catch, silence_panics};
use winter_math::{fields::f128::BaseElement as B, polynom, FieldElement, get_power_series, batch_inversion};
fn main() {
    silence_panics();
    let e = |v: u128| B::new(v);
    println!("interp x0=0: {:?}", catch(|| polynom::interpolate(&[e(0), e(1)], &[e(5), e(7)], false)));
    println!("interp x0=2: {:?}", catch(|| polynom::interpolate(&[e(2), e(1)], &[e(5), e(7)], false)));
    println!("interp_batch x0=0: {:?}", catch(|| polynom::interpolate_batch(&[[e(0), e(1)]], &[[e(5), e(7)]])));
    println!("mul [] []: {:?}", catch(|| polynom::mul::<B>(&[], &[])));
    println!("mul [] [1]: {:?}", catch(|| polynom::mul::<B>(&[], &[e(1)])));
    println!("mul [] [1,2]: {:?}", catch(|| polynom::mul::<B>(&[], &[e(1), e(2)])));
    println!("div [] [3]: {:?}", catch(|| polynom::div::<B>(&[], &[e(3)])));
    println!("div [0] [3]: {:?}", catch(|| polynom::div::<B>(&[e(0)], &[e(3)])));
    println!("pow n=0: {:?}", catch(|| get_power_series(e(3), 0)));
    println!("pow n=1: {:?}", catch(|| get_power_series(e(3), 1)));
    println!("binv []: {:?}", catch(|| batch_inversion::<B>(&[])));
    println!("interp [] []: {:?}", catch(|| polynom::interpolate::<B>(&[], &[], false)));
    println!("interp 1pt: {:?}", catch(|| polynom::interpolate::<B>(&[e(4)], &[e(9)], false)));
}
