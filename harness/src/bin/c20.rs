//! C20 harness: polynomial arithmetic (winter_math::polynom) and the serial math utils
//! (get_power_series, get_power_series_with_offset, add_in_place, mul_acc, batch_inversion).
//!   c20 corr <seed> <n>      -> lines "<field> <op> <args..> => <impl result>" (protocol: ocaml/c20_driver.ml);
//!                               fields f64 f62 f128 (base), q64 q62 q128 (QuadExtension), c64 c62 (CubeExtension);
//!                               stderr: "dist <field>=<count> ... <op>=<count> ... panic=<count> boundary=<count> total=<count>"
//!   c20 falsify <seed> <n>   -> JSON lines, one per identity violated (oracle: schoolbook reference code in this
//!                               file + u128 modular arithmetic; independent of the Coq model and of polynom/*);
//!                               stderr: "evaluations=<n> failures=<k>"
use std::collections::BTreeMap;
use std::panic::AssertUnwindSafe;

use wf_harness::{catch, jstr, prng::Rng, refmath::*, silence_panics, watchdog::{self, Progress}};
use winter_math::{
    add_in_place, batch_inversion,
    fields::{f128, f62, f64, CubeExtension, QuadExtension},
    get_power_series, get_power_series_with_offset, mul_acc, polynom, ExtensionOf, FieldElement, StarkField,
};

const M64: u128 = 0xFFFF_FFFF_0000_0001;
const M62: u128 = 4611624995532046337;
const M128: u128 = 340282366920938463463374557953744961537;
/// "all entries zero" marker for the number of zero leading coefficients
const ALL: usize = usize::MAX;

trait BF: StarkField {
    const P: u128;
    const NAME: &'static str;
    fn fu(v: u128) -> Self;
    fn tu(&self) -> u128;
}
impl BF for f64::BaseElement {
    const P: u128 = M64;
    const NAME: &'static str = "f64";
    fn fu(v: u128) -> Self { Self::new((v % M64) as u64) }
    fn tu(&self) -> u128 { self.as_int() as u128 }
}
impl BF for f62::BaseElement {
    const P: u128 = M62;
    const NAME: &'static str = "f62";
    fn fu(v: u128) -> Self { Self::new((v % M62) as u64) }
    fn tu(&self) -> u128 { self.as_int() as u128 }
}
impl BF for f128::BaseElement {
    const P: u128 = M128;
    const NAME: &'static str = "f128";
    fn fu(v: u128) -> Self { Self::new(v % M128) }
    fn tu(&self) -> u128 { self.as_int() }
}

// ================================================================================================
// correspondence: cases
// ================================================================================================
/// A field of the correspondence: base field or quadratic / cubic extension; elements travel as base coordinates.
trait CF: FieldElement + From<Self::Base> + ExtensionOf<Self::Base> {
    /// the base field B of the mixed instantiations eval::<B, Self>, mul_acc::<B, Self> (Self for a base field)
    type Base: BF + FieldElement<BaseField = <Self as FieldElement>::BaseField>;
    /// protocol token: f64 f62 f128 q64 q62 q128 c64 c62
    const TOKEN: &'static str;
    /// modulus of the base field
    const BP: u128;
    const DEG: usize;
    fn from_coords(c: &[u128]) -> Self;
    fn coords(&self) -> Vec<u128>;
}
macro_rules! cf_base {
    ($t:ty) => {
        impl CF for $t {
            type Base = $t;
            const TOKEN: &'static str = <$t as BF>::NAME;
            const BP: u128 = <$t as BF>::P;
            const DEG: usize = 1;
            fn from_coords(c: &[u128]) -> Self {
                <$t as BF>::fu(c[0])
            }
            fn coords(&self) -> Vec<u128> {
                vec![self.tu()]
            }
        }
    };
}
cf_base!(f64::BaseElement);
cf_base!(f62::BaseElement);
cf_base!(f128::BaseElement);
macro_rules! cf_quad {
    ($b:ty, $tok:expr) => {
        impl CF for QuadExtension<$b> {
            type Base = $b;
            const TOKEN: &'static str = $tok;
            const BP: u128 = <$b as BF>::P;
            const DEG: usize = 2;
            fn from_coords(c: &[u128]) -> Self {
                QuadExtension::new(<$b as BF>::fu(c[0]), <$b as BF>::fu(c[1]))
            }
            fn coords(&self) -> Vec<u128> {
                self.to_base_elements().iter().map(|e| e.tu()).collect()
            }
        }
    };
}
cf_quad!(f64::BaseElement, "q64");
cf_quad!(f62::BaseElement, "q62");
cf_quad!(f128::BaseElement, "q128");
macro_rules! cf_cube {
    ($b:ty, $tok:expr) => {
        impl CF for CubeExtension<$b> {
            type Base = $b;
            const TOKEN: &'static str = $tok;
            const BP: u128 = <$b as BF>::P;
            const DEG: usize = 3;
            fn from_coords(c: &[u128]) -> Self {
                CubeExtension::new(<$b as BF>::fu(c[0]), <$b as BF>::fu(c[1]), <$b as BF>::fu(c[2]))
            }
            fn coords(&self) -> Vec<u128> {
                self.to_base_elements().iter().map(|e| e.tu()).collect()
            }
        }
    };
}
cf_cube!(f64::BaseElement, "c64");
cf_cube!(f62::BaseElement, "c62");

#[derive(Clone)]
enum Op<C> {
    Eval(Vec<C>, C),
    EvalMany(Vec<C>, Vec<C>),
    Add(Vec<C>, Vec<C>),
    Sub(Vec<C>, Vec<C>),
    Mul(Vec<C>, Vec<C>),
    MulByScalar(Vec<C>, C),
    Div(Vec<C>, Vec<C>),
    SynDiv(Vec<C>, usize, C),
    SynDivInPlace(Vec<C>, usize, C),
    SynDivRoots(Vec<C>, Vec<C>),
    DegreeOf(Vec<C>),
    Rlz(Vec<C>),
    FromRoots(Vec<C>),
    Interp(Vec<C>, Vec<C>, bool),
    /// N, nx, ny, xs_flat, ys_flat
    InterpBatch(usize, usize, usize, Vec<C>, Vec<C>),
    Pow(C, usize),
    PowOff(C, C, usize),
    AddInPlace(Vec<C>, Vec<C>),
    MulAcc(Vec<C>, Vec<C>, C),
    BatchInv(Vec<C>),
    /// mixed instantiations (extension fields only): the u128 vectors are base-field residues
    EvalMixed(Vec<u128>, C),
    EvalManyMixed(Vec<u128>, Vec<C>),
    MulAccMixed(Vec<C>, Vec<u128>, C),
}

/// vector of base residues
fn hv(v: &[u128]) -> String {
    if v.is_empty() { "-".into() } else { v.iter().map(|x| format!("{:x}", x)).collect::<Vec<_>>().join(",") }
}
fn bvf<C: CF>(v: &[u128]) -> Vec<C::Base> {
    v.iter().map(|&x| <C::Base as BF>::fu(x)).collect()
}
/// element: base coordinates in hex joined by ':'
fn se<C: CF>(e: &C) -> String {
    e.coords().iter().map(|x| format!("{:x}", x)).collect::<Vec<_>>().join(":")
}
fn poly_str<C: CF>(v: &[C]) -> String {
    v.iter().map(se).collect::<Vec<_>>().join(",")
}
fn sv<C: CF>(v: &[C]) -> String {
    if v.is_empty() { "-".into() } else { poly_str(v) }
}
fn rv<C: CF>(r: Result<Vec<C>, String>) -> String {
    match r {
        Ok(v) => sv(&v),
        Err(_) => "panic".into(),
    }
}

impl<C: CF> Op<C> {
    fn name(&self) -> &'static str {
        match self {
            Op::Eval(..) => "eval",
            Op::EvalMany(..) => "eval_many",
            Op::Add(..) => "add",
            Op::Sub(..) => "sub",
            Op::Mul(..) => "mul",
            Op::MulByScalar(..) => "mul_by_scalar",
            Op::Div(..) => "div",
            Op::SynDiv(..) => "syn_div",
            Op::SynDivInPlace(..) => "syn_div_in_place",
            Op::SynDivRoots(..) => "syn_div_roots_in_place",
            Op::DegreeOf(..) => "degree_of",
            Op::Rlz(..) => "remove_leading_zeros",
            Op::FromRoots(..) => "poly_from_roots",
            Op::Interp(..) => "interpolate",
            Op::InterpBatch(..) => "interpolate_batch",
            Op::Pow(..) => "get_power_series",
            Op::PowOff(..) => "get_power_series_with_offset",
            Op::AddInPlace(..) => "add_in_place",
            Op::MulAcc(..) => "mul_acc",
            Op::BatchInv(..) => "batch_inversion",
            Op::EvalMixed(..) => "eval_mixed",
            Op::EvalManyMixed(..) => "eval_many_mixed",
            Op::MulAccMixed(..) => "mul_acc_mixed",
        }
    }

    fn args(&self) -> String {
        let dbg = cfg!(debug_assertions) as u8;
        match self {
            Op::Eval(p, x) => format!("{} {}", sv(p), se(x)),
            Op::EvalMany(p, xs) => format!("{} {}", sv(p), sv(xs)),
            Op::Add(a, b) | Op::Sub(a, b) | Op::Mul(a, b) | Op::Div(a, b) | Op::AddInPlace(a, b) | Op::SynDivRoots(a, b) => {
                format!("{} {}", sv(a), sv(b))
            }
            Op::MulByScalar(p, k) => format!("{} {}", sv(p), se(k)),
            Op::SynDiv(p, a, b) | Op::SynDivInPlace(p, a, b) => format!("{} {} {}", sv(p), a, se(b)),
            Op::DegreeOf(p) | Op::Rlz(p) | Op::FromRoots(p) | Op::BatchInv(p) => sv(p),
            Op::Interp(xs, ys, rlz) => format!("{} {} {} {}", dbg, sv(xs), sv(ys), *rlz as u8),
            Op::InterpBatch(n, nx, ny, xs, ys) => format!("{} {} {} {} {} {}", dbg, n, nx, ny, sv(xs), sv(ys)),
            Op::Pow(b, n) => format!("{} {}", se(b), n),
            Op::PowOff(b, s, n) => format!("{} {} {}", se(b), se(s), n),
            Op::MulAcc(a, b, c) => format!("{} {} {}", sv(a), sv(b), se(c)),
            Op::EvalMixed(p, x) => format!("{} {}", hv(p), se(x)),
            Op::EvalManyMixed(p, xs) => format!("{} {}", hv(p), sv(xs)),
            Op::MulAccMixed(a, b, c) => format!("{} {} {}", sv(a), hv(b), se(c)),
        }
    }
}

fn interp_batch_n<C: CF, const N: usize>(nx: usize, ny: usize, xs: &[C], ys: &[C]) -> String {
    let xa: Vec<[C; N]> = (0..nx).map(|i| core::array::from_fn(|j| xs[i * N + j])).collect();
    let ya: Vec<[C; N]> = (0..ny).map(|i| core::array::from_fn(|j| ys[i * N + j])).collect();
    match catch(AssertUnwindSafe(|| polynom::interpolate_batch::<C, N>(&xa, &ya))) {
        Ok(v) if v.is_empty() => "-".into(),
        Ok(v) => v.iter().map(|p| poly_str(p)).collect::<Vec<_>>().join(";"),
        Err(_) => "panic".into(),
    }
}

/// calls the real crate function; every call runs under `catch`
fn exec<C: CF>(op: &Op<C>) -> String {
    macro_rules! c {
        ($e:expr) => {
            catch(AssertUnwindSafe(|| $e))
        };
    }
    match op {
        Op::Eval(p, x) => match c!(polynom::eval(p, *x)) {
            Ok(v) => se(&v),
            Err(_) => "panic".into(),
        },
        Op::EvalMany(p, xs) => rv(c!(polynom::eval_many(p, xs))),
        Op::Add(a, b) => rv(c!(polynom::add(a, b))),
        Op::Sub(a, b) => rv(c!(polynom::sub(a, b))),
        Op::Mul(a, b) => rv(c!(polynom::mul(a, b))),
        Op::MulByScalar(p, k) => rv(c!(polynom::mul_by_scalar(p, *k))),
        Op::Div(a, b) => rv(c!(polynom::div(a, b))),
        Op::SynDiv(p, a, b) => rv(c!(polynom::syn_div(p, *a, *b))),
        Op::SynDivInPlace(p, a, b) => rv(c!({
            let mut q = p.clone();
            polynom::syn_div_in_place(&mut q, *a, *b);
            q
        })),
        Op::SynDivRoots(p, roots) => rv(c!({
            let mut q = p.clone();
            polynom::syn_div_roots_in_place(&mut q, roots);
            q
        })),
        Op::DegreeOf(p) => match c!(polynom::degree_of(p)) {
            Ok(d) => format!("{}", d),
            Err(_) => "panic".into(),
        },
        Op::Rlz(p) => rv(c!(polynom::remove_leading_zeros(p))),
        Op::FromRoots(xs) => rv(c!(polynom::poly_from_roots(xs))),
        Op::Interp(xs, ys, rlz) => rv(c!(polynom::interpolate(xs, ys, *rlz))),
        Op::InterpBatch(n, nx, ny, xs, ys) => match n {
            0 => interp_batch_n::<C, 0>(*nx, *ny, xs, ys),
            1 => interp_batch_n::<C, 1>(*nx, *ny, xs, ys),
            2 => interp_batch_n::<C, 2>(*nx, *ny, xs, ys),
            3 => interp_batch_n::<C, 3>(*nx, *ny, xs, ys),
            4 => interp_batch_n::<C, 4>(*nx, *ny, xs, ys),
            8 => interp_batch_n::<C, 8>(*nx, *ny, xs, ys),
            _ => unreachable!("N not instantiated"),
        },
        Op::Pow(b, n) => rv(c!(get_power_series(*b, *n))),
        Op::PowOff(b, s, n) => rv(c!(get_power_series_with_offset(*b, *s, *n))),
        Op::AddInPlace(a, b) => rv(c!({
            let mut q = a.clone();
            add_in_place(&mut q, b);
            q
        })),
        Op::MulAcc(a, b, cc) => rv(c!({
            let mut q = a.clone();
            mul_acc::<C, C>(&mut q, b, *cc);
            q
        })),
        Op::BatchInv(v) => rv(c!(batch_inversion(v))),
        Op::EvalMixed(p, x) => {
            let pb = bvf::<C>(p);
            match c!(polynom::eval::<C::Base, C>(&pb, *x)) {
                Ok(v) => se(&v),
                Err(_) => "panic".into(),
            }
        }
        Op::EvalManyMixed(p, xs) => {
            let pb = bvf::<C>(p);
            rv(c!(polynom::eval_many::<C::Base, C>(&pb, xs)))
        }
        Op::MulAccMixed(a, b, cc) => {
            let bb = bvf::<C>(b);
            rv(c!({
                let mut q = a.clone();
                mul_acc::<C::Base, C>(&mut q, &bb, *cc);
                q
            }))
        }
    }
}

// ================================================================================================
// correspondence: generators.  Inputs that must be exactly divisible etc. are built with the reference
// polynomial code of the falsifier section (ref_mul / ref_add / ref_eval / ref_from_roots).
// ================================================================================================
struct G<C: CF> {
    r: Rng,
    ph: std::marker::PhantomData<C>,
}

impl<C: CF> G<C> {
    fn new(seed: u64) -> Self {
        G { r: Rng::new(seed), ph: std::marker::PhantomData }
    }
    fn ext(&self) -> bool {
        C::DEG > 1
    }
    /// size cap: `b` for base fields, `e` for extension fields (model arithmetic is 3-9x more expensive there)
    fn cap(&self, b: u64, e: u64) -> u64 {
        if self.ext() { e } else { b }
    }
    fn base_pool(&mut self) -> u128 {
        let p = C::BP;
        [0, 1, 2, p - 1, p - 2, (p - 1) / 2, 3, 5, 7, (p + 1) / 2][self.r.below(10) as usize]
    }
    fn small(&mut self) -> u128 {
        let p = C::BP;
        [0, 1, 2, p - 1][self.r.below(4) as usize]
    }
    fn rres(&mut self) -> u128 {
        self.r.next_u128() % C::BP
    }
    /// the base residue v embedded in the field
    fn k(&self, v: u128) -> C {
        let mut c = vec![0u128; C::DEG];
        c[0] = v % C::BP;
        C::from_coords(&c)
    }
    fn m1(&self) -> C {
        self.k(C::BP - 1)
    }
    /// base fields: pool {0,1,2,p-1,p-2,(p-1)/2,..} or a random residue.  Extensions: embedded base elements (zero
    /// high coordinates), zero low coordinate, tuples over {0,1,2,p-1}, mixed pool/random tuples, random tuples.
    fn elem(&mut self) -> C {
        let d = C::DEG;
        let mut c = vec![0u128; d];
        if d == 1 {
            c[0] = if self.r.below(3) == 0 { self.base_pool() } else { self.rres() };
        } else {
            match self.r.below(8) {
                0 => c[0] = self.base_pool(),
                1 => {
                    for x in c.iter_mut().skip(1) {
                        *x = if self.r.chance(1, 2) { self.small() } else { self.rres() };
                    }
                }
                2 => {
                    for x in c.iter_mut() {
                        *x = self.small();
                    }
                }
                3 => {
                    for x in c.iter_mut() {
                        *x = if self.r.chance(1, 2) { self.base_pool() } else { self.rres() };
                    }
                }
                _ => {
                    for x in c.iter_mut() {
                        *x = self.rres();
                    }
                }
            }
        }
        C::from_coords(&c)
    }
    fn nz(&mut self) -> C {
        loop {
            let e = self.elem();
            if e != C::ZERO {
                return e;
            }
        }
    }
    /// every coordinate random and non-zero
    fn rnd(&mut self) -> C {
        let c: Vec<u128> = (0..C::DEG).map(|_| 1 + self.r.next_u128() % (C::BP - 1)).collect();
        C::from_coords(&c)
    }
    /// `l` coefficients; the `hz` highest are zero (ALL: every one), the `lz` lowest are zero,
    /// the coefficients next to the zero runs are non-zero
    fn shape(&mut self, l: usize, hz: usize, lz: usize) -> Vec<C> {
        if hz == ALL || hz >= l {
            return vec![C::ZERO; l];
        }
        let mut v: Vec<C> = (0..l).map(|_| self.elem()).collect();
        let top = l - hz;
        for x in v.iter_mut().skip(top) {
            *x = C::ZERO;
        }
        v[top - 1] = self.nz();
        for x in v.iter_mut().take(lz.min(top - 1)) {
            *x = C::ZERO;
        }
        if lz < top - 1 {
            v[lz] = self.nz();
        }
        v
    }
    fn vec(&mut self, l: usize) -> Vec<C> {
        self.shape(l, 0, 0)
    }
    /// base residue: pool or random
    fn bres(&mut self) -> u128 {
        if self.r.below(3) == 0 { self.base_pool() } else { self.rres() }
    }
    /// base-field vector with the same shape discipline as `shape`
    fn bshape(&mut self, l: usize, hz: usize, lz: usize) -> Vec<u128> {
        if hz == ALL || hz >= l {
            return vec![0; l];
        }
        let mut v: Vec<u128> = (0..l).map(|_| self.bres()).collect();
        let top = l - hz;
        for x in v.iter_mut().skip(top) {
            *x = 0;
        }
        v[top - 1] = 1 + self.rres() % (C::BP - 1);
        for x in v.iter_mut().take(lz.min(top - 1)) {
            *x = 0;
        }
        if lz < top - 1 {
            v[lz] = if self.r.chance(1, 2) { C::BP - 1 } else { 1 + self.rres() % (C::BP - 1) };
        }
        v
    }
    /// non-zero embedded base element (high coordinates zero)
    fn embedded(&mut self) -> C {
        loop {
            let v = self.bres();
            if v != 0 {
                return self.k(v);
            }
        }
    }
    /// element whose low coordinate is zero and whose other coordinates are random non-zero
    fn low_zero(&mut self) -> C {
        let mut c: Vec<u128> = (0..C::DEG).map(|_| 1 + self.r.next_u128() % (C::BP - 1)).collect();
        c[0] = 0;
        C::from_coords(&c)
    }
    fn nzvec(&mut self, l: usize) -> Vec<C> {
        (0..l).map(|_| self.nz()).collect()
    }
    /// n pairwise distinct elements; `zero_at`: position that holds 0 (no zero otherwise)
    fn distinct(&mut self, n: usize, zero_at: Option<usize>) -> Vec<C> {
        let mut v: Vec<C> = Vec::with_capacity(n);
        while v.len() < n {
            let e = if self.r.chance(1, 4) { self.nz() } else { self.rnd() };
            if !v.contains(&e) {
                v.push(e);
            }
        }
        if let Some(k) = zero_at {
            if k < n {
                v[k] = C::ZERO;
            }
        }
        v
    }
    /// x^a - b
    fn xa_minus_b(&self, a: usize, b: C) -> Vec<C> {
        let mut d = vec![C::ZERO; a + 1];
        d[0] = C::ZERO - b;
        d[a] = C::ONE;
        d
    }
    /// dividend/divisor with deg a = dega, deg b = degb, `pa`/`pb` zero leading coefficients; exact: remainder 0
    fn div_pair(&mut self, dega: usize, degb: usize, pa: usize, pb: usize, exact: bool) -> (Vec<C>, Vec<C>) {
        let mut b = self.vec(degb + 1);
        let q = self.vec(dega - degb + 1);
        let mut a = ref_mul(&q, &b);
        if !exact && degb > 0 {
            let r = self.vec(degb);
            a = ref_add(&a, &r);
        }
        a.extend(std::iter::repeat(C::ZERO).take(pa));
        b.extend(std::iter::repeat(C::ZERO).take(pb));
        (a, b)
    }
}

const SHAPES: [(usize, usize, usize); 36] = [
    (0, 0, 0), (1, 0, 0), (1, ALL, 0), (2, 0, 0), (2, 1, 0), (2, 0, 1), (2, ALL, 0), (3, 0, 0), (3, 1, 0),
    (3, 2, 0), (3, 0, 1), (3, 0, 2), (3, 1, 1), (3, ALL, 0), (7, 0, 0), (7, 1, 0), (7, 2, 1), (7, 0, 2),
    (7, ALL, 0), (8, 0, 0), (8, 1, 1), (8, 2, 2), (8, 2, 0), (8, ALL, 0), (9, 0, 0), (9, 1, 2), (9, 2, 0),
    (9, 0, 1), (63, 0, 0), (63, 1, 0), (64, 0, 0), (64, 2, 1), (64, ALL, 0), (65, 0, 0), (65, 0, 2), (65, 1, 1),
];
const SHAPES_L1: [(usize, usize, usize); 9] =
    [(0, 0, 0), (1, 0, 0), (2, 1, 0), (3, ALL, 0), (3, 0, 1), (8, 2, 2), (9, 0, 0), (64, 0, 0), (65, 1, 1)];
const SHAPES_L0: [(usize, usize, usize); 5] = [(0, 0, 0), (2, 1, 0), (3, ALL, 0), (8, 0, 1), (65, 0, 0)];

/// keeps the entries of a list of special cases according to the level: everything for lvl >= 1, every other one
/// for lvl 0
fn keep(lvl: u8, i: usize) -> bool {
    lvl >= 1 || i % 2 == 0
}

/// Deterministic enumeration of the boundary classes (independent of n).
/// `lvl`: 4 = f64 (everything), 3 = f62 (every class, fewer repetitions of the pair/mask enumerations), 2 = f128
/// (sub-enumeration: the extracted model is ~4x slower there), 1 = q64 / c64 and 0 = q62 / q128 / c62 (the same classes
/// with small counts and lengths <= 9, 64/65 only for linear-time operations).
/// `thorough`: adds the large `mul` / `interpolate` cases (and one 1024-element group for lvl 1).
fn boundary<C: CF>(g: &mut G<C>, lvl: u8, thorough: bool, out: &mut Vec<Op<C>>) {
    let full = lvl >= 3;
    let mid = lvl >= 2;
    let (zero, one, two, m1) = (C::ZERO, C::ONE, g.k(2), g.m1());
    let sh: Vec<(usize, usize, usize)> = match lvl {
        0 => SHAPES_L0.to_vec(),
        1 => SHAPES_L1.to_vec(),
        _ => SHAPES.iter().enumerate().filter(|(i, s)| full || i % 3 == 0 || s.0 == 0).map(|(_, s)| *s).collect(),
    };
    let xs_cycle = |g: &mut G<C>, i: usize| match i % 6 {
        0 => zero,
        1 => one,
        2 => m1,
        4 => two,
        _ => g.rnd(),
    };

    // ---- degree_of / remove_leading_zeros / eval / eval_many / mul_by_scalar
    for (i, &(l, hz, lz)) in sh.iter().enumerate() {
        let v = g.shape(l, hz, lz);
        out.push(Op::DegreeOf(v.clone()));
        out.push(Op::Rlz(v.clone()));
        let x = xs_cycle(g, i);
        out.push(Op::Eval(v.clone(), x));
        if i % 3 == 0 {
            let nx = [0usize, 1, 3, 8][(i / 3) % 4];
            let mut xs = g.vec(nx);
            if nx >= 3 {
                xs[1] = zero;
            }
            out.push(Op::EvalMany(v.clone(), xs));
        }
        if i % 2 == 0 {
            let k = [zero, one, m1, g.rnd()][(i / 2) % 4];
            out.push(Op::MulByScalar(v, k));
        }
    }
    // ---- add / sub: equal and unequal lengths, both ways, zero leading coefficients
    let pairs: [((usize, usize, usize), (usize, usize, usize)); 17] = [
        ((0, 0, 0), (0, 0, 0)), ((0, 0, 0), (1, 0, 0)), ((1, 0, 0), (0, 0, 0)), ((1, 0, 0), (1, 0, 0)),
        ((2, 0, 0), (3, 0, 0)), ((3, 0, 0), (2, 0, 0)), ((7, 0, 0), (8, 1, 0)), ((8, 0, 0), (8, 0, 0)),
        ((9, 2, 1), (7, 0, 0)), ((0, 0, 0), (9, 0, 0)), ((9, 0, 0), (0, 0, 0)), ((63, 0, 0), (65, 0, 0)),
        ((65, 1, 0), (64, 0, 0)), ((64, 0, 0), (64, 0, 0)), ((3, 2, 0), (3, 0, 0)), ((8, 1, 0), (8, 1, 0)),
        ((8, ALL, 0), (3, 0, 0)),
    ];
    for (i, (sa, sb)) in pairs.iter().enumerate() {
        let take = match lvl {
            0 => i == 1 || i == 7,
            1 => [1, 4, 7, 12].contains(&i),
            2 => i % 2 == 0,
            _ => true,
        };
        if !take {
            continue;
        }
        let a = g.shape(sa.0, sa.1, sa.2);
        let b = g.shape(sb.0, sb.1, sb.2);
        out.push(Op::Add(a.clone(), b.clone()));
        out.push(Op::Sub(a.clone(), b.clone()));
        if i == 7 {
            // a - a and a + (-a)
            out.push(Op::Sub(a.clone(), a.clone()));
            let na: Vec<C> = a.iter().map(|x| zero - *x).collect();
            out.push(Op::Add(a, na));
        }
    }
    // ---- mul
    let s7: &[usize] = match lvl {
        4 => &[0, 1, 2, 3, 7, 8, 9],
        3 => &[0, 1, 2, 3, 8, 9],
        2 => &[0, 1, 2, 3, 8],
        1 => &[0, 1, 3, 8],
        _ => &[0, 1, 3],
    };
    for &la in s7 {
        for &lb in s7 {
            let (a, b) = (g.vec(la), g.vec(lb));
            out.push(Op::Mul(a, b));
        }
    }
    for (i, (sa, sb)) in [
        ((3usize, 1usize, 0usize), (3usize, 0usize, 0usize)), ((1, ALL, 0), (1, ALL, 0)), ((3, 2, 0), (2, 1, 0)),
        ((8, ALL, 0), (3, 0, 0)), ((7, 1, 1), (9, 2, 0)), ((2, 0, 1), (2, 0, 1)),
    ]
    .into_iter()
    .enumerate()
    {
        if !mid && i >= (if lvl == 1 { 4 } else { 2 }) {
            continue;
        }
        let a = g.shape(sa.0, sa.1, sa.2);
        let b = g.shape(sb.0, sb.1, sb.2);
        out.push(Op::Mul(a, b));
    }
    if thorough {
        if mid {
            for la in [63usize, 64, 65] {
                for lb in [1usize, 2, 3] {
                    let (a, b) = (g.vec(la), g.vec(lb));
                    out.push(if (la + lb) % 2 == 0 { Op::Mul(a, b) } else { Op::Mul(b, a) });
                }
            }
        } else if lvl == 1 {
            let (a, b) = (g.vec(64), g.vec(2));
            out.push(Op::Mul(a, b));
        }
        if full {
            let (a, b) = (g.vec(1025), g.vec(2));
            out.push(Op::Mul(a, b));
            let (a, b) = (g.vec(2), g.vec(1024));
            out.push(Op::Mul(a, b));
        }
    }
    // ---- div: valid classes
    let dd: &[(usize, usize)] = match lvl {
        4 => &[(0, 0), (1, 0), (1, 1), (2, 1), (3, 1), (3, 3), (7, 3), (8, 4), (9, 8), (8, 0), (16, 7), (64, 1), (33, 32)],
        3 | 2 => &[(0, 0), (1, 1), (2, 1), (3, 3), (8, 4), (9, 8), (8, 0), (16, 7)],
        1 => &[(0, 0), (1, 1), (2, 1), (8, 4), (8, 0)],
        _ => &[(0, 0), (2, 1), (8, 4)],
    };
    for (i, &(da, db)) in dd.iter().enumerate() {
        for exact in [true, false] {
            let (pa, pb) = [(0, 0), (1, 0), (0, 1), (2, 2), (0, 2), (2, 0)][(i + exact as usize) % 6];
            let (a, b) = g.div_pair(da, db, pa, pb, exact);
            out.push(Op::Div(a, b));
        }
    }
    {
        let mut sp: Vec<Op<C>> = Vec::new();
        let c = g.nz();
        let a = g.vec(4);
        let b1 = g.vec(2);
        sp.push(Op::Div(vec![], vec![c])); // empty dividend: Ok []
        sp.push(Op::Div(vec![zero, zero, zero], vec![c])); // all-zero dividend, constant divisor
        sp.push(Op::Div(a.clone(), vec![])); // panic: b empty
        sp.push(Op::Div(vec![zero], vec![c]));
        sp.push(Op::Div(a.clone(), vec![zero])); // panic: b = [0]
        sp.push(Op::Div(vec![], vec![c, zero])); // divisor of degree 0 with a zero leading coefficient
        sp.push(Op::Div(a.clone(), vec![zero, zero, zero])); // panic: b all zeros
        sp.push(Op::Div(vec![], vec![])); // panic: b empty
        let b = g.vec(5);
        sp.push(Op::Div(a.clone(), b)); // panic: deg b > deg a
        sp.push(Op::Div(vec![zero, zero, zero], b1.clone())); // panic: deg b > deg a (a all-zero)
        sp.push(Op::Div(vec![], b1.clone())); // panic: deg b > deg a (a empty)
        sp.push(Op::Div(vec![], vec![zero])); // panic
        let b = g.shape(6, 2, 0);
        sp.push(Op::Div(a.clone(), b)); // len b > len a but deg b = deg a: valid
        sp.push(Op::Div(vec![zero, zero], vec![zero, zero])); // panic
        let (a2, b2) = (g.shape(5, 2, 0), g.vec(4));
        sp.push(Op::Div(a2, b2)); // panic: deg a = 2 < deg b = 3 although len a > len b
        let (a, b) = (g.vec(6), g.vec(6));
        sp.push(Op::Div(a, b)); // same degree, random
        out.extend(sp.into_iter().enumerate().filter(|(i, _)| keep(lvl, *i)).map(|(_, o)| o));
    }
    // ---- syn_div / syn_div_in_place
    let aa: &[usize] = match lvl {
        4 | 3 => &[1, 2, 3, 4, 7],
        2 | 1 => &[1, 2, 4],
        _ => &[1, 3],
    };
    let mut k = 0usize;
    for &a in aa {
        for bk in 0..3 {
            if lvl == 0 && bk == 1 {
                continue;
            }
            let lens: Vec<usize> = if mid { vec![a + 1, a + 2, 2 * a + 1] } else { vec![a + 1, 2 * a + 1] };
            for len in lens {
                let b = match bk {
                    0 => one,
                    1 => m1,
                    _ => g.rnd(),
                };
                k += 1;
                let pv = if k % 2 == 0 {
                    // exactly divisible by x^a - b
                    let s = g.vec(len - a);
                    let d = g.xa_minus_b(a, b);
                    ref_mul(&s, &d)
                } else {
                    g.vec(len)
                };
                out.push(Op::SynDiv(pv.clone(), a, b));
                if k % 3 == 0 {
                    out.push(Op::SynDivInPlace(pv, a, b));
                }
            }
        }
    }
    {
        let pv = g.vec(5);
        let b = g.rnd();
        for (i, (a, b)) in [(0usize, b), (4, b), (5, b), (6, b), (1, zero), (2, zero), (4, one), (5, one), (0, zero), (0, one)]
            .into_iter()
            .enumerate()
        {
            // base fields: both entry points on every class; extensions: alternate
            if mid || i % 2 == 0 {
                out.push(Op::SynDiv(pv.clone(), a, b));
            }
            if mid || i % 2 == 1 {
                out.push(Op::SynDivInPlace(pv.clone(), a, b));
            }
        }
        let sp: Vec<Op<C>> = vec![
            Op::SynDiv(vec![], 1, b),
            Op::SynDivInPlace(vec![], 1, one),
            Op::SynDiv(vec![g.nz()], 1, b),
            Op::SynDiv(g.shape(8, 3, 1), 2, b),
            Op::SynDivInPlace(g.shape(8, ALL, 0), 3, one),
        ];
        out.extend(sp.into_iter().enumerate().filter(|(i, _)| keep(lvl, *i)).map(|(_, o)| o));
    }
    // ---- syn_div_roots_in_place
    let ms: &[usize] = match lvl {
        0 => &[2],
        1 => &[1, 3],
        _ => &[1, 2, 3],
    };
    for &m in ms {
        for (j, len) in [m + 1, m + 3, 9].into_iter().enumerate() {
            if !mid && j == 1 {
                continue;
            }
            let roots = g.nzvec(m);
            let pv = if (m + j) % 2 == 0 {
                let s = g.vec(len - m);
                ref_mul(&s, &ref_from_roots(&roots))
            } else {
                g.vec(len)
            };
            out.push(Op::SynDivRoots(pv, roots));
        }
    }
    {
        let r = g.rnd();
        let pv = g.vec(5);
        let d = ref_from_roots(&[r, zero, r]);
        let s = g.vec(4);
        let sp: Vec<Op<C>> = vec![
            Op::SynDivRoots(pv.clone(), g.nzvec(4)), // m = len - 1
            Op::SynDivRoots(pv.clone(), vec![]), // panic: no roots
            Op::SynDivRoots(pv.clone(), vec![zero, r]),
            Op::SynDivRoots(pv.clone(), g.nzvec(5)), // panic: m = len
            Op::SynDivRoots(pv.clone(), vec![r, r, r]),
            Op::SynDivRoots(pv.clone(), vec![r, zero]),
            Op::SynDivRoots(ref_mul(&s, &d), vec![r, zero, r]),
            Op::SynDivRoots(pv.clone(), vec![zero, zero]),
            Op::SynDivRoots(vec![], vec![r]), // panic
            Op::SynDivRoots(pv.clone(), vec![zero]),
            Op::SynDivRoots(pv.clone(), g.nzvec(6)), // panic: m = len + 1
            Op::SynDivRoots(g.vec(8), g.nzvec(7)),
            Op::SynDivRoots(vec![], vec![]), // panic
            Op::SynDivRoots(g.shape(6, ALL, 0), vec![r, one]),
        ];
        out.extend(sp.into_iter().enumerate().filter(|(i, _)| keep(lvl, *i)).map(|(_, o)| o));
    }
    // ---- batch_inversion
    let nzc = |g: &mut G<C>, i: usize| match i % 5 {
        0 => one,
        1 => m1,
        4 => two,
        _ => g.rnd(),
    };
    let mut cnt = 0usize;
    let mut masked = |g: &mut G<C>, l: usize, is_zero: &dyn Fn(usize) -> bool, out: &mut Vec<Op<C>>| {
        let v: Vec<C> = (0..l)
            .map(|i| {
                cnt += 1;
                if is_zero(i) { zero } else { nzc(g, cnt) }
            })
            .collect();
        out.push(Op::BatchInv(v));
    };
    out.push(Op::BatchInv(vec![]));
    for l in 1..=4usize {
        let masks: Vec<u32> = match (l, lvl) {
            (4, 4) => (0..16).collect(),
            (4, 3) | (4, 2) => vec![0, 1, 8, 9, 6, 15],
            (4, 1) => vec![1, 8, 15],
            (4, _) => vec![9],
            (3, 0) | (3, 1) => vec![0, 1, 4, 5, 7],
            _ => (0..(1u32 << l)).collect(),
        };
        for mask in masks {
            masked(g, l, &|i| mask >> i & 1 == 1, out);
        }
    }
    for zpos in 0..8usize {
        if mid || zpos == 0 || zpos == 7 || (lvl == 1 && zpos == 3) {
            masked(g, 8, &|i| i == zpos, out);
        }
    }
    masked(g, 8, &|i| i == 0 || i == 7, out);
    if lvl >= 1 {
        masked(g, 8, &|_| true, out);
        masked(g, 8, &|_| false, out);
    }
    for (j, l) in [63usize, 64, 65].into_iter().enumerate() {
        if lvl == 0 && l != 65 {
            continue;
        }
        let rp = g.r.below(l as u64) as usize;
        masked(g, l, &|i| [i == 0, i + 1 == l, i == rp][j], out);
        if full {
            masked(g, l, &|i| i == 0 || i + 1 == l || i == rp, out);
        }
    }
    // ---- get_power_series / get_power_series_with_offset
    for (i, n) in [0usize, 1, 2, 3, 7, 8, 9].into_iter().enumerate() {
        for (j, b) in [zero, one, two, m1, g.rnd()].into_iter().enumerate() {
            let take = match lvl {
                0 => (i + j) % 5 == 0,
                1 => (i + j) % 3 == 0,
                2 => (i + j) % 2 == 0,
                _ => true,
            };
            if take {
                out.push(Op::Pow(b, n));
            }
        }
    }
    for n in [63usize, 64, 65] {
        if mid {
            out.push(Op::Pow(m1, n));
        }
        if mid || n == 65 || (lvl == 1 && n == 64) {
            out.push(Op::Pow(g.rnd(), n));
        }
    }
    let bs: [(C, C); 7] = [(zero, one), (one, zero), (two, one), (m1, g.rnd()), (g.rnd(), g.rnd()), (g.rnd(), zero), (g.rnd(), one)];
    for (i, n) in [0usize, 1, 2, 3, 8, 9, 64].into_iter().enumerate() {
        let reps = match lvl {
            4 | 3 => 3,
            2 => 2,
            1 => 1,
            _ => (i % 2 == 0) as usize,
        };
        for j in 0..reps {
            let (b, s) = bs[(3 * i + j) % 7];
            out.push(Op::PowOff(b, s, n));
        }
    }
    out.push(Op::PowOff(zero, zero, 3));
    // ---- add_in_place / mul_acc
    for (i, (la, lb)) in [(0usize, 0usize), (1, 1), (3, 3), (8, 8), (65, 65), (0, 1), (1, 0), (3, 4), (8, 7)].into_iter().enumerate() {
        let take = match lvl {
            0 => [0, 2, 4, 6].contains(&i),
            1 => [0, 1, 3, 4, 5, 7].contains(&i),
            _ => true,
        };
        if !take {
            continue;
        }
        let (a, b) = (g.vec(la), g.vec(lb));
        out.push(Op::AddInPlace(a.clone(), b.clone()));
        for (j, c) in [zero, one, g.rnd()].into_iter().enumerate() {
            if (la == lb && (lvl >= 1 || i == 2)) || j == 2 {
                out.push(Op::MulAcc(a.clone(), b.clone(), c));
            }
        }
    }
    // ---- poly_from_roots
    for n in 0..=9usize {
        let take = match lvl {
            0 => [0, 1, 3, 9].contains(&n),
            1 => [0, 1, 2, 3, 8, 9].contains(&n),
            _ => true,
        };
        if take {
            out.push(Op::FromRoots(g.vec(n)));
        }
    }
    {
        let (r, s) = (g.rnd(), g.rnd());
        let sp = vec![vec![zero], vec![r, r], vec![zero, r], vec![r, s, r], vec![r, zero, s], vec![zero, zero], vec![one], vec![m1, one]];
        out.extend(sp.into_iter().enumerate().filter(|(i, _)| keep(lvl, *i)).map(|(_, v)| Op::FromRoots(v)));
        if full {
            out.push(Op::FromRoots(g.distinct(64, Some(17))));
        }
    }
    // ---- interpolate
    for n in [0usize, 1, 2, 3, 7, 8, 9, 16] {
        let take = match lvl {
            0 => [0, 1, 3, 9].contains(&n),
            1 => [0, 1, 2, 3, 8, 9].contains(&n),
            _ => true,
        };
        if !take {
            continue;
        }
        let xs = g.distinct(n, None);
        let ys = g.vec(n);
        out.push(Op::Interp(xs.clone(), ys.clone(), false));
        if (n == 1 && lvl >= 1) || n == 3 || (n == 8 && lvl >= 1) {
            out.push(Op::Interp(xs, ys, true));
        }
    }
    if full {
        let xs = g.distinct(33, Some(20));
        let ys = g.vec(33);
        out.push(Op::Interp(xs, ys, false));
    }
    if thorough && full {
        let xs = g.distinct(65, Some(64));
        let ys = g.vec(65);
        out.push(Op::Interp(xs, ys, true));
    }
    if thorough && lvl == 1 {
        let xs = g.distinct(16, Some(15));
        let ys = g.vec(16);
        out.push(Op::Interp(xs, ys, true));
    }
    for n in [3usize, 8] {
        if lvl == 0 && n == 8 {
            continue;
        }
        for (j, pos) in [0, n / 2, n - 1].into_iter().enumerate() {
            let xs = g.distinct(n, Some(pos));
            let ys = g.vec(n);
            out.push(Op::Interp(xs, ys, j % 2 == 1));
        }
    }
    out.push(Op::Interp(vec![zero], vec![g.rnd()], false));
    out.push(Op::Interp(vec![zero, g.rnd()], g.vec(2), false));
    {
        // duplicate xs: no panic; the output is not an interpolant but model and code must agree
        let (r, s) = (g.rnd(), g.rnd());
        out.push(Op::Interp(vec![r, s, r], g.vec(3), true));
        out.push(Op::Interp(vec![zero, zero], g.vec(2), false));
        if lvl >= 1 {
            out.push(Op::Interp(vec![r, r], g.vec(2), false));
            let mut xs = g.distinct(8, None);
            xs[5] = xs[2];
            out.push(Op::Interp(xs, g.vec(8), false));
        }
        // ys all zero
        out.push(Op::Interp(g.distinct(3, None), vec![zero; 3], false));
        if lvl >= 1 {
            out.push(Op::Interp(g.distinct(8, Some(3)), vec![zero; 8], true));
        }
        // ys on a low-degree polynomial: remove_leading_zeros matters
        for (n, deg) in [(8usize, 2usize), (3, 0), (16, 5)] {
            if (!mid && n == 16) || (lvl == 0 && n == 3) {
                continue;
            }
            let xs = g.distinct(n, if n == 8 { Some(0) } else { None });
            let c = g.shape(deg + 1, 0, 0);
            let ys: Vec<C> = xs.iter().map(|x| ref_eval(&c, *x)).collect();
            if n != 16 {
                out.push(Op::Interp(xs.clone(), ys.clone(), false));
            }
            out.push(Op::Interp(xs, ys, true));
        }
        // length mismatch, both directions
        for (i, (nx, ny, rlz)) in
            [(3usize, 2usize, false), (2, 3, false), (0, 1, false), (1, 0, false), (8, 9, true), (9, 8, true)].into_iter().enumerate()
        {
            if lvl >= 1 || i < 4 {
                out.push(Op::Interp(g.distinct(nx, None), g.vec(ny), rlz));
            }
        }
    }
    // ---- interpolate_batch
    for bn in [1usize, 2, 3, 4, 8] {
        for nx in 0..4usize {
            let take = match lvl {
                4 => true,
                3 | 2 => nx < 3,
                1 => bn != 3 && nx < 3,
                _ => ((bn == 2 || bn == 4) && nx < 3) || (bn == 8 && nx == 1),
            };
            if !take {
                continue;
            }
            let xs: Vec<C> = (0..nx).flat_map(|_| g.distinct(bn, None)).collect();
            let ys = g.vec(nx * bn);
            out.push(Op::InterpBatch(bn, nx, nx, xs, ys));
        }
    }
    for nx in 0..3usize {
        if lvl >= 1 || nx < 2 {
            out.push(Op::InterpBatch(0, nx, nx, vec![], vec![])); // N = 0: panics once `len % N` is reached
        }
    }
    {
        let r = g.rnd();
        let mut sp: Vec<Op<C>> = Vec::new();
        sp.push(Op::InterpBatch(2, 1, 1, vec![zero, r], g.vec(2)));
        sp.push(Op::InterpBatch(0, 1, 0, vec![], vec![]));
        let xs: Vec<C> = g.distinct(4, Some(3)).into_iter().chain(g.distinct(4, Some(0))).collect();
        sp.push(Op::InterpBatch(4, 2, 2, xs, g.vec(8)));
        sp.push(Op::InterpBatch(1, 2, 2, vec![zero, r], g.vec(2)));
        sp.push(Op::InterpBatch(2, 1, 1, vec![r, r], g.vec(2))); // duplicates
        let mut xs = g.distinct(4, None);
        xs[3] = xs[1];
        sp.push(Op::InterpBatch(4, 1, 1, xs, g.vec(4)));
        // nx != ny: debug build panics; release: ys shorter panics by index, ys longer is accepted
        for (bn, nx, ny) in [(2usize, 1usize, 0usize), (2, 1, 2), (3, 2, 1), (1, 0, 1), (4, 2, 3), (8, 1, 0)] {
            let xs: Vec<C> = (0..nx).flat_map(|_| g.distinct(bn, None)).collect();
            sp.push(Op::InterpBatch(bn, nx, ny, xs, g.vec(ny * bn)));
        }
        out.extend(sp.into_iter().enumerate().filter(|(i, _)| keep(lvl, *i)).map(|(_, o)| o));
    }
    // ---- long inputs, linear-time operations only (few: the extracted model computes on inductive Z)
    let longs: &[usize] = match lvl {
        4 | 3 => &[1023, 1024, 1025],
        2 => &[1025],
        1 if thorough => &[1024],
        _ => &[],
    };
    for (i, &l) in longs.iter().enumerate() {
        let hz = [0usize, 1, 2][i % 3];
        let v = g.shape(l, hz, i % 2);
        match i % 3 {
            0 => {
                out.push(Op::Eval(v.clone(), g.rnd()));
                out.push(Op::DegreeOf(v.clone()));
                out.push(Op::BatchInv(g.shape(l, 1, 1)));
                out.push(Op::Pow(g.rnd(), l));
            }
            1 => {
                out.push(Op::Rlz(v.clone()));
                out.push(Op::Add(v.clone(), g.vec(l + 1)));
                out.push(Op::SynDiv(v.clone(), 3, one));
                out.push(Op::PowOff(g.rnd(), g.rnd(), l));
                out.push(Op::MulAcc(v.clone(), g.vec(l), g.rnd()));
            }
            _ => {
                out.push(Op::Sub(g.vec(l - 2), v.clone()));
                out.push(Op::MulByScalar(v.clone(), g.rnd()));
                out.push(Op::SynDivInPlace(v.clone(), 1, g.rnd()));
                out.push(Op::AddInPlace(v.clone(), g.vec(l)));
                out.push(Op::Pow(two, l));
            }
        }
    }
    if lvl == 2 {
        let v = g.vec(1025);
        out.push(Op::SynDivInPlace(v.clone(), 2, g.rnd()));
        out.push(Op::Add(v, g.vec(1023)));
    } else if full {
        let mut v = g.nzvec(1024);
        v[0] = zero;
        v[1023] = zero;
        v[500] = zero;
        out.push(Op::BatchInv(v));
        out.push(Op::SynDiv(g.vec(1025), 4, g.rnd()));
    }
}

/// Boundary classes of the mixed instantiations eval::<B,E>, eval_many::<B,E>, mul_acc::<B,E> (extension fields only):
/// base-field polynomial lengths 0,1,2,3,7,8,9,64 (+1024 in thorough, lvl 1) with zero leading / low coefficients,
/// points 0, 1, embedded base element, zero low coordinate, random; mul_acc with equal lengths incl. 0, unequal
/// lengths both ways (panic), c in {0, 1, embedded, random}, b entries incl. 0, 1, p-1.
fn boundary_mixed<C: CF>(g: &mut G<C>, lvl: u8, thorough: bool, out: &mut Vec<Op<C>>) {
    if !g.ext() {
        return;
    }
    let p = C::BP;
    let shapes = [(0usize, 0usize), (1, 0), (0, 1), (2, 1), (ALL, 0)];
    let point = |g: &mut G<C>, i: usize| match i % 5 {
        0 => C::ZERO,
        1 => C::ONE,
        2 => g.embedded(),
        3 => g.low_zero(),
        _ => g.rnd(),
    };
    let mut k = 0usize;
    // ---- eval_mixed
    for (i, l) in [0usize, 1, 2, 3, 7, 8, 9, 64].into_iter().enumerate() {
        for _ in 0..(if lvl >= 1 { 2 } else { 1 }) {
            let (hz, lz) = shapes[(i + k) % 5];
            let pv = g.bshape(l, hz, lz);
            let x = point(g, k);
            k += 1;
            out.push(Op::EvalMixed(pv, x));
        }
    }
    for (l, hz, lz) in [(3usize, 1usize, 1usize), (8, ALL, 0), (8, 2, 2), (3, ALL, 0)] {
        if lvl >= 1 || l == 8 {
            let pv = g.bshape(l, hz, lz);
            let x = point(g, k);
            k += 1;
            out.push(Op::EvalMixed(pv, x));
        }
    }
    // all-(p-1) and all-1 coefficients at the embedded -1
    out.push(Op::EvalMixed(vec![p - 1, 1, p - 1, 1], g.m1()));
    // ---- eval_many_mixed
    let lens: &[usize] = if lvl >= 1 { &[0, 1, 3, 8, 64] } else { &[0, 3, 8] };
    for (i, &l) in lens.iter().enumerate() {
        let pv = g.bshape(l, [0, 1, 2][i % 3], i % 2);
        let xs: Vec<C> = (0..5).map(|j| point(g, j)).collect();
        out.push(Op::EvalManyMixed(pv, xs));
    }
    out.push(Op::EvalManyMixed(g.bshape(3, 0, 0), vec![]));
    if lvl >= 1 {
        out.push(Op::EvalManyMixed(g.bshape(7, 1, 0), vec![g.low_zero()]));
    }
    // ---- mul_acc_mixed
    let cc = |g: &mut G<C>, i: usize| match i % 4 {
        0 => C::ZERO,
        1 => C::ONE,
        2 => g.embedded(),
        _ => g.rnd(),
    };
    let bvec = |g: &mut G<C>, l: usize| {
        let mut b = g.bshape(l, 0, 0);
        for (j, v) in [0u128, 1, p - 1].into_iter().enumerate() {
            if j < l && l >= 2 {
                b[(j * 3) % l] = v;
            }
        }
        b
    };
    let mut kc = 0usize;
    for l in [0usize, 1, 2, 3, 8, 9, 64] {
        for _ in 0..(if lvl >= 1 { 2 } else { 1 }) {
            let (a, b) = (g.vec(l), bvec(g, l));
            let c = cc(g, kc);
            kc += 1;
            out.push(Op::MulAccMixed(a, b, c));
        }
    }
    out.push(Op::MulAccMixed(g.vec(4), vec![0; 4], g.rnd()));
    for (i, (la, lb)) in [(3usize, 2usize), (2, 3), (0, 1), (1, 0), (8, 9)].into_iter().enumerate() {
        if lvl >= 1 || i < 4 {
            let (a, b) = (g.vec(la), bvec(g, lb));
            out.push(Op::MulAccMixed(a, b, g.rnd()));
        }
    }
    if thorough && lvl >= 1 {
        out.push(Op::EvalMixed(g.bshape(1024, 1, 1), g.rnd()));
        let (a, b) = (g.vec(1024), bvec(g, 1024));
        out.push(Op::MulAccMixed(a, b, g.rnd()));
    }
}

fn small_len<C: CF>(g: &mut G<C>) -> usize {
    let m = g.cap(21, 10);
    match g.r.below(20) {
        0 => 64,
        1 => 0,
        _ => g.r.below(m) as usize,
    }
}
fn rshape<C: CF>(g: &mut G<C>, l: usize) -> Vec<C> {
    let hz = match g.r.below(8) {
        0 => 1,
        1 => 2,
        2 => ALL,
        _ => 0,
    };
    let lz = g.r.below(6).saturating_sub(3) as usize;
    g.shape(l, hz, lz)
}

fn rbshape<C: CF>(g: &mut G<C>, l: usize) -> Vec<u128> {
    let hz = match g.r.below(8) {
        0 => 1,
        1 => 2,
        2 => ALL,
        _ => 0,
    };
    let lz = g.r.below(6).saturating_sub(3) as usize;
    g.bshape(l, hz, lz)
}

/// mostly-valid structured stream
fn random_op<C: CF>(g: &mut G<C>) -> Op<C> {
    let l = small_len(g);
    let nops = g.cap(24, 28);
    match g.r.below(nops) {
        24 | 25 => {
            let x = match g.r.below(4) {
                0 => g.embedded(),
                1 => g.low_zero(),
                _ => g.elem(),
            };
            if g.r.chance(1, 3) {
                let n = g.r.below(6) as usize;
                Op::EvalManyMixed(rbshape(g, l), g.vec(n))
            } else {
                Op::EvalMixed(rbshape(g, l), x)
            }
        }
        26 | 27 => {
            let c = if g.r.chance(1, 4) { g.embedded() } else { g.elem() };
            Op::MulAccMixed(rshape(g, l), rbshape(g, l), c)
        }
        0 => Op::Eval(rshape(g, l), g.elem()),
        1 => {
            let n = g.r.below(6) as usize;
            Op::EvalMany(rshape(g, l), g.vec(n))
        }
        2 => {
            let lb = if g.r.chance(1, 2) { l } else { small_len(g) };
            Op::Add(rshape(g, l), rshape(g, lb))
        }
        3 => {
            let lb = if g.r.chance(1, 2) { l } else { small_len(g) };
            Op::Sub(rshape(g, l), rshape(g, lb))
        }
        4 | 5 => {
            let m = g.cap(13, 9);
            let (la, lb) = (g.r.below(m) as usize, g.r.below(m) as usize);
            Op::Mul(rshape(g, la), rshape(g, lb))
        }
        6 => Op::MulByScalar(rshape(g, l), g.elem()),
        7 | 8 => {
            let m = g.cap(21, 10);
            let da = g.r.below(m) as usize;
            let db = g.r.below(da as u64 + 1) as usize;
            let (pa, pb) = (g.r.below(3) as usize, g.r.below(3) as usize);
            let exact = g.r.chance(1, 2);
            let (a, b) = g.div_pair(da, db, pa, pb, exact);
            Op::Div(a, b)
        }
        9 | 10 => {
            let (ma, ml) = (g.cap(7, 4), g.cap(16, 6));
            let a = 1 + g.r.below(ma) as usize;
            let len = a + 1 + g.r.below(ml) as usize;
            let b = if g.r.chance(1, 4) { C::ONE } else { g.nz() };
            let pv = if g.r.chance(1, 2) {
                let s = g.vec(len - a);
                ref_mul(&s, &g.xa_minus_b(a, b))
            } else {
                rshape(g, len)
            };
            if g.r.chance(1, 2) { Op::SynDiv(pv, a, b) } else { Op::SynDivInPlace(pv, a, b) }
        }
        11 => {
            let ml = g.cap(16, 8);
            let len = 2 + g.r.below(ml) as usize;
            let m = 1 + g.r.below(len as u64 - 1) as usize;
            let roots = if g.r.chance(1, 4) { g.vec(m) } else { g.nzvec(m) };
            let pv = if g.r.chance(1, 2) {
                let s = g.vec(len - m);
                ref_mul(&s, &ref_from_roots(&roots))
            } else {
                rshape(g, len)
            };
            Op::SynDivRoots(pv, roots)
        }
        12 => Op::DegreeOf(rshape(g, l)),
        13 => Op::Rlz(rshape(g, l)),
        14 => {
            let m = g.cap(13, 10);
            let n = g.r.below(m) as usize;
            Op::FromRoots(g.vec(n))
        }
        15 | 16 => {
            let m = g.cap(13, 10);
            let n = g.r.below(m) as usize;
            let z = if g.r.chance(1, 3) { Some(g.r.below(n.max(1) as u64) as usize) } else { None };
            let mut xs = g.distinct(n, z);
            if n >= 2 && g.r.chance(1, 10) {
                xs[0] = xs[n - 1];
            }
            let ys = if g.r.chance(1, 3) {
                let lc = 1 + g.r.below(n.max(1) as u64) as usize;
                let c = g.vec(lc);
                xs.iter().map(|x| ref_eval(&c, *x)).collect()
            } else {
                g.vec(n)
            };
            Op::Interp(xs, ys, g.r.chance(1, 2))
        }
        17 => {
            let bn = [1usize, 2, 3, 4, 8][g.r.below(5) as usize];
            let nx = g.r.below(g.cap(4, 3)) as usize;
            let mut xs: Vec<C> = Vec::new();
            for _ in 0..nx {
                let z = if g.r.chance(1, 4) { Some(g.r.below(bn as u64) as usize) } else { None };
                xs.extend(g.distinct(bn, z));
            }
            Op::InterpBatch(bn, nx, nx, xs, g.vec(nx * bn))
        }
        18 => Op::Pow(g.elem(), l),
        19 => Op::PowOff(g.elem(), g.elem(), l),
        20 => Op::AddInPlace(rshape(g, l), rshape(g, l)),
        21 => Op::MulAcc(rshape(g, l), rshape(g, l), g.elem()),
        _ => {
            let l = if l == 64 { 64 } else { l.min(12) };
            let mut v = g.nzvec(l);
            for x in v.iter_mut() {
                if g.r.chance(1, 5) {
                    *x = C::ZERO;
                }
            }
            Op::BatchInv(v)
        }
    }
}

/// malformed stream: inputs from the rejected classes (and their neighbours)
fn malformed_op<C: CF>(g: &mut G<C>) -> Op<C> {
    let l = 1 + g.r.below(g.cap(10, 6)) as usize;
    let nops = g.cap(12, 13);
    match g.r.below(nops) {
        12 => {
            let lb = l - 1 + 2 * g.r.below(2) as usize;
            Op::MulAccMixed(g.vec(l), g.bshape(lb, 0, 0), g.elem())
        }
        0 => Op::Div(rshape(g, l), vec![C::ZERO; g.r.below(4) as usize]),
        1 => {
            let lb = l + 1 + g.r.below(3) as usize;
            Op::Div(rshape(g, l), g.vec(lb))
        }
        2 => {
            let hz = g.r.below(3) as usize;
            Op::Div(g.shape(l + 2, 2, 0), g.shape(l + 2, hz, 0))
        }
        3 => {
            let a = [0, l - 1, l, l + 1][g.r.below(4) as usize];
            if g.r.chance(1, 2) { Op::SynDiv(g.vec(l), a, g.nz()) } else { Op::SynDivInPlace(g.vec(l), a, g.nz()) }
        }
        4 => {
            let a = 1 + g.r.below(l as u64) as usize;
            if g.r.chance(1, 2) { Op::SynDiv(g.vec(l + 1), a, C::ZERO) } else { Op::SynDivInPlace(g.vec(l + 1), a, C::ZERO) }
        }
        5 => {
            let m = [0, l - 1, l, l + 1][g.r.below(4) as usize];
            Op::SynDivRoots(g.vec(l), g.vec(m))
        }
        6 => {
            let lb = l - 1 + 2 * g.r.below(2) as usize;
            Op::AddInPlace(g.vec(l), g.vec(lb))
        }
        7 => {
            let lb = l - 1 + 2 * g.r.below(2) as usize;
            Op::MulAcc(g.vec(l), g.vec(lb), g.elem())
        }
        8 => {
            let ny = l - 1 + 2 * g.r.below(2) as usize;
            Op::Interp(g.distinct(l, None), g.vec(ny), g.r.chance(1, 2))
        }
        9 => {
            let bn = [0usize, 1, 2, 3, 4, 8][g.r.below(6) as usize];
            let nx = g.r.below(3) as usize;
            let ny = g.r.below(4) as usize;
            let xs: Vec<C> = (0..nx).flat_map(|_| g.distinct(bn, None)).collect();
            Op::InterpBatch(bn, nx, ny, xs, g.vec(ny * bn))
        }
        10 => {
            let lb = g.r.below(4) as usize;
            Op::Mul(vec![], g.vec(lb))
        }
        _ => {
            let (lb, hz) = (1 + g.r.below(3) as usize, g.r.below(2) as usize);
            Op::Div(vec![], g.shape(lb, hz, 0))
        }
    }
}

struct Dist {
    fields: BTreeMap<&'static str, usize>,
    ops: BTreeMap<&'static str, usize>,
    panics: usize,
    total: usize,
}

fn emit_case<C: CF>(op: &Op<C>, dist: &mut Dist) {
    let res = exec::<C>(op);
    *dist.fields.entry(C::TOKEN).or_insert(0) += 1;
    *dist.ops.entry(op.name()).or_insert(0) += 1;
    dist.total += 1;
    if res == "panic" {
        dist.panics += 1;
    }
    println!("{} {} {} => {}", C::TOKEN, op.name(), op.args(), res);
}

fn corr(seed: u64, n: usize) {
    let thorough = n >= 10000;
    let mut dist = Dist { fields: BTreeMap::new(), ops: BTreeMap::new(), panics: 0, total: 0 };
    macro_rules! stream {
        ($t:ty, $lvl:expr, $salt:expr) => {{
            let mut g = G::<$t>::new(seed ^ $salt);
            let mut ops = Vec::new();
            boundary(&mut g, $lvl, thorough, &mut ops);
            boundary_mixed(&mut g, $lvl, thorough, &mut ops);
            for op in &ops {
                emit_case(op, &mut dist);
            }
            g
        }};
    }
    // boundary streams: always emitted in full
    let mut g64 = stream!(f64::BaseElement, 4, 0x64);
    let mut g62 = stream!(f62::BaseElement, 3, 0x62_0000);
    let mut g128 = stream!(f128::BaseElement, 2, 0x128_0000_0000);
    let mut gq64 = stream!(QuadExtension<f64::BaseElement>, 1, 0x2064);
    let mut gc64 = stream!(CubeExtension<f64::BaseElement>, 1, 0x3064);
    let mut gq62 = stream!(QuadExtension<f62::BaseElement>, 0, 0x2062);
    let mut gq128 = stream!(QuadExtension<f128::BaseElement>, 0, 0x2128);
    let mut gc62 = stream!(CubeExtension<f62::BaseElement>, 0, 0x3062);
    let nb = dist.total;
    // random structured stream (4/5 of the remaining budget), then malformed stream; half of it on extension fields
    let rest = n.saturating_sub(nb);
    let mut sel = Rng::new(seed ^ 0xC20);
    for i in 0..rest {
        let malformed = i >= rest - rest / 5;
        macro_rules! one {
            ($g:expr) => {{
                let op = if malformed { malformed_op(&mut $g) } else { random_op(&mut $g) };
                emit_case(&op, &mut dist);
            }};
        }
        match sel.below(14) {
            0..=2 => one!(g64),
            3..=5 => one!(g62),
            6 => one!(g128),
            7 | 8 => one!(gq64),
            9 | 10 => one!(gc64),
            11 => one!(gq62),
            12 => one!(gq128),
            _ => one!(gc62),
        }
    }
    let mut s = String::from("dist");
    for (k, v) in &dist.fields {
        s.push_str(&format!(" {}={}", k, v));
    }
    for (k, v) in &dist.ops {
        s.push_str(&format!(" {}={}", k, v));
    }
    s.push_str(&format!(" panic={} boundary={} total={}", dist.panics, nb, dist.total));
    eprintln!("{}", s);
}

// ================================================================================================
// falsifier
// ================================================================================================
// Oracle: schoolbook reference code below, written against the field's +, -, *, inv, == only (no Horner, no
// in-place tricks, no code of winter_math::polynom / winter_math::utils), plus u128 modular arithmetic
// (wf_harness::refmath) on `as_int()` for the base fields.
trait Gen: FieldElement {
    const NAME: &'static str;
    /// the modulus when Self is a base field (elements are then cross-checked with u128 arithmetic), else 0
    const P: u128 = 0;
    fn gen(r: &mut Rng) -> Self;
    fn val(&self) -> Option<u128> {
        None
    }
}

fn base_res(p: u128, r: &mut Rng) -> u128 {
    match r.below(4) {
        0 => [0, 1, 2, p - 1, p - 2, (p - 1) / 2, 3, 7][r.below(8) as usize],
        _ => r.next_u128() % p,
    }
}

macro_rules! gen_base {
    ($t:ty) => {
        impl Gen for $t {
            const NAME: &'static str = <$t as BF>::NAME;
            const P: u128 = <$t as BF>::P;
            fn gen(r: &mut Rng) -> Self {
                <$t as BF>::fu(base_res(<$t as BF>::P, r))
            }
            fn val(&self) -> Option<u128> {
                Some(self.tu())
            }
        }
    };
}
gen_base!(f64::BaseElement);
gen_base!(f62::BaseElement);
gen_base!(f128::BaseElement);

macro_rules! gen_quad {
    ($b:ty, $name:expr) => {
        impl Gen for QuadExtension<$b> {
            const NAME: &'static str = $name;
            fn gen(r: &mut Rng) -> Self {
                let n = |r: &mut Rng| <$b as Gen>::gen(r);
                match r.below(8) {
                    0 => Self::from(n(r)),
                    1 => QuadExtension::new(<$b as FieldElement>::ZERO, n(r)),
                    2 => QuadExtension::new(n(r), n(r)) * QuadExtension::new(n(r), n(r)),
                    3 => QuadExtension::new(n(r), n(r)) + Self::from(n(r)),
                    _ => QuadExtension::new(n(r), n(r)),
                }
            }
        }
    };
}
gen_quad!(f64::BaseElement, "quad<f64>");
gen_quad!(f62::BaseElement, "quad<f62>");
gen_quad!(f128::BaseElement, "quad<f128>");

macro_rules! gen_cube {
    ($b:ty, $name:expr) => {
        impl Gen for CubeExtension<$b> {
            const NAME: &'static str = $name;
            fn gen(r: &mut Rng) -> Self {
                let n = |r: &mut Rng| <$b as Gen>::gen(r);
                let z = <$b as FieldElement>::ZERO;
                match r.below(8) {
                    0 => Self::from(n(r)),
                    1 => CubeExtension::new(z, n(r), z),
                    2 => CubeExtension::new(n(r), n(r), n(r)) * CubeExtension::new(n(r), n(r), n(r)),
                    3 => CubeExtension::new(z, z, n(r)) + Self::from(n(r)),
                    _ => CubeExtension::new(n(r), n(r), n(r)),
                }
            }
        }
    };
}
gen_cube!(f64::BaseElement, "cube<f64>");
gen_cube!(f62::BaseElement, "cube<f62>");

struct Cx {
    field: &'static str,
    evals: usize,
    fails: usize,
    /// failure records printed per kind (`what`): at most 10 each, every failure is counted
    printed: BTreeMap<String, usize>,
    prog: Progress,
}

impl Cx {
    fn fail(&mut self, what: &str, input: &str, expected: &str, actual: &str) {
        self.fails += 1;
        let k = self.printed.entry(what.split(": ").take(2).collect::<Vec<_>>().join(": ")).or_insert(0);
        *k += 1;
        if *k <= 10 {
            println!(
                "{{\"field\":{},\"what\":{},\"input\":{},\"expected\":{},\"actual\":{}}}",
                jstr(self.field), jstr(what), jstr(input), jstr(expected), jstr(actual)
            );
        }
    }
    /// one identity evaluated
    fn ck(&mut self, ok: bool, what: &str, input: &dyn Fn() -> String, ea: &dyn Fn() -> (String, String)) {
        self.evals += 1;
        if !ok {
            let (e, a) = ea();
            self.fail(what, &input(), &e, &a);
        }
    }
}

/// runs `body`; a panic there (inputs satisfy the documented preconditions) is a failure record
fn guarded(cx: &mut Cx, fname: &str, input: &dyn Fn() -> String, body: impl FnOnce(&mut Cx)) {
    let field = cx.field;
    cx.prog.step(|| format!("{} {} {}", field, fname, input()));
    if let Err(m) = catch(AssertUnwindSafe(|| body(cx))) {
        cx.evals += 1;
        cx.fail(&format!("panic: {}: {}", fname, m), &input(), "no panic", "panic");
    }
}

fn must_panic<T>(cx: &mut Cx, what: &str, input: &dyn Fn() -> String, f: impl FnOnce() -> T) {
    let field = cx.field;
    cx.prog.step(|| format!("{} must-panic {} {}", field, what, input()));
    cx.evals += 1;
    if catch(AssertUnwindSafe(f)).is_ok() {
        cx.fail(&format!("no panic: {}", what), &input(), "panic", "returned");
    }
}

fn fe<E: FieldElement>(e: E) -> String {
    format!("{}", e)
}
fn fv<E: FieldElement>(v: &[E]) -> String {
    let mut s = String::from("[");
    for (i, e) in v.iter().take(40).enumerate() {
        if i > 0 {
            s.push(',');
        }
        s.push_str(&format!("{}", e));
    }
    if v.len() > 40 {
        s.push_str(&format!(",...(len {})", v.len()));
    }
    s.push(']');
    s
}

// ---------------------------------------------------------------- reference code
fn ref_eval<B: FieldElement, E: FieldElement + From<B>>(p: &[B], x: E) -> E {
    let mut s = E::ZERO;
    let mut pw = E::ONE;
    for c in p {
        s = s + E::from(*c) * pw;
        pw = pw * x;
    }
    s
}
/// product as a fresh vector of length la + lb - 1; the zero polynomial [] when an operand is empty
fn ref_mul<E: FieldElement>(a: &[E], b: &[E]) -> Vec<E> {
    if a.is_empty() || b.is_empty() {
        return vec![];
    }
    let mut out = vec![E::ZERO; a.len() + b.len() - 1];
    for i in 0..a.len() {
        for j in 0..b.len() {
            out[i + j] = out[i + j] + a[i] * b[j];
        }
    }
    out
}
fn at<E: FieldElement>(v: &[E], i: usize) -> E {
    if i < v.len() { v[i] } else { E::ZERO }
}
fn ref_add<E: FieldElement>(a: &[E], b: &[E]) -> Vec<E> {
    (0..a.len().max(b.len())).map(|i| at(a, i) + at(b, i)).collect()
}
fn ref_sub<E: FieldElement>(a: &[E], b: &[E]) -> Vec<E> {
    (0..a.len().max(b.len())).map(|i| at(a, i) - at(b, i)).collect()
}
fn ref_deg<E: FieldElement>(p: &[E]) -> Option<usize> {
    let mut d = None;
    for (i, c) in p.iter().enumerate() {
        if *c != E::ZERO {
            d = Some(i);
        }
    }
    d
}
fn trim<E: FieldElement>(p: &[E]) -> Vec<E> {
    match ref_deg(p) {
        Some(d) => p[..=d].to_vec(),
        None => vec![],
    }
}
fn peq<E: FieldElement>(a: &[E], b: &[E]) -> bool {
    trim(a) == trim(b)
}
fn ref_from_roots<E: FieldElement>(roots: &[E]) -> Vec<E> {
    let mut d = vec![E::ONE];
    for r in roots {
        d = ref_mul(&d, &[E::ZERO - *r, E::ONE]);
    }
    d
}
fn padded<E: FieldElement>(v: &[E], n: usize) -> Vec<E> {
    let mut o = v.to_vec();
    while o.len() < n {
        o.push(E::ZERO);
    }
    o
}
fn all_zero<E: FieldElement>(v: &[E]) -> bool {
    v.iter().all(|c| *c == E::ZERO)
}

// ---------------------------------------------------------------- identities
fn ck_eval<E: Gen>(cx: &mut Cx, p: &[E], x: E) {
    let inp = || format!("p={} x={}", fv(p), x);
    guarded(cx, "eval", &inp, |cx| {
        let got = polynom::eval(p, x);
        let want = ref_eval(p, x);
        cx.ck(got == want, "eval(p,x) != sum c_i*x^i", &inp, &|| (fe(want), fe(got)));
        if let Some(xv) = x.val() {
            let pm = E::P;
            let (mut s, mut pw) = (0u128, 1u128);
            for c in p {
                s = addmod(s, mulmod(c.val().unwrap_or(0), pw, pm), pm);
                pw = mulmod(pw, xv, pm);
            }
            cx.ck(got.val() == Some(s), "eval(p,x) != u128 reference", &inp, &|| (format!("{}", s), fe(got)));
        }
    });
}

fn ck_eval_many<E: Gen>(cx: &mut Cx, p: &[E], xs: &[E]) {
    let inp = || format!("p={} xs={}", fv(p), fv(xs));
    guarded(cx, "eval_many", &inp, |cx| {
        let got = polynom::eval_many(p, xs);
        let want: Vec<E> = xs.iter().map(|x| ref_eval(p, *x)).collect();
        cx.ck(got == want, "eval_many(p,xs) != pointwise reference", &inp, &|| (fv(&want), fv(&got)));
    });
}

fn ck_addsub<E: Gen>(cx: &mut Cx, a: &[E], b: &[E], k: E) {
    let inp = || format!("a={} b={} k={}", fv(a), fv(b), k);
    guarded(cx, "add", &inp, |cx| {
        let got = polynom::add(a, b);
        let want = ref_add(a, b);
        cx.ck(got == want && got.len() == a.len().max(b.len()), "add(a,b) != pointwise sum of length max", &inp, &|| (fv(&want), fv(&got)));
    });
    guarded(cx, "sub", &inp, |cx| {
        let got = polynom::sub(a, b);
        let want = ref_sub(a, b);
        cx.ck(got == want && got.len() == a.len().max(b.len()), "sub(a,b) != pointwise difference of length max", &inp, &|| (fv(&want), fv(&got)));
    });
    guarded(cx, "mul_by_scalar", &inp, |cx| {
        let got = polynom::mul_by_scalar(a, k);
        let want: Vec<E> = a.iter().map(|c| *c * k).collect();
        cx.ck(got == want, "mul_by_scalar(a,k) != pointwise product", &inp, &|| (fv(&want), fv(&got)));
    });
}

fn ck_mul<E: Gen>(cx: &mut Cx, a: &[E], b: &[E], x: E) {
    let inp = || format!("a={} b={} x={}", fv(a), fv(b), x);
    guarded(cx, "mul", &inp, |cx| {
        let got = polynom::mul(a, b);
        let want_len = if a.len() + b.len() == 0 { 0 } else { a.len() + b.len() - 1 };
        let want = padded(&ref_mul(a, b), want_len);
        cx.ck(got == want, "mul(a,b) != schoolbook product of length la+lb-1", &inp, &|| (fv(&want), fv(&got)));
        let (l, r) = (ref_eval(&got, x), ref_eval(a, x) * ref_eval(b, x));
        cx.ck(l == r, "eval(mul(a,b),x) != eval(a,x)*eval(b,x)", &inp, &|| (fe(r), fe(l)));
    });
}

/// preconditions: b != 0 and degree b <= degree a (an all-zero or empty `a` counts as degree 0)
fn ck_div<E: Gen>(cx: &mut Cx, a: &[E], b: &[E]) {
    let inp = || format!("a={} b={}", fv(a), fv(b));
    guarded(cx, "div", &inp, |cx| {
        let q = polynom::div(a, b);
        let da = ref_deg(a).unwrap_or(0);
        let db = ref_deg(b).unwrap_or(0);
        let want_len = if a.is_empty() { 0 } else { da - db + 1 };
        cx.ck(q.len() == want_len, "len(div(a,b)) != deg a - deg b + 1", &inp, &|| (format!("{}", want_len), format!("{}", q.len())));
        let r = trim(&ref_sub(a, &ref_mul(&q, b)));
        cx.ck(r.len() <= db, "deg(a - div(a,b)*b) >= deg b", &inp, &|| (format!("remainder of degree < {}", db), fv(&r)));
    });
}

/// a := q0 * b (padded with `pad` zeros) must divide back to q0; q0 and b have non-zero leading coefficients
fn ck_div_exact<E: Gen>(cx: &mut Cx, q0: &[E], b: &[E], pad: usize) {
    let mut a = ref_mul(q0, b);
    a.extend(std::iter::repeat(E::ZERO).take(pad));
    let inp = || format!("a=q0*b q0={} b={} pad={}", fv(q0), fv(b), pad);
    guarded(cx, "div", &inp, |cx| {
        let q = polynom::div(&a, b);
        cx.ck(peq(&q, q0), "div(q0*b, b) != q0", &inp, &|| (fv(q0), fv(&q)));
    });
}

fn ck_div_panics<E: Gen>(cx: &mut Cx, a: &[E], nz: E) {
    let inp = || format!("a={}", fv(a));
    must_panic(cx, "div by empty polynomial", &inp, || polynom::div::<E>(a, &[]));
    must_panic(cx, "div by [0]", &inp, || polynom::div(a, &[E::ZERO]));
    must_panic(cx, "div by all-zero polynomial", &inp, || polynom::div(a, &[E::ZERO, E::ZERO, E::ZERO]));
    let mut b = padded(a, a.len().max(1) + 1);
    let l = b.len();
    b[l - 1] = nz;
    must_panic(cx, "div by polynomial of higher degree", &inp, || polynom::div(a, &b));
}

/// preconditions: a >= 1, b != 0, len p > a
fn ck_syn_div<E: Gen>(cx: &mut Cx, p: &[E], a: usize, b: E) {
    let inp = || format!("p={} a={} b={}", fv(p), a, b);
    guarded(cx, "syn_div", &inp, |cx| {
        let q = polynom::syn_div(p, a, b);
        cx.ck(q.len() == p.len(), "len(syn_div(p,a,b)) != len p", &inp, &|| (format!("{}", p.len()), format!("{}", q.len())));
        let mut d = vec![E::ZERO; a + 1];
        d[0] = E::ZERO - b;
        d[a] = E::ONE;
        let r = ref_sub(p, &ref_mul(&q, &d));
        cx.ck(all_zero(&r[a.min(r.len())..]), "p - syn_div(p,a,b)*(x^a-b) has degree >= a", &inp, &|| ("remainder of degree < a".into(), fv(&r)));
        cx.ck(all_zero(&q[q.len() - a.min(q.len())..]), "top a entries of syn_div(p,a,b) not zero", &inp, &|| ("zeros".into(), fv(&q)));
        let mut ip = p.to_vec();
        polynom::syn_div_in_place(&mut ip, a, b);
        cx.ck(ip == q, "syn_div_in_place != syn_div", &inp, &|| (fv(&q), fv(&ip)));
    });
}

/// p := s * (x^a - b): the quotient is s (padded)
fn ck_syn_div_exact<E: Gen>(cx: &mut Cx, s: &[E], a: usize, b: E) {
    let mut d = vec![E::ZERO; a + 1];
    d[0] = E::ZERO - b;
    d[a] = E::ONE;
    let p = ref_mul(s, &d);
    let inp = || format!("p=s*(x^a-b) s={} a={} b={}", fv(s), a, b);
    guarded(cx, "syn_div", &inp, |cx| {
        let q = polynom::syn_div(&p, a, b);
        let want = padded(s, p.len());
        cx.ck(q == want, "syn_div(s*(x^a-b),a,b) != s padded", &inp, &|| (fv(&want), fv(&q)));
    });
}

fn ck_syn_div_panics<E: Gen>(cx: &mut Cx, p: &[E], b: E) {
    let inp = || format!("p={} b={}", fv(p), b);
    let l = p.len();
    must_panic(cx, "syn_div a=0", &inp, || polynom::syn_div(p, 0, b));
    must_panic(cx, "syn_div b=0", &inp, || polynom::syn_div(p, 1, E::ZERO));
    must_panic(cx, "syn_div a=len", &inp, || polynom::syn_div(p, l, b));
    must_panic(cx, "syn_div_in_place a=len+1", &inp, || {
        let mut q = p.to_vec();
        polynom::syn_div_in_place(&mut q, l + 1, b)
    });
    must_panic(cx, "syn_div_in_place a=0", &inp, || {
        let mut q = p.to_vec();
        polynom::syn_div_in_place(&mut q, 0, b)
    });
}

/// preconditions: 1 <= len roots < len p
fn ck_syn_roots<E: Gen>(cx: &mut Cx, p: &[E], roots: &[E]) {
    let inp = || format!("p={} roots={}", fv(p), fv(roots));
    guarded(cx, "syn_div_roots_in_place", &inp, |cx| {
        let m = roots.len();
        let mut q = p.to_vec();
        polynom::syn_div_roots_in_place(&mut q, roots);
        let d = ref_from_roots(roots);
        let r = ref_sub(p, &ref_mul(&q, &d));
        cx.ck(all_zero(&r[m.min(r.len())..]), "p - q*prod(x-r_i) has degree >= m", &inp, &|| ("remainder of degree < m".into(), fv(&r)));
        cx.ck(q.len() == p.len() && all_zero(&q[q.len() - m..]), "top m entries after syn_div_roots_in_place not zero", &inp, &|| ("zeros".into(), fv(&q)));
        if roots.iter().all(|x| *x != E::ZERO) {
            let mut s = p.to_vec();
            for x in roots {
                s = polynom::syn_div(&s, 1, *x);
            }
            cx.ck(s == q, "syn_div_roots_in_place != repeated syn_div(.,1,r_i)", &inp, &|| (fv(&s), fv(&q)));
        }
    });
}

fn ck_syn_roots_exact<E: Gen>(cx: &mut Cx, s: &[E], roots: &[E]) {
    let p = ref_mul(s, &ref_from_roots(roots));
    let inp = || format!("p=s*prod(x-r_i) s={} roots={}", fv(s), fv(roots));
    guarded(cx, "syn_div_roots_in_place", &inp, |cx| {
        let mut q = p.clone();
        polynom::syn_div_roots_in_place(&mut q, roots);
        let want = padded(s, p.len());
        cx.ck(q == want, "syn_div_roots_in_place(s*prod(x-r_i)) != s padded", &inp, &|| (fv(&want), fv(&q)));
    });
}

fn ck_syn_roots_panics<E: Gen>(cx: &mut Cx, p: &[E], roots: &[E]) {
    let inp = || format!("p={} roots={}", fv(p), fv(roots));
    must_panic(cx, "syn_div_roots_in_place without roots", &inp, || {
        let mut q = p.to_vec();
        polynom::syn_div_roots_in_place::<E>(&mut q, &[])
    });
    must_panic(cx, "syn_div_roots_in_place with len roots >= len p", &inp, || {
        let mut q = p.to_vec();
        polynom::syn_div_roots_in_place(&mut q, roots)
    });
}

fn ck_from_roots<E: Gen>(cx: &mut Cx, xs: &[E]) {
    let inp = || format!("xs={}", fv(xs));
    guarded(cx, "poly_from_roots", &inp, |cx| {
        let got = polynom::poly_from_roots(xs);
        let want = ref_from_roots(xs);
        cx.ck(got == want && got.len() == xs.len() + 1 && got[xs.len()] == E::ONE, "poly_from_roots(xs) != monic prod(x-x_i) of length n+1", &inp, &|| (fv(&want), fv(&got)));
        let bad: Vec<E> = xs.iter().filter(|x| ref_eval(&got, **x) != E::ZERO).cloned().collect();
        cx.ck(bad.is_empty(), "poly_from_roots(xs) does not vanish at a root", &inp, &|| ("0 at every root".into(), format!("non-zero at {}", fv(&bad))));
    });
}

/// precondition: xs pairwise distinct (0 allowed), len ys = len xs
fn ck_interp<E: Gen>(cx: &mut Cx, xs: &[E], ys: &[E]) {
    let inp = || format!("xs={} ys={}", fv(xs), fv(ys));
    guarded(cx, "interpolate", &inp, |cx| {
        let p = polynom::interpolate(xs, ys, false);
        cx.ck(p.len() == xs.len(), "len(interpolate(xs,ys,false)) != n", &inp, &|| (format!("{}", xs.len()), format!("{}", p.len())));
        let back: Vec<E> = xs.iter().map(|x| ref_eval(&p, *x)).collect();
        cx.ck(back == ys, "interpolate(xs,ys) does not pass through the points", &inp, &|| (fv(ys), fv(&back)));
        let t = polynom::interpolate(xs, ys, true);
        let want = trim(&p);
        cx.ck(t == want, "interpolate(..,true) != trimmed interpolate(..,false)", &inp, &|| (fv(&want), fv(&t)));
    });
}

/// precondition: xs pairwise distinct, len pc <= len xs
fn ck_interp_roundtrip<E: Gen>(cx: &mut Cx, pc: &[E], xs: &[E]) {
    let inp = || format!("p={} xs={}", fv(pc), fv(xs));
    guarded(cx, "interpolate", &inp, |cx| {
        let ys: Vec<E> = xs.iter().map(|x| ref_eval(pc, *x)).collect();
        let got = polynom::interpolate(xs, &ys, false);
        let want = padded(pc, xs.len());
        cx.ck(got == want, "interpolate(xs, p(xs)) != p padded", &inp, &|| (fv(&want), fv(&got)));
    });
}

fn ck_interp_batch<E: Gen, const N: usize>(cx: &mut Cx, xs: &[[E; N]], ys: &[[E; N]]) {
    let inp = || {
        format!("N={} xs={} ys={}", N, fv(&xs.iter().flatten().cloned().collect::<Vec<E>>()), fv(&ys.iter().flatten().cloned().collect::<Vec<E>>()))
    };
    guarded(cx, "interpolate_batch", &inp, |cx| {
        let got = polynom::interpolate_batch(xs, ys);
        cx.ck(got.len() == xs.len(), "len(interpolate_batch) != number of batches", &inp, &|| (format!("{}", xs.len()), format!("{}", got.len())));
        for i in 0..xs.len().min(got.len()) {
            let single = polynom::interpolate(&xs[i], &ys[i], false);
            cx.ck(got[i].to_vec() == single, "interpolate_batch[i] != interpolate(xs[i],ys[i])", &inp, &|| (fv(&single), fv(&got[i])));
            let back: Vec<E> = xs[i].iter().map(|x| ref_eval(&got[i], *x)).collect();
            cx.ck(back == ys[i].to_vec(), "interpolate_batch[i] does not pass through the points", &inp, &|| (fv(&ys[i]), fv(&back)));
        }
    });
}

fn ck_degree<E: Gen>(cx: &mut Cx, p: &[E]) {
    let inp = || format!("p={}", fv(p));
    guarded(cx, "degree_of", &inp, |cx| {
        let got = polynom::degree_of(p);
        let want = ref_deg(p).unwrap_or(0);
        cx.ck(got == want, "degree_of(p) != index of the last non-zero coefficient (0 if none)", &inp, &|| (format!("{}", want), format!("{}", got)));
    });
    guarded(cx, "remove_leading_zeros", &inp, |cx| {
        let got = polynom::remove_leading_zeros(p);
        let want = trim(p);
        cx.ck(got == want, "remove_leading_zeros(p) != p without its zero leading coefficients", &inp, &|| (fv(&want), fv(&got)));
    });
}

fn ck_pow<E: Gen>(cx: &mut Cx, b: E, s: E, n: usize) {
    let inp = || format!("b={} s={} n={}", b, s, n);
    guarded(cx, "get_power_series", &inp, |cx| {
        let got = get_power_series(b, n);
        let mut want = Vec::with_capacity(n);
        let mut pw = E::ONE;
        for _ in 0..n {
            want.push(pw);
            pw = pw * b;
        }
        cx.ck(got == want, "get_power_series(b,n)[i] != b^i", &inp, &|| (fv(&want), fv(&got)));
        if let Some(bv) = b.val() {
            let ok = got.len() == n && upowers(bv, 1, n, E::P).iter().zip(&got).all(|(w, e)| e.val() == Some(*w));
            cx.ck(ok, "get_power_series(b,n)[i] != powmod(b,i)", &inp, &|| ("b^i mod p".into(), fv(&got)));
        }
    });
    guarded(cx, "get_power_series_with_offset", &inp, |cx| {
        let got = get_power_series_with_offset(b, s, n);
        let mut want = Vec::with_capacity(n);
        let mut pw = E::ONE;
        for _ in 0..n {
            want.push(s * pw);
            pw = pw * b;
        }
        cx.ck(got == want, "get_power_series_with_offset(b,s,n)[i] != s*b^i", &inp, &|| (fv(&want), fv(&got)));
        if let (Some(bv), Some(sv)) = (b.val(), s.val()) {
            let ok = got.len() == n && upowers(bv, sv, n, E::P).iter().zip(&got).all(|(w, e)| e.val() == Some(*w));
            cx.ck(ok, "get_power_series_with_offset(b,s,n)[i] != s*powmod(b,i)", &inp, &|| ("s*b^i mod p".into(), fv(&got)));
        }
    });
}

/// s * b^i mod p for i < n: running product, cross-checked against square-and-multiply at the last index
fn upowers(b: u128, s: u128, n: usize, p: u128) -> Vec<u128> {
    let mut out = Vec::with_capacity(n);
    let mut pw = 1 % p;
    for _ in 0..n {
        out.push(mulmod(s, pw, p));
        pw = mulmod(pw, b, p);
    }
    if n > 0 {
        assert_eq!(out[n - 1], mulmod(s, powmod(b, n as u128 - 1, p), p), "harness: running product != powmod");
    }
    out
}

/// equal lengths: pointwise results; unequal lengths: both functions must panic
fn ck_inplace<E: Gen>(cx: &mut Cx, a: &[E], b: &[E], c: E) {
    let inp = || format!("a={} b={} c={}", fv(a), fv(b), c);
    if a.len() != b.len() {
        must_panic(cx, "add_in_place with different lengths", &inp, || {
            let mut q = a.to_vec();
            add_in_place(&mut q, b)
        });
        must_panic(cx, "mul_acc with different lengths", &inp, || {
            let mut q = a.to_vec();
            mul_acc::<E, E>(&mut q, b, c)
        });
        return;
    }
    guarded(cx, "add_in_place", &inp, |cx| {
        let mut got = a.to_vec();
        add_in_place(&mut got, b);
        let want: Vec<E> = (0..a.len()).map(|i| a[i] + b[i]).collect();
        cx.ck(got == want, "add_in_place(a,b) != pointwise a+b", &inp, &|| (fv(&want), fv(&got)));
    });
    guarded(cx, "mul_acc", &inp, |cx| {
        let mut got = a.to_vec();
        mul_acc::<E, E>(&mut got, b, c);
        let want: Vec<E> = (0..a.len()).map(|i| a[i] + b[i] * c).collect();
        cx.ck(got == want, "mul_acc(a,b,c) != pointwise a+b*c", &inp, &|| (fv(&want), fv(&got)));
    });
}

fn ck_binv<E: Gen>(cx: &mut Cx, v: &[E]) {
    let inp = || format!("v={}", fv(v));
    guarded(cx, "batch_inversion", &inp, |cx| {
        let got = batch_inversion(v);
        cx.ck(got.len() == v.len(), "len(batch_inversion(v)) != len v", &inp, &|| (format!("{}", v.len()), format!("{}", got.len())));
        let ok = got.len() == v.len()
            && (0..v.len()).all(|i| if v[i] == E::ZERO { got[i] == E::ZERO } else { v[i] * got[i] == E::ONE && got[i] == v[i].inv() });
        cx.ck(ok, "batch_inversion(v)[i] is not 0 for v[i]=0 / the inverse of v[i] otherwise", &inp, &|| ("pointwise inverses".into(), fv(&got)));
        if E::P != 0 {
            // every index for short vectors; both ends and a stride for long ones (invmod on u128 is slow for f128)
            let n = v.len();
            let ok = got.len() == n
                && (0..n).filter(|i| n <= 130 || *i < 48 || *i + 48 >= n || i % 16 == 0).all(|i| got[i].val() == v[i].val().map(|x| invmod(x, E::P)));
            cx.ck(ok, "batch_inversion(v)[i] != invmod(v[i])", &inp, &|| ("v[i]^(p-2) mod p".into(), fv(&got)));
        }
    });
}

/// the generic paths with B != E: eval::<B,E>, eval_many::<B,E>, mul_acc::<B,E>
fn ck_mixed<B, E>(cx: &mut Cx, p: &[B], xs: &[E], a: &[E], b: &[B], c: E)
where
    B: Gen,
    E: Gen + FieldElement<BaseField = B::BaseField> + From<B> + ExtensionOf<B>,
{
    let inp = || format!("p={} xs={} a={} b={} c={}", fv(p), fv(xs), fv(a), fv(b), c);
    guarded(cx, "eval<B,E>", &inp, |cx| {
        for x in xs {
            let got = polynom::eval(p, *x);
            let want = ref_eval(p, *x);
            cx.ck(got == want, "eval::<B,E>(p,x) != sum E::from(c_i)*x^i", &inp, &|| (fe(want), fe(got)));
        }
        let got = polynom::eval_many(p, xs);
        let want: Vec<E> = xs.iter().map(|x| ref_eval(p, *x)).collect();
        cx.ck(got == want, "eval_many::<B,E>(p,xs) != pointwise reference", &inp, &|| (fv(&want), fv(&got)));
    });
    if a.len() != b.len() {
        must_panic(cx, "mul_acc::<B,E> with different lengths", &inp, || {
            let mut q = a.to_vec();
            mul_acc::<B, E>(&mut q, b, c)
        });
        return;
    }
    guarded(cx, "mul_acc<B,E>", &inp, |cx| {
        let mut got = a.to_vec();
        mul_acc::<B, E>(&mut got, b, c);
        let want: Vec<E> = (0..a.len()).map(|i| a[i] + c * E::from(b[i])).collect();
        cx.ck(got == want, "mul_acc::<B,E>(a,b,c) != pointwise a + c*E::from(b)", &inp, &|| (fv(&want), fv(&got)));
    });
}

// ---------------------------------------------------------------- falsifier inputs
fn gv<E: Gen>(r: &mut Rng, n: usize) -> Vec<E> {
    (0..n).map(|_| E::gen(r)).collect()
}
fn gnz<E: Gen>(r: &mut Rng) -> E {
    loop {
        let e = E::gen(r);
        if e != E::ZERO {
            return e;
        }
    }
}
fn gnzv<E: Gen>(r: &mut Rng, n: usize) -> Vec<E> {
    (0..n).map(|_| gnz::<E>(r)).collect()
}
/// `l` coefficients, the `hz` highest zero (ALL: all), the `lz` lowest zero, non-zero next to the zero runs
fn gshape<E: Gen>(r: &mut Rng, l: usize, hz: usize, lz: usize) -> Vec<E> {
    if hz == ALL || hz >= l {
        return vec![E::ZERO; l];
    }
    let mut v = gv::<E>(r, l);
    let top = l - hz;
    for x in v.iter_mut().skip(top) {
        *x = E::ZERO;
    }
    v[top - 1] = gnz(r);
    for x in v.iter_mut().take(lz.min(top - 1)) {
        *x = E::ZERO;
    }
    if lz < top - 1 {
        v[lz] = gnz(r);
    }
    v
}
fn grshape<E: Gen>(r: &mut Rng, l: usize) -> Vec<E> {
    let hz = match r.below(8) {
        0 => 1,
        1 => 2,
        2 => ALL,
        _ => 0,
    };
    let lz = r.below(6).saturating_sub(3) as usize;
    gshape(r, l, hz, lz)
}
fn gdistinct<E: Gen>(r: &mut Rng, n: usize, zero_at: Option<usize>) -> Vec<E> {
    let mut v: Vec<E> = Vec::with_capacity(n);
    while v.len() < n {
        let e = gnz::<E>(r);
        if !v.contains(&e) {
            v.push(e);
        }
    }
    if let Some(k) = zero_at {
        if k < n {
            v[k] = E::ZERO;
        }
    }
    v
}

fn batch_case<E: Gen, const N: usize>(cx: &mut Cx, r: &mut Rng, nx: usize, with_zero: bool) {
    let xs: Vec<[E; N]> = (0..nx)
        .map(|i| {
            let v = gdistinct::<E>(r, N, if with_zero && N > 0 { Some(i % N) } else { None });
            core::array::from_fn(|j| v[j])
        })
        .collect();
    let ys: Vec<[E; N]> = (0..nx).map(|_| core::array::from_fn(|_| E::gen(r))).collect();
    ck_interp_batch(cx, &xs, &ys);
}

const FSZ: [usize; 10] = [0, 1, 2, 3, 7, 8, 9, 63, 64, 65];
const FLONG: [usize; 3] = [1023, 1024, 1025];

fn div_case<E: Gen>(cx: &mut Cx, r: &mut Rng, da: usize, db: usize, pa: usize, pb: usize) {
    let mut b = gshape::<E>(r, db + 1, 0, 0);
    b.extend(std::iter::repeat(E::ZERO).take(pb));
    let mut a = gshape::<E>(r, da + 1, 0, (da + pb) % 3);
    a.extend(std::iter::repeat(E::ZERO).take(pa));
    ck_div(cx, &a, &b);
    let q0 = gshape::<E>(r, da - db + 1, 0, 0);
    ck_div_exact(cx, &q0, &b, pa);
}

/// deterministic enumeration of the boundary classes
fn boundary_f<E: Gen>(cx: &mut Cx, r: &mut Rng) {
    let shapes = [(0usize, 0usize), (1, 0), (2, 1), (ALL, 0), (0, 2)];
    let consts = |r: &mut Rng| [E::ZERO, E::ONE, E::gen(r)];
    // ---- linear-time operations, every size
    for &l in FSZ.iter().chain(FLONG.iter()) {
        for &(hz, lz) in &shapes {
            let p = gshape::<E>(r, l, hz, lz);
            ck_degree(cx, &p);
            for x in consts(r) {
                ck_eval(cx, &p, x);
            }
            for (lb, k) in [l, l + 1, l.saturating_sub(1), 0].into_iter().zip([E::ZERO, E::ONE, E::gen(r), E::gen(r)]) {
                let b = gshape::<E>(r, lb, lz, 0);
                ck_addsub(cx, &p, &b, k);
                ck_addsub(cx, &b, &p, k);
            }
            for c in consts(r) {
                let b = gv::<E>(r, l);
                ck_inplace(cx, &p, &b, c);
            }
            ck_inplace(cx, &p, &gv::<E>(r, l + 1), E::ONE);
            ck_inplace(cx, &gv::<E>(r, l + 1), &p, E::gen(r));
            ck_binv(cx, &p);
        }
        let p = gv::<E>(r, l);
        for nx in [0usize, 1, 3] {
            ck_eval_many(cx, &p, &gv::<E>(r, nx));
        }
        for b in consts(r) {
            for s in consts(r) {
                ck_pow(cx, b, s, l);
            }
        }
    }
    // ---- mul
    for &la in &FSZ {
        for &lb in &FSZ {
            ck_mul(cx, &gv::<E>(r, la), &gv::<E>(r, lb), E::gen(r));
            if la <= 9 && lb <= 9 {
                ck_mul(cx, &gshape::<E>(r, la, 1, 0), &gshape::<E>(r, lb, 2, 1), E::gen(r));
                ck_mul(cx, &gshape::<E>(r, la, ALL, 0), &gv::<E>(r, lb), E::gen(r));
            }
        }
    }
    ck_mul(cx, &gv::<E>(r, 1025), &gv::<E>(r, 3), E::gen(r));
    ck_mul(cx, &gv::<E>(r, 2), &gv::<E>(r, 1024), E::ONE);
    // ---- div
    for &da in &FSZ {
        let mut dbs = vec![0usize, 1, da / 2, da];
        dbs.retain(|d| *d <= da);
        dbs.sort();
        dbs.dedup();
        for db in dbs {
            for (pa, pb) in [(0usize, 0usize), (2, 1), (0, 3)] {
                div_case::<E>(cx, r, da, db, pa, pb);
            }
        }
    }
    {
        let c = gnz::<E>(r);
        ck_div(cx, &[], &[c]);
        ck_div(cx, &[], &[c, E::ZERO]);
        ck_div(cx, &[E::ZERO], &[c]);
        ck_div(cx, &[E::ZERO; 3], &[c, E::ZERO]);
        for l in [0usize, 1, 3, 8] {
            ck_div_panics(cx, &gv::<E>(r, l), c);
        }
        ck_div_panics(cx, &gshape::<E>(r, 5, 2, 0), c);
        let inp = || "a=[] b=[c0,c1]".to_string();
        must_panic(cx, "div of the empty polynomial by a polynomial of degree 1", &inp, || polynom::div::<E>(&[], &[c, c]));
    }
    // ---- syn_div / syn_div_in_place
    for len in [2usize, 3, 4, 7, 8, 9, 63, 64, 65, 1023, 1024, 1025] {
        let mut aa = vec![1usize, 2, 3, 5];
        if len <= 65 {
            aa.push(len - 1);
        }
        aa.retain(|a| *a < len);
        aa.sort();
        aa.dedup();
        for a in aa {
            for b in [E::ONE, gnz::<E>(r), E::ZERO - E::ONE] {
                ck_syn_div(cx, &gv::<E>(r, len), a, b);
                ck_syn_div(cx, &gshape::<E>(r, len, 2, 1), a, b);
                ck_syn_div_exact(cx, &gv::<E>(r, len - a), a, b);
            }
        }
    }
    for l in [1usize, 2, 5] {
        ck_syn_div_panics(cx, &gv::<E>(r, l), gnz::<E>(r));
    }
    // ---- syn_div_roots_in_place
    for len in [2usize, 3, 8, 9, 64, 65] {
        let mut ms = vec![1usize, 2, 3, len - 1];
        ms.retain(|m| *m < len);
        ms.sort();
        ms.dedup();
        for m in ms {
            let roots = gnzv::<E>(r, m);
            ck_syn_roots(cx, &gv::<E>(r, len), &roots);
            ck_syn_roots_exact(cx, &gv::<E>(r, len - m), &roots);
            let mut rz = roots.clone();
            rz[0] = E::ZERO;
            ck_syn_roots(cx, &gv::<E>(r, len), &rz);
            ck_syn_roots_exact(cx, &gv::<E>(r, len - m), &rz);
            let rep = vec![roots[0]; m];
            ck_syn_roots(cx, &gshape::<E>(r, len, 1, 1), &rep);
            ck_syn_roots_exact(cx, &gv::<E>(r, len - m), &rep);
        }
        ck_syn_roots_panics(cx, &gv::<E>(r, len), &gnzv::<E>(r, len));
    }
    ck_syn_roots_panics(cx, &[] as &[E], &[E::ONE]);
    // ---- poly_from_roots
    for n in (0..=9usize).chain([63, 64, 65]) {
        ck_from_roots(cx, &gv::<E>(r, n));
        if n > 0 {
            ck_from_roots(cx, &gdistinct::<E>(r, n, Some(n / 2)));
            let x = gnz::<E>(r);
            ck_from_roots(cx, &vec![x; n]);
        }
    }
    // ---- interpolate
    for n in [0usize, 1, 2, 3, 7, 8, 9, 16, 33, 64, 65] {
        let mut zs = vec![None, Some(0), Some(n / 2), Some(n.saturating_sub(1))];
        zs.dedup();
        for z in zs {
            let xs = gdistinct::<E>(r, n, z);
            ck_interp(cx, &xs, &gv::<E>(r, n));
            ck_interp(cx, &xs, &vec![E::ZERO; n]);
            ck_interp_roundtrip(cx, &gshape::<E>(r, n, 0, 0), &xs);
            ck_interp_roundtrip(cx, &gshape::<E>(r, n / 3, 0, 1), &xs);
            ck_interp_roundtrip(cx, &gshape::<E>(r, n, 2, 0), &xs);
        }
    }
    for nx in 0..4usize {
        for z in [false, true] {
            batch_case::<E, 1>(cx, r, nx, z);
            batch_case::<E, 2>(cx, r, nx, z);
            batch_case::<E, 3>(cx, r, nx, z);
            batch_case::<E, 4>(cx, r, nx, z);
            batch_case::<E, 8>(cx, r, nx, z);
        }
    }
    // ---- batch_inversion: zeros at every position
    ck_binv(cx, &[] as &[E]);
    for l in 1..=4usize {
        for mask in 0..(1u32 << l) {
            let v: Vec<E> = (0..l).map(|i| if mask >> i & 1 == 1 { E::ZERO } else { gnz::<E>(r) }).collect();
            ck_binv(cx, &v);
        }
    }
    for z in 0..8usize {
        let mut v = gnzv::<E>(r, 8);
        v[z] = E::ZERO;
        ck_binv(cx, &v);
    }
    {
        let mut v = gnzv::<E>(r, 8);
        v[0] = E::ZERO;
        v[7] = E::ZERO;
        ck_binv(cx, &v);
        v[3] = E::ONE;
        v[4] = E::ZERO - E::ONE;
        ck_binv(cx, &v);
    }
    for &l in FSZ.iter().chain(FLONG.iter()) {
        if l == 0 {
            continue;
        }
        ck_binv(cx, &gnzv::<E>(r, l));
        ck_binv(cx, &vec![E::ZERO; l]);
        for pos in [0, l - 1, r.below(l as u64) as usize] {
            let mut v = gnzv::<E>(r, l);
            v[pos] = E::ZERO;
            ck_binv(cx, &v);
        }
        let mut v = gnzv::<E>(r, l);
        v[0] = E::ZERO;
        v[l - 1] = E::ZERO;
        ck_binv(cx, &v);
    }
}

/// one random round: every identity once on fresh inputs (sizes <= 24, occasionally 64..65)
fn round<E: Gen>(cx: &mut Cx, r: &mut Rng, k: usize) {
    let big = r.chance(1, 16);
    let sz = |r: &mut Rng| if big { 64 + r.below(2) as usize } else { r.below(25) as usize };
    // eval / eval_many / degree / add / sub / mul_by_scalar / in-place
    let l = sz(r);
    let p = grshape::<E>(r, l);
    ck_eval(cx, &p, E::gen(r));
    let nxs = r.below(9) as usize;
    ck_eval_many(cx, &p, &gv::<E>(r, nxs));
    ck_degree(cx, &p);
    let lb = if r.chance(1, 2) { l } else { sz(r) };
    let b = grshape::<E>(r, lb);
    ck_addsub(cx, &p, &b, E::gen(r));
    ck_inplace(cx, &p, &b, E::gen(r));
    // mul
    let (la, lb) = (sz(r), sz(r));
    ck_mul(cx, &grshape::<E>(r, la), &grshape::<E>(r, lb), E::gen(r));
    // div
    let da = sz(r);
    let db = r.below(da as u64 + 1) as usize;
    let (pa, pb) = (r.below(3) as usize, r.below(3) as usize);
    div_case::<E>(cx, r, da, db, pa, pb);
    let lp = sz(r);
    ck_div_panics(cx, &grshape::<E>(r, lp), gnz::<E>(r));
    // syn_div
    let len = 2 + sz(r);
    let a = 1 + r.below(7.min(len as u64 - 1)) as usize;
    let bb = if r.chance(1, 4) { E::ONE } else { gnz::<E>(r) };
    ck_syn_div(cx, &grshape::<E>(r, len), a, bb);
    ck_syn_div_exact(cx, &gv::<E>(r, len - a), a, bb);
    let lp = 1 + r.below(6) as usize;
    ck_syn_div_panics(cx, &gv::<E>(r, lp), gnz::<E>(r));
    // syn_div_roots_in_place
    let len = 2 + sz(r);
    let m = 1 + r.below(len as u64 - 1) as usize;
    let roots = if r.chance(1, 4) { gv::<E>(r, m) } else { gnzv::<E>(r, m) };
    ck_syn_roots(cx, &grshape::<E>(r, len), &roots);
    ck_syn_roots_exact(cx, &gv::<E>(r, len - m), &roots);
    let extra = r.below(2) as usize;
    ck_syn_roots_panics(cx, &gv::<E>(r, m), &gnzv::<E>(r, m + extra));
    // poly_from_roots
    let n = sz(r);
    ck_from_roots(cx, &gv::<E>(r, n));
    // interpolate
    let n = sz(r);
    let z = if r.chance(1, 3) { Some(r.below(n.max(1) as u64) as usize) } else { None };
    let xs = gdistinct::<E>(r, n, z);
    ck_interp(cx, &xs, &gv::<E>(r, n));
    let lp = r.below(n as u64 + 1) as usize;
    ck_interp_roundtrip(cx, &grshape::<E>(r, lp), &xs);
    let nx = r.below(4) as usize;
    let wz = r.chance(1, 3);
    match k % 5 {
        0 => batch_case::<E, 1>(cx, r, nx, wz),
        1 => batch_case::<E, 2>(cx, r, nx, wz),
        2 => batch_case::<E, 3>(cx, r, nx, wz),
        3 => batch_case::<E, 4>(cx, r, nx, wz),
        _ => batch_case::<E, 8>(cx, r, nx, wz),
    }
    // power series
    let n = sz(r);
    ck_pow(cx, E::gen(r), E::gen(r), n);
    // batch inversion
    let n = sz(r);
    let mut v = gnzv::<E>(r, n);
    for x in v.iter_mut() {
        if r.chance(1, 5) {
            *x = E::ZERO;
        }
    }
    ck_binv(cx, &v);
}

fn mixed<B, E>(cx: &mut Cx, r: &mut Rng, n: usize)
where
    B: Gen,
    E: Gen + FieldElement<BaseField = B::BaseField> + From<B> + ExtensionOf<B>,
{
    for &l in FSZ.iter().chain(FLONG.iter()) {
        let p = gshape::<B>(r, l, l % 3, l % 2);
        let xs = [E::ZERO, E::ONE, E::gen(r), E::from(B::gen(r))];
        for c in [E::ZERO, E::ONE, E::gen(r)] {
            ck_mixed::<B, E>(cx, &p, &xs, &gv::<E>(r, l), &gv::<B>(r, l), c);
        }
        ck_mixed::<B, E>(cx, &p, &xs, &gv::<E>(r, l), &gv::<B>(r, l + 1), E::ONE);
    }
    for _ in 0..n {
        let l = r.below(25) as usize;
        let l2 = r.below(25) as usize;
        let lb = if r.chance(1, 8) { l2 + 1 } else { l2 };
        let nxs = r.below(5) as usize;
        ck_mixed::<B, E>(cx, &grshape::<B>(r, l), &gv::<E>(r, nxs), &gv::<E>(r, l2), &gv::<B>(r, lb), E::gen(r));
    }
}

fn falsify(seed: u64, n: usize) {
    let (evals, fails) = watchdog::run(
        std::time::Duration::from_secs(10),
        move |prog| {
            let mut r = Rng::new(seed);
            let mut tot = (0usize, 0usize);
            macro_rules! field {
                ($e:ty) => {{
                    let mut cx = Cx { field: <$e as Gen>::NAME, evals: 0, fails: 0, printed: BTreeMap::new(), prog: prog.clone() };
                    boundary_f::<$e>(&mut cx, &mut r);
                    for k in 0..n {
                        round::<$e>(&mut cx, &mut r, k);
                    }
                    tot.0 += cx.evals;
                    tot.1 += cx.fails;
                }};
            }
            macro_rules! mixed_pair {
                ($b:ty, $e:ty, $name:expr) => {{
                    let mut cx = Cx { field: $name, evals: 0, fails: 0, printed: BTreeMap::new(), prog: prog.clone() };
                    mixed::<$b, $e>(&mut cx, &mut r, n);
                    tot.0 += cx.evals;
                    tot.1 += cx.fails;
                }};
            }
            field!(f64::BaseElement);
            field!(f62::BaseElement);
            field!(f128::BaseElement);
            field!(QuadExtension<f64::BaseElement>);
            field!(QuadExtension<f62::BaseElement>);
            field!(QuadExtension<f128::BaseElement>);
            field!(CubeExtension<f64::BaseElement>);
            field!(CubeExtension<f62::BaseElement>);
            mixed_pair!(f64::BaseElement, QuadExtension<f64::BaseElement>, "f64->quad<f64>");
            mixed_pair!(f62::BaseElement, QuadExtension<f62::BaseElement>, "f62->quad<f62>");
            mixed_pair!(f128::BaseElement, QuadExtension<f128::BaseElement>, "f128->quad<f128>");
            mixed_pair!(f64::BaseElement, CubeExtension<f64::BaseElement>, "f64->cube<f64>");
            mixed_pair!(f62::BaseElement, CubeExtension<f62::BaseElement>, "f62->cube<f62>");
            tot
        },
        |cur| {
            println!(
                "{{\"field\":\"?\",\"what\":\"operation does not terminate (no progress for 10 s)\",\"input\":{},\"expected\":\"returns\",\"actual\":\"hang\"}}",
                jstr(&cur)
            );
        },
    );
    eprintln!("evaluations={} failures={}", evals, fails);
}

fn main() {
    silence_panics();
    let args: Vec<String> = std::env::args().collect();
    let mode = args.get(1).map(|s| s.as_str()).unwrap_or("corr");
    let seed: u64 = args.get(2).and_then(|s| s.parse().ok()).unwrap_or(1);
    let n: usize = args.get(3).and_then(|s| s.parse().ok()).unwrap_or(1000);
    match mode {
        "corr" => corr(seed, n),
        "falsify" => falsify(seed, n),
        _ => {
            eprintln!("usage: c20 corr|falsify <seed> <n>");
            std::process::exit(2);
        }
    }
}
