//! C18 harness: security estimate and acceptance policy.
//!   c18 selfcheck                       -> "selfcheck ok" (hand-built context bytes == Context::new(..).to_bytes())
//!   c18 corr-full <tracelog> <cr>       -> all queries 1..255 x blowup {2..128} x grinding 0..32 x degree {1,2,3} x
//!                                          field {f62,f64,f128} (530145 lines) "conj ... => <level|panic>"
//!   c18 corr <seed> <n>                 -> mixed stream: conj (boundary, hostile contexts), bits, proven, verify decisions
//!   c18 falsify <seed> <n>              -> JSON lines, one per property failure found with the independent oracles
//!   c18 replay <what>                   -> prints the outcome of one of the recorded defect inputs
//! Case-line formats (all integers decimal, byte strings hex little-endian):
//!   conj   <modhex> <tracelog> <q> <b> <g> <deg> <cr>
//!   proven <modhex> <tracelog> <q> <b> <g> <deg> <cr>
//!   bits   <modhex>
//!   verify <air> <cr> <modhex> <tracelog> <q> <b> <g> <deg> <fold> <rem> <rest> conj <l>
//!   verify ...                                                          <rest> proven <l>
//!   verify ...                                                          <rest> set <k> (<q> <b> <g> <deg> <fold> <rem>)*k
use std::marker::PhantomData;
use std::panic::AssertUnwindSafe;

use wf_harness::{catch, hex_bytes, jstr, prng::Rng, silence_panics};
use winter_air::proof::Context;
use winterfell::{
    crypto::{
        hashers::{Blake3_192, Blake3_256},
        DefaultRandomCoin, ElementHasher, Hasher,
    },
    math::{
        fields::{f128, f62, f64},
        ExtensibleField, FieldElement, StarkField, ToElements,
    },
    matrix::ColMatrix,
    verify, AcceptableOptions, Air, AirContext, Assertion, AuxRandElements, ConstraintCompositionCoefficients,
    DefaultConstraintEvaluator, DefaultTraceLde, Deserializable, EvaluationFrame, FieldExtension, Proof, ProofOptions,
    Prover, Serializable, StarkDomain, Trace, TraceInfo, TracePolyTable, TraceTable, TransitionConstraintDegree,
    VerifierError,
};

// ------------------------------------------------------------------------------------------------ parameters
#[derive(Clone, Copy, Debug, PartialEq, Eq)]
struct P {
    q: usize,
    b: usize,
    g: u32,
    deg: u32,
    fold: usize,
    rem: usize,
}

impl P {
    fn new(q: usize, b: usize, g: u32, deg: u32) -> P {
        P { q, b, g, deg, fold: 8, rem: 127 }
    }
    fn show(&self) -> String {
        format!("{} {} {} {} {} {}", self.q, self.b, self.g, self.deg, self.fold, self.rem)
    }
}

fn ext(deg: u32) -> FieldExtension {
    match deg {
        1 => FieldExtension::None,
        2 => FieldExtension::Quadratic,
        _ => FieldExtension::Cubic,
    }
}

fn opts(p: &P) -> ProofOptions {
    ProofOptions::new(p.q, p.b, p.g, ext(p.deg), p.fold, p.rem)
}

const BLOWUPS: [usize; 7] = [2, 4, 8, 16, 32, 64, 128];

#[derive(Clone, Copy, PartialEq, Eq, Debug)]
enum Fld {
    F62,
    F64,
    F128,
}
const FIELDS: [Fld; 3] = [Fld::F62, Fld::F64, Fld::F128];

impl Fld {
    fn name(self) -> &'static str {
        match self {
            Fld::F62 => "f62",
            Fld::F64 => "f64",
            Fld::F128 => "f128",
        }
    }
    fn modulus(self) -> Vec<u8> {
        match self {
            Fld::F62 => f62::BaseElement::get_modulus_le_bytes(),
            Fld::F64 => f64::BaseElement::get_modulus_le_bytes(),
            Fld::F128 => f128::BaseElement::get_modulus_le_bytes(),
        }
    }
    /// number of bits of the modulus, from the literal constants (independent of Context::num_modulus_bits)
    fn bits(self) -> u32 {
        match self {
            Fld::F62 => 62,
            Fld::F64 => 64,
            Fld::F128 => 128,
        }
    }
}

// ------------------------------------------------------------------------------------------------ contexts
/// Serialised Context: TraceInfo (main width 1, aux width 0, aux rands 0, log2 length, u16 meta length 0),
/// modulus length + bytes, six option bytes.
fn ctx_bytes(modulus: &[u8], tracelog: u8, p: &P) -> Vec<u8> {
    let mut v = vec![1u8, 0, 0, tracelog, 0, 0];
    v.push(modulus.len() as u8);
    v.extend_from_slice(modulus);
    v.extend_from_slice(&[p.q as u8, p.b as u8, p.g as u8, p.deg as u8, p.fold as u8, p.rem as u8]);
    v
}

fn ctx_read(modulus: &[u8], tracelog: u8, p: &P) -> Result<Context, String> {
    let bytes = ctx_bytes(modulus, tracelog, p);
    match catch(AssertUnwindSafe(|| Context::read_from_bytes(&bytes))) {
        Ok(Ok(c)) => Ok(c),
        Ok(Err(e)) => Err(format!("deser:{e}")),
        Err(m) => Err(format!("panic:{m}")),
    }
}

/// context over the given field; Context::new when it accepts the sizes, the byte route otherwise
fn ctx_for(f: Fld, tracelog: u8, p: &P) -> Result<Context, String> {
    if (tracelog as u32) + p.b.trailing_zeros() < 32 && tracelog < 32 {
        let ti = TraceInfo::new(1, 1usize << tracelog);
        let o = opts(p);
        Ok(match f {
            Fld::F62 => Context::new::<f62::BaseElement>(ti, o),
            Fld::F64 => Context::new::<f64::BaseElement>(ti, o),
            Fld::F128 => Context::new::<f128::BaseElement>(ti, o),
        })
    } else {
        ctx_read(&f.modulus(), tracelog, p)
    }
}

fn selfcheck() -> Result<(), String> {
    for f in FIELDS {
        for (tl, p) in [(10u8, P::new(30, 8, 20, 1)), (3, P { q: 1, b: 2, g: 0, deg: 3, fold: 2, rem: 0 }), (20, P { q: 255, b: 128, g: 32, deg: 2, fold: 16, rem: 255 })] {
            let a = ctx_for(f, tl, &p)?.to_bytes();
            let b = ctx_bytes(&f.modulus(), tl, &p);
            if a != b {
                return Err(format!("context layout changed: {} vs {}", hex_bytes(&a), hex_bytes(&b)));
            }
            let c = ctx_read(&f.modulus(), tl, &p)?;
            if c != ctx_for(f, tl, &p)? {
                return Err("context byte route differs from Context::new".into());
            }
        }
    }
    Ok(())
}

// ------------------------------------------------------------------------------------------------ hashers with a chosen collision resistance
struct CrH<const CR: u32>;
type Inner = Blake3_256<f64::BaseElement>;
impl<const CR: u32> Hasher for CrH<CR> {
    type Digest = <Inner as Hasher>::Digest;
    const COLLISION_RESISTANCE: u32 = CR;
    fn hash(bytes: &[u8]) -> Self::Digest {
        Inner::hash(bytes)
    }
    fn merge(values: &[Self::Digest; 2]) -> Self::Digest {
        Inner::merge(values)
    }
    fn merge_with_int(seed: Self::Digest, value: u64) -> Self::Digest {
        Inner::merge_with_int(seed, value)
    }
}

macro_rules! cr_dispatch {
    ($p:expr, $conj:expr, $cr:expr, [$($v:literal),*]) => {
        match $cr { $( $v => $p.security_level::<CrH<$v>>($conj), )* other => panic!("harness: unsupported CR {other}") }
    };
}

const CRS_EXTRA: [u32; 9] = [0, 1, 32, 64, 80, 160, 255, 256, 4294967295];

fn level_raw(p: &Proof, conj: bool, cr: u32) -> u32 {
    cr_dispatch!(p, conj, cr, [96, 97, 98, 99, 100, 101, 102, 103, 104, 105, 106, 107, 108, 109, 110, 111, 112, 113, 114, 115, 116,
        117, 118, 119, 120, 121, 122, 123, 124, 125, 126, 127, 128, 0, 1, 32, 64, 80, 160, 255, 256, 4294967295])
}

fn level(p: &Proof, conj: bool, cr: u32) -> Result<u32, String> {
    catch(AssertUnwindSafe(|| level_raw(p, conj, cr)))
}

fn show_level(r: &Result<u32, String>) -> String {
    match r {
        Ok(v) => v.to_string(),
        Err(_) => "panic".into(),
    }
}

// ------------------------------------------------------------------------------------------------ independent oracle (documented formula)
/// min(min(field_size_bits*degree - log2(lde), queries*log2(blowup) [+ grinding iff that product >= 80]) - 1, cr),
/// over unbounded integers; a level is a number of bits, so negative values mean 0.
fn oracle_conj(bits: u32, deg: u32, tracelog: u32, q: u32, blowup: u32, g: u32, cr: u32) -> i128 {
    let lb = (blowup as f64).log2().round() as i128; // blowup is a power of two: exact
    let field_sec = bits as i128 * deg as i128 - (tracelog as i128 + lb);
    let mut query_sec = q as i128 * lb;
    if query_sec >= 80 {
        query_sec += g as i128;
    }
    let m = if field_sec < query_sec { field_sec } else { query_sec } - 1;
    let m = if m < cr as i128 { m } else { cr as i128 };
    if m < 0 {
        0
    } else {
        m
    }
}

/// number of bits of a little-endian byte string, computed through u8 digits of a big integer
fn oracle_bits(bytes: &[u8]) -> u32 {
    let mut n = 0u32;
    for (i, &b) in bytes.iter().enumerate() {
        for k in 0..8 {
            if (b >> k) & 1 == 1 {
                n = (i as u32) * 8 + k + 1;
            }
        }
    }
    n
}

// ------------------------------------------------------------------------------------------------ a tiny AIR (x' = x^2 + 42), generic over field and hasher
#[derive(Clone)]
struct PubIn<B: StarkField> {
    start: B,
    result: B,
}
impl<B: StarkField> ToElements<B> for PubIn<B> {
    fn to_elements(&self) -> Vec<B> {
        vec![self.start, self.result]
    }
}
struct WorkAir<B: StarkField> {
    context: AirContext<B>,
    start: B,
    result: B,
}
impl<B: StarkField + ExtensibleField<2> + ExtensibleField<3>> Air for WorkAir<B> {
    type BaseField = B;
    type PublicInputs = PubIn<B>;
    type GkrProof = ();
    type GkrVerifier = ();
    fn new(trace_info: TraceInfo, pub_inputs: PubIn<B>, options: ProofOptions) -> Self {
        let degrees = vec![TransitionConstraintDegree::new(2)];
        WorkAir { context: AirContext::new(trace_info, degrees, 2, options), start: pub_inputs.start, result: pub_inputs.result }
    }
    fn evaluate_transition<E: FieldElement + From<B>>(&self, frame: &EvaluationFrame<E>, _p: &[E], result: &mut [E]) {
        let cur = frame.current()[0];
        result[0] = frame.next()[0] - (cur * cur + E::from(42u32));
    }
    fn get_assertions(&self) -> Vec<Assertion<B>> {
        let last = self.trace_length() - 1;
        vec![Assertion::single(0, 0, self.start), Assertion::single(0, last, self.result)]
    }
    fn context(&self) -> &AirContext<B> {
        &self.context
    }
}

struct WorkProver<B, H> {
    options: ProofOptions,
    _p: PhantomData<(B, H)>,
}
impl<B, H> Prover for WorkProver<B, H>
where
    B: StarkField + ExtensibleField<2> + ExtensibleField<3> + 'static,
    H: ElementHasher<BaseField = B> + Send + Sync + 'static,
{
    type BaseField = B;
    type Air = WorkAir<B>;
    type Trace = TraceTable<B>;
    type HashFn = H;
    type RandomCoin = DefaultRandomCoin<H>;
    type TraceLde<E: FieldElement<BaseField = B>> = DefaultTraceLde<E, H>;
    type ConstraintEvaluator<'a, E: FieldElement<BaseField = B>> = DefaultConstraintEvaluator<'a, WorkAir<B>, E>;
    fn get_pub_inputs(&self, trace: &Self::Trace) -> PubIn<B> {
        PubIn { start: trace.get(0, 0), result: trace.get(0, trace.length() - 1) }
    }
    fn options(&self) -> &ProofOptions {
        &self.options
    }
    fn new_trace_lde<E: FieldElement<BaseField = B>>(&self, trace_info: &TraceInfo, main_trace: &ColMatrix<B>, domain: &StarkDomain<B>) -> (Self::TraceLde<E>, TracePolyTable<E>) {
        DefaultTraceLde::new(trace_info, main_trace, domain)
    }
    fn new_evaluator<'a, E: FieldElement<BaseField = B>>(&self, air: &'a WorkAir<B>, aux: Option<AuxRandElements<E>>, cc: ConstraintCompositionCoefficients<E>) -> Self::ConstraintEvaluator<'a, E> {
        DefaultConstraintEvaluator::new(air, aux, cc)
    }
}

fn build_trace<B: StarkField>(start: u32, n: usize) -> TraceTable<B> {
    let mut trace = TraceTable::new(1, n);
    trace.fill(|s| s[0] = B::from(start), |_, s| s[0] = s[0] * s[0] + B::from(42u32));
    trace
}

/// a real proof together with what is needed to verify it
struct Real<B: StarkField> {
    proof: Proof,
    pubin: PubIn<B>,
    p: P,
    tracelog: u8,
}

fn prove_one<B, H>(p: &P, tracelog: u8) -> Option<Real<B>>
where
    B: StarkField + ExtensibleField<2> + ExtensibleField<3> + 'static,
    H: ElementHasher<BaseField = B> + Send + Sync + 'static,
{
    let pp = *p;
    let r = catch(AssertUnwindSafe(move || {
        let trace = build_trace::<B>(3, 1usize << tracelog);
        let prover = WorkProver::<B, H> { options: opts(&pp), _p: PhantomData };
        let pubin = prover.get_pub_inputs(&trace);
        prover.prove(trace).ok().map(|proof| (proof, pubin))
    }));
    match r {
        Ok(Some((proof, pubin))) => Some(Real { proof, pubin, p: *p, tracelog }),
        _ => None,
    }
}

#[derive(Clone)]
enum Mode {
    Conj(u32),
    Proven(u32),
    Set(Vec<P>),
}
impl Mode {
    fn to_acceptable(&self) -> AcceptableOptions {
        match self {
            Mode::Conj(l) => AcceptableOptions::MinConjecturedSecurity(*l),
            Mode::Proven(l) => AcceptableOptions::MinProvenSecurity(*l),
            Mode::Set(v) => AcceptableOptions::OptionSet(v.iter().map(opts).collect()),
        }
    }
    fn show(&self) -> String {
        match self {
            Mode::Conj(l) => format!("conj {l}"),
            Mode::Proven(l) => format!("proven {l}"),
            Mode::Set(v) => format!("set {}{}", v.len(), v.iter().map(|p| format!(" {}", p.show())).collect::<String>()),
        }
    }
}

fn canon(r: Result<Result<(), VerifierError>, String>) -> String {
    match r {
        Err(_) => "panic".into(),
        Ok(Ok(())) => "ok".into(),
        Ok(Err(e)) => match e {
            VerifierError::InconsistentBaseField => "err:InconsistentBaseField".into(),
            VerifierError::InsufficientConjecturedSecurity(a, b) => format!("err:InsufficientConjecturedSecurity({a},{b})"),
            VerifierError::InsufficientProvenSecurity(a, b) => format!("err:InsufficientProvenSecurity({a},{b})"),
            VerifierError::UnacceptableProofOptions => "err:UnacceptableProofOptions".into(),
            VerifierError::UnsupportedFieldExtension(d) => format!("err:UnsupportedFieldExtension({d})"),
            _ => "err:other".into(),
        },
    }
}

fn run_verify<B, H>(proof: Proof, pubin: &PubIn<B>, mode: &Mode) -> String
where
    B: StarkField + ExtensibleField<2> + ExtensibleField<3> + 'static,
    H: ElementHasher<BaseField = B> + Send + Sync + 'static,
{
    let acc = mode.to_acceptable();
    let pi = pubin.clone();
    canon(catch(AssertUnwindSafe(move || verify::<WorkAir<B>, H, DefaultRandomCoin<H>>(proof, pi, &acc))))
}

// ------------------------------------------------------------------------------------------------ case generators
fn gen_p(r: &mut Rng) -> P {
    let q = match r.below(6) {
        0 => *r.pick(&[1usize, 2, 11, 12, 13, 19, 20, 26, 27, 39, 40, 41, 79, 80, 81, 254, 255]),
        _ => 1 + r.below(255) as usize,
    };
    let b = *r.pick(&BLOWUPS);
    let g = match r.below(4) {
        0 => *r.pick(&[0u32, 1, 16, 31, 32]),
        _ => r.below(33) as u32,
    };
    P { q, b, g, deg: 1 + r.below(3) as u32, fold: *r.pick(&[2usize, 4, 8, 16]), rem: *r.pick(&[0usize, 1, 3, 7, 15, 31, 63, 127, 255]) }
}

/// options whose query security sits next to the grinding threshold (q*log2(b) in 77..83)
fn gen_p_threshold(r: &mut Rng) -> P {
    let mut p = gen_p(r);
    let lb = p.b.trailing_zeros() as i64;
    let target = 80 + r.below(7) as i64 - 3;
    let q = ((target + lb - 1) / lb).clamp(1, 255);
    p.q = q as usize;
    if p.g == 0 {
        p.g = 1 + r.below(32) as u32;
    }
    p
}

fn gen_cr(r: &mut Rng) -> u32 {
    match r.below(8) {
        0 => *r.pick(&CRS_EXTRA),
        1 => *r.pick(&[96u32, 128, 124]),
        _ => 96 + r.below(33) as u32,
    }
}

fn gen_modulus(r: &mut Rng) -> Vec<u8> {
    match r.below(10) {
        0..=2 => r.pick(&FIELDS).modulus(),
        3 => vec![0u8; 1 + r.below(20) as usize],
        4 => {
            // leading zero bytes above a small value
            let k = 1 + r.below(6) as usize;
            let mut v = r.bytes(k);
            let z = r.below(12) as usize;
            v.extend(vec![0u8; z]);
            v
        }
        5 => vec![1u8 << r.below(8)],
        6 => {
            let k = 1 + r.below(40) as usize;
            r.bytes(k)
        }
        7 => {
            let k = *r.pick(&[7usize, 8, 9, 14, 15, 16, 17, 30, 31, 32, 33]);
            let mut v = r.bytes(k);
            let l = v.len();
            v[l - 1] = *r.pick(&[0u8, 1, 0x3f, 0x40, 0x7f, 0x80, 0xff]);
            v
        }
        8 => {
            let k = *r.pick(&[100usize, 200, 254, 255]);
            r.bytes(k)
        }
        _ => {
            let mut v = r.pick(&FIELDS).modulus();
            let i = r.below(v.len() as u64) as usize;
            v[i] ^= 1 << r.below(8);
            v
        }
    }
}

fn gen_tracelog(r: &mut Rng) -> u8 {
    match r.below(10) {
        0 => *r.pick(&[3u8, 4, 24, 25, 31, 32]),
        1 => *r.pick(&[33u8, 39, 54, 55, 56, 57, 62, 63]),
        2 => 3 + r.below(61) as u8,
        _ => 3 + r.below(30) as u8,
    }
}

fn dummy_with(ctx: Context) -> Proof {
    let mut p = Proof::new_dummy();
    p.context = ctx;
    p
}

fn corr_level_line(kind: &str, modulus: &[u8], tracelog: u8, p: &P, cr: u32) -> Option<String> {
    let ctx = ctx_read(modulus, tracelog, p).ok()?;
    let proof = dummy_with(ctx);
    let r = level(&proof, kind == "conj", cr);
    Some(format!("{kind} {} {} {} {} {} {} {} => {}", hex_bytes(modulus), tracelog, p.q, p.b, p.g, p.deg, cr, show_level(&r)))
}

fn corr_full(tracelog: u8, cr: u32) {
    let mut out = String::with_capacity(64 << 20);
    let mut proof = Proof::new_dummy();
    for f in FIELDS {
        let mh = hex_bytes(&f.modulus());
        for deg in 1..=3u32 {
            for b in BLOWUPS {
                for g in 0..=32u32 {
                    for q in 1..=255usize {
                        let p = P::new(q, b, g, deg);
                        // the readers refuse an LDE domain above u32::MAX (fix 7d87ad7 ff.): such a context cannot exist
                        let Ok(c) = ctx_for(f, tracelog, &p) else { continue };
                        proof.context = c;
                        let r = level(&proof, true, cr);
                        out.push_str(&format!("conj {} {} {} {} {} {} {} => {}\n", mh, tracelog, q, b, g, deg, cr, show_level(&r)));
                    }
                }
            }
        }
    }
    print!("{out}");
}

// ---- real proof pool ---------------------------------------------------------------------------
struct Pool {
    f64_256: Vec<Real<f64::BaseElement>>,
    f64_192: Vec<Real<f64::BaseElement>>,
    f128_256: Vec<Real<f128::BaseElement>>,
    f128_192: Vec<Real<f128::BaseElement>>,
}

fn pool_options(r: &mut Rng, n: usize, degs: &[u32]) -> Vec<(P, u8)> {
    // small but varied: levels on both sides of typical minima, threshold-straddling query security, each extension degree
    let mut v = vec![
        (P { q: 1, b: 2, g: 0, deg: degs[0], fold: 2, rem: 0 }, 3u8),
        (P { q: 27, b: 8, g: 8, deg: *degs.last().unwrap(), fold: 4, rem: 7 }, 4),
        (P { q: 26, b: 8, g: 8, deg: *degs.last().unwrap(), fold: 4, rem: 7 }, 4),
        (P { q: 40, b: 4, g: 5, deg: degs[degs.len() / 2], fold: 8, rem: 31 }, 5),
        (P { q: 39, b: 4, g: 5, deg: degs[degs.len() / 2], fold: 8, rem: 31 }, 5),
        (P { q: 20, b: 16, g: 10, deg: *degs.last().unwrap(), fold: 2, rem: 3 }, 3),
    ];
    while v.len() < n {
        let mut p = if r.chance(1, 2) { gen_p_threshold(r) } else { gen_p(r) };
        p.q = p.q.min(60);
        p.b = p.b.min(32);
        p.g = p.g.min(8).max(if r.chance(1, 2) { 0 } else { 1 });
        p.deg = *r.pick(degs);
        v.push((p, 3 + r.below(4) as u8));
    }
    v.truncate(n);
    v
}

fn build_pool(r: &mut Rng, n: usize) -> Pool {
    let o64 = pool_options(r, n, &[1, 2, 3]);
    let o128 = pool_options(r, n, &[1, 2]);
    Pool {
        f64_256: o64.iter().filter_map(|(p, t)| prove_one::<f64::BaseElement, Blake3_256<f64::BaseElement>>(p, *t)).collect(),
        f64_192: o64.iter().take(n / 2 + 1).filter_map(|(p, t)| prove_one::<f64::BaseElement, Blake3_192<f64::BaseElement>>(p, *t)).collect(),
        f128_256: o128.iter().filter_map(|(p, t)| prove_one::<f128::BaseElement, Blake3_256<f128::BaseElement>>(p, *t)).collect(),
        f128_192: o128.iter().take(n / 2 + 1).filter_map(|(p, t)| prove_one::<f128::BaseElement, Blake3_192<f128::BaseElement>>(p, *t)).collect(),
    }
}

/// modes around the given levels
fn modes_for(r: &mut Rng, conj: u32, proven: u32, p: &P) -> Vec<Mode> {
    let mut v = vec![];
    for l in [0u32, conj.saturating_sub(1), conj, conj + 1, conj + 2, u32::MAX] {
        v.push(Mode::Conj(l));
    }
    for l in [0u32, proven.saturating_sub(1), proven, proven + 1, u32::MAX] {
        v.push(Mode::Proven(l));
    }
    v.push(Mode::Conj(r.below(140) as u32));
    v.push(Mode::Proven(r.below(140) as u32));
    // option sets: empty, exact, others, exact among others, one field off each
    let other = gen_p(r);
    v.push(Mode::Set(vec![]));
    v.push(Mode::Set(vec![*p]));
    v.push(Mode::Set(vec![other]));
    v.push(Mode::Set(vec![other, gen_p(r), *p]));
    v.push(Mode::Set(vec![*p, other]));
    let mut offs = vec![];
    let mut a = *p;
    a.q = if p.q == 255 { 254 } else { p.q + 1 };
    offs.push(a);
    let mut a = *p;
    a.b = if p.b == 128 { 64 } else { p.b * 2 };
    offs.push(a);
    let mut a = *p;
    a.g = if p.g == 32 { 31 } else { p.g + 1 };
    offs.push(a);
    let mut a = *p;
    a.deg = p.deg % 3 + 1;
    offs.push(a);
    let mut a = *p;
    a.fold = if p.fold == 16 { 8 } else { p.fold * 2 };
    offs.push(a);
    let mut a = *p;
    a.rem = if p.rem == 255 { 127 } else { p.rem * 2 + 1 };
    offs.push(a);
    for o in &offs {
        v.push(Mode::Set(vec![*o]));
    }
    v.push(Mode::Set(offs));
    v
}

/// contexts to put into a real proof: the original, tampered options, other fields, hostile moduli
fn tampered(r: &mut Rng, f: Fld, real_p: &P, tracelog: u8) -> Vec<(Vec<u8>, u8, P, &'static str)> {
    let m = f.modulus();
    let mut v = vec![(m.clone(), tracelog, *real_p, "ok")];
    // tampered options (same field): the remainder of verification decides; queries / grinding / degree only
    let mut a = *real_p;
    a.q = if a.q > 1 { a.q - 1 } else { a.q + 1 };
    v.push((m.clone(), tracelog, a, "unknown"));
    let mut a = *real_p;
    a.g = if a.g > 0 { a.g - 1 } else { 1 };
    v.push((m.clone(), tracelog, a, "unknown"));
    let mut a = *real_p;
    a.q = (a.q + 1 + r.below(40) as usize).min(255);
    v.push((m.clone(), tracelog, a, "unknown"));
    // tampered extension degree: cubic is not supported over f128 (UnsupportedFieldExtension before the channel is built)
    for d in 1..=3u32 {
        if d != real_p.deg {
            let mut a = *real_p;
            a.deg = d;
            v.push((m.clone(), tracelog, a, "unknown"));
        }
    }
    // foreign fields and hostile moduli
    for g in FIELDS {
        if g != f {
            v.push((g.modulus(), tracelog, *real_p, "unknown"));
        }
    }
    for _ in 0..4 {
        let hm = gen_modulus(r);
        if hm != m && hm.len() < 255 && !hm.is_empty() {
            v.push((hm, tracelog, *real_p, "unknown"));
        }
    }
    // same modulus with a trailing zero byte / truncated
    let mut z = m.clone();
    z.push(0);
    v.push((z, tracelog, *real_p, "unknown"));
    v.push((m[..m.len() - 1].to_vec(), tracelog, *real_p, "unknown"));
    v
}

fn verify_lines<B, H>(r: &mut Rng, f: Fld, cr: u32, pool: &[Real<B>], budget: usize, out: &mut Vec<String>)
where
    B: StarkField + ExtensibleField<2> + ExtensibleField<3> + 'static,
    H: ElementHasher<BaseField = B> + Send + Sync + 'static,
{
    let mut n = 0;
    'outer: for real in pool {
        for (modulus, tl, p, rest) in tampered(r, f, &real.p, real.tracelog) {
            let ctx = match ctx_read(&modulus, tl, &p) {
                Ok(c) => c,
                Err(_) => continue,
            };
            let mut proof = real.proof.clone();
            proof.context = ctx;
            // levels of THIS context, as the library computes them (the comparison with the model is the check)
            let conj = level(&proof, true, cr).unwrap_or(0);
            let proven = level(&proof, false, cr).unwrap_or(0);
            let mut modes = modes_for(r, conj, proven, &p);
            if modulus != f.modulus() {
                // foreign field: one mode of each kind, accepting and refusing
                modes = vec![Mode::Conj(0), Mode::Conj(conj + 1), Mode::Proven(0), Mode::Set(vec![p]), Mode::Set(vec![])];
            }
            for mode in modes {
                let res = run_verify::<B, H>(proof.clone(), &real.pubin, &mode);
                out.push(format!("verify {} {} {} {} {} {} {} => {}", f.name(), cr, hex_bytes(&modulus), tl, p.show(), rest, mode.show(), res));
                n += 1;
                if n >= budget {
                    break 'outer;
                }
            }
        }
    }
}

fn corr(seed: u64, n: usize) {
    let mut r = Rng::new(seed ^ 0xC18);
    let mut out: Vec<String> = Vec::new();
    // 1. conjectured estimate: boundary stream (threshold-straddling, each field, each degree, extreme trace lengths)
    for f in FIELDS {
        for tl in [3u8, 4, 16, 24, 31, 32] {
            for b in BLOWUPS {
                let lb = b.trailing_zeros() as usize;
                for q in [1usize, 2, (79 / lb).max(1), (80 + lb - 1) / lb, (80 + lb - 1) / lb + 1, 254, 255] {
                    for g in [0u32, 1, 32] {
                        for deg in 1..=3 {
                            for cr in [96u32, 128] {
                                if let Some(l) = corr_level_line("conj", &f.modulus(), tl, &P::new(q.min(255), b, g, deg), cr) {
                                    out.push(l);
                                }
                            }
                        }
                    }
                }
            }
        }
    }
    // 2. mostly-valid random stream, then hostile contexts (claimed moduli of any size, trace lengths up to 2^63)
    let n_conj = n;
    for i in 0..n_conj {
        let p = if i % 3 == 0 { gen_p_threshold(&mut r) } else { gen_p(&mut r) };
        let hostile = i % 4 == 3;
        let modulus = if hostile { gen_modulus(&mut r) } else { r.pick(&FIELDS).modulus() };
        let tl = if hostile { gen_tracelog(&mut r) } else { 3 + r.below(30) as u8 };
        if let Some(l) = corr_level_line("conj", &modulus, tl, &p, gen_cr(&mut r)) {
            out.push(l);
        }
    }
    // 3. num_modulus_bits on byte strings
    for i in 0..n / 4 + 50 {
        let m = if i < 3 { FIELDS[i].modulus() } else { gen_modulus(&mut r) };
        if m.is_empty() || m.len() > 254 {
            continue;
        }
        if let Ok(c) = ctx_read(&m, 10, &P::new(30, 8, 0, 1)) {
            let b = catch(AssertUnwindSafe(|| c.num_modulus_bits()));
            out.push(format!("bits {} => {}", hex_bytes(&m), show_level(&b)));
        }
    }
    // 4. proven estimate (model instantiated with OCaml floats)
    for i in 0..n / 2 {
        let p = if i % 3 == 0 { gen_p_threshold(&mut r) } else { gen_p(&mut r) };
        let f = *r.pick(&FIELDS);
        let tl = 3 + r.below(30) as u8;
        if let Some(l) = corr_level_line("proven", &f.modulus(), tl, &p, gen_cr(&mut r)) {
            out.push(l);
        }
    }
    // 5. verify(): decision order on real proofs with original / tampered / foreign contexts
    let pool = build_pool(&mut r, 6 + n / 2000);
    let vb = 400 + n / 4;
    verify_lines::<f64::BaseElement, Blake3_256<f64::BaseElement>>(&mut r, Fld::F64, 128, &pool.f64_256, vb, &mut out);
    verify_lines::<f64::BaseElement, Blake3_192<f64::BaseElement>>(&mut r, Fld::F64, 96, &pool.f64_192, vb / 2, &mut out);
    verify_lines::<f128::BaseElement, Blake3_256<f128::BaseElement>>(&mut r, Fld::F128, 128, &pool.f128_256, vb, &mut out);
    verify_lines::<f128::BaseElement, Blake3_192<f128::BaseElement>>(&mut r, Fld::F128, 96, &pool.f128_192, vb / 2, &mut out);
    println!("{}", out.join("\n"));
}

// ------------------------------------------------------------------------------------------------ falsifier
struct Fails {
    n: usize,
    evals: u64,
    per: std::collections::HashMap<String, usize>,
}
impl Fails {
    fn report(&mut self, what: &str, input: String, expected: String, actual: String) {
        // a context the deserialiser itself refuses (Err, not panic) is not an input the estimate can be asked about:
        // refusing hostile sizes at parse time is a legitimate repair (C06), not a failure of the estimate
        if actual.starts_with("panic: deser:") || actual.starts_with("deser:") {
            return;
        }
        self.n += 1;
        let k = self.per.entry(what.to_string()).or_insert(0);
        *k += 1;
        if *k <= 6 {
            println!("{{\"what\":{},\"input\":{},\"expected\":{},\"actual\":{}}}", jstr(what), jstr(&input), jstr(&expected), jstr(&actual));
        }
    }
}

fn lvl_ctx(proof: &mut Proof, ctx: Context, conj: bool, cr: u32) -> Result<u32, String> {
    proof.context = ctx;
    level(proof, conj, cr)
}

/// (a)+(b): conjectured estimate = documented formula, and is monotone, on the full grid of options for the given
/// trace lengths and collision resistances
fn falsify_conj_grid(fails: &mut Fails, tracelogs: &[u8], crs: &[u32], qstep: usize) {
    let mut proof = Proof::new_dummy();
    // table[deg-1][g][q] per (field, tracelog, cr, blowup)
    for f in FIELDS {
        for &tl in tracelogs {
            for &cr in crs {
                for b in BLOWUPS {
                    let mut tab = vec![vec![vec![0i64; 256]; 33]; 3];
                    for deg in 1..=3u32 {
                        for g in 0..=32u32 {
                            let mut q = 1usize;
                            while q <= 255 {
                                let p = P::new(q, b, g, deg);
                                let r = match ctx_for(f, tl, &p) {
                                    Ok(c) => lvl_ctx(&mut proof, c, true, cr),
                                    Err(e) => Err(e),
                                };
                                fails.evals += 1;
                                let want = oracle_conj(f.bits(), deg, tl as u32, q as u32, b as u32, g, cr);
                                let input = || format!("conjectured field={} tracelog={} q={} blowup={} grinding={} degree={} cr={}", f.name(), tl, q, b, g, deg, cr);
                                match r {
                                    Ok(v) => {
                                        tab[deg as usize - 1][g as usize][q] = v as i64;
                                        if v as i128 != want {
                                            fails.report("conjectured level differs from the documented formula", input(), want.to_string(), v.to_string());
                                        }
                                    }
                                    Err(m) => {
                                        tab[deg as usize - 1][g as usize][q] = -1;
                                        fails.report("security_level panicked", input(), want.to_string(), format!("panic: {m}"));
                                    }
                                }
                                q += qstep;
                            }
                        }
                    }
                    // monotone in queries, grinding, degree
                    for deg in 0..3 {
                        for g in 0..=32usize {
                            let mut q = 1;
                            while q <= 255 {
                                let v = tab[deg][g][q];
                                let inp = |axis: &str| format!("conjectured monotone-{} field={} tracelog={} q={} blowup={} grinding={} degree={} cr={}", axis, f.name(), tl, q, b, g, deg + 1, cr);
                                if q + qstep <= 255 && tab[deg][g][q + qstep] < v {
                                    fails.report("conjectured level decreases when queries grow", inp("queries"), format!(">= {v}"), tab[deg][g][q + qstep].to_string());
                                }
                                if g < 32 && tab[deg][g + 1][q] < v {
                                    fails.report("conjectured level decreases when grinding grows", inp("grinding"), format!(">= {v}"), tab[deg][g + 1][q].to_string());
                                }
                                if deg < 2 && tab[deg + 1][g][q] < v {
                                    fails.report("conjectured level decreases when the extension degree grows", inp("degree"), format!(">= {v}"), tab[deg + 1][g][q].to_string());
                                }
                                fails.evals += 3;
                                q += qstep;
                            }
                        }
                    }
                }
            }
        }
    }
}

/// monotonicity in the collision resistance (conjectured; all 33 values) and of the proven estimate (dense sample)
fn falsify_monotone_sampled(fails: &mut Fails, r: &mut Rng, n: usize) {
    let mut proof = Proof::new_dummy();
    for i in 0..n {
        let p = if i % 3 == 0 { gen_p_threshold(r) } else { gen_p(r) };
        let f = *r.pick(&FIELDS);
        let tl = if i % 5 == 0 { *r.pick(&[3u8, 4, 31, 32]) } else { 3 + r.below(30) as u8 };
        let cr = 96 + r.below(33) as u32;
        for conj in [true, false] {
            let base = match ctx_for(f, tl, &p) {
                Ok(c) => lvl_ctx(&mut proof, c, conj, cr),
                Err(_) => continue,
            };
            fails.evals += 1;
            let name = if conj { "conjectured" } else { "proven" };
            let base = match base {
                Ok(v) => v,
                Err(m) => {
                    fails.report("security_level panicked", format!("{name} field={} tracelog={} {} cr={}", f.name(), tl, p.show(), cr), "a level".into(), format!("panic: {m}"));
                    continue;
                }
            };
            if base > cr {
                fails.report(&format!("{name} level exceeds the hash function's collision resistance"), format!("{name} field={} tracelog={} {} cr={}", f.name(), tl, p.show(), cr), format!("<= {cr}"), base.to_string());
            }
            // bump each of the four arguments (by one, and by a random amount)
            let mut bumps: Vec<(&str, P, u32)> = vec![];
            for d in [1usize, 1 + r.below(60) as usize] {
                if p.q + d <= 255 {
                    let mut a = p;
                    a.q += d;
                    bumps.push(("queries", a, cr));
                }
            }
            for d in [1u32, 1 + r.below(16) as u32] {
                if p.g + d <= 32 {
                    let mut a = p;
                    a.g += d;
                    bumps.push(("grinding", a, cr));
                }
            }
            for d in [1u32, 2] {
                if p.deg + d <= 3 {
                    let mut a = p;
                    a.deg += d;
                    bumps.push(("degree", a, cr));
                }
            }
            for d in [1u32, 1 + r.below(32) as u32] {
                if cr + d <= 128 {
                    bumps.push(("collision-resistance", p, cr + d));
                }
            }
            for (axis, a, cr2) in bumps {
                let v = match ctx_for(f, tl, &a) {
                    Ok(c) => lvl_ctx(&mut proof, c, conj, cr2),
                    Err(_) => continue,
                };
                fails.evals += 1;
                let input = format!("{name} monotone-{axis} field={} tracelog={} from [{}] cr={} to [{}] cr={}", f.name(), tl, p.show(), cr, a.show(), cr2);
                match v {
                    Ok(v) if v >= base => {}
                    Ok(v) => fails.report(&format!("{name} level decreases when {axis} grows"), input, format!(">= {base}"), v.to_string()),
                    Err(m) => fails.report("security_level panicked", input, format!(">= {base}"), format!("panic: {m}")),
                }
            }
        }
    }
}

/// hostile contexts read from bytes: any claimed modulus, trace lengths up to 2^63: never a panic, and the level is
/// the documented formula with negative values meaning 0 bits
/// The level is capped by "the hash function's collision resistance": the published constant of every hasher must be
/// half the number of bits of its digest (generic birthday bound), computed here from the serialised digest size.
fn falsify_collision_resistance(fails: &mut Fails) {
    use winter_crypto::{hashers::{Rp62_248, Rp64_256, RpJive64_256, Sha3_256}, Hasher};
    use winter_utils::Serializable;
    fn one<H: Hasher>(name: &str, digest_bits: u32, fails: &mut Fails) {
        let d = H::hash(b"collision resistance");
        let bytes = d.to_bytes().len() as u32;
        // digests of field elements carry (modulus bits) per element, not 8 bits per byte: the caller passes the bit size
        let want = digest_bits / 2;
        fails.evals += 1;
        if H::COLLISION_RESISTANCE != want || bytes * 8 < digest_bits {
            fails.report("hasher collision resistance is not half the digest size", format!("{name}: digest {digest_bits} bits ({bytes} bytes)"),
                         want.to_string(), H::COLLISION_RESISTANCE.to_string());
        }
    }
    one::<Blake3_256<f64::BaseElement>>("Blake3_256", 256, fails);
    one::<Blake3_192<f64::BaseElement>>("Blake3_192", 192, fails);
    one::<Sha3_256<f64::BaseElement>>("Sha3_256", 256, fails);
    one::<Rp64_256>("Rp64_256", 256, fails);
    one::<RpJive64_256>("RpJive64_256", 256, fails);
    one::<Rp62_248>("Rp62_248", 248, fails);
}

fn falsify_hostile(fails: &mut Fails, r: &mut Rng, n: usize) {
    for i in 0..n {
        let p = if i % 3 == 0 { gen_p_threshold(r) } else { gen_p(r) };
        let m = if i % 2 == 0 { r.pick(&FIELDS).modulus() } else { gen_modulus(r) };
        let tl = gen_tracelog(r);
        let cr = gen_cr(r);
        let ctx = match ctx_read(&m, tl, &p) {
            Ok(c) => c,
            Err(_) => continue,
        };
        let proof = dummy_with(ctx);
        let want = oracle_conj(oracle_bits(&m), p.deg, tl as u32, p.q as u32, p.b as u32, p.g, cr);
        let input = format!("conjectured from-bytes modulus={} tracelog={} {} cr={}", hex_bytes(&m), tl, p.show(), cr);
        fails.evals += 2;
        match level(&proof, true, cr) {
            Ok(v) if v as i128 == want => {}
            Ok(v) => fails.report("conjectured level of a deserialised context differs from the documented formula", input, want.to_string(), v.to_string()),
            Err(e) => fails.report("security_level panicked on a deserialised context", input, want.to_string(), format!("panic: {e}")),
        }
        if let Err(e) = level(&proof, false, cr) {
            fails.report("security_level panicked on a deserialised context", format!("proven from-bytes modulus={} tracelog={} {} cr={}", hex_bytes(&m), tl, p.show(), cr), "a level".into(), format!("panic: {e}"));
        }
    }
}

/// the proven estimate at the points documented by the crate's own unit tests (hand-computed by its authors), reached
/// through the public API
fn falsify_proven_vectors(fails: &mut Fails) {
    let vectors: [(usize, usize, u32, u32, u8, u32); 6] = [
        (80, 4, 20, 3, 18, 97),
        (53, 8, 20, 3, 18, 97),
        (85, 8, 20, 3, 18, 128),
        (65, 16, 20, 3, 18, 128),
        (85, 8, 20, 2, 18, 67),
        (85, 8, 20, 3, 18, 128),
    ];
    let mut proof = Proof::new_dummy();
    for (q, b, g, deg, tl, want) in vectors {
        let p = P::new(q, b, g, deg);
        let r = ctx_for(Fld::F64, tl, &p).and_then(|c| lvl_ctx(&mut proof, c, false, 128));
        fails.evals += 1;
        if r != Ok(want) {
            fails.report("proven level differs from the crate's documented test vectors", format!("proven field=f64 tracelog={} {} cr=128", tl, p.show()), want.to_string(), format!("{r:?}"));
        }
    }
}

/// (c) policy on real proofs
fn falsify_policy<B, H>(fails: &mut Fails, r: &mut Rng, f: Fld, cr: u32, pool: &[Real<B>])
where
    B: StarkField + ExtensibleField<2> + ExtensibleField<3> + 'static,
    H: ElementHasher<BaseField = B> + Send + Sync + 'static,
{
    for real in pool {
        let p = real.p;
        let conj = oracle_conj(f.bits(), p.deg, real.tracelog as u32, p.q as u32, p.b as u32, p.g, cr) as u32;
        let proven = level(&real.proof, false, cr).unwrap_or(0);
        let desc = format!("air={} hasher-cr={} tracelog={} options=[{}]", f.name(), cr, real.tracelog, p.show());
        for mode in modes_for(r, conj, proven, &p) {
            let res = run_verify::<B, H>(real.proof.clone(), &real.pubin, &mode);
            fails.evals += 1;
            let accept = match &mode {
                Mode::Conj(l) => conj >= *l,
                Mode::Proven(l) => proven >= *l,
                Mode::Set(v) => v.contains(&p),
            };
            let want = if accept {
                "ok".to_string()
            } else {
                match &mode {
                    Mode::Conj(l) => format!("err:InsufficientConjecturedSecurity({l},{conj})"),
                    Mode::Proven(l) => format!("err:InsufficientProvenSecurity({l},{proven})"),
                    Mode::Set(_) => "err:UnacceptableProofOptions".into(),
                }
            };
            if res != want {
                fails.report("verify() policy decision on a valid proof", format!("{desc} mode={}", mode.show()), want, res);
            }
        }
        // foreign field: the claimed modulus differs from the AIR's field
        let mut foreign: Vec<Vec<u8>> = FIELDS.iter().filter(|g| **g != f).map(|g| g.modulus()).collect();
        for _ in 0..6 {
            let m = gen_modulus(r);
            if m != f.modulus() && !m.is_empty() && m.len() < 255 {
                foreign.push(m);
            }
        }
        let mut z = f.modulus();
        z.push(0);
        foreign.push(z);
        for m in foreign {
            let ctx = match ctx_read(&m, real.tracelog, &p) {
                Ok(c) => c,
                Err(_) => continue,
            };
            let mut proof = real.proof.clone();
            proof.context = ctx;
            for mode in [Mode::Conj(0), Mode::Proven(0), Mode::Set(vec![p]), Mode::Conj(conj), Mode::Conj(u32::MAX)] {
                let res = run_verify::<B, H>(proof.clone(), &real.pubin, &mode);
                fails.evals += 1;
                if res == "panic" {
                    fails.report("verify() panics on a proof claiming a different field modulus than the AIR's (must be refused with an error)",
                        format!("{desc} claimed-modulus={} mode={}", hex_bytes(&m), mode.show()), "err:*".into(), res);
                } else if !res.starts_with("err:") {
                    fails.report("verify() accepts a proof claiming a different field modulus than the AIR's",
                        format!("{desc} claimed-modulus={} mode={}", hex_bytes(&m), mode.show()), "err:*".into(), res);
                }
            }
        }
    }
}

fn falsify(seed: u64, n: usize) {
    let mut r = Rng::new(seed ^ 0xFA15);
    let mut fails = Fails { n: 0, evals: 0, per: Default::default() };
    if let Err(e) = selfcheck() {
        fails.report("harness selfcheck", "context layout".into(), "hand-built bytes == to_bytes".into(), e);
    }
    // grid: n < 20000 -> one rotating (tracelog, cr) pair with every option combination; larger budgets add more
    let tls_all = [3u8, 10, 18, 24, 31, 32];
    let crs_all = [96u32, 112, 124, 128];
    let k = (n / 20000).max(1);
    let mut tls = vec![tls_all[(seed as usize) % tls_all.len()]];
    let mut crs = vec![crs_all[(seed as usize / 7) % crs_all.len()]];
    if k >= 2 {
        tls = tls_all.to_vec();
    }
    if k >= 4 {
        crs = crs_all.to_vec();
    }
    falsify_conj_grid(&mut fails, &tls, &crs, 1);
    // the other grid points with a coarser query step
    if k < 2 {
        falsify_conj_grid(&mut fails, &tls_all, &[96, 128], 7);
    }
    falsify_proven_vectors(&mut fails);
    falsify_collision_resistance(&mut fails);
    falsify_monotone_sampled(&mut fails, &mut r, n);
    falsify_hostile(&mut fails, &mut r, n);
    let pool = build_pool(&mut r, 6 + n / 3000);
    falsify_policy::<f64::BaseElement, Blake3_256<f64::BaseElement>>(&mut fails, &mut r, Fld::F64, 128, &pool.f64_256);
    falsify_policy::<f64::BaseElement, Blake3_192<f64::BaseElement>>(&mut fails, &mut r, Fld::F64, 96, &pool.f64_192);
    falsify_policy::<f128::BaseElement, Blake3_256<f128::BaseElement>>(&mut fails, &mut r, Fld::F128, 128, &pool.f128_256);
    falsify_policy::<f128::BaseElement, Blake3_192<f128::BaseElement>>(&mut fails, &mut r, Fld::F128, 96, &pool.f128_192);
    let np = pool.f64_256.len() + pool.f64_192.len() + pool.f128_256.len() + pool.f128_192.len();
    println!("real_proofs={np}");
    println!("evaluations={} failures={}", fails.evals, fails.n);
}

fn replay(what: &str) {
    match what {
        "foreign-field" => {
            // a valid f64 proof whose context claims the f128 modulus
            let real = prove_one::<f64::BaseElement, Blake3_256<f64::BaseElement>>(&P { q: 27, b: 8, g: 0, deg: 1, fold: 4, rem: 7 }, 4).expect("proof");
            let mut proof = real.proof.clone();
            proof.context = ctx_read(&Fld::F128.modulus(), real.tracelog, &real.p).unwrap();
            println!("verify(f64 AIR, proof claiming the f128 modulus, MinConjecturedSecurity(0)) = {}",
                run_verify::<f64::BaseElement, Blake3_256<f64::BaseElement>>(proof, &real.pubin, &Mode::Conj(0)));
        }
        "huge-trace" => {
            for (tl, f) in [(55u8, Fld::F62), (56, Fld::F62), (57, Fld::F64), (63, Fld::F128)] {
                let p = P::new(255, 128, 32, 1);
                let proof = dummy_with(ctx_read(&f.modulus(), tl, &p).unwrap());
                println!("security_level(conjectured) field={} trace=2^{} blowup=128 q=255 g=32 cr=128: {:?} (documented formula: {})", f.name(), tl,
                    level(&proof, true, 128), oracle_conj(f.bits(), 1, tl as u32, 255, 128, 32, 128));
                println!("security_level(proven)      field={} trace=2^{}: {:?}", f.name(), tl, level(&proof, false, 128));
            }
        }
        "tiny-modulus" => {
            let p = P::new(255, 128, 32, 1);
            let proof = dummy_with(ctx_read(&[3], 10, &p).unwrap());
            println!("security_level(conjectured) claimed modulus=3 trace=2^10: {:?} (documented formula: {})", level(&proof, true, 128), oracle_conj(2, 1, 10, 255, 128, 32, 128));
        }
        _ => println!("unknown replay"),
    }
}

fn main() {
    silence_panics();
    let args: Vec<String> = std::env::args().collect();
    let num = |i: usize, d: u64| args.get(i).and_then(|s| s.parse::<u64>().ok()).unwrap_or(d);
    match args.get(1).map(|s| s.as_str()) {
        Some("selfcheck") => match selfcheck() {
            Ok(()) => println!("selfcheck ok"),
            Err(e) => {
                println!("selfcheck FAILED: {e}");
                std::process::exit(1)
            }
        },
        Some("corr-full") => corr_full(num(2, 10) as u8, num(3, 128) as u32),
        Some("corr") => corr(num(2, 1), num(3, 1000) as usize),
        Some("falsify") => falsify(num(2, 1), num(3, 1000) as usize),
        Some("replay") => replay(args.get(2).map(|s| s.as_str()).unwrap_or("")),
        _ => {
            eprintln!("usage: c18 selfcheck | corr-full <tracelog> <cr> | corr <seed> <n> | falsify <seed> <n> | replay <what>");
            std::process::exit(2)
        }
    }
}
