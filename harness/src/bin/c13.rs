//! C13 harness: streaming `ReadAdapter` versus in-memory `SliceReader`.
//!   c13 corr <seed> <n>       -> lines "<d|r> <chunks> <ops> => <results>"   (real ReadAdapter over a chunk-replaying Read)
//!   c13 falsify <seed> <n>    -> JSON lines, one per (shrunk) failure against the SliceReader oracle; "evaluations=.. failures=.."
//!   c13 replay <chunks> <ops> -> adapter, slice and cursor results for one explicit case
//!   c13 replay-err <chunks> <errs> <ops> -> one case over a source that returns io::Error at the read() calls listed in <errs>
//!
//! Coverage round: `impl ByteReader for std::io::Cursor` is a third party of the equivalence (corr lines "C<p> ..": the real Cursor
//! over the concatenated chunks positioned at p, p may exceed the length; falsifier: Cursor vs SliceReader with full error values,
//! also from a non-zero and a beyond-the-end position), and the falsifier drives ReadAdapter over sources whose read() returns
//! io::Error (kinds UnexpectedEof / Interrupted / Other) at chosen calls.  An io::Error is outside "any byte stream" of the
//! property: the required behaviour is robustness (no panic, the call reports an error of the documented kind, no byte is lost).
//!
//! Case syntax: chunks = comma-separated hex strings ("-" = an empty read), the byte stream is their concatenation;
//! ops = comma-separated: u8 pk bool u16 u32 u64 u128 usz rs<n> ra<n> rv<n> str<n> many<k>x<n> eor<n> more drain
//! (k: 0=u8 1=u16 2=u32 3=u64 4=u128 5=usize).  Results are ';'-separated: ok:<hex> | ok | t | f | err:eof | err:inv | panic.
use std::cell::Cell;
use std::io::Read;
use std::panic::AssertUnwindSafe;
use std::rc::Rc;

use wf_harness::{catch, hex_bytes, jstr, prng::Rng, silence_panics};
use winter_utils::{ByteReader, DeserializationError, ReadAdapter, SliceReader};

// ---------------------------------------------------------------- the chunk-replaying source
/// Replays a fixed list of chunks: the k-th "availability" is chunk k; a `read` returns at most `buf.len()` bytes of the
/// current chunk (the remainder stays available), an empty chunk is an empty read, and after the last chunk every read is empty.
struct ChunkRead {
    chunks: Vec<Vec<u8>>,
    idx: usize,
    off: usize,
    /// number of reads that returned 0 bytes although later chunks still hold data ("empty read before EOF")
    early_empty: Rc<Cell<usize>>,
    /// number of reads that returned 0 bytes at the true end of the stream
    eof_reads: Rc<Cell<usize>>,
    max_req: Rc<Cell<usize>>,
}

impl ChunkRead {
    fn new(chunks: &[Vec<u8>]) -> Self {
        ChunkRead { chunks: chunks.to_vec(), idx: 0, off: 0, early_empty: Rc::new(Cell::new(0)), eof_reads: Rc::new(Cell::new(0)), max_req: Rc::new(Cell::new(0)) }
    }
    fn data_left(&self) -> bool {
        self.chunks[self.idx.min(self.chunks.len())..].iter().any(|c| !c.is_empty())
    }
}

impl Read for ChunkRead {
    fn read(&mut self, buf: &mut [u8]) -> std::io::Result<usize> {
        self.max_req.set(self.max_req.get().max(buf.len()));
        if buf.is_empty() {
            return Ok(0);
        }
        if self.idx >= self.chunks.len() {
            self.eof_reads.set(self.eof_reads.get() + 1);
            return Ok(0);
        }
        let c = &self.chunks[self.idx];
        if c.is_empty() {
            self.idx += 1;
            self.off = 0;
            if self.data_left() {
                self.early_empty.set(self.early_empty.get() + 1);
            } else {
                self.eof_reads.set(self.eof_reads.get() + 1);
            }
            return Ok(0);
        }
        let n = (c.len() - self.off).min(buf.len());
        buf[..n].copy_from_slice(&c[self.off..self.off + n]);
        self.off += n;
        if self.off == c.len() {
            self.idx += 1;
            self.off = 0;
        }
        Ok(n)
    }
}

// ---------------------------------------------------------------- operations
#[derive(Clone, Debug, PartialEq)]
enum Op { U8, Peek, Bool, U16, U32, U64, U128, Usize, Slice(usize), Array(usize), Vec(usize), Str(usize), Many(u8, usize), Eor(usize), More, Drain }

const ARR: [usize; 30] = [0, 1, 2, 3, 4, 5, 7, 8, 9, 12, 15, 16, 17, 20, 24, 31, 32, 33, 48, 64, 100, 128, 200, 255, 256, 257, 258, 300, 512, 600];

impl Op {
    fn show(&self) -> String {
        match self {
            Op::U8 => "u8".into(), Op::Peek => "pk".into(), Op::Bool => "bool".into(), Op::U16 => "u16".into(), Op::U32 => "u32".into(),
            Op::U64 => "u64".into(), Op::U128 => "u128".into(), Op::Usize => "usz".into(), Op::Slice(n) => format!("rs{}", n),
            Op::Array(n) => format!("ra{}", n), Op::Vec(n) => format!("rv{}", n), Op::Str(n) => format!("str{}", n),
            Op::Many(k, n) => format!("many{}x{}", k, n), Op::Eor(n) => format!("eor{}", n), Op::More => "more".into(), Op::Drain => "drain".into(),
        }
    }
    fn parse(s: &str) -> Op {
        let num = |p: &str| s[p.len()..].parse::<usize>().expect("bad op number");
        match s {
            "u8" => Op::U8, "pk" => Op::Peek, "bool" => Op::Bool, "u16" => Op::U16, "u32" => Op::U32, "u64" => Op::U64, "u128" => Op::U128,
            "usz" => Op::Usize, "more" => Op::More, "drain" => Op::Drain,
            _ if s.starts_with("rs") => Op::Slice(num("rs")),
            _ if s.starts_with("ra") => Op::Array(num("ra")),
            _ if s.starts_with("rv") => Op::Vec(num("rv")),
            _ if s.starts_with("str") => Op::Str(num("str")),
            _ if s.starts_with("eor") => Op::Eor(num("eor")),
            _ if s.starts_with("many") => { let mut it = s[4..].split('x'); Op::Many(it.next().unwrap().parse().unwrap(), it.next().unwrap().parse().unwrap()) }
            _ => panic!("bad op {}", s),
        }
    }
    /// composite (provided-method) operations may stop half-way on an error
    fn is_core(&self) -> bool {
        matches!(self, Op::U8 | Op::Peek | Op::Slice(_) | Op::Array(_) | Op::Vec(_) | Op::Eor(_) | Op::More)
    }
}

fn show_ops(ops: &[Op]) -> String {
    if ops.is_empty() { "-".into() } else { ops.iter().map(|o| o.show()).collect::<Vec<_>>().join(",") }
}
fn parse_ops(s: &str) -> Vec<Op> {
    if s == "-" { vec![] } else { s.split(',').map(Op::parse).collect() }
}
fn show_chunks(c: &[Vec<u8>]) -> String {
    if c.is_empty() { "/".into() } else { c.iter().map(|x| hex_bytes(x)).collect::<Vec<_>>().join(",") }
}
fn parse_chunks(s: &str) -> Vec<Vec<u8>> {
    if s == "/" { return vec![]; }
    s.split(',').map(|h| if h == "-" { vec![] } else { (0..h.len() / 2).map(|i| u8::from_str_radix(&h[2 * i..2 * i + 2], 16).unwrap()).collect() }).collect()
}

/// (canonical result, detailed result with the full error value)
type Res = (String, String);

fn fin<T>(r: Result<T, DeserializationError>, f: impl FnOnce(T) -> String) -> Res {
    match r {
        Ok(v) => { let s = f(v); (s.clone(), s) }
        Err(e) => {
            let c = match &e {
                DeserializationError::UnexpectedEOF => "err:eof",
                DeserializationError::InvalidValue(_) => "err:inv",
                _ => "err:other",
            };
            (c.to_string(), format!("err:{:?}", e))
        }
    }
}

fn arr<R: ByteReader, const N: usize>(r: &mut R) -> Res {
    fin(r.read_array::<N>(), |a| format!("ok:{}", hex_bytes(&a)))
}

fn many<R: ByteReader>(r: &mut R, k: u8, n: usize) -> Res {
    fn j<T: std::fmt::LowerHex>(v: Vec<T>) -> String {
        format!("ok:[{}]", v.iter().map(|x| format!("{:x}", x)).collect::<Vec<_>>().join("."))
    }
    match k {
        0 => fin(r.read_many::<u8>(n), j),
        1 => fin(r.read_many::<u16>(n), j),
        2 => fin(r.read_many::<u32>(n), j),
        3 => fin(r.read_many::<u64>(n), j),
        4 => fin(r.read_many::<u128>(n), j),
        _ => fin(r.read_many::<usize>(n), j),
    }
}

fn apply<R: ByteReader>(r: &mut R, op: &Op, limit: usize) -> Res {
    match *op {
        Op::U8 => fin(r.read_u8(), |b| format!("ok:{:02x}", b)),
        Op::Peek => fin(r.peek_u8(), |b| format!("ok:{:02x}", b)),
        Op::Bool => fin(r.read_bool(), |b| (if b { "ok:t" } else { "ok:f" }).to_string()),
        Op::U16 => fin(r.read_u16(), |v| format!("ok:{:x}", v)),
        Op::U32 => fin(r.read_u32(), |v| format!("ok:{:x}", v)),
        Op::U64 => fin(r.read_u64(), |v| format!("ok:{:x}", v)),
        Op::U128 => fin(r.read_u128(), |v| format!("ok:{:x}", v)),
        Op::Usize => fin(r.read_usize(), |v| format!("ok:{:x}", v)),
        Op::Slice(n) => fin(r.read_slice(n).map(|s| s.to_vec()), |v| format!("ok:{}", hex_bytes(&v))),
        Op::Vec(n) => fin(r.read_vec(n), |v| format!("ok:{}", hex_bytes(&v))),
        Op::Str(n) => fin(r.read_string(n), |v| format!("ok:{}", hex_bytes(v.as_bytes()))),
        Op::Many(k, n) => many(r, k, n),
        Op::Eor(n) => fin(r.check_eor(n), |_| "ok".to_string()),
        Op::More => { let s = (if r.has_more_bytes() { "t" } else { "f" }).to_string(); (s.clone(), s) }
        Op::Drain => {
            let mut v = Vec::new();
            loop {
                match r.read_u8() {
                    Ok(b) => v.push(b),
                    Err(_) => break,
                }
                if v.len() > limit + 8 {
                    return ("drain-overrun".into(), "drain-overrun".into());
                }
            }
            let s = format!("ok:{}", hex_bytes(&v));
            (s.clone(), s)
        }
        Op::Array(n) => match n {
            0 => arr::<R, 0>(r), 1 => arr::<R, 1>(r), 2 => arr::<R, 2>(r), 3 => arr::<R, 3>(r), 4 => arr::<R, 4>(r), 5 => arr::<R, 5>(r),
            7 => arr::<R, 7>(r), 8 => arr::<R, 8>(r), 9 => arr::<R, 9>(r), 12 => arr::<R, 12>(r), 15 => arr::<R, 15>(r), 16 => arr::<R, 16>(r),
            17 => arr::<R, 17>(r), 20 => arr::<R, 20>(r), 24 => arr::<R, 24>(r), 31 => arr::<R, 31>(r), 32 => arr::<R, 32>(r), 33 => arr::<R, 33>(r),
            48 => arr::<R, 48>(r), 64 => arr::<R, 64>(r), 100 => arr::<R, 100>(r), 128 => arr::<R, 128>(r), 200 => arr::<R, 200>(r),
            255 => arr::<R, 255>(r), 256 => arr::<R, 256>(r), 257 => arr::<R, 257>(r), 258 => arr::<R, 258>(r), 300 => arr::<R, 300>(r),
            512 => arr::<R, 512>(r), 600 => arr::<R, 600>(r),
            _ => panic!("read_array<{}> is not instantiated in the harness", n),
        },
    }
}

/// What the source did while one operation ran.
#[derive(Clone, Copy, Default, Debug)]
struct SrcObs { early_empty_during: bool, early_empty_before: bool, eof_seen_after: bool }

/// Runs the operations on the real ReadAdapter; stops after a panic.
fn run_adapter(chunks: &[Vec<u8>], ops: &[Op]) -> (Vec<Res>, Vec<SrcObs>, usize) {
    let total: usize = chunks.iter().map(|c| c.len()).sum();
    let mut src = ChunkRead::new(chunks);
    let (early, eofs, maxreq) = (src.early_empty.clone(), src.eof_reads.clone(), src.max_req.clone());
    let mut out = Vec::new();
    let mut obs = Vec::new();
    {
        let mut ad = ReadAdapter::new(&mut src);
        for op in ops {
            let e0 = early.get();
            let r = catch(AssertUnwindSafe(|| apply(&mut ad, op, total)));
            obs.push(SrcObs { early_empty_during: early.get() > e0, early_empty_before: e0 > 0, eof_seen_after: eofs.get() > 0 });
            match r {
                Ok(x) => out.push(x),
                Err(m) => { out.push(("panic".into(), format!("panic:{}", m))); break; }
            }
        }
    }
    (out, obs, maxreq.get())
}

fn run_slice(stream: &[u8], ops: &[Op]) -> Vec<Res> {
    let mut sr = SliceReader::new(stream);
    let mut out = Vec::new();
    for op in ops {
        match catch(AssertUnwindSafe(|| apply(&mut sr, op, stream.len()))) {
            Ok(x) => out.push(x),
            Err(m) => { out.push(("panic".into(), format!("panic:{}", m))); break; }
        }
    }
    out
}

/// The third reader implementation: std::io::Cursor over `buf`, positioned at `pos` (any u64, also beyond the end).
fn run_cursor(buf: &[u8], pos: u64, ops: &[Op]) -> Vec<Res> {
    let mut cu = std::io::Cursor::new(buf);
    cu.set_position(pos);
    let mut out = Vec::new();
    for op in ops {
        match catch(AssertUnwindSafe(|| apply(&mut cu, op, buf.len()))) {
            Ok(x) => out.push(x),
            Err(m) => { out.push(("panic".into(), format!("panic:{}", m))); break; }
        }
    }
    out
}

fn concat(chunks: &[Vec<u8>]) -> Vec<u8> {
    chunks.iter().flat_map(|c| c.iter().copied()).collect()
}

/// EOF is "sticky" when no empty chunk is followed by data.
fn sticky(chunks: &[Vec<u8>]) -> bool {
    match chunks.iter().position(|c| c.is_empty()) {
        None => true,
        Some(i) => chunks[i..].iter().all(|c| c.is_empty()),
    }
}

// ---------------------------------------------------------------- oracle
#[derive(Debug, Clone)]
struct Mismatch { idx: usize, op: String, expected: String, actual: String, what: String }

/// Independent oracle: the real SliceReader on the concatenated bytes.
/// Sticky-EOF sources: every result equal, except that check_eor may say Ok for Err while no end-of-stream read was served.
/// Sources with empty reads before EOF (core operations only): a result may additionally be a spurious UnexpectedEOF/false
/// when an early empty read was served during that very operation (the operation is then not applied to the reference), and
/// check_eor may be pessimistic once an early empty read has been served.
fn check_case(chunks: &[Vec<u8>], ops: &[Op]) -> Option<Mismatch> {
    let stream = concat(chunks);
    let (ra, obs, maxreq) = run_adapter(chunks, ops);
    if maxreq > 256 {
        return Some(Mismatch { idx: 0, op: "-".into(), expected: "reads of at most 256 bytes".into(), actual: format!("{}", maxreq), what: "BufReader capacity assumption broken".into() });
    }
    if let Some(m) = check_cursor(&stream, ops) { return Some(m); }
    let st = sticky(chunks);
    if st {
        let rs = run_slice(&stream, ops);
        for i in 0..ops.len() {
            let a = ra.get(i);
            let s = rs.get(i);
            match (a, s) {
                (Some(a), Some(s)) => {
                    if a.1 == s.1 {
                        if a.0 == "panic" { return None; }
                        continue;
                    }
                    let optimistic = matches!(ops[i], Op::Eor(_)) && a.0 == "ok" && s.0 == "err:eof" && !obs[i].eof_seen_after;
                    if optimistic { continue; }
                    let what = if matches!(ops[i], Op::Eor(_)) && a.0 == "err:eof" && s.0 == "ok" { "check_eor reports missing data that is available" }
                        else if a.0 == "panic" { "ReadAdapter panics where SliceReader returns" }
                        else { "ReadAdapter result differs from SliceReader" };
                    return Some(Mismatch { idx: i, op: ops[i].show(), expected: s.1.clone(), actual: a.1.clone(), what: what.into() });
                }
                (None, None) => return None,
                _ => return Some(Mismatch { idx: i, op: ops[i].show(), expected: format!("{:?}", s.map(|x| &x.1)), actual: format!("{:?}", a.map(|x| &x.1)), what: "one reader stopped (panic) before the other".into() }),
            }
        }
        None
    } else {
        // reference replays only the operations that were not answered by a spurious end-of-stream
        let mut eff: Vec<Op> = Vec::new();
        for i in 0..ops.len() {
            let a = match ra.get(i) { Some(a) => a, None => return None };
            eff.push(ops[i].clone());
            let rs = run_slice(&stream, &eff);
            let s = rs.last().unwrap().clone();
            if a.1 == s.1 { continue; }
            let is_eor = matches!(ops[i], Op::Eor(_));
            if is_eor && a.0 == "ok" && s.0 == "err:eof" { continue; }
            let spurious = obs[i].early_empty_during && (a.0 == "err:eof" || (ops[i] == Op::More && a.0 == "f"));
            if spurious { eff.pop(); continue; }
            if is_eor && a.0 == "err:eof" && s.0 == "ok" && (obs[i].early_empty_before || obs[i].early_empty_during) { continue; }
            let what = if a.0 == "panic" { "ReadAdapter panics (source with empty reads before EOF)" } else { "ReadAdapter result differs from SliceReader (source with empty reads before EOF)" };
            return Some(Mismatch { idx: i, op: ops[i].show(), expected: s.1, actual: a.1.clone(), what: what.into() });
        }
        None
    }
}

/// Cursor vs SliceReader (both are exact in-memory readers: no allowance at all, full error values compared):
/// from position 0; from a position inside a longer buffer (SliceReader gets the bytes from there on); from beyond the end
/// (SliceReader over no bytes).
fn check_cursor(stream: &[u8], ops: &[Op]) -> Option<Mismatch> {
    let cmp = |rc: Vec<Res>, rs: Vec<Res>, how: &str| -> Option<Mismatch> {
        for i in 0..ops.len() {
            match (rc.get(i), rs.get(i)) {
                (Some(c), Some(s)) if c.1 == s.1 => { if c.0 == "panic" { return None; } }
                (None, None) => return None,
                (c, s) => return Some(Mismatch { idx: i, op: ops[i].show(), expected: format!("{:?}", s.map(|x| &x.1)), actual: format!("{:?}", c.map(|x| &x.1)),
                    what: format!("Cursor result differs from SliceReader ({})", how) }),
            }
        }
        None
    };
    let rs = run_slice(stream, ops);
    if let Some(m) = cmp(run_cursor(stream, 0, ops), rs.clone(), "position 0") { return Some(m); }
    match (stream.len() + ops.len()) % 3 {
        0 => {
            let k = 1 + stream.len() % 5;
            let mut buf: Vec<u8> = (0..k).map(|i| 0xA0 ^ i as u8).collect();
            buf.extend_from_slice(stream);
            cmp(run_cursor(&buf, k as u64, ops), rs, "start position inside the buffer")
        }
        1 => {
            let beyond = stream.len() as u64 + 1 + (ops.len() % 3) as u64 * 1000;
            cmp(run_cursor(stream, beyond, ops), run_slice(&[], ops), "start position beyond the end")
        }
        _ => None,
    }
}

// ---------------------------------------------------------------- sources that fail with io::Error (robustness)
#[derive(Clone, Copy, PartialEq, Debug)]
enum EK { Eof, Int, Oth }
impl EK {
    fn kind(self) -> std::io::ErrorKind { match self { EK::Eof => std::io::ErrorKind::UnexpectedEof, EK::Int => std::io::ErrorKind::Interrupted, EK::Oth => std::io::ErrorKind::Other } }
    fn tag(self) -> &'static str { match self { EK::Eof => "eof", EK::Int => "int", EK::Oth => "oth" } }
    fn parse(s: &str) -> EK { match s { "eof" => EK::Eof, "int" => EK::Int, "oth" => EK::Oth, _ => panic!("bad error kind {}", s) } }
    /// what the ByteReader documentation of ReadAdapter promises for this kind (computed without the adapter)
    fn expected(self) -> String {
        match self {
            EK::Eof => format!("err:{:?}", DeserializationError::UnexpectedEOF),
            k => format!("err:{:?}", DeserializationError::UnknownError(k.kind().to_string())),
        }
    }
}
/// ChunkRead whose k-th non-empty-buffer read() call fails with the listed error instead (nothing is consumed by a failing call)
struct ErrRead { inner: ChunkRead, errs: Vec<(usize, EK)>, calls: usize, served: Rc<Cell<usize>>, last: Rc<Cell<Option<EK>>> }
impl Read for ErrRead {
    fn read(&mut self, buf: &mut [u8]) -> std::io::Result<usize> {
        if buf.is_empty() { return Ok(0); }
        let c = self.calls;
        self.calls += 1;
        if let Some((_, k)) = self.errs.iter().find(|(i, _)| *i == c) {
            self.served.set(self.served.get() + 1);
            self.last.set(Some(*k));
            return Err(std::io::Error::new(k.kind(), "injected by the C13 harness"));
        }
        self.inner.read(buf)
    }
}
fn show_errs(e: &[(usize, EK)]) -> String { if e.is_empty() { "-".into() } else { e.iter().map(|(i, k)| format!("{}:{}", i, k.tag())).collect::<Vec<_>>().join(",") } }
fn parse_errs(s: &str) -> Vec<(usize, EK)> {
    if s == "-" { return vec![]; }
    s.split(',').map(|t| { let mut it = t.split(':'); (it.next().unwrap().parse().unwrap(), EK::parse(it.next().unwrap())) }).collect()
}
/// Robustness oracle for sources with I/O errors (required methods, read_vec and a retrying drain only).
/// An operation during which the source failed must return exactly the documented error (has_more_bytes: false), must have
/// asked the source exactly once more, and must not have consumed anything: the reference (real SliceReader on the concatenated
/// bytes) skips that operation, so every later value and the final drain show that no byte was lost or repeated.  Operations
/// during which the source did not fail are compared as for healthy sources (check_eor may be optimistic; it may be pessimistic
/// only after read_u8 hit an I/O error, because `pop` records every failure as end-of-stream).
/// `served`: (kind, site) of every error served, site = "ref" (&self methods: non_empty_reader_buffer) or "mut".
fn check_err_case(chunks: &[Vec<u8>], errs: &[(usize, EK)], ops: &[Op], served_log: &mut Vec<(EK, &'static str)>) -> Option<Mismatch> {
    let stream = concat(chunks);
    let mut src = ErrRead { inner: ChunkRead::new(chunks), errs: errs.to_vec(), calls: 0, served: Rc::new(Cell::new(0)), last: Rc::new(Cell::new(None)) };
    let (served, last) = (src.served.clone(), src.last.clone());
    let mut ad = ReadAdapter::new(&mut src);
    let mut sr = SliceReader::new(&stream);
    let mut pop_failed = false;
    for (i, op) in ops.iter().enumerate() {
        let mm = |expected: String, actual: String, what: &str| Some(Mismatch { idx: i, op: op.show(), expected, actual, what: what.into() });
        if *op == Op::Drain {
            // drain with retry: an I/O error is not the end of the stream
            let mut got = Vec::new();
            let mut guard = 0usize;
            loop {
                let e0 = served.get();
                match catch(AssertUnwindSafe(|| ad.read_u8())) {
                    Err(m) => return mm("no panic".into(), format!("panic:{}", m), "ReadAdapter panics on an I/O error of the source"),
                    Ok(Ok(b)) => got.push(b),
                    Ok(Err(e)) => {
                        if served.get() == e0 { break; }
                        let k = last.get().unwrap();
                        served_log.push((k, "mut"));
                        pop_failed = true;
                        let a = format!("err:{:?}", e);
                        if a != k.expected() { return mm(k.expected(), a, "I/O error of the source reported as a different error"); }
                    }
                }
                guard += 1;
                if guard > stream.len() + errs.len() + 8 { return mm("termination".into(), "drain-overrun".into(), "drain does not terminate"); }
            }
            let a = format!("ok:{}", hex_bytes(&got));
            let s = apply(&mut sr, op, stream.len()).1;
            if a != s { return mm(s, a, "bytes lost or repeated after an I/O error of the source"); }
            continue;
        }
        let e0 = served.get();
        let a = match catch(AssertUnwindSafe(|| apply(&mut ad, op, stream.len()))) {
            Ok(x) => x,
            Err(m) => return mm("no panic".into(), format!("panic:{}", m), "ReadAdapter panics on an I/O error of the source"),
        };
        let n_err = served.get() - e0;
        if n_err > 0 {
            let k = last.get().unwrap();
            let site = if matches!(op, Op::Peek | Op::Eor(_) | Op::More) { "ref" } else { "mut" };
            served_log.push((k, site));
            if *op == Op::U8 { pop_failed = true; }
            if n_err > 1 { return mm("the call returns at the first I/O error".into(), format!("{} failing reads during one call", n_err), "ReadAdapter keeps reading after an I/O error"); }
            let expected = if *op == Op::More { "f".to_string() } else { k.expected() };
            if a.1 != expected { return mm(expected, a.1, "I/O error of the source not reported as the documented error"); }
            continue; // nothing may have been consumed: the reference skips this operation
        }
        let s = match catch(AssertUnwindSafe(|| apply(&mut sr, op, stream.len()))) { Ok(x) => x, Err(_) => return None };
        if a.1 == s.1 { continue; }
        let is_eor = matches!(op, Op::Eor(_));
        if is_eor && a.0 == "ok" && s.0 == "err:eof" { continue; }
        if is_eor && a.0 == "err:eof" && s.0 == "ok" && pop_failed { continue; }
        return mm(s.1, a.1, "ReadAdapter result differs from SliceReader (source with I/O errors)");
    }
    None
}
fn gen_err_case(r: &mut Rng) -> (Vec<Vec<u8>>, Vec<(usize, EK)>, Vec<Op>) {
    let em = r.below(2);
    let (chunks, ops) = gen_case(r, em, true);
    let reads = chunks.len() + 2;
    let mut errs: Vec<(usize, EK)> = Vec::new();
    for _ in 0..1 + r.below(3) {
        let at = if r.chance(1, 3) { r.below(2) as usize } else { r.below(reads as u64) as usize };
        if errs.iter().all(|(i, _)| *i != at) { errs.push((at, *r.pick(&[EK::Eof, EK::Int, EK::Oth]))); }
    }
    errs.sort_by_key(|e| e.0);
    (chunks, errs, ops)
}
/// every error kind at every class of call site: first read of a &self method / of a &mut self method, read_exact with a partly
/// filled local buffer (the two-buffer path), buffer_at_least in the middle of its loop, check_eor and has_more_bytes
fn err_boundary_cases() -> Vec<(Vec<Vec<u8>>, Vec<(usize, EK)>, Vec<Op>)> {
    let s40: Vec<u8> = (0..40u8).collect();
    let p = |s: &str| parse_ops(s);
    let mut v = Vec::new();
    for k in [EK::Eof, EK::Int, EK::Oth] {
        for first in ["pk", "u8", "more", "eor5", "rs4", "ra4", "rv3"] {
            v.push((vec![s40.clone()], vec![(0, k)], p(&format!("{},pk,u8,eor1,more,drain", first))));
        }
        v.push((split(&s40, &[3, 37]), vec![(1, k)], p("rs2,ra4,ra4,drain")));          // partial local buffer, then the reader fails
        v.push((split(&s40, &[3, 3, 3, 31]), vec![(2, k)], p("rs8,rs8,drain")));        // buffer_at_least: second refill fails
        v.push((split(&s40, &[3, 37]), vec![(1, k)], p("rs3,u8,u8,eor2,eor30,drain")));  // pop fails: later check_eor may be pessimistic
        v.push((split(&s40, &[2, 38]), vec![(1, k), (2, k)], p("rs2,pk,pk,pk,more,more,eor1,eor1,drain")));
        v.push((vec![s40.clone()], vec![(1, k)], p("drain,more,pk,u8,eor0,eor1")));    // the failure replaces the end-of-stream read
    }
    v
}

// ---------------------------------------------------------------- shrinking (delta debugging)
fn shrink(chunks: &[Vec<u8>], ops: &[Op]) -> (Vec<Vec<u8>>, Vec<Op>, Mismatch) {
    let mut chunks = chunks.to_vec();
    let mut ops = ops.to_vec();
    let mut mm = check_case(&chunks, &ops).expect("shrink called on a passing case");
    let mut budget = 4000usize;
    loop {
        let mut progress = false;
        // 1. drop everything after the failing operation
        if mm.idx + 1 < ops.len() {
            let cand: Vec<Op> = ops[..=mm.idx].to_vec();
            if let Some(m) = check_case(&chunks, &cand) { ops = cand; mm = m; progress = true; }
        }
        // 2. ddmin on the operation list
        let mut k = (ops.len() / 2).max(1);
        while k >= 1 && budget > 0 {
            let mut i = 0;
            while i + k <= ops.len() && budget > 0 {
                let mut cand = ops.clone();
                cand.drain(i..i + k);
                budget -= 1;
                if let Some(m) = check_case(&chunks, &cand) { ops = cand; mm = m; progress = true; } else { i += 1; }
            }
            if k == 1 { break; }
            k /= 2;
        }
        // 3. simpler chunkings: one chunk, merged neighbours, no empty reads (only when the class of the source is kept)
        let mut cands: Vec<Vec<Vec<u8>>> = vec![vec![concat(&chunks)]];
        cands.push(chunks.iter().filter(|c| !c.is_empty()).cloned().collect());
        for i in 0..chunks.len().saturating_sub(1) {
            let mut c = chunks.clone();
            let b = c.remove(i + 1);
            c[i].extend(b);
            cands.push(c);
        }
        for c in cands {
            if budget == 0 { break; }
            if c.len() >= chunks.len() { continue; }
            budget -= 1;
            if let Some(m) = check_case(&c, &ops) { chunks = c; mm = m; progress = true; break; }
        }
        // 4. shorter stream: drop the tail of the last chunk / the last chunk
        if budget > 0 && !chunks.is_empty() {
            let mut c = chunks.clone();
            let last = c.len() - 1;
            if c[last].len() > 1 { let h = c[last].len() / 2; c[last].truncate(h); } else { c.pop(); }
            budget -= 1;
            if let Some(m) = check_case(&c, &ops) { chunks = c; mm = m; progress = true; }
        }
        // 5. smaller arguments
        for i in 0..ops.len() {
            if budget == 0 { break; }
            let smaller: Vec<Op> = match ops[i] {
                Op::Slice(n) if n > 0 => vec![Op::Slice(n / 2), Op::Slice(n - 1)],
                Op::Vec(n) => vec![Op::Slice(n)],
                Op::Str(n) => vec![Op::Slice(n)],
                Op::Eor(n) if n > 0 => vec![Op::Eor(n / 2), Op::Eor(n - 1)],
                Op::Array(n) if n > 0 => { let p = ARR.iter().position(|&x| x == n).unwrap(); vec![Op::Array(ARR[p / 2]), Op::Array(ARR[p - 1])] }
                Op::Many(k, n) if n > 0 => vec![Op::Many(k, n - 1)],
                _ => vec![],
            };
            for s in smaller {
                let mut cand = ops.clone();
                cand[i] = s;
                budget -= 1;
                if let Some(m) = check_case(&chunks, &cand) { ops = cand; mm = m; progress = true; break; }
            }
        }
        if !progress || budget == 0 { break; }
    }
    (chunks, ops, mm)
}

// ---------------------------------------------------------------- generators
fn gen_stream(r: &mut Rng) -> Vec<u8> {
    const LENS: [usize; 26] = [0, 1, 2, 7, 8, 9, 15, 16, 17, 31, 32, 33, 40, 64, 100, 255, 256, 257, 272, 300, 511, 512, 513, 600, 768, 1000];
    let len = match r.below(4) { 0 => *r.pick(&LENS), 1 => *r.pick(&LENS) + r.below(20) as usize, 2 => r.below(80) as usize, _ => r.below(700) as usize };
    let style = r.below(4);
    (0..len).map(|i| match style {
        0 => i as u8,
        1 => match r.below(8) { 0 | 1 => r.below(2) as u8, 2 => 1u8 << r.below(8), 3 => (r.below(128) as u8) << r.below(8), 4 => 0x20 + r.below(0x5f) as u8, 5 => 0, _ => r.next_u64() as u8 },
        2 => match r.below(10) { 0 => 0xc3, 1 => 0xa9, 2 => 0xe2, 3 => 0x82, 4 => 0xac, _ => 0x20 + r.below(0x5f) as u8 },
        _ => r.next_u64() as u8,
    }).collect()
}

/// chunk sizes summing to `len` (plus zero-sized entries = empty reads)
fn gen_sizes(r: &mut Rng, len: usize, empties: u64, class: u64) -> Vec<usize> {
    let mut v = Vec::new();
    let mut left = len;
    let mut first = true;
    while left > 0 {
        let s = match class {
            0 => left,
            1 => 1,
            2 => 1 + r.below(8) as usize,
            3 => 1 + r.below(300) as usize,
            4 => *r.pick(&[255usize, 256, 257, 1, 2, 254, 258, 512, 513]),
            5 => 257 + r.below(400) as usize,
            6 => if first { 1 + r.below(20) as usize } else { left },
            7 => *r.pick(&[15usize, 16, 17, 14, 18, 1, 32]),
            8 => if r.chance(1, 2) { 1 + r.below(4) as usize } else { 240 + r.below(40) as usize },
            _ => match r.below(4) { 0 => 1, 1 => 1 + r.below(16) as usize, 2 => 250 + r.below(14) as usize, _ => 1 + r.below(600) as usize },
        }.min(left);
        first = false;
        // empties: 0 = none, 1 = trailing only, 2 = anywhere
        if empties == 2 && r.chance(1, 5) { v.push(0); if r.chance(1, 4) { v.push(0); } }
        v.push(s);
        left -= s;
    }
    if empties >= 1 { for _ in 0..r.below(3) { v.push(0); } }
    if empties == 2 && len > 0 && !v.contains(&0) { let p = r.below(v.len() as u64) as usize; v.insert(p, 0); }
    v
}

fn split(stream: &[u8], sizes: &[usize]) -> Vec<Vec<u8>> {
    let mut out = Vec::new();
    let mut p = 0;
    for &s in sizes {
        let e = (p + s).min(stream.len());
        out.push(stream[p..e].to_vec());
        p = e;
    }
    if p < stream.len() { out.push(stream[p..].to_vec()); }
    out
}

/// number of unread bytes of a SliceReader, found through its public interface
fn remaining(stream: &[u8], ops: &[Op]) -> usize {
    let mut sr = SliceReader::new(stream);
    for op in ops {
        if catch(AssertUnwindSafe(|| apply(&mut sr, op, stream.len()))).is_err() { return 0; }
    }
    let (mut lo, mut hi) = (0usize, stream.len());
    while lo < hi {
        let mid = (lo + hi + 1) / 2;
        if sr.check_eor(mid).is_ok() { lo = mid } else { hi = mid - 1 }
    }
    lo
}

fn gen_len(r: &mut Rng, rem: usize) -> usize {
    match r.below(14) {
        0 => 0,
        1 => 1,
        2..=4 => 1 + r.below(9) as usize,
        5 => 14 + r.below(5) as usize,
        6 => 16 + r.below(50) as usize,
        7 => 200 + r.below(120) as usize,
        8 => 250 + r.below(14) as usize,
        9 => rem + r.below(3) as usize,
        10 => rem.saturating_sub(r.below(3) as usize),
        11 => rem / 2,
        _ => r.below(40) as usize,
    }
}

fn gen_ops(r: &mut Rng, stream: &[u8], core_only: bool, drain: bool) -> Vec<Op> {
    let n = match r.below(5) { 0 => 1 + r.below(4), 1 | 2 => 2 + r.below(10), _ => 5 + r.below(36) } as usize;
    let mut ops: Vec<Op> = Vec::new();
    // occasionally start from a recipe known to reach the two-buffer paths, then continue randomly
    match r.below(8) {
        0 => { let a = 16 + r.below(30) as usize; ops.push(Op::Slice(a)); ops.push(Op::Slice(a + 1 + r.below(40) as usize)); }
        1 => { ops.push(Op::Slice(1 + r.below(8) as usize)); ops.push(Op::Array(*r.pick(&ARR[1..20]))); }
        2 => { ops.push(Op::Slice(1 + r.below(5) as usize)); for _ in 0..r.below(300).min(stream.len() as u64 + 2) { ops.push(Op::U8); } }
        _ => {}
    }
    while ops.len() < n {
        let rem = remaining(stream, &ops);
        // once the stream is exhausted only a few more operations are interesting
        if rem == 0 && ops.len() >= 2 && r.chance(2, 3) { break; }
        let rem = if r.chance(1, 2) { rem } else { stream.len() / 2 };
        let op = match r.below(100) {
            0..=11 => Op::U8,
            12..=19 => Op::Peek,
            20..=23 => Op::Bool,
            24..=27 => Op::U16,
            28..=31 => Op::U32,
            32..=36 => Op::U64,
            37..=40 => Op::U128,
            41..=47 => Op::Usize,
            48..=63 => Op::Slice(gen_len(r, rem)),
            64..=75 => { let l = gen_len(r, rem); let p = ARR.iter().position(|&x| x >= l).unwrap_or(ARR.len() - 1); Op::Array(ARR[p]) }
            76..=79 => Op::Vec(gen_len(r, rem)),
            80..=83 => Op::Str(gen_len(r, rem)),
            84..=87 => Op::Many(r.below(6) as u8, match r.below(4) { 0 => 0, 1 => 1, 2 => 1 + r.below(6) as usize, _ => r.below(40) as usize }),
            88..=94 => Op::Eor(gen_len(r, rem)),
            _ => Op::More,
        };
        if core_only && !op.is_core() { continue; }
        ops.push(op);
    }
    if drain { ops.push(Op::Drain); }
    ops
}

fn gen_case(r: &mut Rng, empties: u64, core_only: bool) -> (Vec<Vec<u8>>, Vec<Op>) {
    let stream = gen_stream(r);
    let class = r.below(10);
    let sizes = gen_sizes(r, stream.len(), empties, class);
    let chunks = split(&stream, &sizes);
    let drain = !core_only && r.chance(4, 5) || core_only && empties < 2 && r.chance(4, 5);
    let ops = gen_ops(r, &stream, core_only, drain);
    (chunks, ops)
}

/// fixed boundary cases first: the replayed defects and the classes named in the property's quantifier
fn boundary_cases() -> Vec<(Vec<Vec<u8>>, Vec<Op>)> {
    let s40: Vec<u8> = (0..40u8).collect();
    let s600: Vec<u8> = (0..600usize).map(|i| (i * 7 + 3) as u8).collect();
    let p = |s: &str| parse_ops(s);
    let mut v = vec![
        (vec![s40.clone()], p("rs4,rs4,drain")),
        (vec![s40[..8].to_vec(), s40[8..16].to_vec()], p("rs4,ra4,rs4,drain")),
        (split(&s40, &[3, 3, 3, 3, 28]), p("rs10,drain")),
        (split(&s40, &[4, 36]), p("ra8,drain")),
        (split(&s40, &[10, 3, 27]), p("rs8,ra8,drain")),
        (split(&s40, &[10, 3, 27]), p("rs9,ra8,ra8,drain")),
        (split(&s600, &[600]), p("rs20,rs30,rs250,eor300,rs300,more,drain")),
        (split(&s600, &[255, 2, 343]), p("rs250,ra8,u64,pk,rs255,drain")),
        (split(&s600, &[256, 256, 88]), p("ra256,ra257,more,eor87,eor88,drain")),
        (vec![vec![1u8; 1]; 40], p("pk,u8,usz,u16,rs5,ra9,eor23,eor24,more,drain")),
        (vec![], p("more,eor0,eor1,pk,u8,rs0,rs1,ra0,ra1,usz,drain")),
        (vec![vec![], s40.clone()], p("more,pk,u8,drain")),
        (vec![s40[..5].to_vec(), vec![], s40[5..].to_vec()], p("rs8,rs8,eor40,eor3,drain")),
        (vec![vec![0, 1, 2, 3, 4, 5, 6, 7, 8, 0x80, 1]], p("usz,usz,drain")),
        // pins the BufReader capacity (256): after a stale guaranteed_eof, check_eor sees exactly one refill
        (vec![vec![7], vec![], s600[..300].to_vec()], p("rs2,u8,eor256,eor257,more,drain")),
        (vec![vec![7], vec![], s600[..300].to_vec()], p("rs2,eor257,eor258,u8,eor255,drain")),
    ];
    for k in [1usize, 15, 16, 17, 255, 256, 257] {
        v.push((split(&s600, &[k, 600 - k]), p("u8,rs16,rs17,ra16,u128,eor600,drain")));
    }
    // coverage round: the end-of-data queries at EVERY position of the stream and after EOF
    for (len, sizes) in [(0usize, vec![]), (1, vec![1]), (2, vec![1, 1]), (5, vec![5]), (5, vec![2, 3]), (17, vec![16, 1]), (17, vec![1; 17]), (40, vec![40]), (300, vec![255, 2, 43])] {
        v.push((split(&s600[..len], &sizes), probe_ops(len)));
    }
    v
}

/// at every position: has_more_bytes, check_eor(0 / 1 / exactly the rest / one more than the rest), peek, empty reads, then one
/// byte is consumed; after the end of the data every operation once more
fn probe_ops(len: usize) -> Vec<Op> {
    let mut ops = Vec::new();
    for pos in 0..len {
        let rem = len - pos;
        ops.extend([Op::More, Op::Eor(0), Op::Eor(1), Op::Eor(rem), Op::Eor(rem + 1), Op::Peek, Op::Slice(0), Op::Array(0), Op::U8]);
    }
    ops.extend(parse_ops("more,eor0,eor1,pk,u8,more,eor0,eor1,rs0,rs1,ra0,ra1,rv0,rv1,str0,str1,bool,u16,u32,u64,u128,usz,many0x0,many0x1,many5x1,pk,u8,more,eor0,eor1,drain,more,eor0,eor1"));
    ops
}

/// input distribution of the correspondence stream (reported in the evidence)
#[derive(Default)]
struct Stats { cases: usize, ops: usize, by_op: std::collections::BTreeMap<String, usize>, by_res: std::collections::BTreeMap<String, usize>,
    by_reader: std::collections::BTreeMap<String, usize>, cursor_cases: usize, cursor_offset_cases: usize, cursor_beyond_end_cases: usize,
    sticky: usize, early_empty: usize, one_byte_chunks: usize, single_chunk: usize, chunk_gt_256: usize, straddle_256: usize, stream_ge_256: usize, max_ops: usize }
impl Stats {
    fn add(&mut self, chunks: &[Vec<u8>], ops: &[Op], res: &[Res]) {
        self.cases += 1;
        self.ops += ops.len();
        self.max_ops = self.max_ops.max(ops.len());
        for o in ops {
            let k: String = o.show().chars().take_while(|c| !c.is_ascii_digit()).collect();
            let k = if matches!(o, Op::U8 | Op::U16 | Op::U32 | Op::U64 | Op::U128) { o.show() } else { k };
            *self.by_op.entry(k).or_insert(0) += 1;
        }
        for r in res {
            let k = if r.0.starts_with("ok") || r.0 == "t" || r.0 == "f" { "ok".to_string() } else { r.0.clone() };
            *self.by_res.entry(k).or_insert(0) += 1;
        }
        if sticky(chunks) { self.sticky += 1 } else { self.early_empty += 1 }
        let total: usize = chunks.iter().map(|c| c.len()).sum();
        if total >= 256 { self.stream_ge_256 += 1 }
        if chunks.len() > 1 && chunks.iter().all(|c| c.len() <= 1) { self.one_byte_chunks += 1 }
        if chunks.iter().filter(|c| !c.is_empty()).count() == 1 { self.single_chunk += 1 }
        if chunks.iter().any(|c| c.len() > 256) { self.chunk_gt_256 += 1 }
        if chunks.iter().any(|c| c.len() >= 250 && c.len() <= 262) { self.straddle_256 += 1 }
    }
    /// reader x operation x result class of the lines that tie a reader model to its implementation
    fn add_reader(&mut self, reader: &str, ops: &[Op], res: &[Res]) {
        for (o, r) in ops.iter().zip(res.iter()) {
            let k: String = o.show().chars().take_while(|c| !c.is_ascii_digit()).collect();
            let k = if matches!(o, Op::U8 | Op::U16 | Op::U32 | Op::U64 | Op::U128) { o.show() } else { k };
            let c = if r.0.starts_with("ok") { "ok" } else if r.0 == "err:eof" { "eof" } else { r.0.as_str() };
            *self.by_reader.entry(format!("{}|{}|{}", reader, k, c)).or_insert(0) += 1;
        }
    }
    fn json(&self) -> String {
        let m = |m: &std::collections::BTreeMap<String, usize>| m.iter().map(|(k, v)| format!("{}:{}", jstr(k), v)).collect::<Vec<_>>().join(",");
        format!("{{\"cases\":{},\"ops\":{},\"max_ops_per_case\":{},\"by_op\":{{{}}},\"by_result\":{{{}}},\"sticky_eof_sources\":{},\"sources_with_empty_read_before_eof\":{},\"all_chunks_1_byte\":{},\"single_chunk\":{},\"some_chunk_gt_256\":{},\"some_chunk_250_to_262\":{},\"stream_ge_256_bytes\":{},\"cursor_cases\":{},\"cursor_offset_cases\":{},\"cursor_beyond_end_cases\":{},\"by_reader_op_result\":{{{}}}}}",
            self.cases, self.ops, self.max_ops, m(&self.by_op), m(&self.by_res), self.sticky, self.early_empty, self.one_byte_chunks, self.single_chunk, self.chunk_gt_256, self.straddle_256, self.stream_ge_256,
            self.cursor_cases, self.cursor_offset_cases, self.cursor_beyond_end_cases, m(&self.by_reader))
    }
}

fn main() {
    silence_panics();
    let args: Vec<String> = std::env::args().collect();
    let mode = args.get(1).map(|s| s.as_str()).unwrap_or("corr");
    let prof = if cfg!(debug_assertions) { "d" } else { "r" };
    match mode {
        "replay" => {
            let chunks = parse_chunks(&args[2]);
            let ops = parse_ops(&args[3]);
            let (ra, _, _) = run_adapter(&chunks, &ops);
            let rs = run_slice(&concat(&chunks), &ops);
            println!("adapter: {}", ra.iter().map(|x| x.1.clone()).collect::<Vec<_>>().join(";"));
            println!("slice:   {}", rs.iter().map(|x| x.1.clone()).collect::<Vec<_>>().join(";"));
            println!("cursor:  {}", run_cursor(&concat(&chunks), 0, &ops).iter().map(|x| x.1.clone()).collect::<Vec<_>>().join(";"));
            match check_case(&chunks, &ops) {
                Some(m) => println!("MISMATCH {:?}", m),
                None => println!("agree"),
            }
        }
        "replay-err" => {
            let (chunks, errs, ops) = (parse_chunks(&args[2]), parse_errs(&args[3]), parse_ops(&args[4]));
            let mut log = Vec::new();
            match check_err_case(&chunks, &errs, &ops, &mut log) {
                Some(m) => println!("MISMATCH {:?}", m),
                None => println!("agree (errors served: {:?})", log),
            }
        }
        "corr" => {
            let seed: u64 = args.get(2).and_then(|s| s.parse().ok()).unwrap_or(1);
            let n: usize = args.get(3).and_then(|s| s.parse().ok()).unwrap_or(1000);
            let mut r = Rng::new(seed);
            let mut cases = boundary_cases();
            let n_boundary = cases.len();
            while cases.len() < n {
                let empties = match r.below(10) { 0..=3 => 0, 4..=5 => 1, _ => 2 };
                cases.push(gen_case(&mut r, empties, false));
            }
            let mut st = Stats::default();
            for (i, (chunks, ops)) in cases.iter().take(n.max(1)).enumerate() {
                let (ra, _, _) = run_adapter(chunks, ops);
                st.add(chunks, ops, &ra);
                st.add_reader("adapter", ops, &ra);
                println!("{} {} {} => {}", prof, show_chunks(chunks), show_ops(ops), ra.iter().map(|x| x.0.clone()).collect::<Vec<_>>().join(";"));
                // every fourth case also ties the SliceReader model to the real SliceReader
                if i % 4 == 0 {
                    let rs = run_slice(&concat(chunks), ops);
                    st.add_reader("slice", ops, &rs);
                    println!("S {} {} => {}", show_chunks(chunks), show_ops(ops), rs.iter().map(|x| x.0.clone()).collect::<Vec<_>>().join(";"));
                }
                // every fourth case (and all the fixed boundary cases) ties the Cursor model to the real std::io::Cursor: from
                // position 0, and for every other one of them from a position inside / one beyond the end of the buffer
                if i % 4 == 2 || i < n_boundary {
                    let stream = concat(chunks);
                    let mut positions = vec![0u64];
                    if i % 8 == 2 || i < n_boundary { positions.push(1 + r.below(stream.len() as u64 + 1)); positions.push(stream.len() as u64 + 1 + r.below(3) * 1000); }
                    for pos in positions {
                        let rc = run_cursor(&stream, pos, ops);
                        st.add_reader("cursor", ops, &rc);
                        st.cursor_cases += 1;
                        if pos > stream.len() as u64 { st.cursor_beyond_end_cases += 1 } else if pos > 0 { st.cursor_offset_cases += 1 }
                        println!("C{} {} {} => {}", pos, show_chunks(chunks), show_ops(ops), rc.iter().map(|x| x.0.clone()).collect::<Vec<_>>().join(";"));
                    }
                }
            }
            println!("#stats {}", st.json());
        }
        "falsify" => {
            let seed: u64 = args.get(2).and_then(|s| s.parse().ok()).unwrap_or(1);
            let n: usize = args.get(3).and_then(|s| s.parse().ok()).unwrap_or(1000);
            let mut r = Rng::new(seed ^ 0xC13);
            let mut cases = boundary_cases();
            while cases.len() < n {
                match r.below(10) {
                    0..=4 => cases.push(gen_case(&mut r, 0, false)),
                    5..=6 => cases.push(gen_case(&mut r, 1, false)),
                    _ => cases.push(gen_case(&mut r, 2, true)),
                }
            }
            let mut fails = 0usize;
            let mut seen: Vec<String> = Vec::new();
            let (mut n_ops, mut n_sticky, mut n_early) = (0usize, 0usize, 0usize);
            for (chunks, ops) in cases.iter().take(n.max(1)) {
                n_ops += ops.len();
                if sticky(chunks) { n_sticky += 1 } else { n_early += 1 }
                if check_case(chunks, ops).is_some() {
                    fails += 1;
                    if seen.len() >= 12 { continue; }
                    let (c, o, m) = shrink(chunks, ops);
                    let key = format!("{}|{}|{}", m.what, show_ops(&o), c.len());
                    if seen.contains(&key) { continue; }
                    seen.push(key);
                    println!("{{\"what\":{},\"input\":{},\"expected\":{},\"actual\":{},\"minimal_ops\":{},\"failing_op\":{},\"unshrunk\":{}}}",
                        jstr(&m.what), jstr(&format!("{} {} {}", prof, show_chunks(&c), show_ops(&o))), jstr(&m.expected), jstr(&m.actual),
                        jstr(&show_ops(&o)), jstr(&format!("#{} {}", m.idx, m.op)), jstr(&format!("{} ops over {} chunks", ops.len(), chunks.len())));
                }
            }
            // robustness: sources whose read() fails with io::Error (outside the property's "any byte stream")
            let mut ecases = err_boundary_cases();
            let n_err = ecases.len().max(n / 6);
            while ecases.len() < n_err { ecases.push(gen_err_case(&mut r)); }
            let mut log: Vec<(EK, &'static str)> = Vec::new();
            let mut reported = 0usize;
            for (chunks, errs, ops) in ecases.iter() {
                if let Some(m) = check_err_case(chunks, errs, ops, &mut log) {
                    fails += 1;
                    if reported >= 6 { continue; }
                    reported += 1;
                    let o: Vec<Op> = ops[..=m.idx.min(ops.len() - 1)].to_vec();
                    println!("{{\"what\":{},\"input\":{},\"expected\":{},\"actual\":{},\"minimal_ops\":{},\"failing_op\":{}}}",
                        jstr(&m.what), jstr(&format!("E {} {} {}", show_chunks(chunks), show_errs(errs), show_ops(&o))), jstr(&m.expected), jstr(&m.actual),
                        jstr(&show_ops(&o)), jstr(&format!("#{} {}", m.idx, m.op)));
                }
            }
            let mut io: std::collections::BTreeMap<String, usize> = std::collections::BTreeMap::new();
            for (k, site) in log.iter() { *io.entry(format!("{}|{}", k.tag(), site)).or_insert(0) += 1; }
            println!("#io {{\"sources\":{},\"errors_served\":{{{}}}}}", ecases.len(), io.iter().map(|(k, v)| format!("{}:{}", jstr(k), v)).collect::<Vec<_>>().join(","));
            println!("evaluations={} failures={} ops={} sticky_sources={} early_empty_sources={} io_error_sources={} io_errors_served={}",
                n.max(1).min(cases.len()) + ecases.len(), fails, n_ops, n_sticky, n_early, ecases.len(), log.len());
        }
        _ => { eprintln!("usage: c13 corr|falsify <seed> <n> | replay <chunks> <ops> | replay-err <chunks> <errs> <ops>"); std::process::exit(2); }
    }
}
