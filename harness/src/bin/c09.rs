//! C09 harness: FFT, interpolation and LDE equal direct polynomial evaluation.
//!   c09 corr <seed> <maxlog> [quick|thorough]    -> lines "<case> => <impl result>"
//!   c09 falsify <seed> <maxlog> [quick|thorough] -> JSON lines (one per failure against the Horner oracle),
//!                                                   then "evaluations=<n> failures=<k>"
use std::collections::{BTreeMap, BTreeSet};
use std::io::Write as _;
use std::panic::AssertUnwindSafe;

use wf_harness::{catch, jstr, prng::Rng, refmath::*, silence_panics, watchdog::{self, Progress}};
use winter_math::fft::{self, fft_inputs::FftInputs};
use winter_math::fields::{f128, f62, f64, CubeExtension, QuadExtension};
use winter_math::{ExtensibleField, FieldElement, StarkField};
use winter_prover::matrix::{ColMatrix, RowMatrix};
use winter_prover::StarkDomain;

const M64: u128 = 0xFFFF_FFFF_0000_0001;
const M62: u128 = 4611624995532046337;
const M128: u128 = 340282366920938463463374557953744961537;

// ---------------------------------------------------------------- base fields with a u128 view
trait RF: StarkField {
    const P: u128;
    const NAME: &'static str;
    /// budget of reference multiplications per sampled Horner check (refmath on f128 is ~100x slower)
    const SLOW: bool;
    fn fu(v: u128) -> Self;
    fn tu(&self) -> u128;
}
impl RF for f64::BaseElement {
    const P: u128 = M64; const NAME: &'static str = "f64"; const SLOW: bool = false;
    fn fu(v: u128) -> Self { Self::new((v % M64) as u64) }
    fn tu(&self) -> u128 { self.as_int() as u128 }
}
impl RF for f62::BaseElement {
    const P: u128 = M62; const NAME: &'static str = "f62"; const SLOW: bool = false;
    fn fu(v: u128) -> Self { Self::new((v % M62) as u64) }
    fn tu(&self) -> u128 { self.as_int() as u128 }
}
impl RF for f128::BaseElement {
    const P: u128 = M128; const NAME: &'static str = "f128"; const SLOW: bool = true;
    fn fu(v: u128) -> Self { Self::new(v % M128) }
    fn tu(&self) -> u128 { self.as_int() }
}

fn tov<B: RF>(v: &[u128]) -> Vec<B> { v.iter().map(|&x| B::fu(x)).collect() }

fn hu(v: &[u128]) -> String {
    if v.is_empty() { return "-".into(); }
    let mut s = String::with_capacity(v.len() * 18);
    for (i, x) in v.iter().enumerate() {
        if i > 0 { s.push(','); }
        s.push_str(&format!("{:x}", x));
    }
    s
}
fn hv<B: RF>(v: &[B]) -> String {
    if v.is_empty() { return "-".into(); }
    let mut s = String::with_capacity(v.len() * 18);
    for (i, x) in v.iter().enumerate() {
        if i > 0 { s.push(','); }
        s.push_str(&format!("{:x}", x.tu()));
    }
    s
}
fn hcols_u(c: &[Vec<u128>]) -> String { c.iter().map(|v| hu(v)).collect::<Vec<_>>().join(";") }
fn hcols<B: RF>(c: &[Vec<B>]) -> String { c.iter().map(|v| hv(v)).collect::<Vec<_>>().join(";") }
fn rv<B: RF>(r: Result<Vec<B>, String>) -> String { match r { Ok(v) => hv(&v), Err(_) => "panic".into() } }

/// bit reversal of the low `bits` bits of `i`, one bit at a time (independent of `permute_index`)
fn bitrev(i: u64, bits: u32) -> u64 {
    let mut r = 0u64;
    let mut k = 0;
    while k < bits {
        if (i >> k) & 1 == 1 { r |= 1u64 << (bits - 1 - k); }
        k += 1;
    }
    r
}

fn boundary_vals(p: u128) -> Vec<u128> {
    [0, 1, p - 1, (p - 1) / 2, 1u128 << 32, (1u128 << 32) - 1, 1u128 << 63, (1u128 << 63) - 1, (1u128 << 64) - 1, 1u128 << 64, 2, p - 2, (p + 1) / 2, 0xFFFF_FFFF_0000_0000]
        .iter().map(|x| x % p).collect()
}
fn rand_elem(r: &mut Rng, p: u128) -> u128 { r.next_u128() % p }
fn rand_nz(r: &mut Rng, p: u128) -> u128 { 1 + r.next_u128() % (p - 1) }
fn rand_vec(r: &mut Rng, p: u128, n: usize) -> Vec<u128> { (0..n).map(|_| rand_elem(r, p)).collect() }
fn boundary_vec(r: &mut Rng, p: u128, n: usize) -> Vec<u128> {
    let b = boundary_vals(p);
    (0..n).map(|_| *r.pick(&b)).collect()
}
fn unit(n: usize, j: usize) -> Vec<u128> { let mut v = vec![0u128; n]; v[j] = 1; v }

/// Vector kinds (label, coefficients). level 0: full set, 1: reduced set, 2: minimal.
fn kinds(r: &mut Rng, p: u128, n: usize, level: u8) -> Vec<(String, Vec<u128>)> {
    let mut out: Vec<(String, Vec<u128>)> = Vec::new();
    if level == 2 {
        let j = r.below(n as u64) as usize;
        out.push((format!("unit{}", j), unit(n, j)));
        out.push(("random0".into(), rand_vec(r, p, n)));
        return out;
    }
    if level == 1 || n >= 1024 {
        let mut js: Vec<usize> = vec![0, 1 % n, n - 1, n / 2];
        js.push(r.below(n as u64) as usize);
        let mut seen = BTreeSet::new();
        for j in js { if seen.insert(j) { out.push((format!("unit{}", j), unit(n, j))); } }
        out.push(("random0".into(), rand_vec(r, p, n)));
        out.push(("boundary".into(), boundary_vec(r, p, n)));
        return out;
    }
    let mut js: Vec<usize> = if n <= 32 { (0..n).collect() } else {
        let mut v = vec![0, 1, 2, n / 2 - 1, n / 2, n - 2, n - 1];
        v.push(r.below(n as u64) as usize);
        v.push(r.below(n as u64) as usize);
        v
    };
    js.retain(|&j| j < n);
    let mut seen = BTreeSet::new();
    for j in js { if seen.insert(j) { out.push((format!("unit{}", j), unit(n, j))); } }
    out.push(("ones".into(), vec![1; n]));
    out.push(("allpm1".into(), vec![p - 1; n]));
    out.push(("alt0pm1".into(), (0..n).map(|i| if i % 2 == 0 { 0 } else { p - 1 }).collect()));
    out.push(("iota".into(), (0..n).map(|i| (i as u128 + 1) % p).collect()));
    for k in 0..(if n <= 64 { 3 } else { 2 }) { out.push((format!("random{}", k), rand_vec(r, p, n))); }
    out.push(("boundary".into(), boundary_vec(r, p, n)));
    out
}

fn offsets<B: RF>(r: &mut Rng) -> [u128; 4] { [1, B::GENERATOR.tu(), rand_nz(r, B::P), B::P - 1] }

// ---------------------------------------------------------------- corr
struct Out { w: std::io::BufWriter<std::io::Stdout>, counts: BTreeMap<&'static str, (usize, usize)> }
impl Out {
    fn line(&mut self, op: &'static str, case: String, res: String) {
        let e = self.counts.entry(op).or_insert((0, 0));
        e.0 += 1;
        e.1 += case.len() + res.len() + op.len() + 6;
        let _ = writeln!(self.w, "{} {} => {}", op, case, res);
    }
}

fn tw_std<B: RF>(n: usize) -> Vec<B> { catch(|| fft::get_twiddles::<B>(n)).unwrap_or_default() }
fn itw_std<B: RF>(n: usize) -> Vec<B> { catch(|| fft::get_inv_twiddles::<B>(n)).unwrap_or_default() }

fn do_evalt<B: RF>(v: &[u128], tw: &[B]) -> String {
    let mut e: Vec<B> = tov(v);
    rv(catch(AssertUnwindSafe(|| { fft::evaluate_poly(&mut e, tw); e })))
}
fn do_interpt<B: RF>(v: &[u128], tw: &[B]) -> String {
    let mut e: Vec<B> = tov(v);
    rv(catch(AssertUnwindSafe(|| { fft::interpolate_poly(&mut e, tw); e })))
}
fn do_interp_off<B: RF>(v: &[u128], tw: &[B], off: u128) -> String {
    let mut e: Vec<B> = tov(v);
    rv(catch(AssertUnwindSafe(|| { fft::interpolate_poly_with_offset(&mut e, tw, B::fu(off)); e })))
}
fn do_eval_off<B: RF>(v: &[u128], tw: &[B], off: u128, blowup: usize) -> String {
    let e: Vec<B> = tov(v);
    rv(catch(AssertUnwindSafe(|| fft::evaluate_poly_with_offset(&e, tw, B::fu(off), blowup))))
}
fn do_fft_raw<B: RF>(v: &[u128], tw: &[B], count: usize, stride: usize, offset: usize) -> String {
    let mut e: Vec<B> = tov(v);
    rv(catch(AssertUnwindSafe(|| { FftInputs::fft_in_place_raw(&mut e[..], tw, count, stride, offset); e })))
}

/// reference coset evaluation by Horner: p(offset * g^i), i < n (g = n-th root of unity of the library)
fn horner_coset<B: RF>(poly: &[u128], n: usize, off: u128) -> Vec<u128> {
    let p = B::P;
    let g = B::get_root_of_unity(n.trailing_zeros()).tu();
    let mut x = off % p;
    let mut res = Vec::with_capacity(n);
    for _ in 0..n {
        let mut acc = 0u128;
        for c in poly.iter().rev() { acc = addmod(mulmod(acc, x, p), *c, p); }
        res.push(acc);
        x = mulmod(x, g, p);
    }
    res
}

fn corr_field<B: RF>(r: &mut Rng, maxlog: u32, thorough: bool, o: &mut Out) {
    let p = B::P;
    let f = B::NAME;
    // twiddles
    for k in 1..=maxlog + 1 {
        let n = 1usize << k;
        o.line("twiddles", format!("{} {}", f, n), rv(catch(|| fft::get_twiddles::<B>(n))));
        o.line("inv_twiddles", format!("{} {}", f, n), rv(catch(|| fft::get_inv_twiddles::<B>(n))));
    }
    for n in [0usize, 3, 6, 12] {
        o.line("twiddles", format!("{} {}", f, n), rv(catch(|| fft::get_twiddles::<B>(n))));
        o.line("inv_twiddles", format!("{} {}", f, n), rv(catch(|| fft::get_inv_twiddles::<B>(n))));
    }
    // permute
    for k in 0..=maxlog {
        let n = 1usize << k;
        let mut vs: Vec<Vec<u128>> = Vec::new();
        if f == "f64" || k <= 4 { vs.push((0..n as u128).collect()); }
        vs.push(rand_vec(r, p, n));
        for v in vs {
            let mut e: Vec<B> = tov(&v);
            let res = rv(catch(AssertUnwindSafe(|| { FftInputs::permute(&mut e[..]); e })));
            o.line("permute", format!("{} {}", f, hu(&v)), res);
        }
    }
    // evalt / interpt / interp_off / eval_off
    for k in 1..=maxlog {
        let n = 1usize << k;
        let tw = tw_std::<B>(n);
        let itw = itw_std::<B>(n);
        let offs = offsets::<B>(r);
        for (_, v) in kinds(r, p, n, 0) {
            o.line("evalt", format!("{} std {}", f, hu(&v)), do_evalt::<B>(&v, &tw));
        }
        for (_, v) in kinds(r, p, n, if n >= 128 { 1 } else { 0 }) {
            o.line("interpt", format!("{} std {}", f, hu(&v)), do_interpt::<B>(&v, &itw));
        }
        // interp_off: offsets cycle over the vectors (every offset appears for every size)
        let lvl = if n >= 64 { 1 } else { 0 };
        for (i, (_, v)) in kinds(r, p, n, lvl).into_iter().enumerate() {
            let off = if n >= 1024 { offs[1 + i % 2] } else { offs[i % 4] };
            o.line("interp_off", format!("{} std {:x} {}", f, off, hu(&v)), do_interp_off::<B>(&v, &itw, off));
        }
        // eval_off
        let mut blowups: Vec<usize> = Vec::new();
        if thorough {
            let mut b = 1usize;
            while b <= 128 { if n * b <= 1usize << (maxlog + 3) { blowups.push(b); } b *= 2; }
        } else {
            for b in [1usize, 2, 4, 8] { if n * b <= 1usize << (maxlog + 2) { blowups.push(b); } }
            for b in [16usize, 32, 64, 128] { if n * b <= 1usize << (maxlog + 1) && n <= 16 { blowups.push(b); } }
        }
        for &b in &blowups {
            let big = n >= 1024;
            let lvl = if big { if b <= 2 { 1 } else { 2 } } else if n * b <= 128 { 0 } else if n * b <= 1024 { 1 } else { 2 };
            for (i, (_, v)) in kinds(r, p, n, lvl).into_iter().enumerate() {
                let off = if big { offs[1 + i % 2] } else { offs[(i + b.trailing_zeros() as usize) % 4] };
                o.line("eval_off", format!("{} std {:x} {} {}", f, off, b, hu(&v)), do_eval_off::<B>(&v, &tw, off, b));
            }
        }
    }
    // explicit twiddles (any values) and malformed calls
    for k in 1..=5u32 {
        let n = 1usize << k;
        let v = rand_vec(r, p, n);
        let t = rand_vec(r, p, n / 2);
        let tb: Vec<B> = tov(&t);
        o.line("evalt", format!("{} {} {}", f, hu(&t), hu(&v)), do_evalt::<B>(&v, &tb));
        o.line("interpt", format!("{} {} {}", f, hu(&t), hu(&v)), do_interpt::<B>(&v, &tb));
        let off = rand_nz(r, p);
        o.line("interp_off", format!("{} {} {:x} {}", f, hu(&t), off, hu(&v)), do_interp_off::<B>(&v, &tb, off));
        o.line("eval_off", format!("{} {} {:x} {} {}", f, hu(&t), off, 2, hu(&v)), do_eval_off::<B>(&v, &tb, off, 2));
    }
    for (len, tl) in [(3usize, 1usize), (3, 3), (6, 3), (6, 1), (0, 0), (0, 1), (1, 0), (8, 2), (8, 8), (4, 0)] {
        let v = rand_vec(r, p, len);
        let t = rand_vec(r, p, tl);
        let tb: Vec<B> = tov(&t);
        o.line("evalt", format!("{} {} {}", f, hu(&t), hu(&v)), do_evalt::<B>(&v, &tb));
        o.line("interpt", format!("{} {} {}", f, hu(&t), hu(&v)), do_interpt::<B>(&v, &tb));
        let off = rand_nz(r, p);
        o.line("interp_off", format!("{} {} {:x} {}", f, hu(&t), off, hu(&v)), do_interp_off::<B>(&v, &tb, off));
        o.line("eval_off", format!("{} {} {:x} {} {}", f, hu(&t), off, 2, hu(&v)), do_eval_off::<B>(&v, &tb, off, 2));
    }
    for k in [1u32, 2, 3, 5] {
        let n = 1usize << k;
        let v = rand_vec(r, p, n);
        let (tw, itw) = (tw_std::<B>(n), itw_std::<B>(n));
        o.line("eval_off", format!("{} std 0 2 {}", f, hu(&v)), do_eval_off::<B>(&v, &tw, 0, 2));
        o.line("eval_off", format!("{} std 0 1 {}", f, hu(&v)), do_eval_off::<B>(&v, &tw, 0, 1));
        o.line("interp_off", format!("{} std 0 {}", f, hu(&v)), do_interp_off::<B>(&v, &itw, 0));
        let off = rand_nz(r, p);
        for b in [3usize, 0, 6] {
            o.line("eval_off", format!("{} std {:x} {} {}", f, off, b, hu(&v)), do_eval_off::<B>(&v, &tw, off, b));
        }
    }
    // fft_raw
    let cap = 1usize << maxlog;
    let mut raw = |o: &mut Out, r: &mut Rng, size: usize, count: usize, stride: usize, offset: usize, v: Option<Vec<u128>>, tws: Option<Vec<u128>>| {
        let len = size * stride;
        let v = v.unwrap_or_else(|| rand_vec(r, p, len));
        let (twl, tw): (String, Vec<B>) = match tws { None => ("std".into(), tw_std::<B>(size)), Some(t) => (hu(&t), tov(&t)) };
        o.line("fft_raw", format!("{} {} {} {} {} {}", f, count, stride, offset, twl, hu(&v)), do_fft_raw::<B>(&v, &tw, count, stride, offset));
    };
    for k in 1..=maxlog {
        let n = 1usize << k;
        for (_, v) in kinds(r, p, n, if n >= 64 { 1 } else { 0 }) { raw(o, r, n, 1, 1, 0, Some(v), None); }
    }
    for stride in [2usize, 4, 128, 256, 512] {
        let mut size = 2;
        while size * stride <= cap {
            raw(o, r, size, stride, stride, 0, None, None);
            if f == "f64" { raw(o, r, size, stride, stride, 0, Some((0..(size * stride) as u128).collect()), None); }
            size *= 2;
        }
    }
    for stride in [1usize, 2, 3, 4, 5] {
        for size in [2usize, 4, 8, 16] {
            if size * stride > cap { continue; }
            for offset in 0..stride { raw(o, r, size, 1, stride, offset, None, None); }
        }
    }
    let strides = [1usize, 2, 3, 4, 5, 8, 16, 256, 512];
    for _ in 0..40 {
        let stride = *r.pick(&strides);
        let maxj = ((cap / stride) as u64).checked_ilog2().unwrap_or(0);
        if maxj < 1 { continue; }
        let j = 1 + r.below((maxj as u64).min(if stride >= 256 { 3 } else { 7 })) as u32;
        let size = 1usize << j;
        let offset = r.below(stride as u64) as usize;
        let count = 1 + r.below((stride - offset) as u64) as usize;
        raw(o, r, size, count, stride, offset, None, None);
    }
    for (size, stride, count, offset) in [(2usize, 1usize, 1usize, 0usize), (4, 1, 1, 0), (8, 1, 1, 0), (16, 1, 1, 0), (8, 2, 2, 0), (8, 3, 2, 1), (32, 1, 1, 0), (16, 4, 1, 3)] {
        if size * stride > cap { continue; }
        let t = rand_vec(r, p, size / 2);
        raw(o, r, size, count, stride, offset, None, Some(t));
        let t = rand_vec(r, p, size);
        raw(o, r, size, count, stride, offset, None, Some(t));
    }
    // degree
    for k in 1..=maxlog.min(8) {
        let n = 1usize << k;
        let offs = offsets::<B>(r);
        let mut ds: Vec<usize> = vec![0, 1, 2, (n / 2).saturating_sub(1), n / 2, n.saturating_sub(2), n - 1];
        ds.retain(|&d| d < n);
        ds.sort();
        ds.dedup();
        for (i, d) in ds.into_iter().enumerate() {
            let mut poly = rand_vec(r, p, d + 1);
            poly[d] = rand_nz(r, p);
            let off = offs[i % 4];
            let ev = horner_coset::<B>(&poly, n, off);
            let e: Vec<B> = tov(&ev);
            let res = catch(AssertUnwindSafe(|| fft::infer_degree(&e, B::fu(off))));
            o.line("degree", format!("{} {:x} {}", f, off, hu(&ev)), match res { Ok(d) => d.to_string(), Err(_) => "panic".into() });
        }
        for (i, v) in [vec![0u128; n], rand_vec(r, p, n), boundary_vec(r, p, n)].into_iter().enumerate() {
            let off = offs[(i + 1) % 4];
            let e: Vec<B> = tov(&v);
            let res = catch(AssertUnwindSafe(|| fft::infer_degree(&e, B::fu(off))));
            o.line("degree", format!("{} {:x} {}", f, off, hu(&v)), match res { Ok(d) => d.to_string(), Err(_) => "panic".into() });
        }
    }
    {
        let v = rand_vec(r, p, 4);
        let e: Vec<B> = tov(&v);
        let res = catch(AssertUnwindSafe(|| fft::infer_degree(&e, B::ZERO)));
        o.line("degree", format!("{} 0 {}", f, hu(&v)), match res { Ok(d) => d.to_string(), Err(_) => "panic".into() });
    }
    // column matrices
    let mut ci = 0usize;
    for nrows in [2usize, 4, 8, 16, 32] {
        for ncols in [1usize, 2, 3, 5] {
            let offs = offsets::<B>(r);
            let cols: Vec<Vec<u128>> = (0..ncols).map(|c| if c == 1 { boundary_vec(r, p, nrows) } else { rand_vec(r, p, nrows) }).collect();
            for blowup in [1usize, 2, 4, 8] {
                if (ci + blowup.trailing_zeros() as usize) % 2 == 1 && nrows > 4 { continue; }
                let off = offs[(ci + blowup) % 4];
                let ecols: Vec<Vec<B>> = cols.iter().map(|c| tov(c)).collect();
                let res = catch(AssertUnwindSafe(|| {
                    let dom = StarkDomain::from_twiddles(fft::get_twiddles::<B>(nrows), blowup, B::fu(off));
                    ColMatrix::new(ecols).evaluate_columns_over(&dom).into_columns()
                }));
                o.line("colmat_eval", format!("{} {:x} {} {}", f, off, blowup, hcols_u(&cols)), match res { Ok(c) => hcols(&c), Err(_) => "panic".into() });
            }
            let ecols: Vec<Vec<B>> = cols.iter().map(|c| tov(c)).collect();
            let res = catch(AssertUnwindSafe(|| ColMatrix::new(ecols).interpolate_columns().into_columns()));
            o.line("colmat_interp", format!("{} {}", f, hcols_u(&cols)), match res { Ok(c) => hcols(&c), Err(_) => "panic".into() });
            ci += 1;
        }
    }
    // row matrices
    let combos: Vec<(usize, usize)> = [2usize, 4, 8, 16].iter().flat_map(|&n| [2usize, 4, 8].iter().map(move |&b| (n, b))).collect();
    let fidx = match f { "f64" => 0usize, "f62" => 1, _ => 2 };
    for nb in [8usize, 1, 2, 3, 4] {
        let maxc = if nb == 8 { 40 } else { 9 };
        for c in 1..=maxc {
            let (nrows, blowup) = combos[(c * 5 + fidx * 7 + nb) % combos.len()];
            rowmat_case::<B>(r, o, nb, c, nrows, blowup);
        }
        // every (nrows, blowup) combination at least once for a partial last segment
        for (i, &(nrows, blowup)) in combos.iter().enumerate() {
            if (i + fidx) % 3 == 0 { rowmat_case::<B>(r, o, nb, nb + 1 + i % 2, nrows, blowup); }
        }
    }
    rowmat_case::<B>(r, o, 8, 3, 4, 1);
    rowmat_case::<B>(r, o, 2, 4, 2, 1);
    if thorough {
        for c in 41..=255usize {
            if c % 3 == fidx { rowmat_case::<B>(r, o, 8, c, 4, 2); }
        }
    }
}

fn rowmat_run<B: RF, const N: usize>(cols: Vec<Vec<B>>, nrows: usize, blowup: usize, off: B) -> (usize, usize, Vec<B>) {
    let dom = StarkDomain::from_twiddles(fft::get_twiddles::<B>(nrows), blowup, off);
    let m = RowMatrix::<B>::evaluate_polys_over::<N>(&ColMatrix::new(cols), &dom);
    (m.num_rows(), m.num_cols(), m.data().to_vec())
}

fn rowmat_case<B: RF>(r: &mut Rng, o: &mut Out, nb: usize, ncols: usize, nrows: usize, blowup: usize) {
    let p = B::P;
    let offs = offsets::<B>(r);
    let off = offs[(ncols + nb) % 4];
    let cols: Vec<Vec<u128>> = (0..ncols).map(|c| if c % 7 == 3 { boundary_vec(r, p, nrows) } else { rand_vec(r, p, nrows) }).collect();
    let ecols: Vec<Vec<B>> = cols.iter().map(|c| tov(c)).collect();
    let res = catch(AssertUnwindSafe(|| match nb {
        1 => rowmat_run::<B, 1>(ecols, nrows, blowup, B::fu(off)),
        2 => rowmat_run::<B, 2>(ecols, nrows, blowup, B::fu(off)),
        3 => rowmat_run::<B, 3>(ecols, nrows, blowup, B::fu(off)),
        4 => rowmat_run::<B, 4>(ecols, nrows, blowup, B::fu(off)),
        _ => rowmat_run::<B, 8>(ecols, nrows, blowup, B::fu(off)),
    }));
    o.line("rowmat", format!("{} {} {:x} {} {}", B::NAME, nb, off, blowup, hcols_u(&cols)),
        match res { Ok((nr, nc, d)) => format!("{} {} {}", nr, nc, hv(&d)), Err(_) => "panic".into() });
}

fn corr_permute_index(r: &mut Rng, o: &mut Out, small: bool) {
    let call = |size: usize, idx: usize| match catch(move || fft::permute_index(size, idx)) { Ok(v) => v.to_string(), Err(_) => "panic".into() };
    if small {
        for k in 0..=6u32 {
            let size = 1usize << k;
            for idx in 0..size { o.line("permute_index", format!("{} {}", size, idx), call(size, idx)); }
        }
    } else {
        let mut ks: Vec<u32> = (7..=20).collect();
        ks.extend([31u32, 32, 40, 62, 63]);
        for k in ks {
            let size = 1usize << k;
            let mut idxs = vec![0usize, 1, 2, size / 2 - 1, size / 2, size - 2, size - 1];
            for _ in 0..4 { idxs.push(r.below(size as u64) as usize); }
            for idx in idxs { o.line("permute_index", format!("{} {}", size, idx), call(size, idx)); }
        }
    }
}

fn corr(seed: u64, maxlog: u32, thorough: bool) {
    let mut r = Rng::new(seed);
    let mut o = Out { w: std::io::BufWriter::with_capacity(1 << 20, std::io::stdout()), counts: BTreeMap::new() };
    corr_permute_index(&mut r, &mut o, true);
    corr_field::<f64::BaseElement>(&mut r, maxlog, thorough, &mut o);
    corr_field::<f62::BaseElement>(&mut r, maxlog, thorough, &mut o);
    corr_field::<f128::BaseElement>(&mut r, maxlog, thorough, &mut o);
    corr_permute_index(&mut r, &mut o, false);
    let _ = o.w.flush();
    if std::env::var("C09_STATS").is_ok() {
        for (k, (n, b)) in &o.counts { eprintln!("{:14} cases={:6} bytes={}", k, n, b); }
    }
}

// FALSIFY-BEGIN
fn falsify(_seed: u64, _maxlog: u32, _thorough: bool, _prog: &Progress) -> (u64, u64) { (0, 0) }
// FALSIFY-END

fn main() {
    silence_panics();
    let args: Vec<String> = std::env::args().collect();
    let mode = args.get(1).map(|s| s.as_str()).unwrap_or("");
    let seed: u64 = args.get(2).and_then(|s| s.parse().ok()).unwrap_or(1);
    let maxlog: u32 = args.get(3).and_then(|s| s.parse().ok()).unwrap_or(11).clamp(1, 20);
    let thorough = args.get(4).map(|s| s == "thorough").unwrap_or(false);
    match mode {
        "corr" => corr(seed, maxlog, thorough),
        "falsify" => {
            let (evals, fails) = watchdog::run(std::time::Duration::from_secs(30), move |prog| falsify(seed, maxlog, thorough, &prog), |cur| {
                println!("{{\"what\":\"operation does not terminate (no progress for 30 s)\",\"input\":{},\"expected\":\"returns\",\"actual\":\"hang\"}}", jstr(&cur));
                println!("evaluations=0 failures=1");
            });
            println!("evaluations={} failures={}", evals, fails);
        }
        _ => { eprintln!("usage: c09 corr|falsify <seed> <maxlog> [quick|thorough]"); std::process::exit(2); }
    }
}
