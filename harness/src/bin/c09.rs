//! C09 harness: FFT, interpolation and LDE equal direct polynomial evaluation.
//!   c09 corr <seed> <maxlog> [quick|thorough]    -> lines "<case> => <impl result>"
//!   c09 falsify <seed> <maxlog> [quick|thorough] -> JSON lines (one per failure against the Horner oracle),
//!                                                   then "evaluations=<n> failures=<k>"
use std::collections::{BTreeMap, BTreeSet};
use std::io::Write as _;
use std::panic::AssertUnwindSafe;

use wf_harness::{catch, jstr, prng::Rng, refmath::*, silence_panics, watchdog::{self, Progress}};
use winter_math::fft::{self, fft_inputs::FftInputs};
use winter_math::fields::{f128, f62, f64, CubeExtension, QuadExtension};
use winter_math::{ExtensibleField, FieldElement, StarkField};
use winter_prover::matrix::{ColMatrix, RowMatrix};
use winter_prover::StarkDomain;

const M64: u128 = 0xFFFF_FFFF_0000_0001;
const M62: u128 = 4611624995532046337;
const M128: u128 = 340282366920938463463374557953744961537;

// ---------------------------------------------------------------- base fields with a u128 view
trait RF: StarkField {
    const P: u128;
    const NAME: &'static str;
    /// budget of reference multiplications per sampled Horner check (refmath on f128 is ~100x slower)
    const SLOW: bool;
    fn fu(v: u128) -> Self;
    fn tu(&self) -> u128;
}
impl RF for f64::BaseElement {
    const P: u128 = M64; const NAME: &'static str = "f64"; const SLOW: bool = false;
    fn fu(v: u128) -> Self { Self::new((v % M64) as u64) }
    fn tu(&self) -> u128 { self.as_int() as u128 }
}
impl RF for f62::BaseElement {
    const P: u128 = M62; const NAME: &'static str = "f62"; const SLOW: bool = false;
    fn fu(v: u128) -> Self { Self::new((v % M62) as u64) }
    fn tu(&self) -> u128 { self.as_int() as u128 }
}
impl RF for f128::BaseElement {
    const P: u128 = M128; const NAME: &'static str = "f128"; const SLOW: bool = true;
    fn fu(v: u128) -> Self { Self::new(v % M128) }
    fn tu(&self) -> u128 { self.as_int() }
}

fn tov<B: RF>(v: &[u128]) -> Vec<B> { v.iter().map(|&x| B::fu(x)).collect() }

fn hu(v: &[u128]) -> String {
    if v.is_empty() { return "-".into(); }
    let mut s = String::with_capacity(v.len() * 18);
    for (i, x) in v.iter().enumerate() {
        if i > 0 { s.push(','); }
        s.push_str(&format!("{:x}", x));
    }
    s
}
fn hv<B: RF>(v: &[B]) -> String {
    if v.is_empty() { return "-".into(); }
    let mut s = String::with_capacity(v.len() * 18);
    for (i, x) in v.iter().enumerate() {
        if i > 0 { s.push(','); }
        s.push_str(&format!("{:x}", x.tu()));
    }
    s
}
fn hcols_u(c: &[Vec<u128>]) -> String { c.iter().map(|v| hu(v)).collect::<Vec<_>>().join(";") }
fn hcols<B: RF>(c: &[Vec<B>]) -> String { c.iter().map(|v| hv(v)).collect::<Vec<_>>().join(";") }
fn rv<B: RF>(r: Result<Vec<B>, String>) -> String { match r { Ok(v) => hv(&v), Err(_) => "panic".into() } }

/// bit reversal of the low `bits` bits of `i`, one bit at a time (independent of `permute_index`)
fn bitrev(i: u64, bits: u32) -> u64 {
    let mut r = 0u64;
    let mut k = 0;
    while k < bits {
        if (i >> k) & 1 == 1 { r |= 1u64 << (bits - 1 - k); }
        k += 1;
    }
    r
}

fn boundary_vals(p: u128) -> Vec<u128> {
    [0, 1, p - 1, (p - 1) / 2, 1u128 << 32, (1u128 << 32) - 1, 1u128 << 63, (1u128 << 63) - 1, (1u128 << 64) - 1, 1u128 << 64, 2, p - 2, (p + 1) / 2, 0xFFFF_FFFF_0000_0000]
        .iter().map(|x| x % p).collect()
}
fn rand_elem(r: &mut Rng, p: u128) -> u128 { r.next_u128() % p }
fn rand_nz(r: &mut Rng, p: u128) -> u128 { 1 + r.next_u128() % (p - 1) }
fn rand_vec(r: &mut Rng, p: u128, n: usize) -> Vec<u128> { (0..n).map(|_| rand_elem(r, p)).collect() }
fn boundary_vec(r: &mut Rng, p: u128, n: usize) -> Vec<u128> {
    let b = boundary_vals(p);
    (0..n).map(|_| *r.pick(&b)).collect()
}
fn unit(n: usize, j: usize) -> Vec<u128> { let mut v = vec![0u128; n]; v[j] = 1; v }

/// Vector kinds (label, coefficients). level 0: full set, 1: reduced set, 2: minimal.
fn kinds(r: &mut Rng, p: u128, n: usize, level: u8) -> Vec<(String, Vec<u128>)> {
    let mut out: Vec<(String, Vec<u128>)> = Vec::new();
    if level == 2 {
        let j = r.below(n as u64) as usize;
        out.push((format!("unit{}", j), unit(n, j)));
        out.push(("random0".into(), rand_vec(r, p, n)));
        return out;
    }
    if level == 1 || n >= 1024 {
        let mut js: Vec<usize> = vec![0, 1 % n, n - 1, n / 2];
        js.push(r.below(n as u64) as usize);
        let mut seen = BTreeSet::new();
        for j in js { if seen.insert(j) { out.push((format!("unit{}", j), unit(n, j))); } }
        out.push(("random0".into(), rand_vec(r, p, n)));
        out.push(("boundary".into(), boundary_vec(r, p, n)));
        return out;
    }
    let mut js: Vec<usize> = if n <= 32 { (0..n).collect() } else {
        let mut v = vec![0, 1, 2, n / 2 - 1, n / 2, n - 2, n - 1];
        v.push(r.below(n as u64) as usize);
        v.push(r.below(n as u64) as usize);
        v
    };
    js.retain(|&j| j < n);
    let mut seen = BTreeSet::new();
    for j in js { if seen.insert(j) { out.push((format!("unit{}", j), unit(n, j))); } }
    out.push(("ones".into(), vec![1; n]));
    out.push(("allpm1".into(), vec![p - 1; n]));
    out.push(("alt0pm1".into(), (0..n).map(|i| if i % 2 == 0 { 0 } else { p - 1 }).collect()));
    out.push(("iota".into(), (0..n).map(|i| (i as u128 + 1) % p).collect()));
    for k in 0..(if n <= 64 { 3 } else { 2 }) { out.push((format!("random{}", k), rand_vec(r, p, n))); }
    out.push(("boundary".into(), boundary_vec(r, p, n)));
    out
}

fn offsets<B: RF>(r: &mut Rng) -> [u128; 4] { [1, B::GENERATOR.tu(), rand_nz(r, B::P), B::P - 1] }

// ---------------------------------------------------------------- corr
struct Out { w: std::io::BufWriter<std::io::Stdout>, counts: BTreeMap<&'static str, (usize, usize)> }
impl Out {
    fn line(&mut self, op: &'static str, case: String, res: String) {
        let e = self.counts.entry(op).or_insert((0, 0));
        e.0 += 1;
        e.1 += case.len() + res.len() + op.len() + 6;
        let _ = writeln!(self.w, "{} {} => {}", op, case, res);
    }
}

fn tw_std<B: RF>(n: usize) -> Vec<B> { catch(|| fft::get_twiddles::<B>(n)).unwrap_or_default() }
fn itw_std<B: RF>(n: usize) -> Vec<B> { catch(|| fft::get_inv_twiddles::<B>(n)).unwrap_or_default() }

fn do_evalt<B: RF>(v: &[u128], tw: &[B]) -> String {
    let mut e: Vec<B> = tov(v);
    rv(catch(AssertUnwindSafe(|| { fft::evaluate_poly(&mut e, tw); e })))
}
fn do_interpt<B: RF>(v: &[u128], tw: &[B]) -> String {
    let mut e: Vec<B> = tov(v);
    rv(catch(AssertUnwindSafe(|| { fft::interpolate_poly(&mut e, tw); e })))
}
fn do_interp_off<B: RF>(v: &[u128], tw: &[B], off: u128) -> String {
    let mut e: Vec<B> = tov(v);
    rv(catch(AssertUnwindSafe(|| { fft::interpolate_poly_with_offset(&mut e, tw, B::fu(off)); e })))
}
fn do_eval_off<B: RF>(v: &[u128], tw: &[B], off: u128, blowup: usize) -> String {
    let e: Vec<B> = tov(v);
    rv(catch(AssertUnwindSafe(|| fft::evaluate_poly_with_offset(&e, tw, B::fu(off), blowup))))
}
fn do_fft_raw<B: RF>(v: &[u128], tw: &[B], count: usize, stride: usize, offset: usize) -> String {
    let mut e: Vec<B> = tov(v);
    rv(catch(AssertUnwindSafe(|| { FftInputs::fft_in_place_raw(&mut e[..], tw, count, stride, offset); e })))
}

/// reference coset evaluation by Horner: p(offset * g^i), i < n (g = n-th root of unity of the library)
fn horner_coset<B: RF>(poly: &[u128], n: usize, off: u128) -> Vec<u128> {
    let p = B::P;
    let g = B::get_root_of_unity(n.trailing_zeros()).tu();
    let mut x = off % p;
    let mut res = Vec::with_capacity(n);
    for _ in 0..n {
        let mut acc = 0u128;
        for c in poly.iter().rev() { acc = addmod(mulmod(acc, x, p), *c, p); }
        res.push(acc);
        x = mulmod(x, g, p);
    }
    res
}

fn corr_field<B: RF>(r: &mut Rng, maxlog: u32, thorough: bool, o: &mut Out) {
    let p = B::P;
    let f = B::NAME;
    // twiddles
    for k in 1..=maxlog + 1 {
        let n = 1usize << k;
        o.line("twiddles", format!("{} {}", f, n), rv(catch(|| fft::get_twiddles::<B>(n))));
        o.line("inv_twiddles", format!("{} {}", f, n), rv(catch(|| fft::get_inv_twiddles::<B>(n))));
    }
    for n in [0usize, 3, 6, 12] {
        o.line("twiddles", format!("{} {}", f, n), rv(catch(|| fft::get_twiddles::<B>(n))));
        o.line("inv_twiddles", format!("{} {}", f, n), rv(catch(|| fft::get_inv_twiddles::<B>(n))));
    }
    // permute
    for k in 0..=maxlog {
        let n = 1usize << k;
        let mut vs: Vec<Vec<u128>> = Vec::new();
        if f == "f64" || k <= 4 { vs.push((0..n as u128).collect()); }
        vs.push(rand_vec(r, p, n));
        for v in vs {
            let mut e: Vec<B> = tov(&v);
            let res = rv(catch(AssertUnwindSafe(|| { FftInputs::permute(&mut e[..]); e })));
            o.line("permute", format!("{} {}", f, hu(&v)), res);
        }
    }
    // evalt / interpt / interp_off / eval_off
    for k in 1..=maxlog {
        let n = 1usize << k;
        let tw = tw_std::<B>(n);
        let itw = itw_std::<B>(n);
        let offs = offsets::<B>(r);
        for (_, v) in kinds(r, p, n, 0) {
            o.line("evalt", format!("{} std {}", f, hu(&v)), do_evalt::<B>(&v, &tw));
        }
        for (_, v) in kinds(r, p, n, if n >= 128 { 1 } else { 0 }) {
            o.line("interpt", format!("{} std {}", f, hu(&v)), do_interpt::<B>(&v, &itw));
        }
        // interp_off: offsets cycle over the vectors (every offset appears for every size)
        let lvl = if n >= 64 { 1 } else { 0 };
        for (i, (_, v)) in kinds(r, p, n, lvl).into_iter().enumerate() {
            let off = if n >= 1024 { offs[1 + i % 2] } else { offs[i % 4] };
            o.line("interp_off", format!("{} std {:x} {}", f, off, hu(&v)), do_interp_off::<B>(&v, &itw, off));
        }
        // eval_off
        let mut blowups: Vec<usize> = Vec::new();
        if thorough {
            let mut b = 1usize;
            while b <= 128 { if n * b <= 1usize << (maxlog + 3) { blowups.push(b); } b *= 2; }
        } else {
            for b in [1usize, 2, 4, 8] { if n * b <= 1usize << (maxlog + 2) { blowups.push(b); } }
            for b in [16usize, 32, 64, 128] { if n * b <= 1usize << (maxlog + 1) && n <= 16 { blowups.push(b); } }
        }
        if n >= 1024 && !thorough {
            // the seven vectors of the reduced set are spread over blowups {1,2} and offsets {GENERATOR, random}
            for (i, (_, v)) in kinds(r, p, n, 1).into_iter().enumerate() {
                let (off, b) = (offs[1 + i % 2], 1 + (i / 2) % 2);
                o.line("eval_off", format!("{} std {:x} {} {}", f, off, b, hu(&v)), do_eval_off::<B>(&v, &tw, off, b));
            }
            if n == 1024 {
                let v = rand_vec(r, p, n);
                o.line("eval_off", format!("{} std {:x} {} {}", f, offs[1], 4, hu(&v)), do_eval_off::<B>(&v, &tw, offs[1], 4));
            }
            continue;
        }
        for &b in &blowups {
            let big = n >= 1024;
            let lvl = if big { if b <= 2 { 1 } else { 2 } } else if n * b <= 64 { 0 } else if n * b <= 512 { 1 } else { 2 };
            for (i, (_, v)) in kinds(r, p, n, lvl).into_iter().enumerate() {
                if lvl == 2 && n * b >= 4096 && i == 0 { continue; }
                let off = if big { offs[1 + i % 2] } else { offs[(i + b.trailing_zeros() as usize) % 4] };
                o.line("eval_off", format!("{} std {:x} {} {}", f, off, b, hu(&v)), do_eval_off::<B>(&v, &tw, off, b));
            }
        }
    }
    // explicit twiddles (any values) and malformed calls
    for k in 1..=5u32 {
        let n = 1usize << k;
        let v = rand_vec(r, p, n);
        let t = rand_vec(r, p, n / 2);
        let tb: Vec<B> = tov(&t);
        o.line("evalt", format!("{} {} {}", f, hu(&t), hu(&v)), do_evalt::<B>(&v, &tb));
        o.line("interpt", format!("{} {} {}", f, hu(&t), hu(&v)), do_interpt::<B>(&v, &tb));
        let off = rand_nz(r, p);
        o.line("interp_off", format!("{} {} {:x} {}", f, hu(&t), off, hu(&v)), do_interp_off::<B>(&v, &tb, off));
        o.line("eval_off", format!("{} {} {:x} {} {}", f, hu(&t), off, 2, hu(&v)), do_eval_off::<B>(&v, &tb, off, 2));
    }
    for (len, tl) in [(3usize, 1usize), (3, 3), (6, 3), (6, 1), (0, 0), (0, 1), (1, 0), (8, 2), (8, 8), (4, 0)] {
        let v = rand_vec(r, p, len);
        let t = rand_vec(r, p, tl);
        let tb: Vec<B> = tov(&t);
        o.line("evalt", format!("{} {} {}", f, hu(&t), hu(&v)), do_evalt::<B>(&v, &tb));
        o.line("interpt", format!("{} {} {}", f, hu(&t), hu(&v)), do_interpt::<B>(&v, &tb));
        let off = rand_nz(r, p);
        o.line("interp_off", format!("{} {} {:x} {}", f, hu(&t), off, hu(&v)), do_interp_off::<B>(&v, &tb, off));
        o.line("eval_off", format!("{} {} {:x} {} {}", f, hu(&t), off, 2, hu(&v)), do_eval_off::<B>(&v, &tb, off, 2));
    }
    for k in [1u32, 2, 3, 5] {
        let n = 1usize << k;
        let v = rand_vec(r, p, n);
        let (tw, itw) = (tw_std::<B>(n), itw_std::<B>(n));
        o.line("eval_off", format!("{} std 0 2 {}", f, hu(&v)), do_eval_off::<B>(&v, &tw, 0, 2));
        o.line("eval_off", format!("{} std 0 1 {}", f, hu(&v)), do_eval_off::<B>(&v, &tw, 0, 1));
        o.line("interp_off", format!("{} std 0 {}", f, hu(&v)), do_interp_off::<B>(&v, &itw, 0));
        let off = rand_nz(r, p);
        for b in [3usize, 0, 6] {
            o.line("eval_off", format!("{} std {:x} {} {}", f, off, b, hu(&v)), do_eval_off::<B>(&v, &tw, off, b));
        }
    }
    // fft_raw
    let cap = 1usize << maxlog;
    let raw = |o: &mut Out, r: &mut Rng, size: usize, count: usize, stride: usize, offset: usize, v: Option<Vec<u128>>, tws: Option<Vec<u128>>| {
        let len = size * stride;
        let v = v.unwrap_or_else(|| rand_vec(r, p, len));
        let (twl, tw): (String, Vec<B>) = match tws { None => ("std".into(), tw_std::<B>(size)), Some(t) => (hu(&t), tov(&t)) };
        o.line("fft_raw", format!("{} {} {} {} {} {}", f, count, stride, offset, twl, hu(&v)), do_fft_raw::<B>(&v, &tw, count, stride, offset));
    };
    for k in 1..=maxlog {
        let n = 1usize << k;
        for (_, v) in kinds(r, p, n, if n >= 256 { 2 } else if n >= 64 { 1 } else { 0 }) { raw(o, r, n, 1, 1, 0, Some(v), None); }
    }
    for stride in [2usize, 4, 128, 256, 512] {
        let mut size = 2;
        while size * stride <= cap {
            // all sizes for the large strides (two-call branch), a thinned ladder for strides 2 and 4
            let keep = stride >= 128 || size <= 16 || size * stride == cap || size * stride == 512;
            // lengths above 2^10 for one field only, except where needed to reach the two-call branch
            if keep && (size * stride <= 1024 || f == "f64" || (stride == 512 && size == 4)) {
                raw(o, r, size, stride, stride, 0, None, None);
                if f == "f64" && size * stride <= 256 { raw(o, r, size, stride, stride, 0, Some((0..(size * stride) as u128).collect()), None); }
            }
            size *= 2;
        }
    }
    for stride in [1usize, 2, 3, 4, 5] {
        for size in [2usize, 4, 8, 16] {
            if size * stride > cap { continue; }
            for offset in 0..stride { raw(o, r, size, 1, stride, offset, None, None); }
        }
    }
    let strides = [1usize, 2, 3, 4, 5, 8, 16, 256, 512];
    for _ in 0..36 {
        let stride = *r.pick(&strides);
        let maxj = ((cap / stride) as u64).checked_ilog2().unwrap_or(0);
        if maxj < 1 { continue; }
        let j = 1 + r.below((maxj as u64).min(if stride >= 256 { 2 } else { 5 })) as u32;
        let size = 1usize << j;
        let offset = r.below(stride as u64) as usize;
        let count = 1 + r.below((stride - offset) as u64) as usize;
        raw(o, r, size, count, stride, offset, None, None);
    }
    for (size, stride, count, offset) in [(2usize, 1usize, 1usize, 0usize), (4, 1, 1, 0), (8, 1, 1, 0), (16, 1, 1, 0), (8, 2, 2, 0), (8, 3, 2, 1), (32, 1, 1, 0), (16, 4, 1, 3)] {
        if size * stride > cap { continue; }
        let t = rand_vec(r, p, size / 2);
        raw(o, r, size, count, stride, offset, None, Some(t));
        let t = rand_vec(r, p, size);
        raw(o, r, size, count, stride, offset, None, Some(t));
    }
    // degree
    for k in 1..=maxlog.min(8) {
        let n = 1usize << k;
        let offs = offsets::<B>(r);
        let mut ds: Vec<usize> = vec![0, 1, 2, (n / 2).saturating_sub(1), n / 2, n.saturating_sub(2), n - 1];
        ds.retain(|&d| d < n);
        ds.sort();
        ds.dedup();
        for (i, d) in ds.into_iter().enumerate() {
            let mut poly = rand_vec(r, p, d + 1);
            poly[d] = rand_nz(r, p);
            let off = offs[i % 4];
            let ev = horner_coset::<B>(&poly, n, off);
            let e: Vec<B> = tov(&ev);
            let res = catch(AssertUnwindSafe(|| fft::infer_degree(&e, B::fu(off))));
            o.line("degree", format!("{} {:x} {}", f, off, hu(&ev)), match res { Ok(d) => d.to_string(), Err(_) => "panic".into() });
        }
        for (i, v) in [vec![0u128; n], rand_vec(r, p, n), boundary_vec(r, p, n)].into_iter().enumerate() {
            let off = offs[(i + 1) % 4];
            let e: Vec<B> = tov(&v);
            let res = catch(AssertUnwindSafe(|| fft::infer_degree(&e, B::fu(off))));
            o.line("degree", format!("{} {:x} {}", f, off, hu(&v)), match res { Ok(d) => d.to_string(), Err(_) => "panic".into() });
        }
    }
    {
        let v = rand_vec(r, p, 4);
        let e: Vec<B> = tov(&v);
        let res = catch(AssertUnwindSafe(|| fft::infer_degree(&e, B::ZERO)));
        o.line("degree", format!("{} 0 {}", f, hu(&v)), match res { Ok(d) => d.to_string(), Err(_) => "panic".into() });
    }
    // column matrices
    let mut ci = 0usize;
    for nrows in [2usize, 4, 8, 16, 32] {
        for ncols in [1usize, 2, 3, 5] {
            let offs = offsets::<B>(r);
            let cols: Vec<Vec<u128>> = (0..ncols).map(|c| if c == 1 { boundary_vec(r, p, nrows) } else { rand_vec(r, p, nrows) }).collect();
            for blowup in [1usize, 2, 4, 8] {
                if (ci + blowup.trailing_zeros() as usize) % 2 == 1 && nrows > 4 { continue; }
                let off = offs[(ci + blowup) % 4];
                let ecols: Vec<Vec<B>> = cols.iter().map(|c| tov(c)).collect();
                let res = catch(AssertUnwindSafe(|| {
                    let dom = StarkDomain::from_twiddles(fft::get_twiddles::<B>(nrows), blowup, B::fu(off));
                    ColMatrix::new(ecols).evaluate_columns_over(&dom).into_columns()
                }));
                o.line("colmat_eval", format!("{} {:x} {} {}", f, off, blowup, hcols_u(&cols)), match res { Ok(c) => hcols(&c), Err(_) => "panic".into() });
            }
            let ecols: Vec<Vec<B>> = cols.iter().map(|c| tov(c)).collect();
            let res = catch(AssertUnwindSafe(|| ColMatrix::new(ecols).interpolate_columns().into_columns()));
            o.line("colmat_interp", format!("{} {}", f, hcols_u(&cols)), match res { Ok(c) => hcols(&c), Err(_) => "panic".into() });
            ci += 1;
        }
    }
    // row matrices
    let combos: Vec<(usize, usize)> = [2usize, 4, 8, 16].iter().flat_map(|&n| [2usize, 4, 8].iter().map(move |&b| (n, b))).collect();
    let fidx = match f { "f64" => 0usize, "f62" => 1, _ => 2 };
    for nb in [8usize, 1, 2, 3, 4] {
        let maxc = if nb == 8 { 40 } else { 9 };
        for c in 1..=maxc {
            let (mut nrows, blowup) = combos[(c * 5 + fidx * 7 + nb) % combos.len()];
            // wide matrices only over the smaller domains (output volume)
            while c > 12 && nrows * blowup > 32 { nrows /= 2; }
            if c > 20 && c % 3 != fidx { continue; }
            rowmat_case::<B>(r, o, nb, c, nrows, blowup);
        }
        // every (nrows, blowup) combination at least once for a partial last segment
        for (i, &(nrows, blowup)) in combos.iter().enumerate() {
            if (i + fidx) % 3 == 0 { rowmat_case::<B>(r, o, nb, nb + 1 + i % 2, nrows, blowup); }
        }
    }
    rowmat_case::<B>(r, o, 8, 3, 4, 1);
    rowmat_case::<B>(r, o, 2, 4, 2, 1);
    if thorough {
        for c in 41..=255usize {
            if c % 3 == fidx { rowmat_case::<B>(r, o, 8, c, 4, 2); }
        }
    }
}

fn rowmat_run<B: RF, const N: usize>(cols: Vec<Vec<B>>, nrows: usize, blowup: usize, off: B) -> (usize, usize, Vec<B>) {
    let dom = StarkDomain::from_twiddles(fft::get_twiddles::<B>(nrows), blowup, off);
    let m = RowMatrix::<B>::evaluate_polys_over::<N>(&ColMatrix::new(cols), &dom);
    (m.num_rows(), m.num_cols(), m.data().to_vec())
}

fn rowmat_case<B: RF>(r: &mut Rng, o: &mut Out, nb: usize, ncols: usize, nrows: usize, blowup: usize) {
    rowmat_case_op::<B>("rowmat", r, o, nb, ncols, nrows, blowup)
}
fn rowmat_case_op<B: RF>(op: &'static str, r: &mut Rng, o: &mut Out, nb: usize, ncols: usize, nrows: usize, blowup: usize) {
    let p = B::P;
    let offs = offsets::<B>(r);
    let off = offs[(ncols + nb) % 4];
    let cols: Vec<Vec<u128>> = (0..ncols).map(|c| if c % 7 == 3 { boundary_vec(r, p, nrows) } else { rand_vec(r, p, nrows) }).collect();
    let ecols: Vec<Vec<B>> = cols.iter().map(|c| tov(c)).collect();
    let res = catch(AssertUnwindSafe(|| match nb {
        1 => rowmat_run::<B, 1>(ecols, nrows, blowup, B::fu(off)),
        2 => rowmat_run::<B, 2>(ecols, nrows, blowup, B::fu(off)),
        3 => rowmat_run::<B, 3>(ecols, nrows, blowup, B::fu(off)),
        4 => rowmat_run::<B, 4>(ecols, nrows, blowup, B::fu(off)),
        _ => rowmat_run::<B, 8>(ecols, nrows, blowup, B::fu(off)),
    }));
    o.line(op, format!("{} {} {:x} {} {}", B::NAME, nb, off, blowup, hcols_u(&cols)),
        match res { Ok((nr, nc, d)) => format!("{} {} {}", nr, nc, hv(&d)), Err(_) => "panic".into() });
}

fn corr_permute_index(r: &mut Rng, o: &mut Out, small: bool) {
    let call = |size: usize, idx: usize| match catch(move || fft::permute_index(size, idx)) { Ok(v) => v.to_string(), Err(_) => "panic".into() };
    if small {
        for k in 0..=6u32 {
            let size = 1usize << k;
            for idx in 0..size { o.line("permute_index", format!("{} {}", size, idx), call(size, idx)); }
        }
    } else {
        let mut ks: Vec<u32> = (7..=20).collect();
        ks.extend([31u32, 32, 40, 62, 63]);
        for k in ks {
            let size = 1usize << k;
            let mut idxs = vec![0usize, 1, 2, size / 2 - 1, size / 2, size - 2, size - 1];
            for _ in 0..4 { idxs.push(r.below(size as u64) as usize); }
            for idx in idxs { o.line("permute_index", format!("{} {}", size, idx), call(size, idx)); }
        }
    }
}

fn corr(seed: u64, maxlog: u32, thorough: bool) {
    let mut r = Rng::new(seed);
    let mut o = Out { w: std::io::BufWriter::with_capacity(1 << 20, std::io::stdout()), counts: BTreeMap::new() };
    corr_permute_index(&mut r, &mut o, true);
    corr_field::<f64::BaseElement>(&mut r, maxlog, thorough, &mut o);
    corr_field::<f62::BaseElement>(&mut r, maxlog, thorough, &mut o);
    corr_field::<f128::BaseElement>(&mut r, maxlog, thorough, &mut o);
    corr_permute_index(&mut r, &mut o, false);
    let _ = o.w.flush();
    if std::env::var("C09_STATS").is_ok() {
        for (k, (n, b)) in &o.counts { eprintln!("{:14} cases={:6} bytes={}", k, n, b); }
    }
}

// ---------------------------------------------------------------- split: the CONCURRENT code path (feature `concurrent`)
/// `c09 split <seed> <maxlog>`: with `--features concurrent`, fft::evaluate_poly / interpolate_poly /
/// evaluate_poly_with_offset dispatch to math/src/fft/concurrent.rs (split_radix_fft + permute) for lengths >= 1024 and
/// Segment::new to its own split_radix_fft for domain sizes >= 1024.  The output must not depend on RAYON_NUM_THREADS
/// (the check runs this binary under several pool sizes) and must equal the extracted model of split_radix_fft
/// (`split_eval`, `split_interp`) resp. the serial model (`eval_off`, `rowmat` lines, same format as `corr`).
fn split_field<B: RF>(r: &mut Rng, o: &mut Out, sizes: &[u32], full: bool) {
    let p = B::P;
    for &k in sizes {
        let n = 1usize << k;
        let tw = tw_std::<B>(n);
        let itw = itw_std::<B>(n);
        let mut vecs: Vec<Vec<u128>> = vec![rand_vec(r, p, n)];
        if full {
            vecs.push(unit(n, 1));
            vecs.push(unit(n, (r.below(n as u64)) as usize));
            vecs.push(boundary_vec(r, p, n));
        }
        for v in &vecs {
            o.line("split_eval", format!("{} {}", B::NAME, hu(v)), do_evalt::<B>(v, &tw));
        }
        let v = rand_vec(r, p, n);
        o.line("split_interp", format!("{} {}", B::NAME, hu(&v)), do_interpt::<B>(&v, &itw));
    }
    {
        // concurrent::evaluate_poly_with_offset (per-chunk clone_and_shift + split_radix_fft, permute) and
        // concurrent::interpolate_poly_with_offset (split_radix_fft, permute, batched scaling)
        let offs = offsets::<B>(r);
        let off = offs[1];
        let v = rand_vec(r, p, 1024);
        o.line("split_eval_off", format!("{} std {:x} 2 {}", B::NAME, off, hu(&v)), do_eval_off::<B>(&v, &tw_std::<B>(1024), off, 2));
        if full {
            let v = rand_vec(r, p, 2048);
            o.line("split_eval_off", format!("{} std {:x} 1 {}", B::NAME, offs[2], hu(&v)), do_eval_off::<B>(&v, &tw_std::<B>(2048), offs[2], 1));
        }
        for &k in sizes {
            let n = 1usize << k;
            let v = rand_vec(r, p, n);
            let off = offs[(k as usize) % 3 + 1];
            o.line("split_interp_off", format!("{} std {:x} {}", B::NAME, off, hu(&v)), do_interp_off::<B>(&v, &itw_std::<B>(n), off));
        }
    }
    // the duplicate of split_radix_fft in prover/src/matrix/segments.rs: domain 1024, row FFTs of size 16 (stretch 1)
    // and 32 (stretch 2), full and partial last segment
    rowmat_case_op::<B>("split_rowmat", r, o, 8, 3, 16, 64);
    rowmat_case_op::<B>("split_rowmat", r, o, 8, 9, 32, 32);
    if full { rowmat_case_op::<B>("split_rowmat", r, o, 4, 5, 8, 128); }
}

fn split(seed: u64, maxlog: u32) {
    let mut r = Rng::new(seed);
    let mut o = Out { w: std::io::BufWriter::with_capacity(1 << 20, std::io::stdout()), counts: BTreeMap::new() };
    let conc = cfg!(feature = "concurrent");
    let _ = writeln!(o.w, "# build concurrent={} threads={}", conc, std::env::var("RAYON_NUM_THREADS").unwrap_or_default());
    let sizes: Vec<u32> = (10..=maxlog.max(10)).collect();
    split_field::<f64::BaseElement>(&mut r, &mut o, &sizes, true);
    split_field::<f62::BaseElement>(&mut r, &mut o, &sizes[..1], false);
    split_field::<f128::BaseElement>(&mut r, &mut o, &sizes[..1], false);
    if std::env::var("C09_TINY").is_ok() {
        // observation (not part of the property's quantifier: blowup 512): trace length 2 with a domain of 1024
        rowmat_case_op::<f64::BaseElement>("tiny_rowmat", &mut r, &mut o, 8, 3, 2, 512);
    }
    let _ = o.w.flush();
}

// ---------------------------------------------------------------- falsifier: Horner oracle, no FFT anywhere
/// Element types under test. The oracle value type `V` is a residue (u128, arithmetic by refmath) for the
/// base fields and the element itself (the crate's own field arithmetic) for the extension fields.
trait Elem<B: RF>: FieldElement<BaseField = B> {
    type V: Copy + PartialEq;
    fn name() -> String;
    fn v_parts(parts: &[u128]) -> Self::V;
    fn v_to_e(v: Self::V) -> Self;
    fn e_to_v(e: Self) -> Self::V;
    fn v_mul_base(v: Self::V, x: u128) -> Self::V;
    fn v_add(a: Self::V, b: Self::V) -> Self::V;
    fn v_show(v: Self::V) -> String;
}
impl<B: RF> Elem<B> for B {
    type V = u128;
    fn name() -> String { B::NAME.to_string() }
    fn v_parts(parts: &[u128]) -> u128 { parts[0] % B::P }
    fn v_to_e(v: u128) -> Self { B::fu(v) }
    fn e_to_v(e: Self) -> u128 { e.tu() }
    fn v_mul_base(v: u128, x: u128) -> u128 { mulmod(v, x, B::P) }
    fn v_add(a: u128, b: u128) -> u128 { addmod(a, b, B::P) }
    fn v_show(v: u128) -> String { format!("{:x}", v) }
}
impl<B: RF + ExtensibleField<2>> Elem<B> for QuadExtension<B> {
    type V = Self;
    fn name() -> String { format!("quad_{}", B::NAME) }
    fn v_parts(parts: &[u128]) -> Self { QuadExtension::new(B::fu(parts[0]), B::fu(parts[1])) }
    fn v_to_e(v: Self) -> Self { v }
    fn e_to_v(e: Self) -> Self { e }
    fn v_mul_base(v: Self, x: u128) -> Self { v * Self::from(B::fu(x)) }
    fn v_add(a: Self, b: Self) -> Self { a + b }
    fn v_show(v: Self) -> String { let b = v.to_base_elements(); format!("{:x}:{:x}", b[0].tu(), b[1].tu()) }
}
impl<B: RF + ExtensibleField<3>> Elem<B> for CubeExtension<B> {
    type V = Self;
    fn name() -> String { format!("cube_{}", B::NAME) }
    fn v_parts(parts: &[u128]) -> Self { CubeExtension::new(B::fu(parts[0]), B::fu(parts[1]), B::fu(parts[2])) }
    fn v_to_e(v: Self) -> Self { v }
    fn e_to_v(e: Self) -> Self { e }
    fn v_mul_base(v: Self, x: u128) -> Self { v * Self::from(B::fu(x)) }
    fn v_add(a: Self, b: Self) -> Self { a + b }
    fn v_show(v: Self) -> String { let b = v.to_base_elements(); format!("{:x}:{:x}:{:x}", b[0].tu(), b[1].tu(), b[2].tu()) }
}

struct Ctx { evals: u64, fails: u64, printed: u64, prog: Progress, quick: bool, seed: u64, roots_ok: BTreeSet<(&'static str, u32)>, selftest: bool }
impl Ctx {
    fn fail(&mut self, what: &str, input: String, expected: String, actual: String) {
        self.fails += 1;
        if self.printed < 300 {
            self.printed += 1;
            println!("{{\"what\":{},\"input\":{},\"expected\":{},\"actual\":{}}}", jstr(what), jstr(&format!("seed={} {}", self.seed, input)), jstr(&expected), jstr(&actual));
        }
    }
    /// library's 2^k-th root of unity as a residue, checked once per (field, k) by refmath
    fn root<B: RF>(&mut self, k: u32) -> u128 {
        let g = B::get_root_of_unity(k).tu();
        if self.roots_ok.insert((B::NAME, k)) {
            let (one, m1) = (powmod(g, 1u128 << k, B::P), powmod(g, 1u128 << (k - 1), B::P));
            if one != 1 || m1 != B::P - 1 {
                self.fail("get_root_of_unity is not a primitive 2^k-th root", format!("{} k={}", B::NAME, k), "g^(2^k)=1, g^(2^(k-1))=p-1".into(), format!("g={:x}", g));
            }
        }
        g
    }
}

fn zero_v<B: RF, E: Elem<B>>() -> E::V { E::v_parts(&[0, 0, 0]) }
fn horner<B: RF, E: Elem<B>>(poly: &[E::V], x: u128) -> E::V {
    let mut acc = zero_v::<B, E>();
    for c in poly.iter().rev() { acc = E::v_add(E::v_mul_base(acc, x), *c); }
    acc
}
fn to_e<B: RF, E: Elem<B>>(v: &[E::V]) -> Vec<E> { v.iter().map(|&x| E::v_to_e(x)).collect() }
fn to_v<B: RF, E: Elem<B>>(v: &[E]) -> Vec<E::V> { v.iter().map(|&x| E::e_to_v(x)).collect() }

/// lift a base-field coefficient vector to the element type (extension parts: zero for structured kinds, random otherwise)
fn lift<B: RF, E: Elem<B>>(r: &mut Rng, kind: &str, v: &[u128]) -> Vec<E::V> {
    let structured = kind.starts_with("unit") || kind == "ones";
    v.iter().map(|&x| {
        let mut parts = [x, 0, 0];
        if E::EXTENSION_DEGREE > 1 && !structured {
            let b = boundary_vals(B::P);
            for q in parts.iter_mut().skip(1) { *q = if kind == "boundary" { *r.pick(&b) } else { rand_elem(r, B::P) }; }
        }
        E::v_parts(&parts)
    }).collect()
}
fn rand_poly<B: RF, E: Elem<B>>(r: &mut Rng, n: usize) -> Vec<E::V> { let v = rand_vec(r, B::P, n); lift::<B, E>(r, "random", &v) }

/// number of output points at which a length-`n` polynomial is compared against Horner
fn npts<B: RF, E: Elem<B>>(n: usize) -> usize {
    if B::SLOW && E::EXTENSION_DEGREE == 1 { (8192 / n).clamp(6, 64).min(n) } else if n <= 512 { n } else { 64 }
}
fn sample(r: &mut Rng, n: usize, k: usize) -> Vec<usize> {
    if k >= n { return (0..n).collect(); }
    let mut s: BTreeSet<usize> = [0usize, 1, n / 2, n - 1].into_iter().filter(|&i| i < n).collect();
    while s.len() < k.max(4).min(n) { s.insert(r.below(n as u64) as usize); }
    s.into_iter().collect()
}

/// compare `actual[i]` with `expected(i)` on the given indices; one evaluation
fn check_points<B: RF, E: Elem<B>>(ctx: &mut Ctx, what: &str, desc: &str, actual: &[E], idxs: &[usize], expected: &mut dyn FnMut(usize) -> E::V) {
    ctx.evals += 1;
    for &i in idxs {
        if i >= actual.len() {
            ctx.fail(what, format!("{} first_bad_index={}", desc, i), format!("length > {}", i), format!("length {}", actual.len()));
            return;
        }
        let mut want = expected(i);
        // C09_SELFTEST=1: corrupt the oracle on a few vectors to show that mismatches are detected and reported
        if ctx.selftest && ctx.evals % 1009 == 0 && i == *idxs.last().unwrap() { want = E::v_add(want, E::v_parts(&[1, 0, 0])); }
        let got = E::e_to_v(actual[i]);
        if got != want {
            ctx.fail(what, format!("{} first_bad_index={}", desc, i), E::v_show(want), E::v_show(got));
            return;
        }
    }
}
fn panicked(ctx: &mut Ctx, what: &str, desc: &str, msg: &str) {
    ctx.evals += 1;
    ctx.fail(what, desc.to_string(), "no panic".into(), format!("panic: {}", msg));
}

// (a) evaluate_poly == Horner at g^i
fn check_eval<B: RF, E: Elem<B>>(ctx: &mut Ctx, r: &mut Rng, maxlog: u32) {
    let p = B::P;
    let fname = E::name();
    let base = E::EXTENSION_DEGREE == 1;
    let sweep_max: u32 = if !base { 5 } else if B::SLOW { if ctx.quick { 8 } else { 10 } } else { 10 };
    for k in 1..=maxlog {
        let n = 1usize << k;
        ctx.prog.step(|| format!("{} evaluate_poly n={}", fname, n));
        let g = ctx.root::<B>(k);
        let tw = fft::get_twiddles::<B>(n);
        // unit vectors: e_j evaluates to x_i^j = (g^j)^i at every point
        let js: Vec<usize> = if k <= sweep_max.min(maxlog) { (0..n).collect() } else {
            let mut s: BTreeSet<usize> = [0, 1, n / 2, n - 1].into_iter().collect();
            s.insert(r.below(n as u64) as usize);
            s.into_iter().collect()
        };
        let all: Vec<usize> = (0..n).collect();
        for &j in &js {
            let mut v: Vec<E> = vec![E::ZERO; n];
            v[j] = E::ONE;
            let desc = format!("{} evaluate_poly n={} vec=unit#{}", fname, n, j);
            match catch(AssertUnwindSafe(|| { fft::evaluate_poly(&mut v, &tw); v })) {
                Err(m) => panicked(ctx, "evaluate_poly panics", &desc, &m),
                Ok(res) => {
                    let gj = powmod(g, j as u128, p);
                    let mut cur = 1u128;
                    let mut last = 0usize;
                    check_points::<B, E>(ctx, "evaluate_poly != direct evaluation", &desc, &res, &all, &mut |i| {
                        while last < i { cur = mulmod(cur, gj, p); last += 1; }
                        let mut parts = [cur, 0, 0];
                        parts[0] = cur;
                        E::v_parts(&parts)
                    });
                }
            }
        }
        // other vectors: Horner at all / sampled points
        let ks = if n <= 32 { let mut x = kinds(r, p, n, 0); x.retain(|(l, _)| !l.starts_with("unit")); x } else {
            let mut x = kinds(r, p, n, 1); x.retain(|(l, _)| !l.starts_with("unit"));
            x.push(("allpm1".into(), vec![p - 1; n]));
            x.push(("iota".into(), (0..n).map(|i| (i as u128 + 1) % p).collect()));
            x
        };
        for (vi, (label, bv)) in ks.into_iter().enumerate() {
            let poly = lift::<B, E>(r, &label, &bv);
            let mut v: Vec<E> = to_e::<B, E>(&poly);
            let desc = format!("{} evaluate_poly n={} vec={}#{}", fname, n, label, vi);
            match catch(AssertUnwindSafe(|| { fft::evaluate_poly(&mut v, &tw); v })) {
                Err(m) => panicked(ctx, "evaluate_poly panics", &desc, &m),
                Ok(res) => {
                    let idxs = sample(r, n, npts::<B, E>(n));
                    check_points::<B, E>(ctx, "evaluate_poly != direct evaluation", &desc, &res, &idxs, &mut |i| horner::<B, E>(&poly, powmod(g, i as u128, p)));
                    if res.len() != n { ctx.fail("evaluate_poly changes the length", desc.clone(), n.to_string(), res.len().to_string()); }
                }
            }
        }
    }
}

// (b) evaluate_poly_with_offset == Horner at offset * g^i, g of order n * blowup
fn check_eval_off<B: RF, E: Elem<B>>(ctx: &mut Ctx, r: &mut Rng, maxlog: u32) {
    let p = B::P;
    let fname = E::name();
    for k in 1..=maxlog {
        let n = 1usize << k;
        let tw = fft::get_twiddles::<B>(n);
        let blowups: Vec<usize> = if !ctx.quick || n <= 64 { vec![1, 2, 4, 8, 16, 32, 64, 128] } else { vec![1, 2, 8] };
        let offs = offsets::<B>(r);
        for (bi, &b) in blowups.iter().enumerate() {
            let kk = k + b.trailing_zeros();
            if kk > B::TWO_ADICITY { continue; }
            ctx.prog.step(|| format!("{} evaluate_poly_with_offset n={} blowup={}", fname, n, b));
            let g = ctx.root::<B>(kk);
            let nvec = if n <= 64 { 4 } else { 3 };
            for vi in 0..nvec {
                let off = offs[(vi + bi) % 4];
                let (label, bv): (String, Vec<u128>) = match vi { 0 => ("random".into(), rand_vec(r, p, n)), 1 => ("boundary".into(), boundary_vec(r, p, n)),
                    2 => { let j = r.below(n as u64) as usize; (format!("unit{}", j), unit(n, j)) }, _ => ("random".into(), rand_vec(r, p, n)) };
                let poly = lift::<B, E>(r, &label, &bv);
                let v: Vec<E> = to_e::<B, E>(&poly);
                let desc = format!("{} evaluate_poly_with_offset n={} off={:x} blowup={} vec={}#{}", fname, n, off, b, label, vi);
                match catch(AssertUnwindSafe(|| fft::evaluate_poly_with_offset(&v, &tw, B::fu(off), b))) {
                    Err(m) => panicked(ctx, "evaluate_poly_with_offset panics", &desc, &m),
                    Ok(res) => {
                        if res.len() != n * b { ctx.fail("evaluate_poly_with_offset: wrong result length", desc.clone(), (n * b).to_string(), res.len().to_string()); continue; }
                        let want_pts = if n * b <= 256 { n * b } else { npts::<B, E>(n) };
                        let idxs = sample(r, n * b, want_pts);
                        check_points::<B, E>(ctx, "evaluate_poly_with_offset != direct evaluation", &desc, &res, &idxs, &mut |i| horner::<B, E>(&poly, mulmod(off, powmod(g, i as u128, p), p)));
                    }
                }
            }
        }
    }
}

/// oracle evaluations of `poly` over offset * <g>, |<g>| = 2^k (all points)
fn oracle_evals<B: RF, E: Elem<B>>(poly: &[E::V], g: u128, k: u32, off: u128) -> Vec<E::V> {
    let mut x = off % B::P;
    (0..1usize << k).map(|_| { let y = horner::<B, E>(poly, x); x = mulmod(x, g, B::P); y }).collect()
}

// (c) interpolation inverts evaluation
fn check_interp<B: RF, E: Elem<B>>(ctx: &mut Ctx, r: &mut Rng, maxlog: u32) {
    let p = B::P;
    let fname = E::name();
    let slow = B::SLOW && E::EXTENSION_DEGREE == 1;
    for k in 1..=maxlog {
        let n = 1usize << k;
        ctx.prog.step(|| format!("{} interpolate n={}", fname, n));
        let g = ctx.root::<B>(k);
        let (tw, itw) = (fft::get_twiddles::<B>(n), fft::get_inv_twiddles::<B>(n));
        let offs = offsets::<B>(r);
        let all: Vec<usize> = (0..n).collect();
        // interpolate(evaluate(p)) == p
        for vi in 0..2 {
            let poly = if vi == 0 { rand_poly::<B, E>(r, n) } else { let b = boundary_vec(r, p, n); lift::<B, E>(r, "boundary", &b) };
            let mut v: Vec<E> = to_e::<B, E>(&poly);
            let desc = format!("{} interpolate_poly(evaluate_poly(p)) n={} vec={}#{}", fname, n, if vi == 0 { "random" } else { "boundary" }, vi);
            match catch(AssertUnwindSafe(|| { fft::evaluate_poly(&mut v, &tw); fft::interpolate_poly(&mut v, &itw); v })) {
                Err(m) => panicked(ctx, "interpolate_poly(evaluate_poly) panics", &desc, &m),
                Ok(res) => check_points::<B, E>(ctx, "interpolate_poly(evaluate_poly(p)) != p", &desc, &res, &all, &mut |i| poly[i]),
            }
        }
        // interpolation of oracle evaluations over cosets recovers the polynomial
        let oracle_ok = if slow { n <= 64 } else { n <= 512 };
        for (oi, &off) in offs.iter().enumerate() {
            if n > 512 && oi % 2 == 0 && ctx.quick { continue; }
            let poly = rand_poly::<B, E>(r, n);
            let src = if oracle_ok { "oracle" } else { "evaluate_poly_with_offset" };
            let evals: Vec<E> = if oracle_ok { to_e::<B, E>(&oracle_evals::<B, E>(&poly, g, k, off)) } else {
                let pe = to_e::<B, E>(&poly);
                match catch(AssertUnwindSafe(|| fft::evaluate_poly_with_offset(&pe, &tw, B::fu(off), 1))) { Ok(e) => e, Err(m) => { panicked(ctx, "evaluate_poly_with_offset panics", &format!("{} n={} off={:x} blowup=1", fname, n, off), &m); continue; } }
            };
            let desc = format!("{} interpolate_poly_with_offset n={} off={:x} evals={} vec=random#{}", fname, n, off, src, oi);
            let mut v = evals.clone();
            match catch(AssertUnwindSafe(|| { fft::interpolate_poly_with_offset(&mut v, &itw, B::fu(off)); v })) {
                Err(m) => panicked(ctx, "interpolate_poly_with_offset panics", &desc, &m),
                Ok(res) => check_points::<B, E>(ctx, "interpolate_poly_with_offset(evals of p) != p", &desc, &res, &all, &mut |i| poly[i]),
            }
            if off == 1 {
                let desc = format!("{} interpolate_poly n={} evals={} vec=random#{}", fname, n, src, oi);
                let mut v = evals.clone();
                match catch(AssertUnwindSafe(|| { fft::interpolate_poly(&mut v, &itw); v })) {
                    Err(m) => panicked(ctx, "interpolate_poly panics", &desc, &m),
                    Ok(res) => check_points::<B, E>(ctx, "interpolate_poly(evals of p) != p", &desc, &res, &all, &mut |i| poly[i]),
                }
            }
        }
        // arbitrary values: the interpolant takes the prescribed values
        for vi in 0..3usize {
            let off = if vi == 0 { 1 } else { offs[vi] };
            let vals = if vi == 2 { let b = boundary_vec(r, p, n); lift::<B, E>(r, "boundary", &b) } else { rand_poly::<B, E>(r, n) };
            let mut v: Vec<E> = to_e::<B, E>(&vals);
            let desc = format!("{} interpolate{} n={} off={:x} vec={}#{}", fname, if vi == 0 { "_poly" } else { "_poly_with_offset" }, n, off, if vi == 2 { "boundary" } else { "random" }, vi);
            let res = catch(AssertUnwindSafe(|| { if vi == 0 { fft::interpolate_poly(&mut v, &itw) } else { fft::interpolate_poly_with_offset(&mut v, &itw, B::fu(off)) }; v }));
            match res {
                Err(m) => panicked(ctx, "interpolation panics", &desc, &m),
                Ok(q) => {
                    let qv = to_v::<B, E>(&q);
                    let idxs = sample(r, n, npts::<B, E>(n));
                    let vals_e: Vec<E> = to_e::<B, E>(&vals);
                    // here "actual" is the prescribed value and "expected" the interpolant evaluated by Horner
                    check_points::<B, E>(ctx, "interpolant does not take the prescribed values (expected = Horner(interpolant, x_i), actual = v[i])", &desc, &vals_e, &idxs,
                        &mut |i| horner::<B, E>(&qv, mulmod(off, powmod(g, i as u128, p), p)));
                }
            }
        }
    }
}

// (d) infer_degree
fn check_degree<B: RF, E: Elem<B>>(ctx: &mut Ctx, r: &mut Rng, maxlog: u32) {
    let p = B::P;
    let fname = E::name();
    let slow = B::SLOW && E::EXTENSION_DEGREE == 1;
    for k in 1..=maxlog.min(9) {
        let n = 1usize << k;
        ctx.prog.step(|| format!("{} infer_degree n={}", fname, n));
        let g = ctx.root::<B>(k);
        let offs = offsets::<B>(r);
        let mut ds: Vec<usize> = vec![0, 1, 2, (n / 2).saturating_sub(1), n / 2, n.saturating_sub(2), n - 1, r.below(n as u64) as usize, r.below(n as u64) as usize];
        ds.retain(|&d| d < n);
        ds.sort();
        ds.dedup();
        for (di, &d) in ds.iter().enumerate() {
            for oi in 0..3usize {
                if n > 64 && (di + oi) % 3 != 0 { continue; }
                let off = offs[oi];
                // exact degree d; sparse polynomials where the reference arithmetic is slow
                let mut poly: Vec<E::V> = vec![zero_v::<B, E>(); d + 1];
                let sparse = slow && n > 64;
                if sparse { for _ in 0..3 { let j = r.below(d as u64 + 1) as usize; poly[j] = rand_poly::<B, E>(r, 1)[0]; } } else { poly = rand_poly::<B, E>(r, d + 1); }
                let mut lead = [rand_nz(r, p), 0, 0];
                if E::EXTENSION_DEGREE > 1 && r.chance(1, 2) { lead = [0, rand_nz(r, p), rand_elem(r, p)]; }
                poly[d] = E::v_parts(&lead);
                let evals: Vec<E::V> = if sparse {
                    // sum of c_j * off^j * (g^j)^i over the non-zero terms, by running products
                    let mut acc = vec![zero_v::<B, E>(); n];
                    for (j, c) in poly.iter().enumerate() {
                        if *c == zero_v::<B, E>() { continue; }
                        let gj = powmod(g, j as u128, p);
                        let mut x = powmod(off, j as u128, p);
                        for a in acc.iter_mut() { *a = E::v_add(*a, E::v_mul_base(*c, x)); x = mulmod(x, gj, p); }
                    }
                    acc
                } else { oracle_evals::<B, E>(&poly, g, k, off) };
                let ev: Vec<E> = to_e::<B, E>(&evals);
                let desc = format!("{} infer_degree n={} off={:x} degree={} poly=random#{}", fname, n, off, d, di * 3 + oi);
                ctx.evals += 1;
                match catch(AssertUnwindSafe(|| fft::infer_degree(&ev, B::fu(off)))) {
                    Err(m) => ctx.fail("infer_degree panics", desc, d.to_string(), format!("panic: {}", m)),
                    Ok(got) => if got != d { ctx.fail("infer_degree != degree of the evaluated polynomial", desc, d.to_string(), got.to_string()); },
                }
            }
        }
        let ev: Vec<E> = vec![E::ZERO; n];
        ctx.evals += 1;
        match catch(AssertUnwindSafe(|| fft::infer_degree(&ev, B::fu(offs[1])))) {
            Err(m) => ctx.fail("infer_degree panics", format!("{} infer_degree n={} zero polynomial", fname, n), "0".into(), format!("panic: {}", m)),
            Ok(got) => if got != 0 { ctx.fail("infer_degree(zero polynomial) != 0", format!("{} infer_degree n={} zero polynomial", fname, n), "0".into(), got.to_string()); },
        }
    }
}

// (e) twiddles and permutations
fn check_twiddles<B: RF>(ctx: &mut Ctx, maxlog: u32) {
    let p = B::P;
    for k in 1..=maxlog + 1 {
        let n = 1usize << k;
        ctx.prog.step(|| format!("{} twiddles n={}", B::NAME, n));
        let g = ctx.root::<B>(k);
        let ginv = invmod(g, p);
        if mulmod(g, ginv, p) != 1 { ctx.fail("oracle self-check: g * g^-1", format!("{} k={}", B::NAME, k), "1".into(), "other".into()); }
        for (inv, base) in [(false, g), (true, ginv)] {
            let mut pw = Vec::with_capacity(n / 2);
            let mut x = 1u128;
            for _ in 0..n / 2 { pw.push(x); x = mulmod(x, base, p); }
            let what = if inv { "get_inv_twiddles" } else { "get_twiddles" };
            let desc = format!("{} {} n={}", B::NAME, what, n);
            match catch(move || if inv { fft::get_inv_twiddles::<B>(n) } else { fft::get_twiddles::<B>(n) }) {
                Err(m) => panicked(ctx, what, &desc, &m),
                Ok(tw) => {
                    if tw.len() != n / 2 { ctx.evals += 1; ctx.fail("twiddles: wrong length", desc, (n / 2).to_string(), tw.len().to_string()); continue; }
                    let all: Vec<usize> = (0..n / 2).collect();
                    check_points::<B, B>(ctx, "twiddles[i] != g^bitrev(i)", &desc, &tw, &all, &mut |i| pw[bitrev(i as u64, k - 1) as usize]);
                }
            }
        }
    }
}

fn check_permute_index(ctx: &mut Ctx, r: &mut Rng) {
    let mut ks: Vec<u32> = (0..=20).collect();
    ks.extend([24u32, 31, 32, 33, 40, 48, 62, 63]);
    for k in ks {
        ctx.prog.step(|| format!("permute_index size=2^{}", k));
        let size = 1usize << k;
        let idxs: Vec<usize> = if k <= 12 { (0..size).collect() } else {
            let mut v = vec![0usize, 1, 2, size / 2 - 1, size / 2, size - 2, size - 1];
            for _ in 0..64 { v.push(r.below(size as u64) as usize); }
            v
        };
        ctx.evals += 1;
        for i in idxs {
            let want = bitrev(i as u64, k) as usize;
            match catch(move || (fft::permute_index(size, i), fft::permute_index(size, want))) {
                Err(m) => { ctx.fail("permute_index panics", format!("size={} index={}", size, i), want.to_string(), format!("panic: {}", m)); break; }
                Ok((got, back)) => {
                    if got != want { ctx.fail("permute_index != bit reversal", format!("size={} index={}", size, i), want.to_string(), got.to_string()); break; }
                    if back != i { ctx.fail("permute_index is not an involution", format!("size={} index={}", size, want), i.to_string(), back.to_string()); break; }
                }
            }
        }
    }
}

fn check_permute<B: RF, E: Elem<B>>(ctx: &mut Ctx, r: &mut Rng, maxlog: u32) {
    let fname = E::name();
    for k in 0..=maxlog {
        let n = 1usize << k;
        ctx.prog.step(|| format!("{} permute n={}", fname, n));
        for vi in 0..2 {
            let vals: Vec<E::V> = if vi == 0 { (0..n).map(|i| E::v_parts(&[i as u128, 0, 0])).collect() } else { rand_poly::<B, E>(r, n) };
            let mut v: Vec<E> = to_e::<B, E>(&vals);
            let desc = format!("{} permute n={} vec={}#{}", fname, n, if vi == 0 { "iota" } else { "random" }, vi);
            match catch(AssertUnwindSafe(|| { FftInputs::permute(&mut v[..]); v })) {
                Err(m) => panicked(ctx, "permute panics", &desc, &m),
                Ok(res) => {
                    let all: Vec<usize> = (0..n).collect();
                    check_points::<B, E>(ctx, "permute(v)[i] != v[bitrev(i)]", &desc, &res, &all, &mut |i| vals[bitrev(i as u64, k) as usize]);
                }
            }
        }
    }
}

// (f) fft_in_place_raw
fn check_fft_raw<B: RF, E: Elem<B>>(ctx: &mut Ctx, r: &mut Rng, maxlog: u32) {
    let p = B::P;
    let fname = E::name();
    let cap = 1usize << maxlog;
    let mut cases: Vec<(usize, usize, usize, usize)> = Vec::new(); // (size, count, stride, offset)
    for stride in [1usize, 2, 3, 8, 256, 512] {
        let mut size = 2usize;
        while size * stride <= cap {
            let big = size * stride > 1024;
            cases.push((size, stride, stride, 0));
            if stride > 1 && !(big && ctx.quick) {
                cases.push((size, 1, stride, r.below(stride as u64) as usize));
                let o = r.below(stride as u64) as usize;
                cases.push((size, 1 + r.below((stride - o) as u64) as usize, stride, o));
                cases.push((size, 1, stride, stride - 1));
                cases.push((size, stride - 1, stride, 1));
            }
            size *= 2;
        }
    }
    for (size, count, stride, offset) in cases {
        let len = size * stride;
        let ks = size.trailing_zeros();
        ctx.prog.step(|| format!("{} fft_in_place_raw size={} count={} stride={} offset={}", fname, size, count, stride, offset));
        let g = ctx.root::<B>(ks);
        let tw = fft::get_twiddles::<B>(size);
        let orig = rand_poly::<B, E>(r, len);
        let mut v: Vec<E> = to_e::<B, E>(&orig);
        let desc = format!("{} fft_in_place_raw size={} count={} stride={} offset={} vec=random", fname, size, count, stride, offset);
        let res = match catch(AssertUnwindSafe(|| { FftInputs::fft_in_place_raw(&mut v[..], &tw, count, stride, offset); v })) {
            Err(m) => { panicked(ctx, "fft_in_place_raw panics", &desc, &m); continue; }
            Ok(res) => res,
        };
        // positions outside the selected residues are untouched
        let untouched: Vec<usize> = (0..len).filter(|i| { let m = i % stride; m < offset || m >= offset + count }).collect();
        check_points::<B, E>(ctx, "fft_in_place_raw modifies a position outside [offset, offset+count) mod stride", &desc, &res, &untouched, &mut |i| orig[i]);
        // each selected subsequence is the bit-reversed DFT of the original subsequence
        let budget = if B::SLOW && E::EXTENSION_DEGREE == 1 { 1usize << 14 } else { 1usize << 19 };
        let per_sub = (budget / count / size).clamp(2, size);
        for j in offset..offset + count {
            let sub: Vec<E::V> = (0..size).map(|i| orig[j + i * stride]).collect();
            let got: Vec<E> = (0..size).map(|i| res[j + i * stride]).collect();
            let idxs = sample(r, size, per_sub);
            check_points::<B, E>(ctx, "fft_in_place_raw subsequence != bit-reversed DFT", &format!("{} subsequence={}", desc, j), &got, &idxs,
                &mut |i| horner::<B, E>(&sub, powmod(g, bitrev(i as u64, ks) as u128, p)));
        }
    }
}

// (g) batched evaluation over matrices
fn rowmat_go<B: RF, E: Elem<B>, const N: usize>(polys: &ColMatrix<E>, dom: Option<&StarkDomain<B>>, blowup: usize) -> RowMatrix<E> {
    match dom { Some(d) => RowMatrix::<E>::evaluate_polys_over::<N>(polys, d), None => RowMatrix::<E>::evaluate_polys::<N>(polys, blowup) }
}
fn rowmat_any<B: RF, E: Elem<B>>(nb: usize, polys: &ColMatrix<E>, dom: Option<&StarkDomain<B>>, blowup: usize) -> RowMatrix<E> {
    match nb {
        1 => rowmat_go::<B, E, 1>(polys, dom, blowup),
        2 => rowmat_go::<B, E, 2>(polys, dom, blowup),
        3 => rowmat_go::<B, E, 3>(polys, dom, blowup),
        4 => rowmat_go::<B, E, 4>(polys, dom, blowup),
        _ => rowmat_go::<B, E, 8>(polys, dom, blowup),
    }
}

fn check_matrices<B: RF, E: Elem<B>>(ctx: &mut Ctx, r: &mut Rng, _maxlog: u32) {
    let p = B::P;
    let fname = E::name();
    let slow = B::SLOW && E::EXTENSION_DEGREE == 1;
    let rows_set = [2usize, 4, 8, 16, 64];
    let blow_set = [2usize, 4, 8, 16];
    let gen_cols = |r: &mut Rng, ncols: usize, nrows: usize| -> Vec<Vec<E::V>> {
        (0..ncols).map(|c| if c % 5 == 3 { let b = boundary_vec(r, p, nrows); lift::<B, E>(r, "boundary", &b) } else { rand_poly::<B, E>(r, nrows) }).collect()
    };
    // ColMatrix::evaluate_columns_over / interpolate_columns
    for &nrows in &rows_set {
        for &blowup in &[1usize, 2, 4, 8, 16] {
            if slow && nrows * blowup > 256 { continue; }
            let ncols = 1 + r.below(4) as usize;
            let k = nrows.trailing_zeros() + blowup.trailing_zeros();
            ctx.prog.step(|| format!("{} ColMatrix::evaluate_columns_over nrows={} blowup={}", fname, nrows, blowup));
            let g = ctx.root::<B>(k);
            let off = offsets::<B>(r)[(ncols + k as usize) % 4];
            let cols = gen_cols(r, ncols, nrows);
            let ecols: Vec<Vec<E>> = cols.iter().map(|c| to_e::<B, E>(c)).collect();
            let desc = format!("{} ColMatrix::evaluate_columns_over nrows={} cols={} off={:x} blowup={} vec=random", fname, nrows, ncols, off, blowup);
            match catch(AssertUnwindSafe(|| {
                let dom = StarkDomain::from_twiddles(fft::get_twiddles::<B>(nrows), blowup, B::fu(off));
                ColMatrix::new(ecols).evaluate_columns_over(&dom).into_columns()
            })) {
                Err(m) => panicked(ctx, "evaluate_columns_over panics", &desc, &m),
                Ok(res) => {
                    if res.len() != ncols { ctx.evals += 1; ctx.fail("evaluate_columns_over: wrong number of columns", desc.clone(), ncols.to_string(), res.len().to_string()); continue; }
                    for (c, col) in res.iter().enumerate() {
                        if col.len() != nrows * blowup { ctx.evals += 1; ctx.fail("evaluate_columns_over: wrong column length", desc.clone(), (nrows * blowup).to_string(), col.len().to_string()); continue; }
                        let all: Vec<usize> = (0..nrows * blowup).collect();
                        let mut x = off; let mut last = 0usize;
                        check_points::<B, E>(ctx, "evaluate_columns_over != direct evaluation", &format!("{} column={}", desc, c), col, &all, &mut |i| {
                            while last < i { x = mulmod(x, g, p); last += 1; }
                            horner::<B, E>(&cols[c], x)
                        });
                    }
                }
            }
        }
        // interpolate_columns inverts evaluation over the subgroup
        let ncols = 1 + r.below(4) as usize;
        let kk = nrows.trailing_zeros();
        let g = ctx.root::<B>(kk);
        let cols = gen_cols(r, ncols, nrows);
        let evals: Vec<Vec<E>> = cols.iter().map(|c| to_e::<B, E>(&oracle_evals::<B, E>(c, g, kk, 1))).collect();
        let desc = format!("{} ColMatrix::interpolate_columns nrows={} cols={} evals=oracle vec=random", fname, nrows, ncols);
        match catch(AssertUnwindSafe(|| { let m = ColMatrix::new(evals); (m.interpolate_columns().into_columns(), m.interpolate_columns_into().into_columns()) })) {
            Err(m) => panicked(ctx, "interpolate_columns panics", &desc, &m),
            Ok((a, b)) => {
                let all: Vec<usize> = (0..nrows).collect();
                for (which, res) in [("interpolate_columns", a), ("interpolate_columns_into", b)] {
                    if res.len() != ncols { ctx.evals += 1; ctx.fail("interpolate_columns: wrong number of columns", desc.clone(), ncols.to_string(), res.len().to_string()); continue; }
                    for (c, col) in res.iter().enumerate() {
                        check_points::<B, E>(ctx, "interpolate_columns(evals of p) != p", &format!("{} fn={} column={}", desc, which, c), col, &all, &mut |i| cols[c][i]);
                    }
                }
            }
        }
    }
    // RowMatrix::evaluate_polys_over::<N> / evaluate_polys::<N>
    let mut combo = 0usize;
    for nb in [8usize, 1, 2, 3, 4] {
        let maxc = if nb == 8 && !ctx.quick { 255 } else { 40 };
        for ncols in 1..=maxc {
            let reps = if ncols <= 40 { 2 } else { 1 };
            for rep in 0..reps {
                combo += 1;
                let mut nrows = rows_set[(combo * 3 + rep) % rows_set.len()];
                let mut blowup = blow_set[(combo + combo / 5) % blow_set.len()];
                if slow { nrows = nrows.min(if ncols <= 9 { 16 } else { 4 }); blowup = blowup.min(if ncols <= 9 { 8 } else { 4 }); if rep == 1 && ncols > 16 { continue; } }
                if ncols > 40 { nrows = 4; blowup = 2; }
                while ncols * nrows * nrows * blowup > (1 << 17) && nrows > 2 { nrows /= 2; }
                let use_domain = rep == 0 || ncols % 4 != 0;
                let off = if use_domain { offsets::<B>(r)[(ncols + nb) % 4] } else { B::GENERATOR.tu() };
                let k = nrows.trailing_zeros() + blowup.trailing_zeros();
                let fnname = if use_domain { "evaluate_polys_over" } else { "evaluate_polys" };
                ctx.prog.step(|| format!("{} RowMatrix::{}::<{}> nrows={} cols={} blowup={}", fname, fnname, nb, nrows, ncols, blowup));
                let g = ctx.root::<B>(k);
                let cols = gen_cols(r, ncols, nrows);
                let ecols: Vec<Vec<E>> = cols.iter().map(|c| to_e::<B, E>(c)).collect();
                let desc = format!("{} RowMatrix::{}::<{}> nrows={} cols={} off={:x} blowup={} vec=random", fname, fnname, nb, nrows, ncols, off, blowup);
                let m = match catch(AssertUnwindSafe(|| {
                    let polys = ColMatrix::new(ecols);
                    if use_domain {
                        let dom = StarkDomain::from_twiddles(fft::get_twiddles::<B>(nrows), blowup, B::fu(off));
                        rowmat_any::<B, E>(nb, &polys, Some(&dom), blowup)
                    } else { rowmat_any::<B, E>(nb, &polys, None, blowup) }
                })) { Ok(m) => m, Err(e) => { panicked(ctx, "RowMatrix evaluation panics", &desc, &e); continue; } };
                ctx.evals += 1;
                if m.num_rows() != nrows * blowup { ctx.fail("RowMatrix: num_rows != nrows * blowup", desc.clone(), (nrows * blowup).to_string(), m.num_rows().to_string()); continue; }
                if m.num_cols() != ncols { ctx.fail("RowMatrix: num_cols != number of polynomials", desc.clone(), ncols.to_string(), m.num_cols().to_string()); continue; }
                // every cell against Horner
                let mut x = off % p;
                let mut bad = false;
                for row in 0..nrows * blowup {
                    let got = match catch(AssertUnwindSafe(|| (0..ncols).map(|c| m.get(c, row)).collect::<Vec<E>>())) {
                        Ok(v) => v, Err(e) => { ctx.fail("RowMatrix::get panics", format!("{} row={}", desc, row), "no panic".into(), format!("panic: {}", e)); break; }
                    };
                    for c in 0..ncols {
                        let want = horner::<B, E>(&cols[c], x);
                        if E::e_to_v(got[c]) != want {
                            ctx.fail("RowMatrix cell != direct evaluation", format!("{} first_bad_index=(col {}, row {})", desc, c, row), E::v_show(want), E::v_show(E::e_to_v(got[c])));
                            bad = true;
                            break;
                        }
                    }
                    if bad { break; }
                    x = mulmod(x, g, p);
                }
            }
        }
    }
}

fn falsify(seed: u64, maxlog: u32, thorough: bool, prog: &Progress) -> (u64, u64) {
    let mut ctx = Ctx { evals: 0, fails: 0, printed: 0, prog: prog.clone(), quick: !thorough, seed, roots_ok: BTreeSet::new(), selftest: std::env::var("C09_SELFTEST").is_ok() };
    let mut r = Rng::new(seed);
    let t0 = std::time::Instant::now();
    let timing = std::env::var("C09_STATS").is_ok();
    macro_rules! section { ($name:expr, $e:expr) => {{ let t = std::time::Instant::now(); let e0 = ctx.evals; $e; if timing { eprintln!("{:40} {:8.2}s evals={}", $name, t.elapsed().as_secs_f64(), ctx.evals - e0); } }}; }
    macro_rules! per_type { ($f:ident) => {{
        section!(concat!(stringify!($f), " f64"), $f::<f64::BaseElement, f64::BaseElement>(&mut ctx, &mut r, maxlog));
        section!(concat!(stringify!($f), " f62"), $f::<f62::BaseElement, f62::BaseElement>(&mut ctx, &mut r, maxlog));
        section!(concat!(stringify!($f), " f128"), $f::<f128::BaseElement, f128::BaseElement>(&mut ctx, &mut r, maxlog));
        section!(concat!(stringify!($f), " quad f64"), $f::<f64::BaseElement, QuadExtension<f64::BaseElement>>(&mut ctx, &mut r, maxlog));
        section!(concat!(stringify!($f), " cube f64"), $f::<f64::BaseElement, CubeExtension<f64::BaseElement>>(&mut ctx, &mut r, maxlog));
        section!(concat!(stringify!($f), " quad f62"), $f::<f62::BaseElement, QuadExtension<f62::BaseElement>>(&mut ctx, &mut r, maxlog));
        if CubeExtension::<f62::BaseElement>::is_supported() {
            section!(concat!(stringify!($f), " cube f62"), $f::<f62::BaseElement, CubeExtension<f62::BaseElement>>(&mut ctx, &mut r, maxlog));
        }
        section!(concat!(stringify!($f), " quad f128"), $f::<f128::BaseElement, QuadExtension<f128::BaseElement>>(&mut ctx, &mut r, maxlog));
        if CubeExtension::<f128::BaseElement>::is_supported() {
            section!(concat!(stringify!($f), " cube f128"), $f::<f128::BaseElement, CubeExtension<f128::BaseElement>>(&mut ctx, &mut r, maxlog));
        }
    }}; }
    per_type!(check_eval);
    per_type!(check_eval_off);
    per_type!(check_interp);
    per_type!(check_degree);
    section!("twiddles f64", check_twiddles::<f64::BaseElement>(&mut ctx, maxlog));
    section!("twiddles f62", check_twiddles::<f62::BaseElement>(&mut ctx, maxlog));
    section!("twiddles f128", check_twiddles::<f128::BaseElement>(&mut ctx, maxlog));
    section!("permute_index", check_permute_index(&mut ctx, &mut r));
    per_type!(check_permute);
    per_type!(check_fft_raw);
    per_type!(check_matrices);
    if timing { eprintln!("total {:.2}s", t0.elapsed().as_secs_f64()); }
    (ctx.evals, ctx.fails)
}

fn main() {
    silence_panics();
    let args: Vec<String> = std::env::args().collect();
    let mode = args.get(1).map(|s| s.as_str()).unwrap_or("");
    let seed: u64 = args.get(2).and_then(|s| s.parse().ok()).unwrap_or(1);
    let maxlog: u32 = args.get(3).and_then(|s| s.parse().ok()).unwrap_or(11).clamp(1, 20);
    let thorough = args.get(4).map(|s| s == "thorough").unwrap_or(false);
    match mode {
        "corr" => corr(seed, maxlog, thorough),
        "split" => split(seed, maxlog),
        "falsify" => {
            let (evals, fails) = watchdog::run(std::time::Duration::from_secs(30), move |prog| falsify(seed, maxlog, thorough, &prog), |cur| {
                println!("{{\"what\":\"operation does not terminate (no progress for 30 s)\",\"input\":{},\"expected\":\"returns\",\"actual\":\"hang\"}}", jstr(&cur));
                println!("evaluations=0 failures=1");
            });
            println!("evaluations={} failures={}", evals, fails);
        }
        _ => { eprintln!("usage: c09 corr|falsify|split <seed> <maxlog> [quick|thorough]"); std::process::exit(2); }
    }
}
