//! C14 (temporary replay skeleton; replaced by the full binary)
use winter_math::{fields::f64::BaseElement, FieldElement, StarkField};
use winter_prover::matrix::{ColMatrix, RowMatrix};
use wf_harness::prng::Rng;

fn main() {
    let args: Vec<String> = std::env::args().collect();
    let rows: usize = args[1].parse().unwrap();
    let cols: usize = args[2].parse().unwrap();
    let blowup: usize = args[3].parse().unwrap();
    let mut r = Rng::new(7);
    let polys: Vec<Vec<BaseElement>> = (0..cols).map(|_| (0..rows).map(|_| BaseElement::new(r.next_u64())).collect()).collect();
    let polys = ColMatrix::new(polys);
    let m = RowMatrix::<BaseElement>::evaluate_polys::<8>(&polys, blowup);
    // reference: evaluate each column directly
    let tw = winter_math::fft::get_twiddles::<BaseElement>(rows);
    let mut bad = 0usize;
    for c in 0..cols {
        let ev = winter_math::fft::evaluate_poly_with_offset(polys.get_column(c), &tw, BaseElement::GENERATOR, blowup);
        for i in 0..rows * blowup { if m.get(c, i) != ev[i] { bad += 1; } }
    }
    #[cfg(feature = "concurrent")]
    let t = winter_utils::rayon::current_num_threads();
    #[cfg(not(feature = "concurrent"))]
    let t = 0;
    println!("rows={} cols={} blowup={} threads={} mismatching_cells={} of {}", rows, cols, blowup, t, bad, cols * rows * blowup);
    let _ = BaseElement::ZERO;
}
