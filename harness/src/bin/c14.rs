//! C14 harness: multi-threaded execution produces the same results as single-threaded.
//! The SAME source is built twice: without features (serial reference) and with `--features concurrent`
//! (rayon code paths; pool size from RAYON_NUM_THREADS).
//!   c14 digests <seed> <scale>   -> "D <name> => <hex digest>" for every deterministic result (must be byte-identical
//!                                   between the two builds and for every pool size); "I ..." informational lines;
//!                                   "N <name> => .." lines for the legitimately schedule-dependent values (nonce)
//!   c14 corr <seed> <n>          -> "<case> => <observation>" : the implementation's actual chunking / task structure,
//!                                   compared with the extracted model (ocaml/c14_driver.ml)
//!   c14 falsify <seed> <n>       -> JSON lines, one per failure against an in-process oracle independent of the model
//!                                   (naive loops, serial Merkle builder, per-column FFT, verify()), then
//!                                   "evaluations=<n> failures=<k>"
use std::collections::HashMap;
use std::panic::AssertUnwindSafe;
use std::sync::Mutex;

use wf_harness::{airfam::*, catch, coinrec::{self, RecordingCoin}, hex_bytes, jstr, prng::Rng, silence_panics, toy::ToyHasher};
use winter_air::{Air, FieldExtension, ProofOptions, TraceInfo};
use winter_crypto::{hashers::{Blake3_256, Rp64_256, Sha3_256}, DefaultRandomCoin, Digest, ElementHasher, Hasher, MerkleTree};
use winter_fri::{folding::apply_drp, utils::hash_values, DefaultProverChannel, FriOptions, FriProver};
use winter_math::{
    add_in_place, batch_inversion, fft, fields::{f128, f64, QuadExtension}, get_power_series, get_power_series_with_offset,
    mul_acc, ExtensibleField, FieldElement, StarkField,
};
use winter_prover::{matrix::{ColMatrix, RowMatrix}, Prover, StarkDomain, Trace};
use winter_utils::{transpose_slice, ByteReader, ByteWriter, Deserializable, DeserializationError, Serializable};
#[cfg(feature = "concurrent")]
#[allow(unused_imports)]
use winter_utils::iterators::*;
use winter_utils::batch_iter_mut;
use winter_verifier::{verify, AcceptableOptions};

type F64 = f64::BaseElement;
type F128 = f128::BaseElement;
type Q64 = QuadExtension<F64>;

const CONC: bool = cfg!(feature = "concurrent");

fn threads() -> usize {
    #[cfg(feature = "concurrent")]
    { winter_utils::rayon::current_num_threads() }
    #[cfg(not(feature = "concurrent"))]
    { 0 }
}

// ------------------------------------------------------------------------------------------------ helpers
fn dg(bytes: &[u8]) -> String { hex_bytes(&blake3::hash(bytes).as_bytes()[..16]) }
fn ser<E: FieldElement>(v: &[E]) -> Vec<u8> {
    let mut b = Vec::with_capacity(v.len() * E::ELEMENT_BYTES);
    for e in v { e.write_into(&mut b); }
    b
}
fn ser_d<D: Digest>(v: &[D]) -> Vec<u8> { let mut b = Vec::new(); for d in v { b.extend_from_slice(&d.as_bytes()); } b }
fn rnd<B: StarkField>(r: &mut Rng) -> B {
    let s = B::from(65536u32) * B::from(65536u32);
    let mut x = B::ZERO;
    for _ in 0..4 { x = x * s + B::from(r.next_u64() as u32); }
    x
}
fn rnd_vec<B: StarkField>(r: &mut Rng, n: usize) -> Vec<B> { (0..n).map(|_| rnd::<B>(r)).collect() }
fn rnd_q(r: &mut Rng) -> Q64 { Q64::new(rnd::<F64>(r), rnd::<F64>(r)) }
fn out(name: &str, d: String) { println!("D {} => {}", name, d); }

// ------------------------------------------------------------------------------------------------ digests
fn dig_fft<B: StarkField>(f: &str, r: &mut Rng, max_log: u32) {
    for log in 6..=max_log {
        let n = 1usize << log;
        let p: Vec<B> = rnd_vec(r, n);
        let tw = fft::get_twiddles::<B>(n);
        let itw = fft::get_inv_twiddles::<B>(n);
        out(&format!("{f}.twiddles n={n}"), dg(&ser(&tw)));
        out(&format!("{f}.inv_twiddles n={n}"), dg(&ser(&itw)));
        let mut e = p.clone();
        fft::evaluate_poly(&mut e, &tw);
        out(&format!("{f}.evaluate_poly n={n}"), dg(&ser(&e)));
        let mut i = e.clone();
        fft::interpolate_poly(&mut i, &itw);
        out(&format!("{f}.interpolate_poly n={n}"), dg(&ser(&i)));
        let off = B::GENERATOR * rnd::<B>(r) + B::ONE;
        let off = if off == B::ZERO { B::GENERATOR } else { off };
        for blowup in [1usize, 2, 8] {
            if log + blowup.trailing_zeros() > 14 { continue; }
            let ev = fft::evaluate_poly_with_offset(&p, &tw, off, blowup);
            out(&format!("{f}.evaluate_poly_with_offset n={n} blowup={blowup}"), dg(&ser(&ev)));
            if blowup == 1 {
                let mut back = ev.clone();
                fft::interpolate_poly_with_offset(&mut back, &itw, off);
                out(&format!("{f}.interpolate_poly_with_offset n={n}"), dg(&ser(&back)));
            }
        }
        let mut sv = p.clone();
        fft::serial_fft(&mut sv, &tw);
        out(&format!("{f}.serial_fft n={n}"), dg(&ser(&sv)));
        out(&format!("{f}.infer_degree n={n}"), format!("{}", fft::infer_degree(&e, B::ONE)));
    }
}
fn dig_fft_ext(r: &mut Rng, max_log: u32) {
    for log in [8u32, 9, 10, 11, max_log] {
        let n = 1usize << log;
        let p: Vec<Q64> = (0..n).map(|_| rnd_q(r)).collect();
        let tw = fft::get_twiddles::<F64>(n);
        let itw = fft::get_inv_twiddles::<F64>(n);
        let mut e = p.clone();
        fft::evaluate_poly(&mut e, &tw);
        out(&format!("q64.evaluate_poly n={n}"), dg(&ser(&e)));
        let ev = fft::evaluate_poly_with_offset(&p, &tw, F64::GENERATOR, 4);
        out(&format!("q64.evaluate_poly_with_offset n={n} blowup=4"), dg(&ser(&ev)));
        let mut i = e.clone();
        fft::interpolate_poly_with_offset(&mut i, &itw, F64::GENERATOR);
        out(&format!("q64.interpolate_poly_with_offset n={n}"), dg(&ser(&i)));
    }
}

const SERIES_SIZES: &[usize] = &[0, 1, 1000, 1023, 1024, 1025, 2047, 2048, 2049, 4096, 5000, 8191, 8192, 16383, 16384, 16385,
    32768, 40000, 65535, 65536, 65537, 70001, 131072];

fn dig_utils<B: StarkField>(f: &str, r: &mut Rng, scale: usize) {
    let sizes: Vec<usize> = SERIES_SIZES.iter().copied().filter(|&n| scale > 1 || n <= 70001).collect();
    for &n in &sizes {
        let b = rnd::<B>(r);
        let s = rnd::<B>(r);
        out(&format!("{f}.get_power_series n={n}"), dg(&ser(&get_power_series(b, n))));
        out(&format!("{f}.get_power_series_with_offset n={n}"), dg(&ser(&get_power_series_with_offset(b, s, n))));
        // batch inversion: random zeros / zeros at the first and last position of every possible batch / a whole zero batch
        for pat in 0..4 {
            let mut v: Vec<B> = rnd_vec(r, n);
            match pat {
                0 => { for _ in 0..(n / 50 + 1).min(n) { let k = r.below(n as u64) as usize; v[k] = B::ZERO; } }
                1 => { for parts in [1usize, 2, 4, 8, 16, 32, 64] { let bs = n / parts; if bs == 0 { continue; }
                         for k in 0..parts { v[k * bs] = B::ZERO; v[k * bs + bs - 1] = B::ZERO; } } if n > 0 { v[n - 1] = B::ZERO; } }
                2 => { let bs = n / 64; for x in v.iter_mut().take(bs.max(1).min(n)) { *x = B::ZERO; } let m = n / 2; for x in v.iter_mut().skip(m).take(n / 16) { *x = B::ZERO; } }
                _ => {}
            }
            out(&format!("{f}.batch_inversion n={n} zeros={pat}"), dg(&ser(&batch_inversion(&v))));
        }
    }
    for n in [100usize, 1023, 1024, 5000, 20000] {
        let mut a: Vec<B> = rnd_vec(r, n);
        let b: Vec<B> = rnd_vec(r, n);
        add_in_place(&mut a, &b);
        out(&format!("{f}.add_in_place n={n}"), dg(&ser(&a)));
        let c = rnd::<B>(r);
        mul_acc::<B, B>(&mut a, &b, c);
        out(&format!("{f}.mul_acc n={n}"), dg(&ser(&a)));
    }
}

fn dig_merkle<H: Hasher>(hname: &str, max_log: u32) {
    for log in 1..=max_log {
        if log > 4 && log < 9 { continue; }
        let n = 1usize << log;
        let leaves: Vec<H::Digest> = (0..n).map(|i| H::hash(&(i as u64 ^ 0xA5A5).to_le_bytes())).collect();
        let tree = MerkleTree::<H>::new(leaves).unwrap();
        let mut acc = Vec::new();
        acc.extend_from_slice(&tree.root().as_bytes());
        // every internal node is on the authentication path of some leaf
        for i in 0..n { acc.extend_from_slice(&ser_d(&tree.prove(i).unwrap())); }
        out(&format!("merkle.{hname} leaves={n} root"), hex_bytes(&tree.root().as_bytes()[..16]));
        out(&format!("merkle.{hname} leaves={n} all-nodes"), dg(&acc));
    }
}

const MATRIX_SHAPES: &[(usize, usize, usize)] = &[
    (8, 128, 8), (8, 255, 4), (8, 121, 8), (16, 3, 2), (16, 200, 2), (64, 17, 8), (128, 9, 8), (256, 8, 4), (512, 2, 2), (512, 33, 2),
    (1024, 1, 2), (1024, 5, 8), (2048, 3, 2), (4096, 2, 2),
];

fn dig_matrix<B: StarkField, H: ElementHasher<BaseField = B>>(f: &str, r: &mut Rng, scale: usize) {
    for &(rows, cols, blowup) in MATRIX_SHAPES {
        if scale <= 1 && rows * cols * blowup > (1 << 16) && rows > 1024 { continue; }
        let polys = ColMatrix::new((0..cols).map(|_| rnd_vec::<B>(r, rows)).collect());
        let dom = StarkDomain::from_twiddles(fft::get_twiddles::<B>(rows), blowup, B::GENERATOR);
        let tag = format!("{f} rows={rows} cols={cols} blowup={blowup}");
        let rm = RowMatrix::<B>::evaluate_polys_over::<8>(&polys, &dom);
        out(&format!("rowmatrix.lde {tag}"), dg(&ser(rm.data())));
        out(&format!("rowmatrix.commit {tag}"), hex_bytes(&rm.commit_to_rows::<H>().root().as_bytes()[..16]));
        let rm2 = RowMatrix::<B>::evaluate_polys::<8>(&polys, blowup);
        out(&format!("rowmatrix.evaluate_polys {tag}"), dg(&ser(rm2.data())));
        let cm = polys.evaluate_columns_over(&dom);
        let mut acc = Vec::new();
        for c in 0..cols { acc.extend_from_slice(&ser(cm.get_column(c))); }
        out(&format!("colmatrix.lde {tag}"), dg(&acc));
        out(&format!("colmatrix.commit {tag}"), hex_bytes(&cm.commit_to_rows::<H>().root().as_bytes()[..16]));
        let ip = polys.interpolate_columns();
        let mut acc = Vec::new();
        for c in 0..cols { acc.extend_from_slice(&ser(ip.get_column(c))); }
        out(&format!("colmatrix.interpolate {tag}"), dg(&acc));
        out(&format!("colmatrix.evaluate_at {tag}"), dg(&ser(&polys.evaluate_columns_at(rnd::<B>(r)))));
    }
}
fn dig_matrix_ext(r: &mut Rng) {
    for &(rows, cols, blowup) in &[(8usize, 255usize, 2usize), (8, 70, 8), (256, 3, 4), (1024, 2, 2)] {
        let polys: ColMatrix<Q64> = ColMatrix::new((0..cols).map(|_| (0..rows).map(|_| rnd_q(r)).collect()).collect());
        let dom = StarkDomain::from_twiddles(fft::get_twiddles::<F64>(rows), blowup, F64::GENERATOR);
        let rm = RowMatrix::<Q64>::evaluate_polys_over::<8>(&polys, &dom);
        let tag = format!("q64 rows={rows} cols={cols} blowup={blowup}");
        out(&format!("rowmatrix.lde {tag}"), dg(&ser(rm.data())));
        out(&format!("rowmatrix.commit {tag}"), hex_bytes(&rm.commit_to_rows::<Blake3_256<F64>>().root().as_bytes()[..16]));
    }
}

fn dig_fri<H: ElementHasher<BaseField = F64>>(hname: &str, r: &mut Rng) {
    for &(log_len, blowup, fold, rem) in &[(5u32, 8usize, 4usize, 7usize), (8, 8, 2, 3), (8, 8, 4, 15), (9, 8, 8, 7), (10, 8, 16, 31), (11, 4, 4, 7), (12, 2, 2, 255)] {
        let len = 1usize << log_len;
        let domain = len * blowup;
        let mut p: Vec<Q64> = (0..len).map(|_| rnd_q(r)).collect();
        p.resize(domain, Q64::ZERO);
        let tw = fft::get_twiddles::<F64>(domain);
        fft::evaluate_poly(&mut p, &tw);
        let tag = format!("{hname} domain={domain} blowup={blowup} fold={fold} rem={rem}");
        let mut channel = DefaultProverChannel::<Q64, H, DefaultRandomCoin<H>>::new(domain, 16);
        let mut prover = FriProver::<F64, Q64, _, H>::new(FriOptions::new(blowup, fold, rem));
        prover.build_layers(&mut channel, p.clone());
        out(&format!("fri.layer_commitments {tag}"), dg(&ser_d(channel.layer_commitments())));
        let positions: Vec<usize> = (0..16).map(|i| (i * 7919 + 3) % domain).collect::<std::collections::BTreeSet<_>>().into_iter().collect();
        let proof = prover.build_proof(&positions);
        out(&format!("fri.proof-at-fixed-positions {tag}"), dg(&proof.to_bytes()));
        // the folding primitives on their own
        let alpha = rnd_q(r);
        macro_rules! drp { ($n:literal) => {{
            let t = transpose_slice::<Q64, $n>(&p);
            out(&format!("fri.transpose_slice N={} {tag}", $n), dg(&ser(&t.iter().flatten().copied().collect::<Vec<_>>())));
            out(&format!("fri.hash_values N={} {tag}", $n), dg(&ser_d(&hash_values::<H, Q64, $n>(&t))));
            out(&format!("fri.apply_drp N={} {tag}", $n), dg(&ser(&apply_drp(&t, F64::GENERATOR, alpha))));
        }}; }
        drp!(2); drp!(4); drp!(8); drp!(16);
    }
}

/// TraceTable::fragments(): the trace is filled fragment by fragment (a parallel iterator in the concurrent build)
fn dig_trace_table(r: &mut Rng) {
    use winter_prover::TraceTable;
    for &(width, log_len, log_frag) in &[(3usize, 6u32, 3u32), (5, 10, 4), (2, 12, 7), (9, 11, 11), (1, 13, 1)] {
        let len = 1usize << log_len;
        let frag = 1usize << log_frag;
        let seed = F64::new(r.next_u64());
        let mut t = TraceTable::<F64>::new(width, len);
        t.fragments(frag).for_each(|mut f| {
            let off = f.offset() as u64;
            let idx = f.index() as u64;
            f.fill(|st| { for (c, x) in st.iter_mut().enumerate() { *x = seed + F64::new(off * 31 + c as u64 + idx); } },
                   |i, st| { for (c, x) in st.iter_mut().enumerate() { *x = *x * *x + F64::new(off + i as u64 + c as u64); } });
        });
        let mut acc = Vec::new();
        for c in 0..width { acc.extend_from_slice(&ser(t.get_column(c))); }
        out(&format!("tracetable.fragments width={width} len={len} fragment={frag}"), dg(&acc));
    }
}

/// A family member with explicit periodic cycle lengths (column c uses cycle c % cycles.len()) and assertions of all three
/// kinds, so that with more than one fragment every fragment with a non-zero offset evaluates periodic values, transition
/// constraints and boundary constraints (several divisors).
fn mk_periodic_spec(width: usize, log_n: u32, deg: u32, cycles: Vec<usize>, aux: usize, seed: u64) -> Spec {
    let mut s = Spec::simple(width, log_n, deg, seed);
    s.use_per = vec![true; width];
    s.periodic = cycles;
    if aux > 0 { s.aux_width = aux; s.aux_rands = 2; }
    let n = 1usize << log_n;
    s.assertions = vec![AKind::Single { col: 0, step: n / 2 + 1 }];
    if width > 1 { s.assertions.push(AKind::Sequence { col: 1, first: 3, stride: n / 8 }); }
    if width > 2 { s.hold[2] = true; s.assertions.push(AKind::Periodic { col: 2, first: 1, stride: n / 4 }); }
    s
}

/// Calls DefaultConstraintEvaluator::evaluate directly (trace LDE + random composition coefficients from a seeded coin)
/// and digests the combined constraint evaluations: the fragmented evaluation (>= 8192 rows, one fragment per
/// next_power_of_two(pool size)) must equal the single-fragment one.
fn eval_one<B, H>(id: &str, spec: &Spec, blowup: usize, ext: FieldExtension)
where B: StarkField + ExtensibleField<2> + ExtensibleField<3> + 'static, H: ElementHasher<BaseField = B> + Send + Sync {
    use winter_air::AuxRandElements;
    use winter_crypto::RandomCoin;
    use winter_prover::{ConstraintEvaluator, DefaultConstraintEvaluator, DefaultTraceLde, TraceLde};
    let cols = gen_main::<B>(spec);
    let avals = assertion_values(spec, &cols);
    assert!(is_valid(spec, &cols, &avals), "generator produced an invalid trace");
    let trace = FamTrace::new(spec, cols.clone());
    let opts = ProofOptions::new(4, blowup, 0, ext, 4, 31);
    let pi = PubInputs { spec: spec.clone(), avals };
    let air = FamAir::<B>::new(trace.info().clone(), pi, opts);
    let domain = StarkDomain::new(&air);
    let max_cycle = if spec.periodic.is_empty() { 0 } else { (0..spec.width).filter_map(|c| spec.per_index(c)).map(|i| spec.periodic[i]).max().unwrap_or(0) };
    println!("I evaluator.{id} trace_length={} ce_domain_size={} ce_blowup={} max_cycle={} cycles={:?} assertions={} aux={}", spec.n(), air.ce_domain_size(),
        air.ce_domain_size() / spec.n(), max_cycle, spec.periodic, spec.assertions.len(), spec.aux_width);
    let res = catch(AssertUnwindSafe(|| {
        let mut coin = DefaultRandomCoin::<H>::new(&[B::from(spec.seed as u32), B::from(17u32)]);
        // E = B for FieldExtension::None, quadratic extension otherwise
        macro_rules! go { ($E:ty) => {{
            let (mut lde, _polys) = DefaultTraceLde::<$E, H>::new(trace.info(), trace.main_segment(), &domain);
            let aux_rand = if spec.aux_width > 0 {
                let rands: Vec<$E> = air.get_aux_rand_elements::<$E, _>(&mut coin).unwrap();
                let aux = ColMatrix::new(gen_aux::<B, $E>(spec, trace.main_segment(), &rands));
                let _ = lde.set_aux_trace(&aux, &domain);
                Some(AuxRandElements::new(rands))
            } else { None };
            let coeffs = air.get_constraint_composition_coefficients::<$E, _>(&mut coin).unwrap();
            let ev = DefaultConstraintEvaluator::<FamAir<B>, $E>::new(&air, aux_rand, coeffs);
            dg(&ser(&ev.evaluate(&lde, &domain).into_inner()))
        }}; }
        match ext { FieldExtension::None => go!(B), _ => go!(QuadExtension<B>) }
    }));
    out(&format!("evaluator.{id} combined-constraint-evaluations"), match res { Ok(d) => d, Err(m) => format!("panic:{m}") });
}

/// Long periodic cycles (cycle = n, n/2, ... 8) on traces whose constraint-evaluation domain is >= 8192 rows, plus one below.
fn dig_evaluator() {
    let n = FieldExtension::None;
    eval_one::<F64, Blake3_256<F64>>("f64.n4096-cyc4096+1024", &mk_periodic_spec(2, 12, 1, vec![4096, 1024], 0, 31), 2, n);
    eval_one::<F64, Blake3_256<F64>>("f64.n4096-cyc2048+256+128", &mk_periodic_spec(3, 12, 2, vec![2048, 256, 128], 0, 32), 2, n);
    eval_one::<F64, Blake3_256<F64>>("f64.aux.n4096-cyc4096+512+8", &mk_periodic_spec(3, 12, 1, vec![4096, 512, 8], 2, 33), 2, FieldExtension::Quadratic);
    eval_one::<F64, Blake3_256<F64>>("f64.n2048-d3-cyc2048+32+16", &mk_periodic_spec(3, 11, 3, vec![2048, 32, 16], 0, 34), 4, n);
    eval_one::<F128, Blake3_256<F128>>("f128.n4096-cyc4096+64", &mk_periodic_spec(2, 12, 1, vec![4096, 64], 0, 35), 2, n);
    eval_one::<F64, Blake3_256<F64>>("f64.n2048-cyc2048 (single fragment)", &mk_periodic_spec(2, 11, 1, vec![2048, 4], 0, 36), 2, n);
}

fn mk_spec(width: usize, log_n: u32, deg: u32, periodic: Vec<usize>, aux: usize, seed: u64) -> Spec {
    let mut s = Spec::simple(width, log_n, deg, seed);
    if !periodic.is_empty() { s.use_per = (0..width).map(|c| c % 2 == 0).collect(); s.periodic = periodic; }
    if aux > 0 { s.aux_width = aux; s.aux_rands = 2; }
    s.assertions = vec![AKind::Single { col: 0, step: 0 }, AKind::Single { col: width - 1, step: (1 << log_n) - 1 }];
    if width > 2 { s.assertions.push(AKind::Sequence { col: 1, first: 1, stride: 1 << (log_n - 2) }); }
    s
}

/// proves one member of the family; returns (ce_domain_size, lines)
fn prove_one<B, H>(id: &str, spec: &Spec, opts: &ProofOptions) -> usize
where B: StarkField + ExtensibleField<2> + ExtensibleField<3> + 'static, H: ElementHasher<BaseField = B> + Send + Sync {
    let cols = gen_main::<B>(spec);
    let avals = assertion_values(spec, &cols);
    assert!(is_valid(spec, &cols, &avals), "generator produced an invalid trace");
    let trace = FamTrace::new(spec, cols);
    let prover = FamProver::<B, H, RecordingCoin<DefaultRandomCoin<H>>>::new(opts.clone());
    let pi = prover.get_pub_inputs(&trace);
    let air = FamAir::<B>::new(trace.info().clone(), pi.clone(), opts.clone());
    let ce = air.ce_domain_size();
    println!("I proof.{id} trace_length={} ce_domain_size={} lde_domain_size={}", spec.n(), ce, air.lde_domain_size());
    let _ = coinrec::take_log();
    let res = catch(AssertUnwindSafe(|| prover.prove(trace)));
    let log = coinrec::take_log();
    let proof = match res {
        Ok(Ok(p)) => p,
        Ok(Err(e)) => { out(&format!("proof.{id} result"), format!("prove-err:{e}")); return ce; }
        Err(m) => { out(&format!("proof.{id} result"), format!("prove-panic:{m}")); return ce; }
    };
    // everything the prover's coin saw before the nonce: reseeds = trace / constraint commitments, OOD digests, FRI layer
    // commitments; draws = all challenges.  check_leading_zeros / draw_integers involve the nonce and are excluded.
    let pre: Vec<&String> = log.iter().filter(|l| !l.contains(" check_leading_zeros ") && !l.contains(" draw_integers ")).collect();
    let norm: Vec<String> = pre.iter().map(|l| match l.find(' ') { Some(i) => l[i + 1..].to_string(), None => l.to_string() }).collect();
    out(&format!("proof.{id} coin-log-before-nonce lines={}", norm.len()), dg(norm.join("\n").as_bytes()));
    out(&format!("proof.{id} commitments"), dg(&proof.commitments.to_bytes()));
    out(&format!("proof.{id} ood_frame"), dg(&proof.ood_frame.to_bytes()));
    let rem: Vec<u8> = match (proof.fri_proof.parse_remainder::<B>(), spec.aux_width) { (Ok(v), _) => ser(&v), _ => vec![] };
    out(&format!("proof.{id} fri-remainder(base-parse) layers={}", proof.fri_proof.num_layers()), dg(&rem));
    out(&format!("proof.{id} context"), dg(&proof.context.to_bytes()));
    println!("N proof.{id} pow_nonce => {}", proof.pow_nonce);
    println!("N proof.{id} queries-and-total => {}", dg(&proof.to_bytes()));
    let bytes = proof.to_bytes();
    let acc = AcceptableOptions::OptionSet(vec![opts.clone()]);
    let v = catch(AssertUnwindSafe(|| verify::<FamAir<B>, H, DefaultRandomCoin<H>>(proof, pi.clone(), &acc)));
    out(&format!("proof.{id} verify"), match v { Ok(Ok(())) => "ok".into(), Ok(Err(e)) => format!("err:{e}"), Err(m) => format!("panic:{m}") });
    let v2 = match winter_air::proof::Proof::from_bytes(&bytes) {
        Ok(p2) => match catch(AssertUnwindSafe(|| verify::<FamAir<B>, H, DefaultRandomCoin<H>>(p2, pi, &acc))) { Ok(Ok(())) => "ok".to_string(), Ok(Err(e)) => format!("err:{e}"), Err(m) => format!("panic:{m}") },
        Err(e) => format!("reparse-err:{e}"),
    };
    out(&format!("proof.{id} verify-after-roundtrip"), v2);
    ce
}

/// Tiny proofs whose transition constraints have a high degree, so that the constraint-evaluation blowup (= z.len() in
/// acc_column) is 32 or 64: acc_column's batch-local index `z[i % z.len()]` is only right while every batch is a multiple
/// of z.len() (seeded change C14-r2m2 lowers the minimum batch size to 16).  The window is narrow: the batch size
/// ce_domain / npo2(T) must lie in [min batch, z.len()), i.e. trace length 8 <-> 9..16 threads, 16 <-> 17..32, 32 <-> 33..64
/// (blowup 64 also a quarter of the pool size).
fn dig_high_degree_proofs() -> Vec<usize> {
    let mut ces = Vec::new();
    let o = |q, b, e, f, r| ProofOptions::new(q, b, 0, e, f, r);
    let cases: Vec<(&str, Spec, ProofOptions)> = vec![
        ("hd-n8-d20-b32", Spec::simple(2, 3, 20, 21), o(4, 32, FieldExtension::None, 4, 7)),
        ("hd-n16-d20-b32", Spec::simple(1, 4, 20, 22), o(4, 32, FieldExtension::None, 2, 15)),
        ("hd-n32-d33-b32", Spec::simple(2, 5, 33, 23), o(4, 32, FieldExtension::Quadratic, 8, 31)),
        ("hd-n8-d40-b64", Spec::simple(1, 3, 40, 24), o(4, 64, FieldExtension::None, 4, 7)),
        ("hd-n16-d40-b64", Spec::simple(2, 4, 40, 25), o(4, 64, FieldExtension::None, 4, 15)),
        ("hd-n64-d18-b32", Spec::simple(1, 6, 18, 26), o(4, 32, FieldExtension::None, 4, 31)),
    ];
    for (id, spec, opts) in &cases {
        ces.push(prove_one::<F64, Blake3_256<F64>>(&format!("f64.blake3.{id}"), spec, opts));
    }
    ces.push(prove_one::<F128, Blake3_256<F128>>("f128.blake3.hd-n8-d20-b32", &cases[0].1, &cases[0].2));
    ces
}

fn dig_proofs(scale: usize) {
    let mut ces: Vec<usize> = Vec::new();
    let o = |q, b, g, e, f, r| ProofOptions::new(q, b, g, e, f, r);
    // (id, spec, options)
    let cases: Vec<(&str, Spec, ProofOptions)> = vec![
        ("tiny-w3-n32-b8", mk_spec(3, 5, 2, vec![], 0, 11), o(8, 8, 0, FieldExtension::None, 4, 7)),
        ("wide-w130-n8-b8", mk_spec(130, 3, 2, vec![], 0, 12), o(6, 8, 0, FieldExtension::None, 2, 3)),
        ("below-n2048-d2-b4", mk_spec(2, 11, 2, vec![], 0, 13), o(12, 4, 8, FieldExtension::Quadratic, 4, 31)),
        ("at-n4096-d2-b2", mk_spec(2, 12, 2, vec![], 0, 14), o(12, 2, 0, FieldExtension::None, 2, 15)),
        ("above-n2048-d3-b8", mk_spec(3, 11, 3, vec![4, 16], 0, 15), o(10, 8, 4, FieldExtension::None, 8, 31)),
        ("aux-n4096-d2-b4", mk_spec(3, 12, 2, vec![8], 2, 16), o(10, 4, 0, FieldExtension::Quadratic, 4, 63)),
        ("below-n1024-d3-b4", mk_spec(4, 10, 3, vec![], 1, 17), o(10, 4, 6, FieldExtension::None, 4, 7)),
        ("above-n4096-d3p-b4", mk_spec(2, 12, 3, vec![4], 0, 18), o(8, 4, 0, FieldExtension::None, 4, 31)),
        ("longcycle-n4096-d1-b2", mk_periodic_spec(3, 12, 1, vec![4096, 512, 128], 0, 19), o(8, 2, 0, FieldExtension::None, 4, 31)),
    ];
    for (id, spec, opts) in &cases {
        ces.push(prove_one::<F64, Blake3_256<F64>>(&format!("f64.blake3.{id}"), spec, opts));
        if *id != "wide-w130-n8-b8" || scale > 1 { ces.push(prove_one::<F64, Rp64_256>(&format!("f64.rp64.{id}"), spec, opts)); }
        if scale > 1 { ces.push(prove_one::<F64, Sha3_256<F64>>(&format!("f64.sha3.{id}"), spec, opts)); }
    }
    for (id, spec, opts) in cases.iter().filter(|c| c.2.field_extension() != FieldExtension::Cubic) {
        if scale <= 1 && (id.starts_with("aux") || id.starts_with("wide")) { continue; }
        ces.push(prove_one::<F128, Blake3_256<F128>>(&format!("f128.blake3.{id}"), spec, opts));
        if scale > 1 { ces.push(prove_one::<F128, ToyHasher<F128>>(&format!("f128.toy.{id}"), spec, opts)); }
    }
    ces.extend(dig_high_degree_proofs());
    ces.sort(); ces.dedup();
    println!("I ce_domain_sizes {:?}", ces);
}

fn digests(seed: u64, scale: usize) {
    println!("I build concurrent={} threads={}", CONC, threads());
    let mut r = Rng::new(seed);
    dig_fft::<F64>("f64", &mut r, 12);
    dig_fft::<F128>("f128", &mut r, if scale > 1 { 12 } else { 11 });
    dig_fft_ext(&mut r, 12);
    dig_utils::<F64>("f64", &mut r, scale);
    dig_utils::<F128>("f128", &mut r, 1);
    dig_merkle::<Blake3_256<F64>>("blake3", 13);
    dig_merkle::<Sha3_256<F64>>("sha3", 12);
    dig_merkle::<Rp64_256>("rp64", 12);
    dig_merkle::<ToyHasher<F64>>("toy", 14);
    dig_matrix::<F64, Blake3_256<F64>>("f64.blake3", &mut r, scale);
    dig_matrix::<F64, Rp64_256>("f64.rp64", &mut r, 1);
    dig_matrix::<F128, Sha3_256<F128>>("f128.sha3", &mut r, 1);
    dig_matrix_ext(&mut r);
    dig_trace_table(&mut r);
    dig_fri::<Blake3_256<F64>>("blake3", &mut r);
    dig_fri::<Rp64_256>("rp64", &mut r);
    dig_evaluator();
    dig_proofs(scale);
}

/// Cheap kernels only (FFT / permute / power series / batch inversion / Merkle / matrix LDE on small sizes on both sides of
/// the 1024 threshold): run for EVERY pool size 1..64, because some batch-arithmetic slips only show for particular
/// non-power-of-two pool sizes (e.g. `n mod threads >= 33` at n = 1024; seeded change C14-m2).
fn kernels(seed: u64) {
    println!("I build concurrent={} threads={}", CONC, threads());
    let mut r = Rng::new(seed);
    dig_fft::<F64>("f64", &mut r, 12);
    dig_fft::<F128>("f128", &mut r, 11);
    dig_utils::<F64>("f64", &mut r, 1);
    dig_merkle::<ToyHasher<F64>>("toy", 12);
    dig_merkle::<Blake3_256<F64>>("blake3", 11);
    dig_matrix::<F64, Blake3_256<F64>>("f64.blake3", &mut r, 1);
    let _ = dig_high_degree_proofs();
    dig_evaluator();
    // node vectors of the Merkle builder called DIRECTLY (concurrent build: crypto::merkle::concurrent::build_merkle_nodes,
    // which MerkleTree::new only reaches above 1024 leaves), ToyHasher digests: compared with the extracted model
    for log in 5..=12 { let l = 1usize << log; println!("C merkle-nodes {l} {} {} => {}", CONC as u8, threads(), merkle_nodes_obs(l)); }
}

fn merkle_nodes_obs(l: usize) -> String {
    let leaves: Vec<_> = (0..l as u64).map(|i| ToyHasher::<F64>::hash(&i.to_le_bytes())).collect();
    #[cfg(feature = "concurrent")]
    let res = catch(AssertUnwindSafe(|| winter_crypto::concurrent::build_merkle_nodes::<ToyHasher<F64>>(&leaves)));
    #[cfg(not(feature = "concurrent"))]
    let res = catch(AssertUnwindSafe(|| winter_crypto::build_merkle_nodes::<ToyHasher<F64>>(&leaves)));
    match res {
        Err(_) => "panic".into(),
        Ok(nodes) => {
            let w: Vec<u64> = nodes.iter().map(|d| d.to_u64()).collect();
            let x = w.iter().fold(0u64, |a, &v| a ^ v);
            let ws = w.iter().enumerate().fold(0u64, |a, (i, &v)| a.wrapping_add(v.wrapping_mul(i as u64 + 1)));
            format!("root:{:x} xor:{:x} wsum:{:x} len:{}", w[1], x, ws, w.len())
        }
    }
}

// ------------------------------------------------------------------------------------------------ spy hasher (Merkle tasks)
/// Structural digest: (lo, hi) = the range of leaves covered, ok = built from two adjacent well-formed halves.
#[derive(Debug, Default, Copy, Clone, Eq, PartialEq)]
struct SpyDigest([u8; 32]);
const SPY_TAG: u64 = 0x5350_595f_4331_3421;
impl SpyDigest {
    fn make(lo: u64, hi: u64, ok: bool) -> Self {
        let mut b = [0u8; 32];
        b[..8].copy_from_slice(&lo.to_le_bytes());
        b[8..16].copy_from_slice(&hi.to_le_bytes());
        b[16..24].copy_from_slice(&SPY_TAG.to_le_bytes());
        b[24] = ok as u8;
        SpyDigest(b)
    }
    fn parts(&self) -> (u64, u64, bool) {
        let lo = u64::from_le_bytes(self.0[..8].try_into().unwrap());
        let hi = u64::from_le_bytes(self.0[8..16].try_into().unwrap());
        let tag = u64::from_le_bytes(self.0[16..24].try_into().unwrap());
        (lo, hi, tag == SPY_TAG && self.0[24] == 1 && self.0[25..].iter().all(|&x| x == 0))
    }
}
impl Digest for SpyDigest { fn as_bytes(&self) -> [u8; 32] { self.0 } }
impl Serializable for SpyDigest { fn write_into<W: ByteWriter>(&self, target: &mut W) { target.write_bytes(&self.0); } }
impl Deserializable for SpyDigest {
    fn read_from<R: ByteReader>(source: &mut R) -> Result<Self, DeserializationError> { Ok(SpyDigest(source.read_array()?)) }
}
static SPY_LOG: Mutex<Vec<(usize, u64, u64, bool)>> = Mutex::new(Vec::new());
fn thread_id() -> usize {
    #[cfg(feature = "concurrent")]
    { winter_utils::rayon::current_thread_index().map(|i| i + 1).unwrap_or(0) }
    #[cfg(not(feature = "concurrent"))]
    { 0 }
}
struct SpyHasher;
impl Hasher for SpyHasher {
    type Digest = SpyDigest;
    const COLLISION_RESISTANCE: u32 = 0;
    fn hash(bytes: &[u8]) -> SpyDigest { let i = u64::from_le_bytes(bytes[..8].try_into().unwrap()); SpyDigest::make(i, i + 1, true) }
    fn merge(values: &[SpyDigest; 2]) -> SpyDigest {
        let (alo, ahi, aok) = values[0].parts();
        let (blo, bhi, bok) = values[1].parts();
        let ok = aok && bok && ahi == blo && ahi > alo && (ahi - alo) == (bhi.wrapping_sub(blo));
        SPY_LOG.lock().unwrap().push((thread_id(), alo, bhi, ok));
        SpyDigest::make(alo, bhi, ok)
    }
    fn merge_with_int(seed: SpyDigest, _value: u64) -> SpyDigest { seed }
}

/// observation of one MerkleTree::new over `l` marker leaves
fn spy_merkle(l: usize) -> String {
    SPY_LOG.lock().unwrap().clear();
    let leaves: Vec<SpyDigest> = (0..l as u64).map(|i| SpyHasher::hash(&i.to_le_bytes())).collect();
    let res = catch(AssertUnwindSafe(|| MerkleTree::<SpyHasher>::new(leaves).map(|t| *t.root())));
    let log = std::mem::take(&mut *SPY_LOG.lock().unwrap());
    let root_ok = match res { Ok(Ok(root)) => root.parts() == (0, l as u64, true), _ => false };
    spy_report(l, &log, root_ok)
}
fn spy_report(l: usize, log: &[(usize, u64, u64, bool)], root_ok: bool) -> String {
    let n = l / 2;
    let mut reads_ok = true;
    let mut leaf_seen = vec![0u32; n];
    let mut last_leaf_pos = 0usize;
    let mut first_int_pos = usize::MAX;
    let mut ints: Vec<String> = Vec::new();
    for (pos, &(th, lo, hi, ok)) in log.iter().enumerate() {
        reads_ok &= ok;
        let size = hi.wrapping_sub(lo) as usize;
        if !ok || size < 2 || !size.is_power_of_two() || size > l { ints.push(format!("{th}:bad")); continue; }
        let k = l / size + (lo as usize) / size;
        if size == 2 { leaf_seen[k - n] += 1; last_leaf_pos = pos; } else { if first_int_pos == usize::MAX { first_int_pos = pos; } ints.push(format!("{th}:{k}")); }
    }
    let leaf_ok = leaf_seen.iter().all(|&c| c == 1);
    let order_ok = first_int_pos == usize::MAX || last_leaf_pos < first_int_pos;
    format!("root:{} leafset:{} leaf-before-internal:{} reads:{} int:{}", if root_ok { "ok" } else { "bad" }, if leaf_ok { "ok" } else { "bad" },
        if order_ok { "ok" } else { "bad" }, if reads_ok { "ok" } else { "bad" }, ints.join(","))
}

// ------------------------------------------------------------------------------------------------ corr
fn observe_bim(n: usize, min: usize) -> String {
    let log: Mutex<Vec<(usize, usize)>> = Mutex::new(Vec::new());
    let mut v = vec![0u64; n];
    match min {
        1024 => { batch_iter_mut!(&mut v, 1024, |batch: &mut [u64], off: usize| { for x in batch.iter_mut() { *x += 1; } log.lock().unwrap().push((off, batch.len())); }); }
        128 => { batch_iter_mut!(&mut v, 128, |batch: &mut [u64], off: usize| { for x in batch.iter_mut() { *x += 1; } log.lock().unwrap().push((off, batch.len())); }); }
        _ => { batch_iter_mut!(&mut v, |batch: &mut [u64], off: usize| { for x in batch.iter_mut() { *x += 1; } log.lock().unwrap().push((off, batch.len())); }); }
    }
    let mut l = log.into_inner().unwrap();
    l.sort();
    let once = v.iter().all(|&x| x == 1);
    format!("{} {}", if once { "each-cell-once" } else { "cells-missed-or-repeated" }, l.iter().map(|(o, k)| format!("{o}:{k}")).collect::<Vec<_>>().join(","))
}

/// the permutation realised by fft::permute on a slice of length n, observed through get_twiddles(2n):
/// twiddles = permute(get_power_series(g, n)), and the powers g^0..g^(n-1) are pairwise distinct
fn observe_permute(n: usize) -> String {
    let g = F64::get_root_of_unity((2 * n).ilog2());
    let mut idx: HashMap<u64, usize> = HashMap::new();
    let mut x = F64::ONE;
    for k in 0..n { idx.insert(x.as_int(), k); x *= g; }
    let tw = fft::get_twiddles::<F64>(2 * n);
    tw.iter().map(|t| idx.get(&t.as_int()).map(|k| k.to_string()).unwrap_or_else(|| "?".into())).collect::<Vec<_>>().join(",")
}

#[cfg(feature = "concurrent")]
fn merkle_direct(l: usize) -> String {
    // the concurrent builder called directly (MerkleTree::new only dispatches to it above 1024 leaves)
    SPY_LOG.lock().unwrap().clear();
    let leaves: Vec<SpyDigest> = (0..l as u64).map(|i| SpyHasher::hash(&i.to_le_bytes())).collect();
    let res = catch(AssertUnwindSafe(|| winter_crypto::concurrent::build_merkle_nodes::<SpyHasher>(&leaves)));
    SPY_LOG.lock().unwrap().clear();
    match res {
        Err(_) => "panic".into(),
        Ok(nodes) => {
            let serial = winter_crypto::build_merkle_nodes::<SpyHasher>(&leaves);
            SPY_LOG.lock().unwrap().clear();
            if nodes == serial { "ok".into() } else { "differs-from-serial".into() }
        }
    }
}
#[cfg(not(feature = "concurrent"))]
fn merkle_direct(_l: usize) -> String { "n/a".into() }

fn corr(seed: u64, n: usize) {
    let t = threads();
    let c = CONC as u8;
    let mut r = Rng::new(seed);
    // batch_iter_mut!: boundary sizes around min * npo2(T) for every T, non-powers of two, and random sizes
    let mut sizes: Vec<usize> = vec![0, 1, 2, 127, 128, 129, 1023, 1024, 1025, 2047, 2048, 2049, 4095, 4096, 4097, 5000, 5001, 8191, 8192, 8193,
        16383, 16384, 16385, 32767, 32768, 32769, 65535, 65536, 65537, 70001, 100000, 131071, 131072, 131073];
    for _ in 0..n { sizes.push(r.below(140000) as usize); }
    for &sz in &sizes {
        for min in [1usize, 128, 1024] {
            println!("bim {sz} {min} {c} {t} => {}", observe_bim(sz, min));
        }
    }
    // permute (n/2 twiddles of a domain of size n): below, at and above MIN_CONCURRENT_SIZE
    for pn in [256usize, 512, 1024, 2048] {
        println!("permute {pn} {c} {t} => {}", observe_permute(pn));
    }
    // Merkle tree construction: task structure observed through the spy hasher
    let mut ls = vec![2usize, 4, 16, 256, 1024, 2048];
    if n >= 50 { ls.push(4096); }
    for l in ls {
        println!("merkle {l} {c} {t} => {}", spy_merkle(l));
    }
    // the concurrent builder called directly on small inputs: where it panics / still equals the serial one
    if CONC {
        for l in [2usize, 4, 8, 16, 32, 64, 128, 256, 512] {
            println!("merkle-direct {l} {t} => {}", merkle_direct(l));
        }
    }
}

// ------------------------------------------------------------------------------------------------ falsify
struct Fz { evals: u64, fails: u64 }
impl Fz {
    fn check(&mut self, what: &str, input: String, expected: String, actual: String) {
        self.evals += 1;
        if expected != actual {
            self.fails += 1;
            println!("{{\"what\":{},\"input\":{},\"expected\":{},\"actual\":{}}}", jstr(what), jstr(&input), jstr(&expected), jstr(&actual));
        }
    }
}

fn fz_utils<B: StarkField>(f: &str, r: &mut Rng, fz: &mut Fz, n: usize) {
    let t = threads();
    let b = rnd::<B>(r);
    let s = rnd::<B>(r);
    let mut naive = Vec::with_capacity(n);
    let mut x = B::ONE;
    for _ in 0..n { naive.push(x); x *= b; }
    fz.check("get_power_series vs naive loop", format!("{f} n={n} threads={t}"), dg(&ser(&naive)), dg(&ser(&get_power_series(b, n))));
    let naive_s: Vec<B> = naive.iter().map(|&v| s * v).collect();
    fz.check("get_power_series_with_offset vs naive loop", format!("{f} n={n} threads={t}"), dg(&ser(&naive_s)), dg(&ser(&get_power_series_with_offset(b, s, n))));
    let mut v: Vec<B> = rnd_vec(r, n);
    let zeros = r.below(4);
    for parts in [1usize, 2, 4, 8, 16, 32, 64] {
        let bs = n / parts;
        if bs == 0 || zeros == 0 { continue; }
        for k in 0..parts { if r.chance(1, 2) { v[k * bs] = B::ZERO; } if r.chance(1, 2) { v[k * bs + bs - 1] = B::ZERO; } }
    }
    if zeros == 3 { for x in v.iter_mut().take(n / 8) { *x = B::ZERO; } }
    let naive_inv: Vec<B> = v.iter().map(|&x| if x == B::ZERO { B::ZERO } else { x.inv() }).collect();
    fz.check("batch_inversion vs elementwise inverse (zeros preserved)", format!("{f} n={n} zeros-pattern={zeros} threads={t}"), dg(&ser(&naive_inv)), dg(&ser(&batch_inversion(&v))));
    let a0: Vec<B> = rnd_vec(r, n);
    let mut a = a0.clone();
    add_in_place(&mut a, &v);
    let na: Vec<B> = a0.iter().zip(&v).map(|(&x, &y)| x + y).collect();
    fz.check("add_in_place vs loop", format!("{f} n={n} threads={t}"), dg(&ser(&na)), dg(&ser(&a)));
    let mut m = a0.clone();
    mul_acc::<B, B>(&mut m, &v, s);
    let nm: Vec<B> = a0.iter().zip(&v).map(|(&x, &y)| x + s * y).collect();
    fz.check("mul_acc vs loop", format!("{f} n={n} threads={t}"), dg(&ser(&nm)), dg(&ser(&m)));
}

fn fz_fft<B: StarkField>(f: &str, r: &mut Rng, fz: &mut Fz, log: u32) {
    let t = threads();
    let n = 1usize << log;
    let p: Vec<B> = rnd_vec(r, n);
    let tw = fft::get_twiddles::<B>(n);
    let itw = fft::get_inv_twiddles::<B>(n);
    // evaluate_poly vs the serial FftInputs path (serial_fft never dispatches to the concurrent module)
    let mut e = p.clone();
    fft::evaluate_poly(&mut e, &tw);
    // twiddles themselves: permuted power series, check against the definition w^bitrev(i)
    let g = B::get_root_of_unity(log);
    let bits = log - 1;
    let tw_ok = (0..n / 2).all(|i| { let j = if bits == 0 { 0 } else { (i as u64).reverse_bits() >> (64 - bits) }; tw[i] == g.exp((j as u64).into()) });
    fz.check("get_twiddles[i] = g^bitrev(i)", format!("{f} n={n} threads={t}"), "true".into(), format!("{tw_ok}"));
    let mut sref = p.clone();
    fft::serial_fft(&mut sref, &tw);
    fz.check("evaluate_poly vs serial_fft", format!("{f} n={n} threads={t}"), dg(&ser(&sref)), dg(&ser(&e)));
    let mut back = e.clone();
    fft::interpolate_poly(&mut back, &itw);
    fz.check("interpolate_poly(evaluate_poly(p)) = p", format!("{f} n={n} threads={t}"), dg(&ser(&p)), dg(&ser(&back)));
    let off = B::GENERATOR;
    let blowup = 1usize << r.below(3);
    let ev = fft::evaluate_poly_with_offset(&p, &tw, off, blowup);
    // spot-check against Horner at a few points of the coset
    let gd = B::get_root_of_unity((n * blowup).ilog2());
    let mut okh = true;
    for _ in 0..4 { let i = r.below((n * blowup) as u64) as usize; let x = off * gd.exp((i as u64).into()); okh &= winter_math::polynom::eval(&p, x) == ev[i]; }
    fz.check("evaluate_poly_with_offset vs Horner at sampled points", format!("{f} n={n} blowup={blowup} threads={t}"), "true".into(), format!("{okh}"));
    if blowup == 1 {
        let mut b2 = ev.clone();
        fft::interpolate_poly_with_offset(&mut b2, &itw, off);
        fz.check("interpolate_poly_with_offset(evaluate_poly_with_offset(p)) = p", format!("{f} n={n} threads={t}"), dg(&ser(&p)), dg(&ser(&b2)));
    }
}

fn fz_matrix(r: &mut Rng, fz: &mut Fz) {
    let t = threads();
    let rows = 1usize << (3 + r.below(8));
    let blowup = 1usize << (1 + r.below(4));
    let cols = match r.below(3) { 0 => 1 + r.below(8) as usize, 1 => 1 + r.below(40) as usize, _ => 1 + r.below(255) as usize };
    if rows * blowup * cols > 1 << 19 { return; }
    let polys = ColMatrix::new((0..cols).map(|_| rnd_vec::<F64>(r, rows)).collect());
    let m = catch(AssertUnwindSafe(|| RowMatrix::<F64>::evaluate_polys::<8>(&polys, blowup)));
    let tw = fft::get_twiddles::<F64>(rows);
    let mut bad = 0usize;
    match &m {
        Ok(m) => for c in 0..cols {
            let ev = fft::evaluate_poly_with_offset(polys.get_column(c), &tw, F64::GENERATOR, blowup);
            for i in 0..rows * blowup { if m.get(c, i) != ev[i] { bad += 1; } }
        },
        Err(_) => bad = usize::MAX,
    }
    fz.check("RowMatrix::evaluate_polys vs per-column evaluate_poly_with_offset (mismatching cells)", format!("f64 rows={rows} cols={cols} blowup={blowup} threads={t}"), "0".into(), format!("{bad}"));
    if let Ok(m) = &m {
        let tree = m.commit_to_rows::<Blake3_256<F64>>();
        let leaves: Vec<_> = (0..rows * blowup).map(|i| Blake3_256::<F64>::hash_elements(m.row(i))).collect();
        let nodes = winter_crypto::build_merkle_nodes::<Blake3_256<F64>>(&leaves);
        fz.check("RowMatrix::commit_to_rows root vs serial row hashing + serial build_merkle_nodes", format!("f64 rows={rows} cols={cols} blowup={blowup} threads={t}"),
            hex_bytes(&nodes[1].as_bytes()), hex_bytes(&tree.root().as_bytes()));
    }
}

fn fz_merkle(r: &mut Rng, fz: &mut Fz) {
    let t = threads();
    let log = 1 + r.below(13) as u32;
    let l = 1usize << log;
    let leaves: Vec<_> = (0..l).map(|i| Blake3_256::<F64>::hash(&(i as u64 ^ r.0).to_le_bytes())).collect();
    let tree = MerkleTree::<Blake3_256<F64>>::new(leaves.clone()).unwrap();
    let nodes = winter_crypto::build_merkle_nodes::<Blake3_256<F64>>(&leaves);
    let mut okp = *tree.root() == nodes[1];
    for _ in 0..8 {
        let i = r.below(l as u64) as usize;
        let path = tree.prove(i).unwrap();
        // path[k] for k >= 2 are internal nodes: sibling of the ancestor at height k-1
        let mut idx = (i + l) >> 1;
        for p in path.iter().skip(2) { okp &= *p == nodes[idx ^ 1]; idx >>= 1; }
    }
    fz.check("MerkleTree::new nodes vs serial build_merkle_nodes (root + sampled paths)", format!("blake3 leaves={l} threads={t}"), "true".into(), format!("{okp}"));
}

fn fz_proof(r: &mut Rng, fz: &mut Fz) {
    let t = threads();
    let blowup = *r.pick(&[2usize, 4, 8]);
    let mut spec = random_spec(r, 9, blowup);
    if !admissible(&spec, blowup) { for d in spec.degs.iter_mut() { *d = (*d).min(blowup as u32).max(1); } }
    let ext = *r.pick(&[FieldExtension::None, FieldExtension::Quadratic]);
    let fold = *r.pick(&[2usize, 4, 8]);
    let rem = *r.pick(&[3usize, 7, 15, 31]);
    let q = 1 + r.below(8) as usize;
    if !fri_wellformed(spec.n() * blowup, blowup, fold, rem) || q >= spec.n() * blowup { return; }
    let g = r.below(6) as u32;
    let opts = match catch(move || ProofOptions::new(q, blowup, g, ext, fold, rem)) { Ok(o) => o, Err(_) => return };
    let cols = gen_main::<F64>(&spec);
    let avals = assertion_values(&spec, &cols);
    if !is_valid(&spec, &cols, &avals) { return; }
    let trace = FamTrace::new(&spec, cols);
    let prover = FamProver::<F64, Blake3_256<F64>, DefaultRandomCoin<Blake3_256<F64>>>::new(opts.clone());
    let pi = prover.get_pub_inputs(&trace);
    let desc = format!("f64 blake3 w={} n={} degs={:?} per={:?} ex={} aux={}/{} blowup={} ext={:?} fold={} rem={} q={} grind={} seed={} threads={}", spec.width, spec.n(), spec.degs, spec.periodic,
        spec.exemptions, spec.aux_width, spec.aux_rands, blowup, ext, fold, rem, q, g, spec.seed, t);
    let res = catch(AssertUnwindSafe(|| prover.prove(trace)));
    let outc = match res {
        Ok(Ok(p)) => { let acc = AcceptableOptions::OptionSet(vec![opts.clone()]);
            match catch(AssertUnwindSafe(|| verify::<FamAir<F64>, Blake3_256<F64>, DefaultRandomCoin<Blake3_256<F64>>>(p, pi, &acc))) { Ok(Ok(())) => "verify:ok".to_string(), Ok(Err(e)) => format!("verify-err:{e}"), Err(m) => format!("verify-panic:{m}") } }
        Ok(Err(e)) => format!("prove-err:{e}"),
        // known, unrelated to threading (finding 10: degenerate constant traces); reported by C01
        Err(m) if m.contains("deep_composition_poly") || m.contains("left: ") => "verify:ok".to_string(),
        // the random shape is not admissible for the library (AirContext assertion), not a threading matter
        Err(m) if m.contains("number of transition exemptions") => return,
        Err(m) => format!("prove-panic:{m}"),
    };
    fz.check("honest proof of a random family member verifies", desc, "verify:ok".into(), outc);
}

fn falsify(seed: u64, n: usize) {
    let mut r = Rng::new(seed ^ 0xC14);
    let mut fz = Fz { evals: 0, fails: 0 };
    let boundary: Vec<usize> = vec![0, 1, 1023, 1024, 1025, 2047, 2048, 4096, 5000, 8192, 16384, 16385, 32768, 65535, 65536, 65537, 131072];
    for &sz in &boundary { fz_utils::<F64>("f64", &mut r, &mut fz, sz); }
    for &sz in &[1024usize, 4097, 65536] { fz_utils::<F128>("f128", &mut r, &mut fz, sz); }
    for log in 2..=13 { fz_fft::<F64>("f64", &mut r, &mut fz, log); }
    for log in [9u32, 10, 11] { fz_fft::<F128>("f128", &mut r, &mut fz, log); }
    // the short-and-wide matrix of finding C14-F1 first, then random shapes
    for i in 0..n {
        match i % 5 {
            0 => { let k = r.below(140000) as usize; fz_utils::<F64>("f64", &mut r, &mut fz, k) }
            1 => fz_matrix(&mut r, &mut fz),
            2 => fz_merkle(&mut r, &mut fz),
            3 => fz_proof(&mut r, &mut fz),
            _ => { let lg = 6 + r.below(8) as u32; fz_fft::<F64>("f64", &mut r, &mut fz, lg) }
        }
    }
    println!("evaluations={} failures={}", fz.evals, fz.fails);
}

fn main() {
    silence_panics();
    let args: Vec<String> = std::env::args().collect();
    let cmd = args.get(1).map(|s| s.as_str()).unwrap_or("");
    let seed: u64 = args.get(2).and_then(|s| s.parse().ok()).unwrap_or(1);
    let n: usize = args.get(3).and_then(|s| s.parse().ok()).unwrap_or(1);
    match cmd {
        "digests" => digests(seed, n),
        "kernels" => kernels(seed),
        "corr" => corr(seed, n),
        "falsify" => falsify(seed, n),
        _ => { eprintln!("usage: c14 digests|corr|falsify <seed> <n>"); std::process::exit(2); }
    }
    let _ = TraceInfo::new(1, 8);
}
