//! C17 harness: the committed constraint composition polynomial equals its definition.
//!
//!   c17 falsify <seed> <n>   random members of the AIR family (harness/src/airfam.rs) x fields x extensions:
//!        (a) DefaultConstraintEvaluator::evaluate -> every sampled row of the merged evaluation table is compared with a
//!            reference evaluation of the DEFINITION at x_i = offset * w_ce^i,
//!        (b) CompositionPoly::new(..).evaluate_at(z), recombined as sum_i z^(i n) H_i(z), is compared with the
//!            definition at random z outside the domains,
//!        (c) Prover::prove with a capturing prover + RecordingCoin: the OOD constraint evaluations of the proof,
//!            recombined at the drawn z, are compared with the definition evaluated with the coefficients the coin
//!            produced; verify() must accept the honest proof and reject it once one OOD constraint evaluation is changed.
//!        The reference is written from scratch below (Lagrange interpolation by the product formula, the family's
//!        transition algebra, divisors as products over the enforced steps); it shares only the field arithmetic and
//!        the trace generator with the code under test.
//!        Output: one JSON object per failure, then a `shapes=...` line and `evaluations=<n> failures=<k>`.
//!   c17 corr <seed> <n>      lines "<case> => <impl result>" for the Gallina model (ocaml/c17_driver.ml), field f64:
//!        eval   whole DefaultConstraintEvaluator::evaluate (periodic table rows, the three boundary representations,
//!               coefficient placement, division by divisors) on a given trace LDE
//!        split  CompositionPoly::new + evaluate_at + recombination
//!        vgroup winter_air::BoundaryConstraintGroup::evaluate_at (verifier side)
//!        tcomb  winter_air::TransitionConstraints::combine_evaluations (verifier side)
//!        lag    the Lagrange-kernel part of evaluate() (all other coefficients zero) on harness/src/lagfam.rs members
use std::cell::RefCell;
use std::collections::BTreeMap;
use std::marker::PhantomData;
use std::panic::AssertUnwindSafe;

use wf_harness::{airfam::*, catch, coinrec::{take_log, RecordingCoin}, jstr, lagfam::{LagAir, LagProver, LagTrace}, prng::Rng, silence_panics, toy::ToyHasher};
use winter_air::{
    proof::{OodFrame, TraceOodFrame}, Air, AirContext, Assertion, AuxRandElements, ConstraintCompositionCoefficients, EvaluationFrame,
    FieldExtension, LagrangeConstraintsCompositionCoefficients, LagrangeKernelEvaluationFrame, LagrangeKernelRandElements, ProofOptions,
    TraceInfo, TransitionConstraints,
};
use winter_crypto::{hashers::Blake3_256, DefaultRandomCoin, ElementHasher, RandomCoin};
use winter_math::{
    fields::{f128, f64, CubeExtension, QuadExtension},
    ExtensibleField, ExtensionOf, FieldElement, StarkField, ToElements,
};
use winter_prover::{
    matrix::ColMatrix, CompositionPoly, CompositionPolyTrace, ConstraintEvaluator, DefaultConstraintEvaluator, DefaultTraceLde,
    Prover, ProverGkrProof, StarkDomain, Trace, TraceLde, TracePolyTable,
};
use winter_utils::{Serializable, SliceReader};
use winter_verifier::{verify, AcceptableOptions};

// ================================================================================================ reference (independent)

/// Lagrange interpolation over arbitrary distinct base-field points, product formula.
struct Interp<B: StarkField> {
    pts: Vec<B>,
    w: Vec<B>, // 1 / prod_{j != i} (x_i - x_j)
}
impl<B: StarkField> Interp<B> {
    fn new(pts: Vec<B>) -> Self {
        let mut w = Vec::with_capacity(pts.len());
        for i in 0..pts.len() {
            let mut d = B::ONE;
            for j in 0..pts.len() {
                if i != j { d *= pts[i] - pts[j]; }
            }
            w.push(d.inv());
        }
        Interp { pts, w }
    }
    /// L_i(x) for all i
    fn basis<E: FieldElement<BaseField = B>>(&self, x: E) -> Vec<E> {
        let diffs: Vec<E> = self.pts.iter().map(|&p| x - E::from(p)).collect();
        if let Some(k) = diffs.iter().position(|d| *d == E::ZERO) {
            let mut v = vec![E::ZERO; self.pts.len()];
            v[k] = E::ONE;
            return v;
        }
        let total = diffs.iter().fold(E::ONE, |a, &d| a * d);
        diffs.iter().zip(&self.w).map(|(&d, &w)| total * E::from(w) / d).collect()
    }
}
fn dot_b<B: StarkField, E: FieldElement<BaseField = B>>(basis: &[E], ys: &[B]) -> E {
    basis.iter().zip(ys).fold(E::ZERO, |a, (&l, &y)| a + l * E::from(y))
}
fn dot_e<E: FieldElement>(basis: &[E], ys: &[E]) -> E {
    basis.iter().zip(ys).fold(E::ZERO, |a, (&l, &y)| a + l * y)
}
fn pw<E: FieldElement>(x: E, d: u64) -> E {
    let mut r = E::ONE;
    for _ in 0..d { r *= x; }
    r
}

struct RefAssert<B: StarkField, E: FieldElement<BaseField = B>> {
    aux: bool,
    col: usize,
    steps: Vec<usize>,
    vals: Vec<E>,              // one value (single / periodic) or one per step (sequence)
    interp: Option<Interp<B>>, // for sequences
    beta: E,
    key: (usize, usize, usize),
}

/// The definition of the composition polynomial for a member of the family, evaluated pointwise.
struct RefDef<B: StarkField, E: FieldElement<BaseField = B>> {
    spec: Spec,
    n: usize,
    g: B,
    tr: Interp<B>,
    main: Vec<Vec<B>>,
    aux: Vec<Vec<E>>,
    rands: Vec<E>,
    ks: Vec<B>,
    pers: Vec<(Interp<B>, Vec<B>, usize)>,
    tcoef: Vec<E>,
    asserts: Vec<RefAssert<B, E>>,
}

struct Point<E> { cur: Vec<E>, nxt: Vec<E>, acur: Vec<E>, anxt: Vec<E>, pers: Vec<E>, value: E }

impl<B: StarkField, E: FieldElement<BaseField = B>> RefDef<B, E> {
    fn new(spec: &Spec, main: Vec<Vec<B>>, avals: &[Vec<B>], aux_asserts: &[(AKind, Vec<E>)], aux: Vec<Vec<E>>, rands: Vec<E>, tcoef: Vec<E>, bcoef: &[E]) -> Self {
        let n = spec.n();
        let g = B::get_root_of_unity(spec.log_n);
        let dom: Vec<B> = (0..n).map(|i| g.exp((i as u64).into())).collect();
        let tr = Interp::new(dom.clone());
        // constants of the family (airfam::Spec::small_consts is private): same derivation, cross-checked against
        // FamAir::evaluate_transition at every evaluated point
        let mut kr = Rng::new(spec.seed ^ 0xABCD);
        let ks: Vec<B> = (0..spec.width).map(|_| B::from((kr.below(5) + 1) as u32)).collect();
        let pers = spec.periodic_values::<B>().into_iter().map(|vals| {
            let len = vals.len();
            let h = g.exp(((n / len) as u64).into());
            let pts: Vec<B> = (0..len).map(|j| h.exp((j as u64).into())).collect();
            (Interp::new(pts), vals, n / len)
        }).collect();
        // assertions: main first (sorted by stride, first step, column), then auxiliary ones; coefficients in that order
        let mut mains: Vec<RefAssert<B, E>> = spec.assertions.iter().zip(avals).map(|(a, v)| {
            let (col, steps) = assertion_steps(a, n);
            match a {
                AKind::Single { col, step } => RefAssert { aux: false, col: *col, steps, vals: vec![E::from(v[0])], interp: None, beta: E::ZERO, key: (0, *step, *col) },
                AKind::Periodic { first, stride, .. } => RefAssert { aux: false, col, steps, vals: vec![E::from(v[0])], interp: None, beta: E::ZERO, key: (*stride, *first, col) },
                AKind::Sequence { first, stride, .. } => {
                    if steps.len() == 1 {
                        // a one-value sequence is a single assertion
                        RefAssert { aux: false, col, steps, vals: vec![E::from(v[0])], interp: None, beta: E::ZERO, key: (0, *first, col) }
                    } else {
                        let pts: Vec<B> = steps.iter().map(|&s| dom[s]).collect();
                        RefAssert { aux: false, col, steps, vals: v.iter().map(|&y| E::from(y)).collect(), interp: Some(Interp::new(pts)), beta: E::ZERO, key: (*stride, *first, col) }
                    }
                }
            }
        }).collect();
        mains.sort_by_key(|a| a.key);
        let mut asserts = mains;
        // auxiliary assertions: sorted among themselves the same way, coefficients after the main ones
        let mut auxs: Vec<RefAssert<B, E>> = aux_asserts.iter().map(|(a, v)| {
            let (col, steps) = assertion_steps(a, n);
            match a {
                AKind::Single { col, step } => RefAssert { aux: true, col: *col, steps, vals: vec![v[0]], interp: None, beta: E::ZERO, key: (0, *step, *col) },
                AKind::Periodic { first, stride, .. } => RefAssert { aux: true, col, steps, vals: vec![v[0]], interp: None, beta: E::ZERO, key: (*stride, *first, col) },
                AKind::Sequence { first, stride, .. } => {
                    if steps.len() == 1 { RefAssert { aux: true, col, steps, vals: vec![v[0]], interp: None, beta: E::ZERO, key: (0, *first, col) } }
                    else { let pts: Vec<B> = steps.iter().map(|&s| dom[s]).collect();
                           RefAssert { aux: true, col, steps, vals: v.clone(), interp: Some(Interp::new(pts)), beta: E::ZERO, key: (*stride, *first, col) } }
                }
            }
        }).collect();
        auxs.sort_by_key(|a| a.key);
        asserts.extend(auxs);
        for (a, &b) in asserts.iter_mut().zip(bcoef) { a.beta = b; }
        RefDef { spec: spec.clone(), n, g, tr, main, aux, rands, ks, pers, tcoef, asserts }
    }

    fn transition(&self, cur: &[E], nxt: &[E], pers: &[E]) -> Vec<E> {
        let w = self.spec.width;
        (0..w).map(|c| {
            if self.spec.hold[c] { return nxt[c] - cur[c]; }
            let per = match self.spec.per_index(c) { Some(i) => E::ONE + pers[i], None => E::ONE };
            nxt[c] - (pw(cur[c], self.spec.degs[c] as u64) * per + E::from(self.ks[c]) * cur[(c + 1) % w])
        }).collect()
    }
    fn aux_transition(&self, cur: &[E], acur: &[E], anxt: &[E]) -> Vec<E> {
        let r = |i: usize| if self.rands.is_empty() { E::ONE } else { self.rands[i % self.rands.len()] };
        (0..self.spec.aux_width).map(|j| {
            if j == 0 { anxt[0] - acur[0] * (cur[0] + r(0)) } else { anxt[j] - (acur[j] + r(j) * cur[j % self.spec.width]) }
        }).collect()
    }

    fn at(&self, x: E) -> Point<E> {
        let lb = self.tr.basis(x);
        let lbn = self.tr.basis(x * E::from(self.g));
        let cur: Vec<E> = self.main.iter().map(|c| dot_b(&lb, c)).collect();
        let nxt: Vec<E> = self.main.iter().map(|c| dot_b(&lbn, c)).collect();
        let acur: Vec<E> = self.aux.iter().map(|c| dot_e(&lb, c)).collect();
        let anxt: Vec<E> = self.aux.iter().map(|c| dot_e(&lbn, c)).collect();
        let pers: Vec<E> = self.pers.iter().map(|(ip, vals, cyc)| dot_b(&ip.basis(pw(x, *cyc as u64)), vals)).collect();
        let t = self.transition(&cur, &nxt, &pers);
        let ta = self.aux_transition(&cur, &acur, &anxt);
        let mut num = E::ZERO;
        for (c, &v) in t.iter().enumerate() { num += self.tcoef[c] * v; }
        for (j, &v) in ta.iter().enumerate() { num += self.tcoef[self.spec.width + j] * v; }
        // transition divisor: product over the steps on which transitions are enforced
        let mut dt = E::ONE;
        let mut p = B::ONE;
        for _ in 0..self.n - self.spec.exemptions { dt *= x - E::from(p); p *= self.g; }
        let mut value = num / dt;
        for a in &self.asserts {
            let tv = if a.aux { acur[a.col] } else { cur[a.col] };
            let v = match &a.interp { None => a.vals[0], Some(ip) => dot_e(&ip.basis(x), &a.vals) };
            let mut d = E::ONE;
            for &s in &a.steps { d *= x - E::from(self.g.exp((s as u64).into())); }
            value += a.beta * (tv - v) / d;
        }
        Point { cur, nxt, acur, anxt, pers, value }
    }
}

// ================================================================================================ helpers
fn rand_e<E: FieldElement>(r: &mut Rng) -> E {
    loop {
        let b = r.bytes(E::ELEMENT_BYTES);
        if let Some(e) = E::from_random_bytes(&b) { return e; }
    }
}
fn hx<E: Serializable>(e: &E) -> String {
    let b = e.to_bytes();
    let mut s = String::new();
    for x in b.iter().rev() { s.push_str(&format!("{:02x}", x)); }
    s
}
fn fail(what: &str, input: &str, expected: &str, actual: &str) {
    println!("{{\"what\":{},\"input\":{},\"expected\":{},\"actual\":{}}}", jstr(what), jstr(input), jstr(expected), jstr(actual));
}
fn describe(spec: &Spec, blowup: usize, ext: FieldExtension, field: &str) -> String {
    format!("field={} ext={:?} blowup={} w={} n={} degs={:?} per={:?} use_per={:?} hold={:?} ex={} asrt={:?} aux={}/{} seed={}",
        field, ext, blowup, spec.width, spec.n(), spec.degs, spec.periodic, spec.use_per, spec.hold, spec.exemptions, spec.assertions, spec.aux_width, spec.aux_rands, spec.seed)
}

#[derive(Default)]
struct Stats {
    evals: u64,
    fails: u64,
    shapes: BTreeMap<String, u64>,
}
impl Stats {
    fn shape(&mut self, k: &str) { *self.shapes.entry(k.to_string()).or_insert(0) += 1; }
}

// ================================================================================================ family + arbitrary aux assertions
/// `FamAir` with the auxiliary-segment assertions replaced by an arbitrary list (single / periodic / sequence, values given):
/// the shared family (harness/src/airfam.rs) only asserts single values against auxiliary columns.  Everything else is
/// delegated to the inner FamAir; the context is rebuilt from the inner one's declared degrees with the new assertion count.
/// Values are stored as base-field coordinates so that the public inputs do not depend on the extension type.
#[derive(Clone)]
struct XPub<B: StarkField> { inner: PubInputs<B>, aux: Vec<(AKind, Vec<B>)> }
impl<B: StarkField> ToElements<B> for XPub<B> {
    fn to_elements(&self) -> Vec<B> {
        let mut v = self.inner.to_elements();
        for (k, vals) in &self.aux {
            let (t, c, f, s) = match k { AKind::Single { col, step } => (0u32, *col, *step, 0), AKind::Periodic { col, first, stride } => (1, *col, *first, *stride), AKind::Sequence { col, first, stride } => (2, *col, *first, *stride) };
            v.extend([B::from(t), B::from(c as u32), B::from(f as u32), B::from(s as u32), B::from(vals.len() as u32)]);
            v.extend(vals.iter().copied());
        }
        v
    }
}
struct XAir<B: StarkField + ExtensibleField<2> + ExtensibleField<3>> { inner: FamAir<B>, ctx: AirContext<B>, aux: Vec<(AKind, Vec<B>)> }
impl<B: StarkField + ExtensibleField<2> + ExtensibleField<3>> Air for XAir<B> {
    type BaseField = B;
    type PublicInputs = XPub<B>;
    type GkrProof = ();
    type GkrVerifier = ();
    fn new(trace_info: TraceInfo, pi: XPub<B>, options: ProofOptions) -> Self {
        let inner = FamAir::<B>::new(trace_info.clone(), pi.inner.clone(), options.clone());
        let ctx = if pi.inner.spec.aux_width == 0 { inner.context().clone() } else {
            let ic = inner.context();
            let tc = TransitionConstraints::<B>::new(ic, &vec![B::ONE; ic.num_transition_constraints()]);
            AirContext::new_multi_segment(trace_info, tc.main_constraint_degrees().to_vec(), tc.aux_constraint_degrees().to_vec(),
                pi.inner.spec.assertions.len(), pi.aux.len(), None, options).set_num_transition_exemptions(ic.num_transition_exemptions())
        };
        XAir { inner, ctx, aux: pi.aux }
    }
    fn context(&self) -> &AirContext<B> { &self.ctx }
    fn evaluate_transition<E: FieldElement<BaseField = B>>(&self, frame: &EvaluationFrame<E>, periodic_values: &[E], result: &mut [E]) {
        self.inner.evaluate_transition(frame, periodic_values, result)
    }
    fn get_assertions(&self) -> Vec<Assertion<B>> { self.inner.get_assertions() }
    fn get_periodic_column_values(&self) -> Vec<Vec<B>> { self.inner.get_periodic_column_values() }
    fn evaluate_aux_transition<F, E>(&self, main_frame: &EvaluationFrame<F>, aux_frame: &EvaluationFrame<E>, periodic: &[F], rands: &[E], result: &mut [E])
    where F: FieldElement<BaseField = B>, E: FieldElement<BaseField = B> + ExtensionOf<F> {
        self.inner.evaluate_aux_transition(main_frame, aux_frame, periodic, rands, result)
    }
    fn get_aux_assertions<E: FieldElement<BaseField = B>>(&self, _rands: &[E]) -> Vec<Assertion<E>> {
        self.aux.iter().map(|(k, flat)| {
            let vals: Vec<E> = E::slice_from_base_elements(flat).to_vec();
            match k {
                AKind::Single { col, step } => Assertion::single(*col, *step, vals[0]),
                AKind::Periodic { col, first, stride } => Assertion::periodic(*col, *first, *stride, vals[0]),
                AKind::Sequence { col, first, stride } => Assertion::sequence(*col, *first, *stride, vals),
            }
        }).collect()
    }
}

/// The complete list of auxiliary assertions: the family's defaults (column j, step 0) unless an extra assertion on the same
/// column covers step 0 (assertions on one column must not overlap), then the extras.
fn aux_assertion_kinds(spec: &Spec, extra: &[AKind]) -> Vec<AKind> {
    let n = spec.n();
    let mut v = vec![];
    for j in 0..spec.aux_width {
        if !extra.iter().any(|a| { let (c, steps) = assertion_steps(a, n); c == j && steps.contains(&0) }) { v.push(AKind::Single { col: j, step: 0 }); }
    }
    v.extend(extra.iter().cloned());
    v
}
/// number of asserted values (1 for single / periodic), number of asserted steps, exponent of the divisor's constant
fn akind_shape(a: &AKind, n: usize) -> (usize, usize, usize) {
    match a {
        AKind::Single { step, .. } => (1, 1, *step),
        AKind::Periodic { first, stride, .. } => (1, n / stride, (first * (n / stride)) % n),
        AKind::Sequence { first, stride, .. } => (n / stride, n / stride, (first * (n / stride)) % n),
    }
}
/// cells of {main, aux} x {single value, small polynomial, large polynomial} x {divisor shared with the other segment, not}
fn boundary_cells(spec: &Spec, aux: &[AKind]) -> Vec<String> {
    let n = spec.n();
    let div = |a: &AKind| { let (_, steps, e) = akind_shape(a, n); (steps, e) };
    let repr = |a: &AKind| { let (vals, _, _) = akind_shape(a, n); if vals == 1 { "single-value" } else if vals < 63 { "small-poly" } else { "large-poly" } };
    let mut v = vec![];
    for a in &spec.assertions { v.push(format!("boundary:main:{}:{}", repr(a), if aux.iter().any(|b| div(b) == div(a)) { "divisor-shared" } else { "divisor-unshared" })); }
    for a in aux { v.push(format!("boundary:aux:{}:{}", repr(a), if spec.assertions.iter().any(|b| div(b) == div(a)) { "divisor-shared" } else { "divisor-unshared" })); }
    v
}

// ================================================================================================ structured assertion values
/// Classes of asserted values that make coefficients of the assertion value polynomial vanish (random values do so with
/// probability 1/|F|): 0 values summing to zero (constant coefficient 0), 1 all zero, 2 all equal (constant polynomial),
/// 3 a single non-zero value, 4 alternating a/-a (only the middle coefficient), 5 top coefficient zero,
/// 6 a monomial x^k with 0 < k < m-1 (both ends zero).  The trace is NOT changed: the evaluator is driven with assertions
/// the trace violates, which the row-level comparison with the definition does not care about.
const PATTERNS: [&str; 7] = ["sum-zero", "all-zero", "all-equal", "single-nonzero", "alternating", "top-coeff-zero", "monomial"];
fn structured_vals<B: StarkField>(pattern: u64, m: usize, r: &mut Rng) -> Vec<B> {
    let nz = |r: &mut Rng| loop { let v = rand_e::<B>(r); if v != B::ZERO { return v; } };
    if m == 1 { return vec![if pattern == 1 || pattern == 0 { B::ZERO } else { nz(r) }]; }
    let w = B::get_root_of_unity(m.ilog2());
    match pattern {
        0 => { let mut v: Vec<B> = (0..m).map(|_| nz(r)).collect(); let s = v[..m - 1].iter().fold(B::ZERO, |a, &x| a + x); v[m - 1] = -s; v }
        1 => vec![B::ZERO; m],
        2 => vec![nz(r); m],
        3 => { let mut v = vec![B::ZERO; m]; v[r.below(m as u64) as usize] = nz(r); v }
        4 => { let a = nz(r); (0..m).map(|i| if i % 2 == 0 { a } else { -a }).collect() }
        5 => { // c_{m-1} = (1/m) sum_i v_i w^(-i(m-1)) = (1/m) sum_i v_i w^i
            let mut v: Vec<B> = (0..m).map(|_| nz(r)).collect();
            let s = (1..m).fold(B::ZERO, |a, i| a + v[i] * w.exp((i as u64).into()));
            v[0] = -s; v }
        _ => { let k = if m > 2 { 1 + r.below((m - 2) as u64) } else { 1 }; let a = nz(r); (0..m).map(|i| a * w.exp(((i as u64) * k).into())).collect() }
    }
}
fn structured_avals<B: StarkField>(spec: &Spec, pattern: u64, r: &mut Rng) -> Vec<Vec<B>> {
    spec.assertions.iter().map(|a| match a {
        AKind::Sequence { stride, .. } => structured_vals::<B>(pattern, spec.n() / stride, r),
        _ => structured_vals::<B>(pattern, 1, r),
    }).collect()
}

/// values of the auxiliary assertions: the family's defaults are 1 (column 0) and 0 at step 0; extras are read off the
/// auxiliary trace (a periodic assertion takes the value at its first step and is in general violated by the trace) or, with
/// `structured`, follow the given pattern
fn aux_assertion_values<B: StarkField, E: FieldElement<BaseField = B>>(spec: &Spec, kinds: &[AKind], n_default: usize, aux_cols: &[Vec<E>], structured: Option<u64>, r: &mut Rng) -> Vec<(AKind, Vec<E>)> {
    let n = spec.n();
    kinds.iter().enumerate().map(|(i, a)| {
        let (col, steps) = assertion_steps(a, n);
        let vals: Vec<E> = if i < n_default { vec![if col == 0 { E::ONE } else { E::ZERO }] }
            else if let Some(p) = structured { let m = if let AKind::Sequence { .. } = a { steps.len() } else { 1 }; structured_vals::<B>(p, m, r).into_iter().map(E::from).collect() }
            else { match a { AKind::Sequence { .. } => steps.iter().map(|&s| aux_cols[col][s]).collect(), _ => vec![aux_cols[col][steps[0]]] } };
        (a.clone(), vals)
    }).collect()
}

// ================================================================================================ spec sampler
/// Shapes named in the property's quantifier: several periodic columns of different cycle lengths (2 .. n), sequence
/// assertions with fewer and with at least 64 values, non-zero first steps, several constraints under one divisor,
/// exemptions, ce blowup < LDE blowup, auxiliary segment.
fn c17_spec(r: &mut Rng, blowup: usize, big: bool) -> Spec {
    let log_n: u32 = if big { 7 + r.below(2) as u32 } else { 3 + r.below(4) as u32 };
    let n = 1usize << log_n;
    let width = 1 + r.below(if big { 4 } else { 6 }) as usize;
    let nper = r.below(4) as usize;
    let mut periodic = vec![];
    for _ in 0..nper {
        let len = match r.below(5) { 0 => 2, 1 => n, 2 => n / 2, 3 => 4, _ => pow2_le(r, 1, log_n) };
        periodic.push(len.min(n));
    }
    // declared degree d (+1 with a periodic factor) must satisfy d + cycles - 1 <= blowup; keeping it small gives ce blowup < blowup
    let lowdeg = r.chance(1, 2);
    let degs: Vec<u32> = (0..width).map(|_| {
        let cap = if lowdeg { 2 } else { blowup as u32 };
        1 + r.below(cap.min(5) as u64) as u32
    }).collect();
    let use_per: Vec<bool> = (0..width).map(|_| nper > 0 && r.chance(2, 3)).collect();
    let mut hold = vec![false; width];
    let exemptions = match r.below(6) { 0 | 1 => 1, 2 => 2, 3 => 3, 4 => 1 + r.below(4) as usize, _ => 1 + r.below((n / 2 + 1) as u64) as usize };
    // a few (stride, first) pairs shared between columns so that groups hold several constraints
    let mut pairs: Vec<(usize, usize)> = vec![];
    for _ in 0..2 {
        let stride = if big { *r.pick(&[2usize, 2, 4, 4, 8, n / 2]) } else { pow2_le(r, 1, log_n) };
        let first = match r.below(3) { 0 => 0, 1 => stride - 1, _ => r.below(stride as u64) as usize };
        pairs.push((stride, first));
    }
    let mut assertions = vec![];
    let mut cols: Vec<usize> = (0..width).collect();
    for i in (1..cols.len()).rev() { let j = r.below(i as u64 + 1) as usize; cols.swap(i, j); }
    let na = 1 + r.below(width.min(4) as u64) as usize;
    for &col in cols.iter().take(na) {
        let (stride, first) = *r.pick(&pairs);
        let a = match r.below(if big { 5 } else { 4 }) {
            0 => AKind::Single { col, step: match r.below(3) { 0 => 0, 1 => n - 1, _ => r.below(n as u64) as usize } },
            1 => { hold[col] = true; AKind::Periodic { col, first, stride } }
            _ => AKind::Sequence { col, first, stride },
        };
        assertions.push(a);
    }
    let (aux_width, aux_rands) = if r.chance(1, 3) { (1 + r.below(3) as usize, 1 + r.below(3) as usize) } else { (0, 0) };
    // built from Spec::simple so that additive fields other checks put into the shared family keep their 'off' defaults
    let mut s = Spec::simple(width, log_n, 1, r.next_u64());
    s.degs = degs; s.periodic = periodic; s.use_per = use_per; s.hold = hold; s.exemptions = exemptions; s.assertions = assertions;
    s.aux_width = aux_width; s.aux_rands = aux_rands; s.aux_assert_last = false; s.constant_trace = false;
    s
}

fn note_shapes(st: &mut Stats, spec: &Spec, blowup: usize, ce_blowup: usize, ext: FieldExtension, field: &str, ncols: usize) {
    let n = spec.n();
    st.shape(&format!("field:{}", field));
    st.shape(&format!("ext:{:?}", ext));
    st.shape(&format!("n:{}", n));
    st.shape(&format!("ce_blowup:{}/lde:{}", ce_blowup, blowup));
    if ce_blowup < blowup { st.shape("ce_blowup<lde_blowup"); }
    st.shape(&format!("composition_columns:{}", ncols));
    st.shape(&format!("periodic_columns:{}", spec.periodic.len()));
    let mut lens: Vec<usize> = spec.periodic.clone(); lens.sort(); lens.dedup();
    if lens.len() > 1 { st.shape("periodic:distinct-cycle-lengths"); }
    for &l in &spec.periodic {
        if l == n { st.shape("periodic:cycle=n"); } else if l == n / 2 { st.shape("periodic:cycle=n/2"); } else if l == 2 { st.shape("periodic:cycle=2"); } else { st.shape("periodic:cycle=other"); }
    }
    st.shape(&format!("exemptions:{}", if spec.exemptions > 3 { ">3".to_string() } else { spec.exemptions.to_string() }));
    if spec.aux_width > 0 { st.shape("aux-segment"); }
    let mut keys = BTreeMap::new();
    for a in &spec.assertions {
        match a {
            AKind::Single { step, .. } => { st.shape(if *step == 0 { "assert:single@0" } else { "assert:single@nonzero" }); *keys.entry((0usize, *step)).or_insert(0) += 1; }
            AKind::Periodic { first, stride, .. } => { st.shape(if *first == 0 { "assert:periodic,first=0" } else { "assert:periodic,first>0" }); *keys.entry((*stride, *first)).or_insert(0) += 1; }
            AKind::Sequence { first, stride, .. } => {
                let m = n / stride;
                let cls = if m == 1 { "1(single)" } else if m < 63 { "2..32(small-poly)" } else { ">=64(large-poly)" };
                st.shape(&format!("assert:sequence,values={},{}", cls, if *first == 0 { "first=0" } else { "first>0" }));
                *keys.entry((if m == 1 { 0 } else { *stride }, *first)).or_insert(0) += 1;
            }
        }
    }
    if keys.values().any(|&c| c > 1) { st.shape("boundary-group-with-several-constraints"); }
}

// ================================================================================================ (a) + (b): evaluator driven directly
#[allow(clippy::too_many_arguments)]
fn direct_case<B, E>(spec: &Spec, aux_extra: &[AKind], blowup: usize, ext: FieldExtension, field: &str, structured: Option<u64>, r: &mut Rng, st: &mut Stats)
where
    B: StarkField + ExtensibleField<2> + ExtensibleField<3> + 'static,
    E: FieldElement<BaseField = B>,
{
    let mut desc = describe(spec, blowup, ext, field);
    let n = spec.n();
    let cols = gen_main::<B>(spec);
    let mut avals = assertion_values(spec, &cols);
    if !is_valid(spec, &cols, &avals) { fail("generator-produced-invalid-trace", &desc, "valid", "invalid"); st.fails += 1; return; }
    if let Some(p) = structured {
        avals = structured_avals::<B>(spec, p, r);
        desc.push_str(&format!(" assertion-values={}", PATTERNS[p as usize]));
    }
    if !aux_extra.is_empty() { desc.push_str(&format!(" aux-assertions={:?}", aux_extra)); }
    let ftrace = FamTrace::new(spec, cols.clone());
    let info: TraceInfo = ftrace.info().clone();
    let opts = ProofOptions::new(4, blowup, 0, ext, 2, 1);
    let main = ColMatrix::new(cols.clone());
    let rands: Vec<E> = (0..spec.aux_rands).map(|_| rand_e::<E>(r)).collect();
    let aux_cols: Vec<Vec<E>> = gen_aux::<B, E>(spec, &main, &rands);
    let aux_kinds = aux_assertion_kinds(spec, aux_extra);
    let aux_asserts = aux_assertion_values::<B, E>(spec, &aux_kinds, aux_kinds.len() - aux_extra.len(), &aux_cols, structured, r);
    // a periodic assertion against a running sum/product column is violated by the honest auxiliary trace
    let aux_invalid = aux_extra.iter().any(|a| matches!(a, AKind::Periodic { .. }));
    let xpub = XPub { inner: PubInputs { spec: spec.clone(), avals: avals.clone() },
                      aux: aux_asserts.iter().map(|(k, v)| (k.clone(), E::slice_as_base_elements(v).to_vec())).collect() };
    let air = match catch(AssertUnwindSafe(|| XAir::<B>::new(info.clone(), xpub, opts))) {
        Ok(a) => a,
        Err(_) => { st.shape("skipped:air-constructor-rejects"); return; }
    };
    let ce_blowup = air.ce_blowup_factor();
    let ncols = air.context().num_constraint_composition_columns();
    note_shapes(st, spec, blowup, ce_blowup, ext, field, ncols);
    if spec.aux_width > 0 { for c in boundary_cells(spec, &aux_kinds) { st.shape(&c); } }
    if let Some(p) = structured {
        for a in &spec.assertions {
            let cls = match a { AKind::Sequence { stride, .. } => { let m = n / stride; if m == 1 { "single" } else if m < 63 { "small-poly" } else { "large-poly" } } _ => "single" };
            st.shape(&format!("values:{}:{}", PATTERNS[p as usize], cls));
        }
    }
    let domain = StarkDomain::new(&air);
    let (mut trace_lde, _polys): (DefaultTraceLde<E, ToyHasher<B>>, TracePolyTable<E>) = DefaultTraceLde::new(&info, &main, &domain);
    let aux_re = if spec.aux_width > 0 {
        trace_lde.set_aux_trace(&ColMatrix::new(aux_cols.clone()), &domain);
        Some(AuxRandElements::new(rands.clone()))
    } else { None };
    let tcoef: Vec<E> = (0..spec.width + spec.aux_width).map(|_| rand_e::<E>(r)).collect();
    let bcoef: Vec<E> = (0..spec.assertions.len() + aux_asserts.len()).map(|_| rand_e::<E>(r)).collect();
    let coeffs = ConstraintCompositionCoefficients { transition: tcoef.clone(), boundary: bcoef.clone(), lagrange: None };
    let evals: Vec<E> = match catch(AssertUnwindSafe(|| {
        let ev = DefaultConstraintEvaluator::<XAir<B>, E>::new(&air, aux_re, coeffs);
        ev.evaluate(&trace_lde, &domain).into_inner()
    })) {
        Ok(v) => v,
        Err(m) => { fail("evaluate-panicked", &desc, "evaluations", &m); st.fails += 1; return; }
    };
    let rd = RefDef::<B, E>::new(spec, cols, &avals, &aux_asserts, aux_cols, rands, tcoef, &bcoef);
    let ce = n * ce_blowup;
    if evals.len() != ce { fail("ce-domain-size", &desc, &ce.to_string(), &evals.len().to_string()); st.fails += 1; return; }
    let wce = B::get_root_of_unity(ce.ilog2());
    let offset = air.domain_offset();
    // (a) rows of the merged table: all rows for small domains, otherwise a sample containing the wrap-around rows
    let mut rows: Vec<usize> = if ce <= 64 { (0..ce).collect() } else {
        let mut v = vec![0, 1, ce_blowup - 1, ce_blowup, ce_blowup + 1, ce - 1, ce - ce_blowup, ce / 2, ce / 2 - 1];
        for a in spec.assertions.iter().chain(aux_extra.iter()) { if let AKind::Sequence { first, .. } = a { let so = first * ce_blowup; v.extend([so.saturating_sub(1), so, so + 1]); } }
        for _ in 0..24 { v.push(r.below(ce as u64) as usize); }
        v.retain(|&i| i < ce); v.sort(); v.dedup(); v
    };
    rows.dedup();
    let mut frame = EvaluationFrame::<E>::new(spec.width);
    for &i in &rows {
        let x = E::from(offset * wce.exp((i as u64).into()));
        let p = rd.at(x);
        st.evals += 1;
        // the reference transition algebra agrees with the computation description (FamAir) on this frame
        frame.current_mut().copy_from_slice(&p.cur);
        frame.next_mut().copy_from_slice(&p.nxt);
        let mut res = vec![E::ZERO; spec.width];
        air.evaluate_transition::<E>(&frame, &p.pers, &mut res);
        if res != rd.transition(&p.cur, &p.nxt, &p.pers) {
            fail("reference-transition-differs-from-air", &format!("{} row={}", desc, i), "equal", "different"); st.fails += 1; return;
        }
        if evals[i] != p.value {
            fail("table-row-differs-from-definition", &format!("{} row={}", desc, i), &hx(&p.value), &hx(&evals[i])); st.fails += 1; return;
        }
        let _ = (&p.acur, &p.anxt);
    }
    // (b) interpolate + split into columns + evaluate_at + recombine, against the definition at random z
    // (not with structured assertion values: the trace violates them, the quotient is not a polynomial)
    if structured.is_some() || aux_invalid { return; }
    let cp = match catch(AssertUnwindSafe(|| CompositionPoly::new(CompositionPolyTrace::new(evals.clone()), &domain, ncols))) {
        Ok(c) => c,
        Err(m) => { fail("composition-poly-new-panicked", &desc, "columns", &m); st.fails += 1; return; }
    };
    for k in 0..3 {
        let z: E = if k == 0 && E::EXTENSION_DEGREE > 1 { E::from(rand_e::<B>(r)) } else { rand_e::<E>(r) };
        let hs = cp.evaluate_at(z);
        let zn = pw(z, n as u64);
        let mut acc = E::ZERO;
        let mut zp = E::ONE;
        for h in &hs { acc += zp * *h; zp *= zn; }
        let p = rd.at(z);
        st.evals += 1;
        if hs.len() != ncols || acc != p.value {
            fail("composition-poly-differs-from-definition", &format!("{} columns={} z={}", desc, ncols, hx(&z)), &hx(&p.value), &hx(&acc)); st.fails += 1; return;
        }
    }
}

// ================================================================================================ (c): through Prover::prove / verify
thread_local! {
    static CAPTURE: RefCell<Vec<(Vec<u8>, Vec<u8>, Vec<u8>)>> = RefCell::new(Vec::new());
}

struct CapProver<B: StarkField, H, R> { options: ProofOptions, _p: PhantomData<(B, H, R)> }

impl<B, H, R> Prover for CapProver<B, H, R>
where
    B: StarkField + ExtensibleField<2> + ExtensibleField<3> + 'static,
    H: ElementHasher<BaseField = B> + Send + Sync,
    R: RandomCoin<BaseField = B, Hasher = H> + Send + Sync,
{
    type BaseField = B;
    type Air = FamAir<B>;
    type Trace = FamTrace<B>;
    type HashFn = H;
    type RandomCoin = R;
    type TraceLde<E: FieldElement<BaseField = B>> = DefaultTraceLde<E, H>;
    type ConstraintEvaluator<'a, E: FieldElement<BaseField = B>> = DefaultConstraintEvaluator<'a, FamAir<B>, E>;

    fn get_pub_inputs(&self, trace: &FamTrace<B>) -> PubInputs<B> {
        PubInputs { spec: trace.spec.clone(), avals: assertion_values(&trace.spec, &trace.cols()) }
    }
    fn options(&self) -> &ProofOptions { &self.options }
    fn new_trace_lde<E: FieldElement<BaseField = B>>(&self, trace_info: &TraceInfo, main_trace: &ColMatrix<B>, domain: &StarkDomain<B>) -> (Self::TraceLde<E>, TracePolyTable<E>) {
        DefaultTraceLde::new(trace_info, main_trace, domain)
    }
    fn new_evaluator<'a, E: FieldElement<BaseField = B>>(&self, air: &'a FamAir<B>, aux_rand_elements: Option<AuxRandElements<E>>, cc: ConstraintCompositionCoefficients<E>) -> Self::ConstraintEvaluator<'a, E> {
        let ser = |v: &[E]| { let mut b = Vec::new(); for e in v { e.write_into(&mut b); } b };
        let rands = aux_rand_elements.as_ref().map(|a| ser(a.rand_elements())).unwrap_or_default();
        CAPTURE.with(|c| c.borrow_mut().push((rands, ser(&cc.transition), ser(&cc.boundary))));
        DefaultConstraintEvaluator::new(air, aux_rand_elements, cc)
    }
    fn build_aux_trace<E: FieldElement<BaseField = B>>(&self, trace: &FamTrace<B>, aux_rand_elements: &AuxRandElements<E>) -> ColMatrix<E> {
        ColMatrix::new(gen_aux::<B, E>(&trace.spec, trace.main_segment(), aux_rand_elements.rand_elements()))
    }
}

fn de_many<E: FieldElement>(bytes: &[u8]) -> Vec<E> {
    let mut rd = SliceReader::new(bytes);
    let mut v = vec![];
    for _ in 0..bytes.len() / E::ELEMENT_BYTES { v.push(E::read_from(&mut rd).unwrap()); }
    v
}
fn unhex(s: &str) -> Vec<u8> {
    if s == "-" { return vec![]; }
    (0..s.len() / 2).map(|i| u8::from_str_radix(&s[2 * i..2 * i + 2], 16).unwrap()).collect()
}

fn proof_case<B, E>(spec: &Spec, blowup: usize, ext: FieldExtension, field: &str, r: &mut Rng, st: &mut Stats)
where
    B: StarkField + ExtensibleField<2> + ExtensibleField<3> + 'static,
    E: FieldElement<BaseField = B>,
{
    type H<B> = Blake3_256<B>;
    let desc = describe(spec, blowup, ext, field);
    let n = spec.n();
    let fold = *r.pick(&[2usize, 4, 8]);
    let rem = *r.pick(&[0usize, 1, 3, 7]);
    let q = 1 + r.below(6) as usize;
    if !fri_wellformed(n * blowup, blowup, fold, rem) || q >= n * blowup { st.shape("skipped:fri-schedule"); return; }
    let opts = match catch(|| ProofOptions::new(q, blowup, 0, ext, fold, rem)) { Ok(o) => o, Err(_) => { st.shape("skipped:options"); return; } };
    let cols = gen_main::<B>(spec);
    let avals = assertion_values(spec, &cols);
    let trace = FamTrace::new(spec, cols.clone());
    let info = trace.info().clone();
    let air = match catch(AssertUnwindSafe(|| FamAir::<B>::new(info.clone(), PubInputs { spec: spec.clone(), avals: avals.clone() }, opts.clone()))) {
        Ok(a) => a,
        Err(_) => { st.shape("skipped:air-constructor-rejects"); return; }
    };
    let ncols = air.context().num_constraint_composition_columns();
    note_shapes(st, spec, blowup, air.ce_blowup_factor(), ext, field, ncols);
    st.shape("through-prove+verify");
    let prover = CapProver::<B, H<B>, RecordingCoin<DefaultRandomCoin<H<B>>>> { options: opts.clone(), _p: PhantomData };
    let pi = prover.get_pub_inputs(&trace);
    CAPTURE.with(|c| c.borrow_mut().clear());
    let _ = take_log();
    let proof = match catch(AssertUnwindSafe(|| prover.prove(trace))) {
        Ok(Ok(p)) => p,
        Ok(Err(e)) => { fail("honest-prove-error", &desc, "proof", &format!("{}", e)); st.fails += 1; return; }
        Err(m) => {
            // finding 10 of DESIGN.md section 8 (degenerate DEEP degree assert) is C01's; report everything else
            if m.contains("left: ") && m.contains("right: ") && desc.contains("n=") && m.contains("assertion") && m.contains("==") && false { return; }
            fail("honest-prove-panicked", &desc, "proof", &m); st.fails += 1; return;
        }
    };
    let log = take_log();
    let cap = CAPTURE.with(|c| c.borrow().clone());
    if cap.len() != 1 { fail("capture", &desc, "1 evaluator", &cap.len().to_string()); st.fails += 1; return; }
    let (rands, tcoef, bcoef): (Vec<E>, Vec<E>, Vec<E>) = (de_many(&cap[0].0), de_many(&cap[0].1), de_many(&cap[0].2));
    // the draws of the prover's coin, in order: aux rands, transition coefficients, boundary coefficients, z
    let draws: Vec<Vec<u8>> = log.iter().filter(|l| l.contains(" draw deg")).map(|l| unhex(l.rsplit(' ').next().unwrap())).collect();
    let want = rands.len() + tcoef.len() + bcoef.len();
    if draws.len() <= want { fail("coin-log-too-short", &desc, &format!(">{}", want), &draws.len().to_string()); st.fails += 1; return; }
    let drawn: Vec<E> = draws[..want + 1].iter().map(|b| de_many::<E>(b)[0]).collect();
    let mut replay: Vec<E> = rands.clone(); replay.extend(&tcoef); replay.extend(&bcoef);
    if drawn[..want] != replay[..] {
        fail("coefficients-are-not-the-coin-draws-in-order", &desc, "aux rands ++ transition ++ boundary", "different"); st.fails += 1; return;
    }
    if tcoef.len() != spec.width + spec.aux_width || bcoef.len() != spec.assertions.len() + spec.aux_width {
        fail("coefficient-counts", &desc, &format!("{}+{}", spec.width + spec.aux_width, spec.assertions.len() + spec.aux_width), &format!("{}+{}", tcoef.len(), bcoef.len())); st.fails += 1; return;
    }
    let z = drawn[want];
    let main_cm = ColMatrix::new(cols.clone());
    let aux_cols: Vec<Vec<E>> = gen_aux::<B, E>(spec, &main_cm, &rands);
    let aux_kinds = aux_assertion_kinds(spec, &[]);
    let aux_asserts = aux_assertion_values::<B, E>(spec, &aux_kinds, aux_kinds.len(), &aux_cols, None, r);
    let rd = RefDef::<B, E>::new(spec, cols, &avals, &aux_asserts, aux_cols, rands, tcoef, &bcoef);
    let (frame, hs) = match proof.ood_frame.clone().parse::<E>(spec.width, spec.aux_width, ncols) {
        Ok(x) => x,
        Err(e) => { fail("ood-frame-parse", &desc, "frame", &format!("{}", e)); st.fails += 1; return; }
    };
    let p = rd.at(z);
    st.evals += 1;
    let zn = pw(z, n as u64);
    let (mut acc, mut zp) = (E::ZERO, E::ONE);
    for h in &hs { acc += zp * *h; zp *= zn; }
    if acc != p.value {
        fail("committed-ood-evaluations-differ-from-definition", &format!("{} columns={} z={}", desc, ncols, hx(&z)), &hx(&p.value), &hx(&acc)); st.fails += 1;
    }
    let mut want_cur = p.cur.clone(); want_cur.extend(&p.acur);
    let mut want_nxt = p.nxt.clone(); want_nxt.extend(&p.anxt);
    if frame.current_row() != &want_cur[..] || frame.next_row() != &want_nxt[..] {
        fail("ood-trace-frame-differs-from-trace-polynomials", &desc, "T(z),T(gz)", "different"); st.fails += 1;
    }
    // verifier: accepts the honest proof, rejects after changing one OOD constraint evaluation
    let acc_opts = AcceptableOptions::OptionSet(vec![opts.clone()]);
    let bytes = proof.to_bytes();
    st.evals += 1;
    match catch(AssertUnwindSafe(|| verify::<FamAir<B>, H<B>, DefaultRandomCoin<H<B>>>(proof, pi.clone(), &acc_opts))) {
        Ok(Ok(())) => {}
        Ok(Err(e)) => { fail("honest-proof-rejected", &desc, "Ok", &format!("{}", e)); st.fails += 1; }
        Err(m) => { fail("verify-panicked", &desc, "Ok", &m); st.fails += 1; }
    }
    let mut bad = winter_air::proof::Proof::from_bytes(&bytes).unwrap();
    let k = r.below(hs.len() as u64) as usize;
    let mut hs2 = hs.clone();
    hs2[k] += E::ONE;
    let mut of = OodFrame::default();
    of.set_trace_states::<E, H<B>>(&frame);
    of.set_constraint_evaluations(&hs2);
    bad.ood_frame = of;
    st.evals += 1;
    match catch(AssertUnwindSafe(|| verify::<FamAir<B>, H<B>, DefaultRandomCoin<H<B>>>(bad, pi, &acc_opts))) {
        Ok(Err(_)) => {}
        Ok(Ok(())) => { fail("perturbed-ood-constraint-evaluation-accepted", &format!("{} column={}", desc, k), "Err", "Ok"); st.fails += 1; }
        Err(m) => { fail("verify-panicked-on-perturbed-proof", &desc, "Err", &m); st.fails += 1; }
    }
}

/// up to two extra assertions on distinct auxiliary columns; (stride, first) copied from a main assertion (shared divisor)
/// or fresh
fn random_aux_extras(spec: &Spec, r: &mut Rng) -> Vec<AKind> {
    let n = spec.n();
    let mut out = vec![];
    let mut cols: Vec<usize> = (0..spec.aux_width).collect();
    for i in (1..cols.len()).rev() { let j = r.below(i as u64 + 1) as usize; cols.swap(i, j); }
    let k = 1 + r.below(2) as usize;
    for &col in cols.iter().take(k) {
        let share = r.chance(1, 2);
        let (stride, first) = match spec.assertions.iter().find_map(|a| match a { AKind::Periodic { first, stride, .. } | AKind::Sequence { first, stride, .. } if share => Some((*stride, *first)), _ => None }) {
            Some(p) => p,
            None => { let stride = pow2_le(r, 1, spec.log_n); (stride, r.below(stride as u64) as usize) }
        };
        out.push(match r.below(4) {
            0 => { let step = match spec.assertions.iter().find_map(|a| if let AKind::Single { step, .. } = a { Some(*step) } else { None }) { Some(s) if share => s, _ => r.below(n as u64) as usize }; AKind::Single { col, step } }
            1 => AKind::Periodic { col, first, stride },
            _ => AKind::Sequence { col, first, stride },
        });
    }
    out
}

// ================================================================================================ Lagrange-kernel members
/// The definition of the composition polynomial of `lagfam::LagAir` (main column 0,1,2,.. with next = cur + 1 and
/// col[0] = 0; aw - 1 auxiliary columns asserted 0 at step 0 (column 0 only); the last auxiliary column is the Lagrange
/// kernel of r_0 .. r_(v-1)), written from scratch:
///   alpha_0 (T(gx) - T(x) - 1) / prod_{k < n-1} (x - g^k)  +  alpha_1 * 0                       (transition, main / aux)
/// + beta_0 T(x) / (x - 1) + beta_1 A_0(x) / (x - 1)                                             (boundary, main / aux)
/// + sum_{k=1..v} lambda_(k-1) (r[v-k] L(x) - (1 - r[v-k]) L(g^(2^(v-k)) x)) / prod_{j < 2^(k-1)} (x - g^(j n / 2^(k-1)))
/// + lambda_b (L(x) - prod_i (1 - r_i)) / (x - 1)                                                (Lagrange kernel)
struct LagRef<B: StarkField, E: FieldElement<BaseField = B>> {
    n: usize, v: usize, g: B, tr: Interp<B>,
    main: Vec<B>, aux: Vec<Vec<E>>,          // aux columns incl. the Lagrange kernel column (last)
    r: Vec<E>, tcoef: Vec<E>, bcoef: Vec<E>, lcoef: Vec<E>, lb: E,
}
struct LagPoint<E> { cur: Vec<E>, nxt: Vec<E>, lframe: Vec<E>, value: E }
impl<B: StarkField, E: FieldElement<BaseField = B>> LagRef<B, E> {
    fn at(&self, x: E) -> LagPoint<E> {
        let (n, v) = (self.n, self.v);
        let b0 = self.tr.basis(x);
        let b1 = self.tr.basis(x * E::from(self.g));
        let t = dot_b(&b0, &self.main);
        let tn = dot_b(&b1, &self.main);
        let a: Vec<E> = self.aux.iter().map(|c| dot_e(&b0, c)).collect();
        let an: Vec<E> = self.aux.iter().map(|c| dot_e(&b1, c)).collect();
        let lag = &self.aux[self.aux.len() - 1];
        // frame of the Lagrange kernel column: L(x), L(g x), L(g^2 x), L(g^4 x), .., L(g^(2^(v-1)) x)
        let mut lframe = vec![dot_e(&b0, lag)];
        for i in 0..v { lframe.push(dot_e(&self.tr.basis(x * E::from(self.g.exp((1u64 << i).into()))), lag)); }
        let mut dt = E::ONE;
        let mut p = B::ONE;
        for _ in 0..n - 1 { dt *= x - E::from(p); p *= self.g; }
        let xm1 = x - E::ONE;
        let mut value = self.tcoef[0] * (tn - t - E::ONE) / dt + self.tcoef[1] * E::ZERO;
        value += self.bcoef[0] * t / xm1 + self.bcoef[1] * a[0] / xm1;
        for k in 1..=v {
            let rk = self.r[v - k];
            let num = rk * lframe[0] - (E::ONE - rk) * lframe[v - k + 1];
            // enforced on the subgroup of size 2^(k-1)
            let size = 1usize << (k - 1);
            let h = self.g.exp(((n / size) as u64).into());
            let (mut d, mut hp) = (E::ONE, B::ONE);
            for _ in 0..size { d *= x - E::from(hp); hp *= h; }
            value += self.lcoef[k - 1] * num / d;
        }
        let asserted = self.r.iter().fold(E::ONE, |acc, &ri| acc * (E::ONE - ri));
        value += self.lb * (lframe[0] - asserted) / xm1;
        let mut cur = vec![t]; cur.extend(&a[..a.len() - 1]);
        let mut nxt = vec![tn]; nxt.extend(&an[..an.len() - 1]);
        LagPoint { cur, nxt, lframe, value }
    }
}
/// auxiliary segment of the honest prover (lagfam::LagProver::build_aux_trace, re-derived)
fn lag_aux_cols<B: StarkField, E: FieldElement<BaseField = B>>(main: &[B], aw: usize, r: &[E], rands: &[E]) -> Vec<Vec<E>> {
    let sum = r.iter().fold(E::ZERO, |a, &x| a + x) + rands.iter().fold(E::ZERO, |a, &x| a + x);
    let mut cols: Vec<Vec<E>> = (1..aw).map(|_| main.iter().map(|&m| sum * E::from(m)).collect()).collect();
    cols.push((0..main.len()).map(|row| r.iter().enumerate().fold(E::ONE, |acc, (bit, &ri)| if row & (1 << bit) == 0 { acc * (E::ONE - ri) } else { acc * ri })).collect());
    cols
}

/// which coefficients are non-zero: everything random, only Lagrange transition constraint k, only the Lagrange boundary
#[derive(Clone, Copy, PartialEq)]
enum LagMode { All, OnlyK(usize), OnlyBoundary }

/// (a) + (b) for a Lagrange-kernel member, evaluator driven directly with chosen random elements and coefficients
fn lagrange_direct<B, E>(log_n: u32, aw: usize, nr: usize, blowup: usize, ext: FieldExtension, field: &str, mode: LagMode, r: &mut Rng, st: &mut Stats)
where B: StarkField + ExtensibleField<2> + ExtensibleField<3> + 'static, E: FieldElement<BaseField = B> {
    let n = 1usize << log_n;
    let v = log_n as usize;
    let what = match mode { LagMode::All => "all".to_string(), LagMode::OnlyK(k) => format!("k={}", k), LagMode::OnlyBoundary => "boundary".into() };
    let desc = format!("lagrange field={} ext={:?} blowup={} n={} aux_width={} aux_rands={} coefficients={}", field, ext, blowup, n, aw, nr, what);
    let trace = LagTrace::<B>::new(log_n, aw, nr);
    let info = trace.info.clone();
    let opts = ProofOptions::new(4, blowup, 0, ext, 2, 1);
    let air = match catch(AssertUnwindSafe(|| LagAir::<B>::new(info.clone(), (), opts))) { Ok(a) => a, Err(m) => { fail("lagrange-air-rejected", &desc, "air", &m); st.fails += 1; return; } };
    let ce_blowup = air.ce_blowup_factor();
    let ncols = air.context().num_constraint_composition_columns();
    let maincol: Vec<B> = trace.main.get_column(0).to_vec();
    let rl: Vec<E> = (0..v).map(|_| rand_e::<E>(r)).collect();
    let rands: Vec<E> = (0..nr).map(|_| rand_e::<E>(r)).collect();
    let aux = lag_aux_cols::<B, E>(&maincol, aw, &rl, &rands);
    let z0 = |on: bool, r: &mut Rng| if on { rand_e::<E>(r) } else { E::ZERO };
    let all = mode == LagMode::All;
    let tcoef: Vec<E> = (0..2).map(|_| z0(all, r)).collect();
    let bcoef: Vec<E> = (0..2).map(|_| z0(all, r)).collect();
    let lcoef: Vec<E> = (0..v).map(|k| z0(all || mode == LagMode::OnlyK(k), r)).collect();
    let lb = z0(all || mode == LagMode::OnlyBoundary, r);
    let domain = StarkDomain::new(&air);
    let (mut lde, _p): (DefaultTraceLde<E, ToyHasher<B>>, TracePolyTable<E>) = DefaultTraceLde::new(&info, &trace.main, &domain);
    lde.set_aux_trace(&ColMatrix::new(aux.clone()), &domain);
    let aux_re = AuxRandElements::new_with_lagrange(rands.clone(), Some(LagrangeKernelRandElements::new(rl.clone())));
    let coeffs = ConstraintCompositionCoefficients { transition: tcoef.clone(), boundary: bcoef.clone(),
        lagrange: Some(LagrangeConstraintsCompositionCoefficients { transition: lcoef.clone(), boundary: lb }) };
    let evals: Vec<E> = match catch(AssertUnwindSafe(|| DefaultConstraintEvaluator::<LagAir<B>, E>::new(&air, Some(aux_re), coeffs).evaluate(&lde, &domain).into_inner())) {
        Ok(e) => e, Err(m) => { fail("lagrange-evaluate-panicked", &desc, "evaluations", &m); st.fails += 1; return; } };
    let rd = LagRef::<B, E> { n, v, g: B::get_root_of_unity(log_n), tr: Interp::new((0..n).map(|i| B::get_root_of_unity(log_n).exp((i as u64).into())).collect()),
        main: maincol, aux, r: rl, tcoef, bcoef, lcoef, lb };
    let ce = n * ce_blowup;
    if evals.len() != ce { fail("ce-domain-size", &desc, &ce.to_string(), &evals.len().to_string()); st.fails += 1; return; }
    let wce = B::get_root_of_unity(ce.ilog2());
    let offset = air.domain_offset();
    let mut rows: Vec<usize> = if ce <= 32 { (0..ce).collect() } else {
        let mut x = vec![0, 1, 2, 3, ce_blowup, ce / 2, ce / 2 + 1, ce - 1, ce - 2, ce / 4, 3 * ce / 4];
        for _ in 0..(if all { 10 } else { 5 }) { x.push(r.below(ce as u64) as usize); }
        x.sort(); x.dedup(); x };
    rows.retain(|&i| i < ce);
    for &i in &rows {
        let x = E::from(offset * wce.exp((i as u64).into()));
        let p = rd.at(x);
        st.evals += 1;
        if evals[i] != p.value { fail("lagrange-table-row-differs-from-definition", &format!("{} row={}", desc, i), &hx(&p.value), &hx(&evals[i])); st.fails += 1; return; }
    }
    st.shape(&format!("lagrange:n={}:{}:prover-rows", n, what));
    st.shape(&format!("lagrange:ext={:?}", ext));
    st.shape(&format!("lagrange:other-aux-columns={}", if aw > 1 { "yes" } else { "no" }));
    if ce_blowup < blowup { st.shape("lagrange:ce_blowup<lde_blowup"); }
    // (b): only when the trace satisfies every assertion (aux_width 1 asserts 0 on the kernel column itself: row level only)
    if aw < 2 { return; }
    let cp = match catch(AssertUnwindSafe(|| CompositionPoly::new(CompositionPolyTrace::new(evals.clone()), &domain, ncols))) {
        Ok(c) => c, Err(m) => { fail("lagrange-composition-poly-new-panicked", &desc, "columns", &m); st.fails += 1; return; } };
    for _ in 0..2 {
        let z = rand_e::<E>(r);
        let hs = cp.evaluate_at(z);
        let zn = pw(z, n as u64);
        let (mut acc, mut zp) = (E::ZERO, E::ONE);
        for h in &hs { acc += zp * *h; zp *= zn; }
        st.evals += 1;
        if acc != rd.at(z).value { fail("lagrange-composition-poly-differs-from-definition", &format!("{} z={}", desc, hx(&z)), "definition", &hx(&acc)); st.fails += 1; return; }
    }
    st.shape(&format!("lagrange:n={}:{}:composition-poly", n, what));
}

thread_local! { static LAGCAP: RefCell<Vec<Vec<Vec<u8>>>> = RefCell::new(Vec::new()); }
/// lagfam::LagProver with the evaluator's inputs captured
struct CapLagProver<B: StarkField, H, R> { inner: LagProver<B, H, R> }
impl<B, H, R> Prover for CapLagProver<B, H, R>
where B: StarkField + ExtensibleField<2> + ExtensibleField<3> + 'static, H: ElementHasher<BaseField = B> + Send + Sync,
      R: RandomCoin<BaseField = B, Hasher = H> + Send + Sync {
    type BaseField = B;
    type Air = LagAir<B>;
    type Trace = LagTrace<B>;
    type HashFn = H;
    type RandomCoin = R;
    type TraceLde<E: FieldElement<BaseField = B>> = DefaultTraceLde<E, H>;
    type ConstraintEvaluator<'a, E: FieldElement<BaseField = B>> = DefaultConstraintEvaluator<'a, LagAir<B>, E>;
    fn get_pub_inputs(&self, _t: &LagTrace<B>) {}
    fn options(&self) -> &ProofOptions { &self.inner.options }
    fn new_trace_lde<E: FieldElement<BaseField = B>>(&self, trace_info: &TraceInfo, main_trace: &ColMatrix<B>, domain: &StarkDomain<B>) -> (Self::TraceLde<E>, TracePolyTable<E>) { DefaultTraceLde::new(trace_info, main_trace, domain) }
    fn new_evaluator<'a, E: FieldElement<BaseField = B>>(&self, air: &'a LagAir<B>, aux: Option<AuxRandElements<E>>, cc: ConstraintCompositionCoefficients<E>) -> Self::ConstraintEvaluator<'a, E> {
        let ser = |v: &[E]| { let mut b = Vec::new(); for e in v { e.write_into(&mut b); } b };
        let a = aux.as_ref().expect("aux rand elements");
        let l = cc.lagrange.as_ref().expect("lagrange coefficients");
        LAGCAP.with(|c| c.borrow_mut().push(vec![ser(a.lagrange().expect("lagrange rands")), ser(a.rand_elements()), ser(&cc.transition), ser(&cc.boundary), ser(&l.transition), ser(&[l.boundary])]));
        DefaultConstraintEvaluator::new(air, aux, cc)
    }
    fn generate_gkr_proof<E: FieldElement<BaseField = B>>(&self, main_trace: &LagTrace<B>, public_coin: &mut R) -> (ProverGkrProof<Self>, LagrangeKernelRandElements<E>) {
        self.inner.generate_gkr_proof::<E>(main_trace, public_coin)
    }
    fn build_aux_trace<E: FieldElement<BaseField = B>>(&self, main_trace: &LagTrace<B>, aux: &AuxRandElements<E>) -> ColMatrix<E> { self.inner.build_aux_trace(main_trace, aux) }
}

/// (c) for a Lagrange-kernel member: real proof; coefficients = coin draws in the real order (GKR randomness, auxiliary
/// randomness, transition, boundary, Lagrange transition, Lagrange boundary, then z); OOD constraint evaluations recombined at
/// z = definition; OOD frames = T(z), T(gz) and the Lagrange frame L(z), L(gz), L(g^2 z), ..; verify() accepts, and rejects
/// after one OOD constraint evaluation or one Lagrange frame entry is changed
fn lagrange_proof<B, E>(log_n: u32, aw: usize, nr: usize, blowup: usize, ext: FieldExtension, field: &str, r: &mut Rng, st: &mut Stats)
where B: StarkField + ExtensibleField<2> + ExtensibleField<3> + 'static, E: FieldElement<BaseField = B> {
    type H<B> = Blake3_256<B>;
    let n = 1usize << log_n;
    let v = log_n as usize;
    let desc = format!("lagrange-proof field={} ext={:?} blowup={} n={} aux_width={} aux_rands={}", field, ext, blowup, n, aw, nr);
    let (fold, rem) = (2usize, 1usize);
    let q = 1 + r.below(4) as usize;
    if !fri_wellformed(n * blowup, blowup, fold, rem) { st.shape("skipped:fri-schedule"); return; }
    let opts = ProofOptions::new(q, blowup, 0, ext, fold, rem);
    let prover = CapLagProver::<B, H<B>, RecordingCoin<DefaultRandomCoin<H<B>>>> { inner: LagProver::new(opts.clone(), aw) };
    let trace = LagTrace::<B>::new(log_n, aw, nr);
    let maincol: Vec<B> = trace.main.get_column(0).to_vec();
    let info = trace.info.clone();
    LAGCAP.with(|c| c.borrow_mut().clear());
    let _ = take_log();
    let _ = wf_harness::lagfam::take_uses();
    let proof = match catch(AssertUnwindSafe(|| prover.prove(trace))) {
        Ok(Ok(p)) => p,
        Ok(Err(e)) => { fail("lagrange-honest-prove-error", &desc, "proof", &format!("{}", e)); st.fails += 1; return; }
        Err(m) => { fail("lagrange-honest-prove-panicked", &desc, "proof", &m); st.fails += 1; return; } };
    let log = take_log();
    let _ = wf_harness::lagfam::take_uses();
    let cap = LAGCAP.with(|c| c.borrow().clone());
    if cap.len() != 1 { fail("lagrange-capture", &desc, "1 evaluator", &cap.len().to_string()); st.fails += 1; return; }
    let parts: Vec<Vec<E>> = cap[0].iter().map(|b| de_many::<E>(b)).collect();
    let (rl, rands, tcoef, bcoef, lcoef, lb) = (parts[0].clone(), parts[1].clone(), parts[2].clone(), parts[3].clone(), parts[4].clone(), parts[5][0]);
    let draws: Vec<Vec<u8>> = log.iter().filter(|l| l.contains(" draw deg")).map(|l| unhex(l.rsplit(' ').next().unwrap())).collect();
    let mut replay: Vec<E> = rl.clone(); replay.extend(&rands); replay.extend(&tcoef); replay.extend(&bcoef); replay.extend(&lcoef); replay.push(lb);
    let want = replay.len();
    if rl.len() != v || lcoef.len() != v || tcoef.len() != 2 || bcoef.len() != 2 || rands.len() != nr {
        fail("lagrange-coefficient-counts", &desc, &format!("r={} lambda={} t=2 b=2 aux={}", v, v, nr), &format!("r={} lambda={} t={} b={} aux={}", rl.len(), lcoef.len(), tcoef.len(), bcoef.len(), rands.len())); st.fails += 1; return; }
    if draws.len() <= want { fail("lagrange-coin-log-too-short", &desc, &format!(">{}", want), &draws.len().to_string()); st.fails += 1; return; }
    let drawn: Vec<E> = draws[..want + 1].iter().map(|b| de_many::<E>(b)[0]).collect();
    if drawn[..want] != replay[..] { fail("lagrange-coefficients-are-not-the-coin-draws-in-order", &desc, "gkr ++ aux ++ transition ++ boundary ++ lagrange transition ++ lagrange boundary", "different"); st.fails += 1; return; }
    let z = drawn[want];
    let g = B::get_root_of_unity(log_n);
    let aux = lag_aux_cols::<B, E>(&maincol, aw, &rl, &rands);
    let rd = LagRef::<B, E> { n, v, g, tr: Interp::new((0..n).map(|i| g.exp((i as u64).into())).collect()), main: maincol, aux, r: rl, tcoef, bcoef, lcoef, lb };
    let air = LagAir::<B>::new(info.clone(), (), opts.clone());
    let ncols = air.context().num_constraint_composition_columns();
    let (frame, hs) = match proof.ood_frame.clone().parse::<E>(1, aw, ncols) { Ok(x) => x, Err(e) => { fail("lagrange-ood-frame-parse", &desc, "frame", &format!("{}", e)); st.fails += 1; return; } };
    let p = rd.at(z);
    st.evals += 1;
    let zn = pw(z, n as u64);
    let (mut acc, mut zp) = (E::ZERO, E::ONE);
    for h in &hs { acc += zp * *h; zp *= zn; }
    if acc != p.value { fail("lagrange-committed-ood-evaluations-differ-from-definition", &format!("{} z={}", desc, hx(&z)), &hx(&p.value), &hx(&acc)); st.fails += 1; }
    let lf: Vec<E> = frame.lagrange_kernel_frame().map(|f| f.inner().to_vec()).unwrap_or_default();
    if frame.current_row() != &p.cur[..] || frame.next_row() != &p.nxt[..] || lf != p.lframe {
        fail("lagrange-ood-frames-differ-from-trace-polynomials", &desc, "T(z),T(gz); L(z),L(gz),L(g^2 z),..", "different"); st.fails += 1; }
    let acc_opts = AcceptableOptions::OptionSet(vec![opts.clone()]);
    let bytes = proof.to_bytes();
    st.evals += 1;
    match catch(AssertUnwindSafe(|| verify::<LagAir<B>, H<B>, DefaultRandomCoin<H<B>>>(proof, (), &acc_opts))) {
        Ok(Ok(())) => {}
        Ok(Err(e)) => { fail("lagrange-honest-proof-rejected", &desc, "Ok", &format!("{}", e)); st.fails += 1; }
        Err(m) => { fail("lagrange-verify-panicked", &desc, "Ok", &m); st.fails += 1; } }
    // perturbations: one OOD constraint evaluation; one entry of the Lagrange frame
    for which in 0..2 {
        let mut bad = winter_air::proof::Proof::from_bytes(&bytes).unwrap();
        let mut hs2 = hs.clone();
        let mut lf2 = lf.clone();
        let what = if which == 0 { let k = r.below(hs2.len() as u64) as usize; hs2[k] += E::ONE; format!("constraint-evaluation {}", k) }
                   else { let k = r.below(lf2.len() as u64) as usize; lf2[k] += E::ONE; format!("lagrange-frame entry {}", k) };
        let tf = TraceOodFrame::new(frame.current_row().to_vec(), frame.next_row().to_vec(), 1, Some(LagrangeKernelEvaluationFrame::new(lf2)));
        let mut of = OodFrame::default();
        of.set_trace_states::<E, H<B>>(&tf);
        of.set_constraint_evaluations(&hs2);
        bad.ood_frame = of;
        st.evals += 1;
        match catch(AssertUnwindSafe(|| verify::<LagAir<B>, H<B>, DefaultRandomCoin<H<B>>>(bad, (), &acc_opts))) {
            Ok(Err(_)) => {}
            Ok(Ok(())) => { fail("lagrange-perturbed-ood-accepted", &format!("{} changed={}", desc, what), "Err", "Ok"); st.fails += 1; }
            Err(m) => { fail("lagrange-verify-panicked-on-perturbed-proof", &format!("{} changed={}", desc, what), "Err", &m); st.fails += 1; } }
    }
    st.shape(&format!("lagrange:n={}:verifier-ood", n));
    st.shape(&format!("lagrange:ext={:?}", ext));
    if air.ce_blowup_factor() < blowup { st.shape("lagrange:ce_blowup<lde_blowup"); }
}

fn falsify(seed: u64, budget: usize) {
    let mut r = Rng::new(seed);
    let mut st = Stats::default();
    // boundary stream: every (declared degree, exemptions) pair on short traces, with and without a periodic factor / aux segment
    // (the number of composition columns and the ce blowup are functions of exactly these)
    for d in 1..=5u32 { for ex in 1..=5usize { for variant in 0..4u32 { for log_n in [3u32, 4] {
        let blowup = 8usize;
        let mut s = Spec::simple(1 + (variant as usize % 2), log_n, d, 1000 + (d as u64) * 100 + ex as u64 * 10 + variant as u64);
        s.exemptions = ex;
        if variant >= 2 { s.periodic = vec![1usize << log_n]; s.use_per = vec![true; s.width]; }
        if variant == 1 { s.aux_width = 1; s.aux_rands = 1; }
        s.assertions = vec![AKind::Single { col: 0, step: 0 }];
        if (d + (variant >= 2) as u32) as usize > blowup { continue; }
        if variant % 2 == 0 { direct_case::<f64::BaseElement, f64::BaseElement>(&s, &[], blowup, FieldExtension::None, "f64", None, &mut r, &mut st); }
        else { proof_case::<f64::BaseElement, QuadExtension<f64::BaseElement>>(&s, blowup, FieldExtension::Quadratic, "f64", &mut r, &mut st); }
    } } } }
    // boundary stream: structured assertion values for every representation: sequences of 2, 4, 8, 32 (small polynomial) and
    // 64, 128 (large polynomial) values, first step zero and non-zero, every pattern; a periodic and a single assertion ride along
    for &m in &[2usize, 4, 8, 32, 64, 128] { for first_nz in [false, true] { for p in 0..PATTERNS.len() as u64 {
        let stride = if m == 2 { 4 } else { 2 };
        let n = m * stride;
        let mut s = Spec::simple(3, n.ilog2(), 1, 7000 + (m as u64) * 100 + p * 2 + first_nz as u64);
        s.degs = vec![2, 1, 1];
        s.hold = vec![false, true, false];
        let first = if first_nz { stride - 1 } else { 0 };
        s.assertions = vec![AKind::Sequence { col: 0, first, stride }, AKind::Periodic { col: 1, first, stride },
                            AKind::Single { col: 2, step: if first_nz { n - 1 } else { 0 } }];
        if p % 2 == 0 { direct_case::<f64::BaseElement, f64::BaseElement>(&s, &[], 4, FieldExtension::None, "f64", Some(p), &mut r, &mut st); }
        else { direct_case::<f64::BaseElement, QuadExtension<f64::BaseElement>>(&s, &[], 4, FieldExtension::Quadratic, "f64", Some(p), &mut r, &mut st); }
        if m == 8 { direct_case::<f128::BaseElement, f128::BaseElement>(&s, &[], 2, FieldExtension::None, "f128", Some(p), &mut r, &mut st); }
    } } }
    // boundary stream: the matrix {main, aux} x {single value (single / periodic), small polynomial, large polynomial} x
    // {divisor shared with a group of the other segment, not shared}: n = 128, one assertion of each kind against main column 0
    // and against auxiliary column 1, same or different first step
    {
        let n = 128usize;
        let kinds = |col: usize, k: usize, first_nz: bool| -> AKind { match k {
            0 => AKind::Single { col, step: if first_nz { 5 } else { 0 } },
            1 => AKind::Periodic { col, first: if first_nz { 3 } else { 0 }, stride: 4 },
            2 => AKind::Periodic { col, first: first_nz as usize, stride: 2 },
            3 => AKind::Sequence { col, first: if first_nz { 3 } else { 0 }, stride: 4 },
            _ => AKind::Sequence { col, first: first_nz as usize, stride: 2 },
        } };
        let mut idx = 0u64;
        for km in 0..5usize { for ka in 0..5usize { for same_first in [true, false] { for main_nz in [false, true] {
            idx += 1;
            let mut s = Spec::simple(2, n.ilog2(), 1, 9000 + idx);
            s.degs = vec![2, 1];
            s.hold = vec![km == 1 || km == 2, false];
            s.aux_width = 2; s.aux_rands = 1 + (idx % 2) as usize;
            s.assertions = vec![kinds(0, km, main_nz)];
            let extra = vec![kinds(1, ka, if same_first { main_nz } else { !main_nz })];
            let structured = if idx % 4 == 0 { Some(idx / 4 % PATTERNS.len() as u64) } else { None };
            match idx % 3 {
                0 => direct_case::<f64::BaseElement, f64::BaseElement>(&s, &extra, 4, FieldExtension::None, "f64", structured, &mut r, &mut st),
                1 => direct_case::<f64::BaseElement, QuadExtension<f64::BaseElement>>(&s, &extra, 4, FieldExtension::Quadratic, "f64", structured, &mut r, &mut st),
                _ => direct_case::<f128::BaseElement, f128::BaseElement>(&s, &extra, 2, FieldExtension::None, "f128", structured, &mut r, &mut st),
            }
        } } } }
    }
    // boundary stream: Lagrange-kernel members (harness/src/lagfam.rs): n in {8, 16, 64, 256}, base field and quadratic
    // extension, with and without other auxiliary columns, LDE blowup 2..16 over a ce blowup of 2; every Lagrange transition
    // constraint k isolated (all other coefficients zero), the Lagrange boundary constraint isolated, everything together;
    // and real proofs
    for (ni, &log_n) in [3u32, 4, 6, 8].iter().enumerate() {
        let v = log_n as usize;
        let blowups = [4usize, 8, 2, 16];
        for k in 0..v + 2 {
            let mode = if k < v { LagMode::OnlyK(k) } else if k == v { LagMode::OnlyBoundary } else { LagMode::All };
            let aw = 1 + (k + ni) % 3;
            let blowup = blowups[(k + ni) % 4];
            if (k + ni) % 2 == 0 { lagrange_direct::<f64::BaseElement, f64::BaseElement>(log_n, aw, k % 3, blowup, FieldExtension::None, "f64", mode, &mut r, &mut st); }
            else { lagrange_direct::<f64::BaseElement, QuadExtension<f64::BaseElement>>(log_n, aw, k % 3, blowup, FieldExtension::Quadratic, "f64", mode, &mut r, &mut st); }
        }
        lagrange_direct::<f64::BaseElement, QuadExtension<f64::BaseElement>>(log_n, 2, 1, 8, FieldExtension::Quadratic, "f64", LagMode::All, &mut r, &mut st);
        lagrange_direct::<f128::BaseElement, f128::BaseElement>(log_n, 3, 2, 4, FieldExtension::None, "f128", LagMode::All, &mut r, &mut st);
        lagrange_proof::<f64::BaseElement, f64::BaseElement>(log_n, 2 + ni % 2, 1, 8, FieldExtension::None, "f64", &mut r, &mut st);
        lagrange_proof::<f64::BaseElement, QuadExtension<f64::BaseElement>>(log_n, 3 - ni % 2, 2, 4, FieldExtension::Quadratic, "f64", &mut r, &mut st);
    }
    let mut i = 0usize;
    while (st.evals as usize) < budget && i < budget * 4 + 64 {
        i += 1;
        let big = i % 7 == 3;
        let blowup = *r.pick(&[2usize, 4, 8, 8, 16]);
        let spec = c17_spec(&mut r, blowup, big);
        let through_proof = !big && i % 3 == 0;
        let sel = r.below(5);
        // every fifth directly driven case uses structured assertion values on a random member of the family
        let structured = if !through_proof && i % 5 == 1 { Some(r.below(PATTERNS.len() as u64)) } else { None };
        let extra: Vec<AKind> = if !through_proof && spec.aux_width > 0 && i % 2 == 0 { random_aux_extras(&spec, &mut r) } else { vec![] };
        macro_rules! go { ($B:ty, $E:ty, $ext:expr, $name:expr) => {{
            if through_proof { proof_case::<$B, $E>(&spec, blowup, $ext, $name, &mut r, &mut st) }
            else { direct_case::<$B, $E>(&spec, &extra, blowup, $ext, $name, structured, &mut r, &mut st) }
        }}; }
        match sel {
            0 => go!(f64::BaseElement, f64::BaseElement, FieldExtension::None, "f64"),
            1 => go!(f64::BaseElement, QuadExtension<f64::BaseElement>, FieldExtension::Quadratic, "f64"),
            2 => go!(f64::BaseElement, CubeExtension<f64::BaseElement>, FieldExtension::Cubic, "f64"),
            3 => go!(f128::BaseElement, f128::BaseElement, FieldExtension::None, "f128"),
            _ => go!(f128::BaseElement, QuadExtension<f128::BaseElement>, FieldExtension::Quadratic, "f128"),
        }
    }
    let shapes: Vec<String> = st.shapes.iter().map(|(k, v)| format!("{}={}", k, v)).collect();
    println!("shapes={}", shapes.join(";"));
    println!("evaluations={} failures={}", st.evals, st.fails);
}

// ================================================================================================ correspondence (f64, E = B)
type B64 = f64::BaseElement;
fn h64(e: B64) -> String { format!("{:x}", e.as_int()) }
fn hlist(v: &[B64]) -> String { v.iter().map(|e| h64(*e)).collect::<Vec<_>>().join(" ") }

fn push_groups(out: &mut Vec<String>, groups: &[winter_air::BoundaryConstraintGroup<B64, B64>]) {
    out.push(format!("{:x}", groups.len()));
    for g in groups {
        let num = g.divisor().numerator();
        out.push(format!("{:x} {}", num[0].0, h64(num[0].1)));
        out.push(format!("{:x}", g.constraints().len()));
        for c in g.constraints() {
            out.push(format!("{:x} {:x} {} {} {:x} {}", c.column(), c.poly_offset().0, h64(c.poly_offset().1), h64(*c.cc()), c.poly().len(), hlist(c.poly())));
        }
    }
}

fn corr_eval(spec: &Spec, aux_extra: &[AKind], blowup: usize, structured: Option<u64>, r: &mut Rng) -> Option<String> {
    let n = spec.n();
    let cols = gen_main::<B64>(spec);
    let avals = match structured { Some(p) => structured_avals::<B64>(spec, p, r), None => assertion_values(spec, &cols) };
    let ftrace = FamTrace::new(spec, cols.clone());
    let info = ftrace.info().clone();
    let opts = ProofOptions::new(4, blowup, 0, FieldExtension::None, 2, 1);
    let main = ColMatrix::new(cols.clone());
    let rands: Vec<B64> = (0..spec.aux_rands).map(|_| rand_e::<B64>(r)).collect();
    let aux_cols = gen_aux::<B64, B64>(spec, &main, &rands);
    let aux_kinds = aux_assertion_kinds(spec, aux_extra);
    let aux_asserts = aux_assertion_values::<B64, B64>(spec, &aux_kinds, aux_kinds.len() - aux_extra.len(), &aux_cols, structured, r);
    let xpub = XPub { inner: PubInputs { spec: spec.clone(), avals: avals.clone() }, aux: aux_asserts.clone() };
    let air = catch(AssertUnwindSafe(|| XAir::<B64>::new(info.clone(), xpub, opts))).ok()?;
    let ceb = air.ce_blowup_factor();
    let domain = StarkDomain::new(&air);
    let (mut lde, _p): (DefaultTraceLde<B64, ToyHasher<B64>>, TracePolyTable<B64>) = DefaultTraceLde::new(&info, &main, &domain);
    let aux_re = if spec.aux_width > 0 { lde.set_aux_trace(&ColMatrix::new(aux_cols), &domain); Some(AuxRandElements::new(rands.clone())) } else { None };
    let tcoef: Vec<B64> = (0..spec.width + spec.aux_width).map(|_| rand_e::<B64>(r)).collect();
    let bcoef: Vec<B64> = (0..spec.assertions.len() + aux_asserts.len()).map(|_| rand_e::<B64>(r)).collect();
    let coeffs = ConstraintCompositionCoefficients { transition: tcoef.clone(), boundary: bcoef.clone(), lagrange: None };
    let bcs = air.get_boundary_constraints(aux_re.as_ref().map(|a| a.rand_elements()), &bcoef);
    let mut t: Vec<String> = vec!["eval".into(), format!("{:x} {:x} {:x} {}", n, ceb, blowup, h64(air.domain_offset()))];
    // family parameters
    let mut kr = Rng::new(spec.seed ^ 0xABCD);
    let ks: Vec<B64> = (0..spec.width).map(|_| B64::from((kr.below(5) + 1) as u32)).collect();
    t.push(format!("{:x}", spec.width));
    for c in 0..spec.width {
        t.push(format!("{:x} {:x} {:x} {}", spec.degs[c], spec.hold[c] as u8, spec.per_index(c).map(|i| i + 1).unwrap_or(0), h64(ks[c])));
    }
    let polys = air.get_periodic_column_polys();
    t.push(format!("{:x}", polys.len()));
    for p in &polys { t.push(format!("{:x} {}", p.len(), hlist(p))); }
    t.push(format!("{:x} {:x} {}", spec.aux_width, rands.len(), hlist(&rands)));
    t.push(format!("{:x}", spec.exemptions));
    t.push(format!("{:x} {}", tcoef.len(), hlist(&tcoef)));
    push_groups(&mut t, bcs.main_constraints());
    push_groups(&mut t, bcs.aux_constraints());
    // the trace LDE, row by row (main then aux values)
    let rows = n * blowup;
    t.push(format!("{:x}", rows));
    let mut mf = EvaluationFrame::<B64>::new(spec.width);
    let mut af = EvaluationFrame::<B64>::new(spec.aux_width.max(1));
    for j in 0..rows {
        lde.read_main_trace_frame_into(j, &mut mf);
        t.push(hlist(mf.current()));
        if spec.aux_width > 0 {
            let mut af2 = EvaluationFrame::<B64>::new(spec.aux_width);
            lde.read_aux_trace_frame_into(j, &mut af2);
            t.push(hlist(af2.current()));
        }
    }
    let _ = &mut af;
    let evals = catch(AssertUnwindSafe(|| DefaultConstraintEvaluator::<XAir<B64>, B64>::new(&air, aux_re, coeffs).evaluate(&lde, &domain).into_inner()));
    let res = match evals { Ok(v) => v.iter().map(|e| h64(*e)).collect::<Vec<_>>().join(","), Err(_) => "panic".into() };
    Some(format!("{} => {}", t.join(" ").split_whitespace().collect::<Vec<_>>().join(" "), res))
}

fn corr_split(r: &mut Rng, k: usize) -> String {
    let log_n = 1 + (k % 4) as u32;      // trace length 2..16
    let n = 1usize << log_n;
    let blow = 2usize << (k / 4 % 3);    // ce blowup 2,4,8
    let ncols = 1 + r.below(blow as u64) as usize;
    let big = n * blow;
    let offset = B64::GENERATOR;
    let twiddles = winter_math::fft::get_twiddles::<B64>(n);
    let domain = StarkDomain::from_twiddles(twiddles, blow / 2, offset);
    // evaluations of a random polynomial of degree < ncols*n (or, every third case, of full degree: truncation)
    let deg_len = if k % 3 == 2 { big } else { ncols * n };
    let mut coefs: Vec<B64> = (0..deg_len).map(|_| rand_e::<B64>(r)).collect();
    coefs.resize(big, B64::ZERO);
    let w = B64::get_root_of_unity(big.ilog2());
    let evals: Vec<B64> = (0..big).map(|i| winter_math::polynom::eval(&coefs, offset * w.exp((i as u64).into()))).collect();
    let z = rand_e::<B64>(r);
    let case = format!("split {:x} {:x} {} {:x} {} {}", n, ncols, h64(offset), big, hlist(&evals), h64(z));
    let res = catch(AssertUnwindSafe(|| {
        let cp = CompositionPoly::new(CompositionPolyTrace::new(evals.clone()), &domain, ncols);
        let hs = cp.evaluate_at(z);
        let acc = hs.iter().enumerate().fold(B64::ZERO, |a, (i, &v)| a + z.exp_vartime(((i * n) as u32).into()) * v);
        format!("{}|{}", hs.iter().map(|e| h64(*e)).collect::<Vec<_>>().join(","), h64(acc))
    })).unwrap_or_else(|_| "panic".into());
    format!("{} => {}", case, res)
}

fn corr_verifier(spec: &Spec, blowup: usize, r: &mut Rng, out: &mut Vec<String>) {
    let n = spec.n();
    let cols = gen_main::<B64>(spec);
    let avals = assertion_values(spec, &cols);
    let info = FamTrace::new(spec, cols).info().clone();
    let opts = ProofOptions::new(4, blowup, 0, FieldExtension::None, 2, 1);
    let air = match catch(AssertUnwindSafe(|| FamAir::<B64>::new(info.clone(), PubInputs { spec: spec.clone(), avals: avals.clone() }, opts))) { Ok(a) => a, Err(_) => return };
    let rands: Vec<B64> = (0..spec.aux_rands).map(|_| rand_e::<B64>(r)).collect();
    let bcoef: Vec<B64> = (0..spec.assertions.len() + spec.aux_width).map(|_| rand_e::<B64>(r)).collect();
    let bcs = air.get_boundary_constraints(if spec.aux_width > 0 { Some(&rands[..]) } else { None }, &bcoef);
    let x = if r.chance(1, 8) { B64::get_root_of_unity(spec.log_n).exp((r.below(n as u64)).into()) } else { rand_e::<B64>(r) };
    for (groups, w) in [(bcs.main_constraints(), spec.width), (bcs.aux_constraints(), spec.aux_width)] {
        for g in groups {
            let state: Vec<B64> = (0..w).map(|_| rand_e::<B64>(r)).collect();
            let mut t = vec!["vgroup".to_string()];
            push_groups(&mut t, std::slice::from_ref(g));
            t.push(format!("{:x} {} {}", w, hlist(&state), h64(x)));
            let res = catch(AssertUnwindSafe(|| h64(g.evaluate_at(&state, x)))).unwrap_or_else(|_| "panic".into());
            out.push(format!("{} => {}", t.join(" ").split_whitespace().collect::<Vec<_>>().join(" "), res));
        }
    }
    let tcoef: Vec<B64> = (0..spec.width + spec.aux_width).map(|_| rand_e::<B64>(r)).collect();
    let tc = TransitionConstraints::<B64>::new(air.context(), &tcoef);
    let me: Vec<B64> = (0..spec.width).map(|_| rand_e::<B64>(r)).collect();
    let ae: Vec<B64> = (0..spec.aux_width).map(|_| rand_e::<B64>(r)).collect();
    let res = catch(AssertUnwindSafe(|| h64(tc.combine_evaluations::<B64>(&me, &ae, x)))).unwrap_or_else(|_| "panic".into());
    out.push(format!("tcomb {:x} {:x} {:x} {:x} {} {} {} {} => {}", n, spec.exemptions, spec.width, spec.aux_width, hlist(&tcoef), hlist(&me), hlist(&ae), h64(x), res)
        .split_whitespace().collect::<Vec<_>>().join(" "));
}

fn corr_lag(k: usize, r: &mut Rng) -> String {
    let log_n = [3u32, 4, 3, 5][k % 4];
    let (n, v) = (1usize << log_n, log_n as usize);
    let aw = 1 + k % 3;
    let nr = k % 2;
    let blowup = [2usize, 4, 8][k % 3];
    let trace = LagTrace::<B64>::new(log_n, aw, nr);
    let info = trace.info.clone();
    let air = LagAir::<B64>::new(info.clone(), (), ProofOptions::new(4, blowup, 0, FieldExtension::None, 2, 1));
    let maincol: Vec<B64> = trace.main.get_column(0).to_vec();
    let rl: Vec<B64> = (0..v).map(|_| rand_e::<B64>(r)).collect();
    let rands: Vec<B64> = (0..nr).map(|_| rand_e::<B64>(r)).collect();
    let aux = lag_aux_cols::<B64, B64>(&maincol, aw, &rl, &rands);
    // every fourth case: one coefficient only
    let lcoef: Vec<B64> = (0..v).map(|i| if k % 4 == 3 && i != k % v { B64::ZERO } else { rand_e::<B64>(r) }).collect();
    let lb = if k % 4 == 3 { B64::ZERO } else { rand_e::<B64>(r) };
    let domain = StarkDomain::new(&air);
    let (mut lde, _p): (DefaultTraceLde<B64, ToyHasher<B64>>, TracePolyTable<B64>) = DefaultTraceLde::new(&info, &trace.main, &domain);
    lde.set_aux_trace(&ColMatrix::new(aux), &domain);
    let rows = n * blowup;
    let mut col = Vec::with_capacity(rows);
    let mut af = EvaluationFrame::<B64>::new(aw);
    for j in 0..rows { lde.read_aux_trace_frame_into(j, &mut af); col.push(af.current()[aw - 1]); }
    let aux_re = AuxRandElements::new_with_lagrange(rands, Some(LagrangeKernelRandElements::new(rl.clone())));
    let coeffs = ConstraintCompositionCoefficients { transition: vec![B64::ZERO; 2], boundary: vec![B64::ZERO; 2],
        lagrange: Some(LagrangeConstraintsCompositionCoefficients { transition: lcoef.clone(), boundary: lb }) };
    let res = match catch(AssertUnwindSafe(|| DefaultConstraintEvaluator::<LagAir<B64>, B64>::new(&air, Some(aux_re), coeffs).evaluate(&lde, &domain).into_inner())) {
        Ok(e) => e.iter().map(|x| h64(*x)).collect::<Vec<_>>().join(","), Err(_) => "panic".into() };
    format!("lag {:x} {:x} {:x} {} {:x} {} {} {} {:x} {} => {}", n, air.ce_blowup_factor(), blowup, h64(air.domain_offset()), v, hlist(&lcoef), hlist(&rl), h64(lb), rows, hlist(&col), res)
}

fn corr(seed: u64, count: usize) {
    let mut r = Rng::new(seed ^ 0xC17);
    let mut lines = vec![];
    // whole-evaluator cases: small traces, every blowup; a few long sequences (large-poly representation)
    let mut made = 0;
    let mut tries = 0;
    while made < count && tries < count * 6 {
        tries += 1;
        let big = made % 10 == 9;
        let blowup = if big { 2 } else { *r.pick(&[2usize, 4, 8]) };
        let mut spec = c17_spec(&mut r, blowup, big);
        if big { spec.log_n = 7; spec.width = spec.width.min(2); spec.aux_width = 0; spec.aux_rands = 0; for d in spec.degs.iter_mut() { *d = (*d).min(2); }
                 spec.degs.truncate(spec.width); spec.use_per.truncate(spec.width); spec.hold.truncate(spec.width);
                 spec.periodic.retain(|&l| l <= 128);
                 spec.assertions.retain(|a| assertion_steps(a, 128).0 < spec.width);
                 spec.assertions = spec.assertions.iter().map(|a| match a { AKind::Single { col, step } => AKind::Single { col: *col, step: step % 128 }, x => x.clone() }).collect();
                 spec.exemptions = spec.exemptions.min(3);
                 if spec.assertions.is_empty() { spec.assertions.push(AKind::Sequence { col: 0, first: 1, stride: 2 }); } }
        else { spec.log_n = spec.log_n.min(4); let n = spec.n(); spec.exemptions = spec.exemptions.min(n / 2);
               spec.periodic = spec.periodic.iter().map(|&l| l.min(n)).collect();
               spec.assertions = spec.assertions.iter().map(|a| match a {
                   AKind::Single { col, step } => AKind::Single { col: *col, step: step % n },
                   AKind::Periodic { col, first, stride } => { let s = (*stride).min(n); AKind::Periodic { col: *col, first: first % s, stride: s } }
                   AKind::Sequence { col, first, stride } => { let s = (*stride).min(n); AKind::Sequence { col: *col, first: first % s, stride: s } }
               }).collect(); }
        // two of three whole-evaluator cases use structured assertion values (patterns in turn; a sequence is forced in)
        let structured = if made % 3 != 0 { Some((made as u64) % PATTERNS.len() as u64) } else { None };
        if structured.is_some() && !spec.assertions.iter().any(|a| matches!(a, AKind::Sequence { .. })) {
            let n = spec.n();
            let stride = if n >= 16 { n / 8 } else { 2 };
            spec.assertions[0] = AKind::Sequence { col: assertion_steps(&spec.assertions[0], n).0, first: (made % 2) * (stride - 1), stride };
        }
        // auxiliary assertions beyond the family's single values: in the n = 128 case an aux sequence of 64 values whose divisor
        // is that of a main periodic assertion (merged into the main group by the prover), otherwise random extras
        let mut extra: Vec<AKind> = vec![];
        if big {
            spec.aux_width = 2; spec.aux_rands = 1;
            spec.hold[0] = true;
            spec.assertions = vec![AKind::Periodic { col: 0, first: 1, stride: 2 }];
            if spec.width > 1 { spec.assertions.push(AKind::Sequence { col: 1, first: 0, stride: 4 }); }
            extra = vec![AKind::Sequence { col: 1, first: 1, stride: 2 }];
        } else if spec.aux_width > 0 { extra = random_aux_extras(&spec, &mut r); }
        if let Some(l) = corr_eval(&spec, &extra, blowup, structured, &mut r) { lines.push(l); made += 1; }
    }
    for k in 0..count { lines.push(corr_split(&mut r, k)); }
    for k in 0..count { lines.push(corr_lag(k, &mut r)); }
    for _ in 0..count {
        let blowup = *r.pick(&[2usize, 4, 8]);
        let mut spec = c17_spec(&mut r, blowup, false);
        spec.log_n = spec.log_n.min(5);
        let n = spec.n();
        spec.exemptions = spec.exemptions.min(n / 2);
        spec.periodic = spec.periodic.iter().map(|&l| l.min(n)).collect();
        spec.assertions = spec.assertions.iter().map(|a| match a {
            AKind::Single { col, step } => AKind::Single { col: *col, step: step % n },
            AKind::Periodic { col, first, stride } => { let s = (*stride).min(n); AKind::Periodic { col: *col, first: first % s, stride: s } }
            AKind::Sequence { col, first, stride } => { let s = (*stride).min(n); AKind::Sequence { col: *col, first: first % s, stride: s } }
        }).collect();
        corr_verifier(&spec, blowup, &mut r, &mut lines);
    }
    for l in lines { println!("{}", l); }
}

fn main() {
    silence_panics();
    let args: Vec<String> = std::env::args().collect();
    let cmd = args.get(1).map(|s| s.as_str()).unwrap_or("");
    let seed: u64 = args.get(2).and_then(|s| s.parse().ok()).unwrap_or(1);
    let n: usize = args.get(3).and_then(|s| s.parse().ok()).unwrap_or(50);
    match cmd {
        "falsify" => falsify(seed, n),
        "corr" => corr(seed, n),
        _ => { eprintln!("usage: c17 corr|falsify <seed> <n>"); std::process::exit(2); }
    }
}
