//! C03 harness: proof integrity.
//!   c03 falsify <seed> <n_configs> [max_proof_bytes]  -> JSON failure lines + summary lines "class=<c> mutants=<k> ..."
//! Oracle (independent of any model): a mutant whose DECODED content differs from the accepted original must be
//! rejected or fail to parse.  Excluded, as the property says: mutants that decode to an equal `Proof` value
//! (alternative byte encodings) and layout-only FRI partition metadata.  Panics are recorded for C06, not counted here.
use std::collections::BTreeMap;
use std::panic::AssertUnwindSafe;

use winter_air::{proof::Proof, FieldExtension, ProofOptions};
use winter_crypto::{hashers::Blake3_256, DefaultRandomCoin, ElementHasher};
use winter_math::{fields::{f128, f64}, ExtensibleField, StarkField};
use winter_prover::Prover;
use winter_verifier::{verify, AcceptableOptions};
use wf_harness::{airfam::*, catch, hex_bytes, jstr, prng::Rng, silence_panics, toy::ToyHasher};

#[derive(Default)]
struct Stats { mutants: usize, parse_err: usize, rejected: usize, same_content: usize, accepted_diff: usize, panics: usize, alt_nonce: usize }

struct Case<B: StarkField> { spec: Spec, opts: ProofOptions, bytes: Vec<u8>, proof: Proof, pi: PubInputs<B>, desc: String }

fn make_case<B, H>(r: &mut Rng, maxb: usize, hname: &str) -> Option<Case<B>>
where B: StarkField + ExtensibleField<2> + ExtensibleField<3> + 'static, H: ElementHasher<BaseField = B> + Send + Sync {
    for _ in 0..200 {
        let blowup = *r.pick(&[2usize, 4, 8]);
        let mut spec = random_spec(r, 4, blowup);
        spec.width = spec.width.min(3);
        spec.degs.truncate(spec.width); spec.use_per.truncate(spec.width); spec.hold.truncate(spec.width);
        let (nn, ww) = (spec.n(), spec.width);
        spec.assertions.retain(|a| assertion_steps(a, nn).0 < ww);
        if spec.assertions.is_empty() { spec.assertions.push(AKind::Single { col: 0, step: 0 }); }
        if spec.hold.iter().all(|&h| h) { spec.hold[0] = false; spec.assertions.retain(|a| !matches!(a, AKind::Periodic { col: 0, .. })); if spec.assertions.is_empty() { spec.assertions.push(AKind::Single { col: 0, step: 0 }); } }
        for d in spec.degs.iter_mut() { *d = (*d).min(blowup as u32).max(1); }
        spec.exemptions = 1;
        let ext = *r.pick(&[FieldExtension::None, FieldExtension::None, FieldExtension::Quadratic]);
        let fold = *r.pick(&[2usize, 4, 8]);
        let rem = *r.pick(&[0usize, 1, 3, 7]);
        let q = 3 + r.below(4) as usize;
        let grind = *r.pick(&[0u32, 0, 2]);
        // domains of at least 64 points and >= 3 queries: a changed nonce re-draws the same positions with
        // probability <= 64^-3 per mutant (otherwise nonce edits are accepted legitimately far too often)
        if !fri_wellformed(spec.n() * blowup, blowup, fold, rem) || q >= spec.n() * blowup || spec.n() * blowup < 64 { continue; }
        let opts = match catch(|| ProofOptions::new(q, blowup, grind, ext, fold, rem)) { Ok(o) => o, Err(_) => continue };
        let cols = gen_main::<B>(&spec);
        let trace = FamTrace::new(&spec, cols);
        let prover = FamProver::<B, H, DefaultRandomCoin<H>>::new(opts.clone());
        let pi = prover.get_pub_inputs(&trace);
        let proof = match catch(AssertUnwindSafe(|| prover.prove(trace))) { Ok(Ok(p)) => p, _ => continue };
        let bytes = proof.to_bytes();
        if bytes.len() > maxb { continue; }
        let acc = AcceptableOptions::OptionSet(vec![opts.clone()]);
        match catch(AssertUnwindSafe(|| verify::<FamAir<B>, H, DefaultRandomCoin<H>>(proof.clone(), pi.clone(), &acc))) { Ok(Ok(())) => {}, _ => continue }
        let desc = format!("field={} hasher={} w={} n={} degs={:?} aux={}/{} blowup={} ext={:?} fold={} rem={} q={} grind={} seed={} bytes={}",
            std::any::type_name::<B>().split("::").nth(3).unwrap_or("?"), hname, spec.width, spec.n(), spec.degs, spec.aux_width, spec.aux_rands, blowup, ext, fold, rem, q, grind, spec.seed, bytes.len());
        return Some(Case { spec, opts, bytes, proof, pi, desc });
    }
    None
}

fn judge<B, H>(c: &Case<B>, mutant: &[u8], class: &str, what: String, stats: &mut BTreeMap<String, Stats>, out: &mut Vec<String>)
where B: StarkField + ExtensibleField<2> + ExtensibleField<3> + 'static, H: ElementHasher<BaseField = B> + Send + Sync {
    let st = stats.entry(class.to_string()).or_default();
    st.mutants += 1;
    let parsed = catch(AssertUnwindSafe(|| Proof::from_bytes(mutant)));
    let p2 = match parsed { Err(_) => { st.panics += 1; return; } Ok(Err(_)) => { st.parse_err += 1; return; } Ok(Ok(p)) => p };
    if p2 == c.proof { st.same_content += 1; return; }
    // layout-only metadata: FRI partition count (excluded by the property when it maps queried positions to the same leaves)
    {
        let mut a = p2.clone(); let b = c.proof.clone();
        a.fri_proof = b.fri_proof.clone();
        if a == b && p2.fri_proof.num_partitions() != c.proof.fri_proof.num_partitions() {
            // only the FRI proof differs; if it differs ONLY in the partition count, it is layout metadata
            let mut fb = Vec::new(); let mut fa = Vec::new();
            winter_utils::Serializable::write_into(&p2.fri_proof, &mut fa);
            winter_utils::Serializable::write_into(&c.proof.fri_proof, &mut fb);
            let diff: Vec<usize> = (0..fa.len().min(fb.len())).filter(|&i| fa[i] != fb[i]).collect();
            if fa.len() == fb.len() && diff.len() == 1 { st.same_content += 1; return; }
        }
    }
    let acc = AcceptableOptions::OptionSet(vec![c.opts.clone()]);
    let v = catch(AssertUnwindSafe(|| verify::<FamAir<B>, H, DefaultRandomCoin<H>>(p2, c.pi.clone(), &acc)));
    match v {
        Err(_) => { st.panics += 1; }
        Ok(Err(_)) => { st.rejected += 1; }
        Ok(Ok(())) => {
            // a mutant that differs from the original ONLY in the proof-of-work nonce and is accepted drew the same
            // query positions: it is another valid proof of the same statement, not a forgery (counted separately)
            let mut pn = Proof::from_bytes(mutant).unwrap();
            if pn.pow_nonce != c.proof.pow_nonce { pn.pow_nonce = c.proof.pow_nonce; if pn == c.proof { st.alt_nonce += 1; return; } }
            st.accepted_diff += 1;
            out.push(format!("{{\"what\":{},\"input\":{},\"expected\":\"rejected or parse error\",\"actual\":\"accepted\",\"class\":{},\"proof_hex\":{}}}",
                jstr(&format!("accepted mutant with different decoded content: {}", what)), jstr(&c.desc), jstr(class), jstr(&hex_bytes(mutant))));
        }
    }
}

fn run_case<B, H>(c: &Case<B>, r: &mut Rng, stats: &mut BTreeMap<String, Stats>, out: &mut Vec<String>, exhaustive_bits: bool)
where B: StarkField + ExtensibleField<2> + ExtensibleField<3> + 'static, H: ElementHasher<BaseField = B> + Send + Sync {
    let n = c.bytes.len();
    // (a) single-bit flips
    let total_bits = n * 8;
    let stride = if exhaustive_bits { 1 } else { (total_bits / 1500).max(1) };
    let mut i = r.below(stride as u64) as usize;
    while i < total_bits {
        let mut m = c.bytes.clone();
        m[i / 8] ^= 1 << (i % 8);
        judge::<B, H>(c, &m, "bitflip", format!("bit {} of byte {}", i % 8, i / 8), stats, out);
        i += stride;
    }
    // (b) byte replacement with boundary values at every offset (sampled)
    for _ in 0..600.min(n * 2) {
        let pos = r.below(n as u64) as usize;
        let v = *r.pick(&[0u8, 1, 0x7f, 0x80, 0xfe, 0xff]);
        if c.bytes[pos] == v { continue; }
        let mut m = c.bytes.clone(); m[pos] = v;
        judge::<B, H>(c, &m, "byte-boundary", format!("byte {} := {:#x}", pos, v), stats, out);
    }
    // (c) truncation / extension
    for k in [1usize, 2, 3, 8, 16, 32] {
        if n > k { judge::<B, H>(c, &c.bytes[..n - k], "truncate", format!("drop last {} bytes", k), stats, out); }
        let mut m = c.bytes.clone(); m.extend(std::iter::repeat(0u8).take(k));
        judge::<B, H>(c, &m, "extend-zeros", format!("append {} zero bytes", k), stats, out);
        let mut m = c.bytes.clone(); m.extend(r.bytes(k));
        judge::<B, H>(c, &m, "extend-random", format!("append {} random bytes", k), stats, out);
    }
    for _ in 0..40 {
        let cut = r.below(n as u64) as usize;
        judge::<B, H>(c, &c.bytes[..cut], "truncate", format!("truncate at {}", cut), stats, out);
    }
    // (d) structural edits on the decoded proof, re-serialised
    let edits: Vec<(&str, Box<dyn Fn(&mut Proof, &mut Rng)>)> = vec![
        ("nonce", Box::new(|p: &mut Proof, r: &mut Rng| { p.pow_nonce = p.pow_nonce.wrapping_add(1 + r.below(5)); })),
        ("num-unique-queries", Box::new(|p: &mut Proof, r: &mut Rng| { p.num_unique_queries = p.num_unique_queries.wrapping_add(1 + r.below(3) as u8); })),
        ("swap-trace-constraint-queries", Box::new(|p: &mut Proof, _| { let t = p.trace_queries[0].clone(); p.trace_queries[0] = p.constraint_queries.clone(); p.constraint_queries = t; })),
        ("gkr-proof-added", Box::new(|p: &mut Proof, _| { p.gkr_proof = Some(vec![1, 2, 3]); })),
        ("dup-trace-queries", Box::new(|p: &mut Proof, _| { let t = p.trace_queries[0].clone(); p.trace_queries.push(t); })),
    ];
    for (name, f) in edits.iter() {
        let mut p = c.proof.clone();
        f(&mut p, r);
        if p == c.proof { continue; }
        judge::<B, H>(c, &p.to_bytes(), &format!("edit:{}", name), name.to_string(), stats, out);
    }
}

fn main() {
    silence_panics();
    let args: Vec<String> = std::env::args().collect();
    let seed: u64 = args.get(2).and_then(|s| s.parse().ok()).unwrap_or(1);
    let n: usize = args.get(3).and_then(|s| s.parse().ok()).unwrap_or(4);
    let maxb: usize = args.get(4).and_then(|s| s.parse().ok()).unwrap_or(2500);
    let mut r = Rng::new(seed);
    let mut stats = BTreeMap::new();
    let mut out = Vec::new();
    let mut descs = Vec::new();
    for i in 0..n {
        let exhaustive = i < 2;
        match i % 4 {
            0 => if let Some(c) = make_case::<f64::BaseElement, Blake3_256<f64::BaseElement>>(&mut r, maxb, "blake3_256") { descs.push(c.desc.clone()); run_case::<f64::BaseElement, Blake3_256<f64::BaseElement>>(&c, &mut r, &mut stats, &mut out, exhaustive); },
            1 => if let Some(c) = make_case::<f128::BaseElement, Blake3_256<f128::BaseElement>>(&mut r, maxb, "blake3_256") { descs.push(c.desc.clone()); run_case::<f128::BaseElement, Blake3_256<f128::BaseElement>>(&c, &mut r, &mut stats, &mut out, exhaustive); },
            2 => if let Some(c) = make_case::<f64::BaseElement, ToyHasher<f64::BaseElement>>(&mut r, maxb, "toy") { descs.push(c.desc.clone()); run_case::<f64::BaseElement, ToyHasher<f64::BaseElement>>(&c, &mut r, &mut stats, &mut out, exhaustive); },
            _ => if let Some(c) = make_case::<f64::BaseElement, winter_crypto::hashers::Rp64_256>(&mut r, maxb, "rp64_256") { descs.push(c.desc.clone()); run_case::<f64::BaseElement, winter_crypto::hashers::Rp64_256>(&c, &mut r, &mut stats, &mut out, exhaustive); },
        }
    }
    for l in &out { println!("{}", l); }
    for d in &descs { println!("config {}", d); }
    let mut total = 0;
    for (k, s) in &stats {
        println!("class={} mutants={} parse_err={} rejected={} same_content={} accepted_diff={} panics={} alt_nonce={}", k, s.mutants, s.parse_err, s.rejected, s.same_content, s.accepted_diff, s.panics, s.alt_nonce);
        total += s.mutants;
    }
    println!("evaluations={} failures={}", total, out.len());
}
