//! C03 harness: proof integrity.
//!   c03 falsify <seed> <n_configs> [max_proof_bytes]  -> JSON failure lines + summary lines "class=<c> mutants=<k> ..."
//!   c03 corr <seed> <n>                               -> lines "<shape> => <observable event list of the REAL verifier>"
//!   c03 replay <seed> <n_configs> <max_proof_bytes> <class-substring>   (falsify restricted to the mutation classes that match)
//! Falsifier oracle (independent of any model): a mutant whose DECODED content differs from the accepted original must
//! be rejected or fail to parse.  Excluded, as the property says: mutants that decode to an equal `Proof` value
//! (alternative byte encodings, bytes after the end of the proof) and layout-only FRI partition metadata.  Panics are
//! recorded for C06, not counted here.  A mutant that differs ONLY in the proof-of-work nonce and is accepted drew the
//! same positions: another valid proof of the same statement (counted as alt_nonce).
//! Correspondence: the real `verify()` runs with `RecordingCoin<DefaultRandomCoin<LoggingHasher<H>>>` and
//! `LoggingHasher<H>`; every hasher call (with input bytes and output digest) and every coin operation lands in ONE
//! ordered log, which is abstracted to the event alphabet of coq/Model/Integrity.v by comparing logged bytes with the
//! components of the serialized proof (dissected by `Layout`, which knows only the wire format).
use std::cell::RefCell;
use std::collections::{BTreeMap, BTreeSet, HashMap};
use std::marker::PhantomData;
use std::panic::AssertUnwindSafe;

use winter_air::{proof::Proof, Air, FieldExtension, ProofOptions};
use winter_crypto::{hashers::{Blake3_256, Rp62_248, Rp64_256, RpJive64_256}, DefaultRandomCoin, ElementHasher, Hasher};
use winter_math::{fields::{f128, f62, f64, CubeExtension, QuadExtension}, ExtensibleField, FieldElement, StarkField};
use winter_prover::{Prover, Trace};
use winter_utils::{Deserializable, Serializable, SliceReader};
use winter_verifier::{verify, AcceptableOptions};
use wf_harness::{airfam::*, catch, coinrec::{self, RecordingCoin}, hex_bytes, jstr, lagfam::{self, LagAir, LagProver, LagTrace}, prng::Rng, silence_panics, toy::ToyHasher};

#[path = "../noncanon.rs"]
#[allow(dead_code)]
mod noncanon;

// ================================================================================================ wire-format dissector
/// One component of the serialized proof: `[start, end)` is the body, `pfx` the (offset, width) of its little-endian
/// length prefix when it has one.
#[derive(Clone, Debug)]
struct Seg { name: String, pfx: Option<(usize, usize)>, start: usize, end: usize }

#[derive(Clone, Debug)]
struct Layout { segs: Vec<Seg>, nlayers: usize }

impl Layout {
    fn get(&self, name: &str) -> &Seg { self.segs.iter().find(|s| s.name == name).unwrap_or_else(|| panic!("no segment {}", name)) }
    fn body<'a>(&self, bytes: &'a [u8], name: &str) -> &'a [u8] { let s = self.get(name); &bytes[s.start..s.end] }
}

fn rd(bytes: &[u8], pos: usize, w: usize) -> Option<usize> {
    if pos + w > bytes.len() { return None; }
    let mut v = 0usize;
    for k in (0..w).rev() { v = (v << 8) | bytes[pos + k] as usize; }
    Some(v)
}

/// Dissects `Proof::to_bytes()` (air/src/proof/mod.rs write_into and the write_into of its parts).
fn dissect(bytes: &[u8], ctx_len: usize, nseg: usize) -> Option<Layout> {
    let mut segs = Vec::new();
    let mut pos = 0usize;
    let plain = |segs: &mut Vec<Seg>, pos: &mut usize, name: &str, len: usize| -> Option<()> {
        if *pos + len > bytes.len() { return None; }
        segs.push(Seg { name: name.to_string(), pfx: None, start: *pos, end: *pos + len }); *pos += len; Some(())
    };
    let pref = |segs: &mut Vec<Seg>, pos: &mut usize, name: &str, w: usize| -> Option<()> {
        let len = rd(bytes, *pos, w)?;
        if *pos + w + len > bytes.len() { return None; }
        segs.push(Seg { name: name.to_string(), pfx: Some((*pos, w)), start: *pos + w, end: *pos + w + len }); *pos += w + len; Some(())
    };
    plain(&mut segs, &mut pos, "ctx", ctx_len)?;
    plain(&mut segs, &mut pos, "nq", 1)?;
    pref(&mut segs, &mut pos, "commitments", 2)?;
    for i in 0..nseg {
        pref(&mut segs, &mut pos, &format!("tq{}.values", i), 4)?;
        pref(&mut segs, &mut pos, &format!("tq{}.paths", i), 4)?;
    }
    pref(&mut segs, &mut pos, "cq.values", 4)?;
    pref(&mut segs, &mut pos, "cq.paths", 4)?;
    pref(&mut segs, &mut pos, "ood.trace", 2)?;
    pref(&mut segs, &mut pos, "ood.lagrange", 2)?;
    pref(&mut segs, &mut pos, "ood.evals", 2)?;
    let nlayers = rd(bytes, pos, 1)?;
    plain(&mut segs, &mut pos, "fri.nlayers", 1)?;
    for i in 0..nlayers {
        pref(&mut segs, &mut pos, &format!("fri{}.values", i), 4)?;
        pref(&mut segs, &mut pos, &format!("fri{}.paths", i), 4)?;
    }
    pref(&mut segs, &mut pos, "fri.remainder", 2)?;
    plain(&mut segs, &mut pos, "fri.partitions", 1)?;
    plain(&mut segs, &mut pos, "nonce", 8)?;
    let rest = bytes.len() - pos;
    plain(&mut segs, &mut pos, "gkr", rest)?;
    Some(Layout { segs, nlayers })
}

/// Replace the body of a length-prefixed component and rewrite its prefix.
fn splice(bytes: &[u8], s: &Seg, body: &[u8]) -> Vec<u8> {
    let mut m = bytes[..s.start].to_vec();
    m.extend_from_slice(body);
    m.extend_from_slice(&bytes[s.end..]);
    if let Some((p, w)) = s.pfx { let mut v = body.len(); for k in 0..w { m[p + k] = (v & 0xff) as u8; v >>= 8; } }
    m
}

// ================================================================================================ logging hasher
#[derive(Clone, Debug)]
enum Ent {
    Coin(String),
    HashElems { bytes: Vec<u8>, out: Vec<u8> },
    HashBytes { len: usize },
    Merge { a: Vec<u8>, b: Vec<u8>, out: Vec<u8> },
    MergeInt,
}
thread_local! { static ULOG: RefCell<Vec<Ent>> = RefCell::new(Vec::new()); }
fn drain_coin() { let l = coinrec::take_log(); if !l.is_empty() { ULOG.with(|u| u.borrow_mut().extend(l.into_iter().map(Ent::Coin))); } }
fn upush(e: Ent) { drain_coin(); ULOG.with(|u| u.borrow_mut().push(e)); }
fn take_ulog() -> Vec<Ent> { drain_coin(); ULOG.with(|u| std::mem::take(&mut *u.borrow_mut())) }

/// Forwards to `H` and logs every call.  The library is generic in the hasher, so the real verifier runs unchanged.
pub struct LoggingHasher<H>(PhantomData<H>);
impl<H: ElementHasher> Hasher for LoggingHasher<H> {
    type Digest = H::Digest;
    const COLLISION_RESISTANCE: u32 = H::COLLISION_RESISTANCE;
    fn hash(bytes: &[u8]) -> Self::Digest { let d = H::hash(bytes); upush(Ent::HashBytes { len: bytes.len() }); d }
    fn merge(values: &[Self::Digest; 2]) -> Self::Digest {
        let d = H::merge(values);
        upush(Ent::Merge { a: values[0].to_bytes(), b: values[1].to_bytes(), out: d.to_bytes() }); d
    }
    fn merge_with_int(seed: Self::Digest, value: u64) -> Self::Digest { let d = H::merge_with_int(seed, value); upush(Ent::MergeInt); d }
}
impl<H: ElementHasher> ElementHasher for LoggingHasher<H> {
    type BaseField = H::BaseField;
    fn hash_elements<E: FieldElement<BaseField = Self::BaseField>>(elements: &[E]) -> Self::Digest {
        let d = H::hash_elements(elements);
        let mut bytes = Vec::with_capacity(elements.len() * E::ELEMENT_BYTES);
        for e in elements { e.write_into(&mut bytes); }
        upush(Ent::HashElems { bytes, out: d.to_bytes() }); d
    }
}

// ================================================================================================ cases
#[derive(Default)]
struct Stats { mutants: usize, parse_err: usize, rejected: usize, same_content: usize, accepted_diff: usize, panics: usize, alt_nonce: usize, infeasible: usize }

struct Case<B: StarkField> { spec: Spec, opts: ProofOptions, bytes: Vec<u8>, proof: Proof, pi: PubInputs<B>, desc: String, meta: Vec<u8>, hname: String }

trait Fld: StarkField + ExtensibleField<2> + ExtensibleField<3> + 'static { const NAME: &'static str; }
impl Fld for f64::BaseElement { const NAME: &'static str = "f64"; }
impl Fld for f128::BaseElement { const NAME: &'static str = "f128"; }
impl Fld for f62::BaseElement { const NAME: &'static str = "f62"; }

// ---- a prover whose trace carries metadata (TraceInfo::meta is proof content: it is serialized in the context) ----
struct MetaTrace<B: StarkField> { inner: FamTrace<B>, info: winter_air::TraceInfo }
impl<B: StarkField> Trace for MetaTrace<B> {
    type BaseField = B;
    fn info(&self) -> &winter_air::TraceInfo { &self.info }
    fn main_segment(&self) -> &winter_prover::matrix::ColMatrix<B> { self.inner.main_segment() }
    fn read_main_frame(&self, row_idx: usize, frame: &mut winter_air::EvaluationFrame<B>) { self.inner.read_main_frame(row_idx, frame) }
}
struct MetaProver<B: StarkField, H> { options: ProofOptions, _p: PhantomData<(B, H)> }
impl<B: Fld, H: ElementHasher<BaseField = B> + Send + Sync> Prover for MetaProver<B, H> {
    type BaseField = B;
    type Air = FamAir<B>;
    type Trace = MetaTrace<B>;
    type HashFn = H;
    type RandomCoin = DefaultRandomCoin<H>;
    type TraceLde<E: FieldElement<BaseField = B>> = winter_prover::DefaultTraceLde<E, H>;
    type ConstraintEvaluator<'a, E: FieldElement<BaseField = B>> = winter_prover::DefaultConstraintEvaluator<'a, FamAir<B>, E>;
    fn get_pub_inputs(&self, trace: &MetaTrace<B>) -> PubInputs<B> {
        PubInputs { spec: trace.inner.spec.clone(), avals: assertion_values(&trace.inner.spec, &trace.inner.cols()) }
    }
    fn options(&self) -> &ProofOptions { &self.options }
    fn new_trace_lde<E: FieldElement<BaseField = B>>(&self, trace_info: &winter_air::TraceInfo, main_trace: &winter_prover::matrix::ColMatrix<B>, domain: &winter_prover::StarkDomain<B>) -> (Self::TraceLde<E>, winter_prover::TracePolyTable<E>) {
        winter_prover::DefaultTraceLde::new(trace_info, main_trace, domain)
    }
    fn new_evaluator<'a, E: FieldElement<BaseField = B>>(&self, air: &'a FamAir<B>, aux_rand_elements: Option<winter_air::AuxRandElements<E>>, composition_coefficients: winter_air::ConstraintCompositionCoefficients<E>) -> Self::ConstraintEvaluator<'a, E> {
        winter_prover::DefaultConstraintEvaluator::new(air, aux_rand_elements, composition_coefficients)
    }
    fn build_aux_trace<E: FieldElement<BaseField = B>>(&self, trace: &MetaTrace<B>, aux_rand_elements: &winter_air::AuxRandElements<E>) -> winter_prover::matrix::ColMatrix<E> {
        winter_prover::matrix::ColMatrix::new(gen_aux::<B, E>(&trace.inner.spec, trace.inner.main_segment(), aux_rand_elements.rand_elements()))
    }
}

/// What a case generator is asked for (None = free choice).
#[derive(Clone, Default)]
struct Want { ext: Option<FieldExtension>, layers: Option<usize>, aux: Option<bool>, grind: Option<bool>, min_domain: usize, many_queries: bool, meta: Vec<u8>, big_remainder: bool, no_preverify: bool,
              /// the all-zero trace (Spec::constant_trace); with an auxiliary segment: two columns, the second all zero
              constant: bool }

fn num_layers(lde: usize, blowup: usize, fold: usize, rem: usize) -> usize {
    let max_rem = (rem + 1) * blowup; let (mut d, mut k) = (lde, 0);
    while d > max_rem { d /= fold; k += 1; }
    k
}

fn make_case<B: Fld, H>(r: &mut Rng, maxb: usize, hname: &str, want: &Want) -> Option<Case<B>>
where H: ElementHasher<BaseField = B> + Send + Sync {
    for _ in 0..400 {
        let blowup = *r.pick(&[2usize, 4, 8]);
        let mut spec = random_spec(r, 4, blowup);
        spec.width = spec.width.min(3);
        spec.degs.truncate(spec.width); spec.use_per.truncate(spec.width); spec.hold.truncate(spec.width);
        let (nn, ww) = (spec.n(), spec.width);
        spec.assertions.retain(|a| assertion_steps(a, nn).0 < ww);
        if spec.assertions.is_empty() { spec.assertions.push(AKind::Single { col: 0, step: 0 }); }
        if spec.hold.iter().all(|&h| h) { spec.hold[0] = false; spec.assertions.retain(|a| !matches!(a, AKind::Periodic { col: 0, .. })); if spec.assertions.is_empty() { spec.assertions.push(AKind::Single { col: 0, step: 0 }); } }
        for d in spec.degs.iter_mut() { *d = (*d).min(blowup as u32).max(1); }
        spec.exemptions = 1;
        match want.aux { Some(true) => { if spec.aux_width == 0 { spec.aux_width = 1 + r.below(2) as usize; spec.aux_rands = 1 + r.below(2) as usize; } }, Some(false) => { spec.aux_width = 0; spec.aux_rands = 0; }, None => {} }
        if want.constant { spec.constant_trace = true; if spec.aux_width > 0 { spec.aux_width = 2; } }
        let ext = want.ext.unwrap_or_else(|| *r.pick(&[FieldExtension::None, FieldExtension::None, FieldExtension::Quadratic, if B::NAME == "f64" { FieldExtension::Cubic } else { FieldExtension::Quadratic }]));
        // big_remainder: a remainder of 8 coefficients, so that R + c * prod(x - x_pos) over 3..6 positions fits
        let fold = if want.big_remainder { 2 } else { *r.pick(&[2usize, 4, 8]) };
        let rem = if want.big_remainder { 7 } else { *r.pick(&[0usize, 1, 3, 7]) };
        let lde = spec.n() * blowup;
        let q = if want.many_queries { (lde - 1).min(3 + r.below(12) as usize) } else { 3 + r.below(4) as usize };
        let grind = match want.grind { Some(true) => 2 + r.below(3) as u32, Some(false) => 0, None => *r.pick(&[0u32, 0, 2]) };
        // falsifier: domains of at least 64 points and >= 3 queries: a changed nonce re-draws the same positions with
        // probability <= 64^-3 per mutant (otherwise nonce edits are accepted legitimately far too often)
        if !fri_wellformed(lde, blowup, fold, rem) || q >= lde || lde < want.min_domain { continue; }
        if let Some(l) = want.layers { let k = num_layers(lde, blowup, fold, rem); if (l < 2 && k != l) || (l >= 2 && k < 2) { continue; } }
        let opts = match catch(|| ProofOptions::new(q, blowup, grind, ext, fold, rem)) { Ok(o) => o, Err(_) => continue };
        let cols = gen_main::<B>(&spec);
        let trace = FamTrace::new(&spec, cols);
        let (pi, proof) = if want.meta.is_empty() {
            let prover = FamProver::<B, H, DefaultRandomCoin<H>>::new(opts.clone());
            let pi = prover.get_pub_inputs(&trace);
            match catch(AssertUnwindSafe(|| prover.prove(trace))) { Ok(Ok(p)) => (pi, p), _ => continue }
        } else {
            let info = if spec.aux_width > 0 { winter_air::TraceInfo::new_multi_segment(spec.width, spec.aux_width, spec.aux_rands, spec.n(), want.meta.clone()) }
                       else { winter_air::TraceInfo::with_meta(spec.width, spec.n(), want.meta.clone()) };
            let prover = MetaProver::<B, H> { options: opts.clone(), _p: PhantomData };
            let mt = MetaTrace { inner: trace, info };
            let pi = prover.get_pub_inputs(&mt);
            match catch(AssertUnwindSafe(|| prover.prove(mt))) { Ok(Ok(p)) => (pi, p), _ => continue }
        };
        let bytes = proof.to_bytes();
        if bytes.len() > maxb { continue; }
        let acc = AcceptableOptions::OptionSet(vec![opts.clone()]);
        // correspondence cases are NOT filtered by a first verification: an honest proof that the verifier rejects shows up
        // as verdict=rejected against the model's verdict=ok
        if !want.no_preverify {
            match catch(AssertUnwindSafe(|| verify::<FamAir<B>, H, DefaultRandomCoin<H>>(proof.clone(), pi.clone(), &acc))) {
                Ok(Ok(())) => {},
                _ => { HONEST_REJECTED.with(|c| *c.borrow_mut() += 1); continue }
            }
        }
        let desc = format!("field={} hasher={} w={} n={} degs={:?} aux={}/{} blowup={} ext={:?} fold={} rem={} q={} grind={} meta={} seed={} bytes={}",
            B::NAME, hname, spec.width, spec.n(), spec.degs, spec.aux_width, spec.aux_rands, blowup, ext, fold, rem, q, grind, hex_bytes(&want.meta), spec.seed, bytes.len());
        return Some(Case { spec, opts, bytes, proof, pi, desc, meta: want.meta.clone(), hname: hname.to_string() });
    }
    None
}
thread_local! { static HONEST_REJECTED: RefCell<usize> = RefCell::new(0); static CLASS_FILTER: RefCell<String> = RefCell::new(String::new()); }

fn layout_of<B: Fld>(c: &Case<B>, bytes: &[u8]) -> Option<Layout> {
    dissect(bytes, c.proof.context.to_bytes().len(), if c.spec.aux_width > 0 { 2 } else { 1 })
}


/// (meta, rest of the serialized context)
fn split_ctx(p: &Proof) -> (Vec<u8>, Vec<u8>) {
    let b = p.context.to_bytes();
    let ml = b[4] as usize | (b[5] as usize) << 8;
    let mut rest = b[..4].to_vec(); rest.extend_from_slice(&b[6 + ml..]);
    (b[6..6 + ml].to_vec(), rest)
}
fn meta_trailing_zeros_only<B: Fld>(orig: &Proof, mutant: &Proof) -> bool {
    let mut a = mutant.clone(); a.context = orig.context.clone();
    if a != *orig { return false; }
    let ((m0, r0), (m1, r1)) = (split_ctx(orig), split_ctx(mutant));
    if r0 != r1 || m0 == m1 { return false; }
    let (short, long) = if m0.len() < m1.len() { (&m0, &m1) } else { (&m1, &m0) };
    let chunk = B::ELEMENT_BYTES - 1;
    let chunks = |n: usize| (n + chunk - 1) / chunk;
    !short.is_empty() && long.len() > short.len() && long[..short.len()] == short[..] && long[short.len()..].iter().all(|&b| b == 0) && chunks(short.len()) == chunks(long.len())
}

/// outcome of one mutant, for the trailing-bytes policy probe
fn outcome<B: Fld, H>(c: &Case<B>, mutant: &[u8]) -> &'static str
where H: ElementHasher<BaseField = B> + Send + Sync {
    let p2 = match catch(AssertUnwindSafe(|| Proof::from_bytes(mutant))) { Err(_) => return "panic", Ok(Err(_)) => return "parse_err", Ok(Ok(p)) => p };
    if p2 == c.proof { return "same"; }
    let acc = AcceptableOptions::OptionSet(vec![c.opts.clone()]);
    match catch(AssertUnwindSafe(|| verify::<FamAir<B>, H, DefaultRandomCoin<H>>(p2, c.pi.clone(), &acc))) { Err(_) => "panic", Ok(Err(_)) => "rejected", Ok(Ok(())) => "accepted" }
}

/// For every byte container of the wire format: are bytes appended to it (length prefix rewritten) refused, or ignored?
fn policy_probe<B: Fld, H>(c: &Case<B>, r: &mut Rng, shape: &str)
where H: ElementHasher<BaseField = B> + Send + Sync {
    let lay = layout_of(c, &c.bytes).expect("layout");
    let eb = elem_bytes::<B>(c.opts.field_extension());
    let dsz = <H::Digest as Default>::default().to_bytes().len();
    let mut probe = |name: String, mk: &dyn Fn(&[u8]) -> Vec<u8>| {
        let mut outs = BTreeSet::new();
        for k in [1usize, 2, eb, dsz, 2 * eb] {
            outs.insert(outcome::<B, H>(c, &mk(&vec![0u8; k])));
            outs.insert(outcome::<B, H>(c, &mk(&r.bytes(k))));
        }
        let verdict = if outs.iter().all(|o| *o == "parse_err" || *o == "rejected") { "rejects" } else if outs.iter().all(|o| *o == "same" || *o == "accepted") { "ignores" } else { "mixed" };
        println!("policy {} {} => {}", name, shape.trim_start_matches("shape "), verdict);
    };
    probe("proof".into(), &|suffix: &[u8]| { let mut m = c.bytes.clone(); m.extend_from_slice(suffix); m });
    for s in lay.segs.iter().filter(|s| s.pfx.is_some()) {
        let name = match s.name.as_str() {
            "commitments" => "commitments".to_string(), "cq.values" => "constraintvalues".into(), "cq.paths" => "constraintpaths".into(),
            "ood.trace" => "oodtrace".into(), "ood.lagrange" => "oodlagrange".into(), "ood.evals" => "oodevals".into(), "fri.remainder" => "remainder".into(),
            n if n.starts_with("tq") => format!("trace{}{}", if n.ends_with("values") { "values" } else { "paths" }, &n[2..n.find('.').unwrap()]),
            n if n.starts_with("fri") => format!("fri{}{}", if n.ends_with("values") { "values" } else { "paths" }, &n[3..n.find('.').unwrap()]),
            n => n.to_string(),
        };
        let seg = s.clone(); let bytes = c.bytes.clone();
        probe(name, &move |suffix: &[u8]| { let mut b = bytes[seg.start..seg.end].to_vec(); b.extend_from_slice(suffix); splice(&bytes, &seg, &b) });
    }
}

// ================================================================================================ the oracle
fn judge<B: Fld, H>(c: &Case<B>, mutant: &[u8], class: &str, what: String, stats: &mut BTreeMap<String, Stats>, out: &mut Vec<String>)
where H: ElementHasher<BaseField = B> + Send + Sync {
    if !CLASS_FILTER.with(|f| { let f = f.borrow(); f.is_empty() || class.contains(f.as_str()) }) { return; }
    let st = stats.entry(class.to_string()).or_default();
    st.mutants += 1;
    let parsed = catch(AssertUnwindSafe(|| Proof::from_bytes(mutant)));
    let p2 = match parsed { Err(_) => { st.panics += 1; return; } Ok(Err(_)) => { st.parse_err += 1; return; } Ok(Ok(p)) => p };
    if p2 == c.proof { st.same_content += 1; if std::env::var("C03_SHOW_SAME").is_ok() { eprintln!("same-decoded {}: {}", class, what); } return; }
    // alternative byte encodings of the same digest (Rescue digests are field elements and their readers reduce): outside the claim
    if same_up_to_digest_encoding(c, mutant) { st.same_content += 1; if std::env::var("C03_SHOW_SAME").is_ok() { eprintln!("same-digests {}: {}", class, what); } return; }
    // layout-only metadata: FRI partition count (excluded by the property when it maps queried positions to the same leaves)
    {
        let mut a = p2.clone(); let b = c.proof.clone();
        a.fri_proof = b.fri_proof.clone();
        if a == b && p2.fri_proof.num_partitions() != c.proof.fri_proof.num_partitions() {
            // only the FRI proof differs; if it differs ONLY in the partition count, it is layout metadata
            let mut fb = Vec::new(); let mut fa = Vec::new();
            winter_utils::Serializable::write_into(&p2.fri_proof, &mut fa);
            winter_utils::Serializable::write_into(&c.proof.fri_proof, &mut fb);
            let diff: Vec<usize> = (0..fa.len().min(fb.len())).filter(|&i| fa[i] != fb[i]).collect();
            // ... and only when, under the documented layout, the altered count maps EVERY queried position of EVERY layer
            // to the same committed leaf as the original count (the property's exclusion); otherwise the field edit is
            // an ordinary content change and must be rejected
            if fa.len() == fb.len() && diff.len() == 1 && partition_layout_same::<B, H>(c, c.proof.fri_proof.num_partitions(), p2.fri_proof.num_partitions()) {
                st.same_content += 1; if std::env::var("C03_SHOW_SAME").is_ok() { eprintln!("partition-count-only {}: {}", class, what); } return;
            }
        }
    }
    let acc = AcceptableOptions::OptionSet(vec![c.opts.clone()]);
    let v = catch(AssertUnwindSafe(|| verify::<FamAir<B>, H, DefaultRandomCoin<H>>(p2, c.pi.clone(), &acc)));
    match v {
        Err(_) => { st.panics += 1; }
        Ok(Err(_)) => { st.rejected += 1; }
        Ok(Ok(())) => {
            let mut pn = Proof::from_bytes(mutant).unwrap();
            if pn.pow_nonce != c.proof.pow_nonce { pn.pow_nonce = c.proof.pow_nonce; if pn == c.proof { st.alt_nonce += 1; return; } }
            st.accepted_diff += 1;
            // the one known class (finding C03-F4): the ONLY decoded difference is a run of zero bytes appended to (or
            // removed from) the trace metadata without changing the number of metadata chunks absorbed into the coin seed
            let known = meta_trailing_zeros_only::<B>(&c.proof, &Proof::from_bytes(mutant).unwrap());
            let what = if known { format!("[trace metadata differs only by trailing zero bytes inside the last seed chunk] {}", what) } else { what };
            // one report per (class, kind of edit): the first instance is the replayable witness
            let mut kind = String::new();
            for ch in what.chars() { if ch.is_ascii_digit() { if !kind.ends_with('#') { kind.push('#'); } } else { kind.push(ch); } }
            if out.iter().any(|l| l.contains(&format!("\"kind\":{}", jstr(&format!("{}|{}", class, kind))))) { return; }
            out.push(format!("{{\"what\":{},\"input\":{},\"expected\":\"rejected or parse error\",\"actual\":\"accepted\",\"class\":{},\"kind\":{},\"proof_hex\":{}}}",
                jstr(&format!("accepted mutant with different decoded content: {}: {}", class, what)), jstr(&c.desc), jstr(class), jstr(&format!("{}|{}", class, kind)), jstr(&hex_bytes(mutant))));
        }
    }
}

/// offsets of all digests of a serialized proof (commitments and the nodes of every batch Merkle proof)
fn digest_offsets(bytes: &[u8], lay: &Layout, dl: usize) -> Vec<usize> {
    let c = lay.get("commitments");
    let mut v: Vec<usize> = (0..(c.end - c.start) / dl).map(|i| c.start + i * dl).collect();
    for s in lay.segs.iter().filter(|s| s.name.ends_with(".paths")) { v.extend(noncanon::path_digests(bytes, s.start, s.end, dl)); }
    v
}

/// do the two byte strings differ only in the ENCODING of digest limbs (same residues)?  Decided on the wire format,
/// with the harness' own reduction, for hashers whose digests are field elements
fn same_up_to_digest_encoding<B: Fld>(c: &Case<B>, mutant: &[u8]) -> bool {
    let Some((f, limbs)) = noncanon::digest_field(&c.hname) else { return false };
    if mutant.len() != c.bytes.len() { return false; }
    let (Some(l0), Some(l1)) = (layout_of(c, &c.bytes), layout_of(c, mutant)) else { return false };
    if l0.segs.len() != l1.segs.len() || l0.segs.iter().zip(l1.segs.iter()).any(|(a, b)| a.start != b.start || a.end != b.end) { return false; }
    let dl = f.elem_len(limbs);
    let (o0, o1) = (digest_offsets(&c.bytes, &l0, dl), digest_offsets(mutant, &l1, dl));
    if o0 != o1 { return false; }
    let (mut a, mut b) = (c.bytes.clone(), mutant.to_vec());
    for &o in &o0 { f.normalise(&mut a, o, limbs); f.normalise(&mut b, o, limbs); }
    a == b
}

// ================================================================================================ non-canonical element encodings
/// element-bearing components of the wire format: (class name, element offsets, field of the words, words per element)
fn element_regions<B: Fld>(bytes: &[u8], lay: &Layout, ext: usize, hname: &str) -> Vec<(String, Vec<usize>, noncanon::Fp, usize)> {
    let f = noncanon::fp(B::NAME);
    let mut v: Vec<(String, Vec<usize>, noncanon::Fp, usize)> = Vec::new();
    for s in &lay.segs {
        let n = s.name.as_str();
        if s.end <= s.start { continue; }
        if n == "ood.trace" || n == "ood.lagrange" { v.push((n.to_string(), noncanon::run_elems(s.start + 1, s.end, &f, ext), f, ext)); }
        else if n == "ood.evals" || n == "fri.remainder" || n == "cq.values" || n == "tq1.values" { v.push((n.to_string(), noncanon::run_elems(s.start, s.end, &f, ext), f, ext)); }
        else if n.starts_with("fri") && n.ends_with(".values") { v.push(("fri.values".to_string(), noncanon::run_elems(s.start, s.end, &f, ext), f, ext)); }
        else if n == "tq0.values" { v.push((n.to_string(), noncanon::run_elems(s.start, s.end, &f, 1), f, 1)); }
    }
    if let Some((df, limbs)) = noncanon::digest_field(hname) {
        let dl = df.elem_len(limbs);
        let c = lay.get("commitments");
        v.push(("digest.commitments".into(), (0..(c.end - c.start) / dl).map(|i| c.start + i * dl).collect(), df, limbs));
        for s in lay.segs.iter().filter(|s| s.name.ends_with(".paths")) {
            let offs = noncanon::path_digests(bytes, s.start, s.end, dl);
            if !offs.is_empty() { v.push(("digest.paths".into(), offs, df, limbs)); }
        }
    }
    v.retain(|x| !x.1.is_empty());
    v
}

/// `noncanonical:<component>:<kind>:<field>`: ONE base-field word (first / middle / last element, every limb of an
/// extension element) of every element-bearing component of an accepted proof overwritten with the modulus, modulus + 1,
/// all ones, modulus + original value.  The last one is the same residue in another encoding: a changed proof (the
/// property excludes alternative encodings of DIGESTS only), which must be refused like the others.
fn noncanonical<B: Fld, H>(c: &Case<B>, stats: &mut BTreeMap<String, Stats>, out: &mut Vec<String>)
where H: ElementHasher<BaseField = B> + Send + Sync {
    let lay = match layout_of(c, &c.bytes) { Some(l) => l, None => return };
    let ext = c.opts.field_extension().degree() as usize;
    for (name, elems, f, deg) in element_regions::<B>(&c.bytes, &lay, ext, &c.hname) {
        let tag = if name.starts_with("digest.") { c.hname.clone() } else { B::NAME.to_string() };
        let (ms, infeasible) = noncanon::mutants(&c.bytes, &name, &elems, &f, deg);
        for (_, kind) in infeasible { note_infeasible(stats, &format!("noncanonical:{}:{}:{}", name, kind, tag)); }
        for m in ms {
            judge::<B, H>(c, &m.bytes, &format!("noncanonical:{}:{}:{}", name, m.kind, tag), format!("{} element {} ({}) limb {} := {}", name, m.elem, m.pos, m.limb, m.kind), stats, out);
        }
    }
}

/// the same for an accepted proof of the Lagrange-kernel AIR (harness/src/lagfam.rs): the only proofs whose OOD frame
/// carries Lagrange kernel states.  The rest of C03 keeps such AIRs out of scope; this class needs only the oracle.
fn noncanonical_lagrange<B: Fld, H>(hname: &str, ext: FieldExtension, r: &mut Rng, stats: &mut BTreeMap<String, Stats>, out: &mut Vec<String>)
where H: ElementHasher<BaseField = B> + Send + Sync {
    let (log_n, aw, nr) = (3u32, 2usize, 1usize);
    let opts = ProofOptions::new(4, 4, 0, ext, 2, 1);
    let prover = LagProver::<B, H, DefaultRandomCoin<H>>::new(opts.clone(), aw);
    let proof = match catch(AssertUnwindSafe(|| prover.prove(LagTrace::<B>::new(log_n, aw, nr)))) { Ok(Ok(p)) => p, _ => { note_infeasible(stats, "noncanonical:ood.lagrange"); return } };
    let _ = lagfam::take_uses();
    let acc = AcceptableOptions::OptionSet(vec![opts.clone()]);
    let ok = matches!(catch(AssertUnwindSafe(|| verify::<LagAir<B>, H, DefaultRandomCoin<H>>(proof.clone(), (), &acc))), Ok(Ok(())));
    let _ = lagfam::take_uses();
    if !ok { HONEST_REJECTED.with(|c| *c.borrow_mut() += 1); return; }
    let bytes = proof.to_bytes();
    let Some(lay) = dissect(&bytes, proof.context.to_bytes().len(), 2) else { return };
    let desc = format!("field={} hasher={} lagrange-kernel AIR n={} aux={}/{} ext={:?} bytes={}", B::NAME, hname, 1 << log_n, aw, nr, ext, bytes.len());
    println!("nc-config {}", desc);
    // one mutant of the Lagrange proof through the oracle: decoded content differs => rejected or parse error
    let mut judge_lag = |class: &str, what: String, mutant: &[u8], stats: &mut BTreeMap<String, Stats>, out: &mut Vec<String>| {
        if !CLASS_FILTER.with(|f| { let f = f.borrow(); f.is_empty() || class.contains(f.as_str()) }) { return; }
        let st = stats.entry(class.to_string()).or_default();
        st.mutants += 1;
        let p2 = match catch(AssertUnwindSafe(|| Proof::from_bytes(mutant))) { Err(_) => { st.panics += 1; return; } Ok(Err(_)) => { st.parse_err += 1; return; } Ok(Ok(p)) => p };
        if p2 == proof { st.same_content += 1; return; }
        let v = catch(AssertUnwindSafe(|| verify::<LagAir<B>, H, DefaultRandomCoin<H>>(p2, (), &acc)));
        let _ = lagfam::take_uses();
        match v {
            Err(_) => st.panics += 1,
            Ok(Err(_)) => st.rejected += 1,
            Ok(Ok(())) => {
                st.accepted_diff += 1;
                let mut kind = String::new();
                for ch in what.chars() { if ch.is_ascii_digit() { if !kind.ends_with('#') { kind.push('#'); } } else { kind.push(ch); } }
                if out.iter().any(|l| l.contains(&format!("\"kind\":{}", jstr(&format!("{}|{}", class, kind))))) { return; }
                out.push(format!("{{\"what\":{},\"input\":{},\"expected\":\"rejected or parse error\",\"actual\":\"accepted\",\"class\":{},\"kind\":{},\"proof_hex\":{}}}",
                    jstr(&format!("accepted mutant with different decoded content: {}: {}", class, what)), jstr(&desc), jstr(class), jstr(&format!("{}|{}", class, kind)), jstr(&hex_bytes(mutant))));
            }
        }
    };
    // `gkr:trailing-bytes`: bytes appended to the serialized GKR proof carried by the proof (`proof.gkr_proof`, an opaque
    // byte vector; its vint64 length prefix follows from re-serialisation).  Proof content that nothing looks at unless the
    // verifier insists that the GKR proof consumes its container
    if let Some(g) = proof.gkr_proof.clone() {
        for k in [1usize, 2, 17] {
            for (fill, extra) in [("zero", vec![0u8; k]), ("0xff", vec![0xffu8; k]), ("random", r.bytes(k))] {
                let mut p = proof.clone();
                let mut nb = g.clone(); nb.extend_from_slice(&extra);
                p.gkr_proof = Some(nb);
                judge_lag("gkr:trailing-bytes", format!("gkr_proof ({} bytes): {} {} bytes appended", g.len(), k, fill), &p.to_bytes(), stats, out);
            }
        }
        // the GKR proof cut short / emptied: must be refused as well (it is: the decoder runs out of bytes)
        let mut p = proof.clone(); p.gkr_proof = Some(vec![]);
        judge_lag("gkr:truncated", "gkr_proof emptied".into(), &p.to_bytes(), stats, out);
    }
    for (name, elems, f, deg) in element_regions::<B>(&bytes, &lay, ext.degree() as usize, hname) {
        let tag = if name.starts_with("digest.") { hname.to_string() } else { B::NAME.to_string() };
        let (ms, _) = noncanon::mutants(&bytes, &name, &elems, &f, deg);
        for m in ms {
            let class = format!("noncanonical:{}:{}:{}", name, m.kind, tag);
            judge_lag(&class, format!("{} element {} ({}) limb {} := {}", name, m.elem, m.pos, m.limb, m.kind), &m.bytes, stats, out);
        }
    }
}

fn note_infeasible(stats: &mut BTreeMap<String, Stats>, class: &str) { stats.entry(class.to_string()).or_default().infeasible += 1; }

// ================================================================================================ adaptive substitutions
/// query positions of the accepted proof, as the verifier draws them (RecordingCoin log), sorted and deduplicated
fn query_positions<B: Fld, H>(c: &Case<B>) -> Option<Vec<usize>>
where H: ElementHasher<BaseField = B> + Send + Sync {
    let _ = coinrec::take_log();
    let acc = AcceptableOptions::OptionSet(vec![c.opts.clone()]);
    let v = catch(AssertUnwindSafe(|| verify::<FamAir<B>, H, RecordingCoin<DefaultRandomCoin<H>>>(c.proof.clone(), c.pi.clone(), &acc)));
    let log = coinrec::take_log();
    if !matches!(v, Ok(Ok(()))) { return None; }
    let l = log.iter().find(|l| l.contains(" draw_integers "))?;
    let inner = l.split("-> [").nth(1)?.trim_end_matches(']');
    let mut p: Vec<usize> = inner.split(',').filter_map(|s| s.trim().parse().ok()).collect();
    p.sort_unstable(); p.dedup();
    Some(p)
}

/// documented layout of a partitioned FRI layer commitment: leaf index of folded position p is
/// (p mod np) * (target / np) + p div np; one partition = evaluation-domain order
fn ref_partition_index(p: usize, target: usize, np: usize) -> usize {
    if np == 1 { return p; }
    (p % np).wrapping_mul(target / np).wrapping_add(p / np)
}

thread_local! { static QPOS: RefCell<(String, Option<Vec<usize>>)> = RefCell::new((String::new(), None)); }

/// do the two partition counts send every queried position of every FRI layer to the same leaf?
fn partition_layout_same<B: Fld, H>(c: &Case<B>, np_a: usize, np_b: usize) -> bool
where H: ElementHasher<BaseField = B> + Send + Sync {
    let key = format!("{}#{}", c.desc, c.bytes.len());
    let cached = QPOS.with(|q| { let q = q.borrow(); if q.0 == key { Some(q.1.clone()) } else { None } });
    let pos = match cached { Some(p) => p, None => { let p = query_positions::<B, H>(c); QPOS.with(|q| *q.borrow_mut() = (key, p.clone())); p } };
    let Some(mut pos) = pos else { return false };
    let fold = c.opts.to_fri_options().folding_factor();
    let mut domain = c.proof.context.trace_info().length() * c.opts.blowup_factor();
    for _ in 0..c.proof.fri_proof.num_layers() {
        let folded = fold_pos(&pos, domain, fold);
        let target = domain / fold;
        if folded.iter().any(|&p| ref_partition_index(p, target, np_a) != ref_partition_index(p, target, np_b)) { return false; }
        pos = folded; domain = target;
    }
    true
}

fn fold_pos(p: &[usize], domain: usize, fold: usize) -> Vec<usize> {
    let t = domain / fold; let mut o: Vec<usize> = Vec::new();
    for &x in p { let y = x % t; if !o.contains(&y) { o.push(y); } }
    o
}

/// R + c * prod (x - offset * g_last^pos) over the folded last-layer positions; None when it does not fit the remainder
fn adaptive_remainder<B: Fld, E: FieldElement<BaseField = B>>(rem_bytes: &[u8], lde: usize, fold: usize, layers: usize, positions: &[usize], cmul: u64) -> Option<Vec<u8>> {
    let n = rem_bytes.len() / E::ELEMENT_BYTES;
    let mut rd = SliceReader::new(rem_bytes);
    let rem: Vec<E> = (0..n).map(|_| E::read_from(&mut rd)).collect::<Result<_, _>>().ok()?;
    let (mut dom, mut pos) = (lde, positions.to_vec());
    let mut g = B::get_root_of_unity(lde.ilog2());
    for _ in 0..layers { pos = fold_pos(&pos, dom, fold); dom /= fold; g = g.exp((fold as u64).into()); }
    if pos.len() + 1 > n { return None; }
    let mut prod: Vec<E> = vec![E::ONE];
    for &p in &pos {
        let x = E::from(B::GENERATOR * g.exp((p as u64).into()));
        let mut np = vec![E::ZERO; prod.len() + 1];
        for (i, &a) in prod.iter().enumerate() { np[i + 1] += a; np[i] -= a * x; }
        prod = np;
    }
    let c = E::from(B::from(cmul as u32));
    let mut out = rem.clone();
    for (i, &a) in prod.iter().enumerate() { out[i] += c * a; }
    if out == rem { return None; }
    let mut b = Vec::new();
    for e in &out { e.write_into(&mut b); }
    Some(b)
}

fn hash_elems<B: Fld, E: FieldElement<BaseField = B>, H: ElementHasher<BaseField = B>>(bytes: &[u8]) -> Vec<u8> {
    let mut rd = SliceReader::new(bytes);
    let v: Vec<E> = (0..bytes.len() / E::ELEMENT_BYTES).map(|_| E::read_from(&mut rd).unwrap()).collect();
    H::hash_elements(&v).to_bytes()
}

fn elem_bytes<B: Fld>(ext: FieldExtension) -> usize { B::ELEMENT_BYTES * ext.degree() as usize }

fn adaptive<B: Fld, H>(c: &Case<B>, r: &mut Rng, stats: &mut BTreeMap<String, Stats>, out: &mut Vec<String>)
where H: ElementHasher<BaseField = B> + Send + Sync {
    let lay = match layout_of(c, &c.bytes) { Some(l) => l, None => return };
    let lde = c.spec.n() * c.opts.blowup_factor();
    let fold = c.opts.to_fri_options().folding_factor();
    let layers = c.opts.to_fri_options().num_fri_layers(lde);
    let dsz = <H::Digest as Default>::default().to_bytes().len();
    // (1) remainder + multiple of the vanishing polynomial of the folded query positions
    match query_positions::<B, H>(c) {
        None => note_infeasible(stats, "adaptive:remainder+vanishing"),
        Some(pos) => {
            let rs = lay.get("fri.remainder");
            for cmul in [1u64, 5, 1 + r.below(1 << 20)] {
                let nb = match c.opts.field_extension() {
                    FieldExtension::None => adaptive_remainder::<B, B>(&c.bytes[rs.start..rs.end], lde, fold, layers, &pos, cmul),
                    FieldExtension::Quadratic => adaptive_remainder::<B, QuadExtension<B>>(&c.bytes[rs.start..rs.end], lde, fold, layers, &pos, cmul),
                    FieldExtension::Cubic => adaptive_remainder::<B, CubeExtension<B>>(&c.bytes[rs.start..rs.end], lde, fold, layers, &pos, cmul),
                };
                match nb {
                    None => note_infeasible(stats, "adaptive:remainder+vanishing"),
                    Some(nb) => {
                        let m = splice(&c.bytes, rs, &nb);
                        judge::<B, H>(c, &m, "adaptive:remainder+vanishing", format!("remainder := R + {} * prod(x - x_pos) over {} folded positions", cmul, pos.len()), stats, out);
                        // ... together with the recomputed dependent hash: the remainder commitment carried in the proof
                        let cs = lay.get("commitments");
                        let h = match c.opts.field_extension() {
                            FieldExtension::None => hash_elems::<B, B, H>(&nb),
                            FieldExtension::Quadratic => hash_elems::<B, QuadExtension<B>, H>(&nb),
                            FieldExtension::Cubic => hash_elems::<B, CubeExtension<B>, H>(&nb),
                        };
                        let mut m2 = m.clone();
                        m2[cs.end - dsz..cs.end].copy_from_slice(&h);
                        judge::<B, H>(c, &m2, "adaptive:remainder+vanishing+recommit", format!("remainder := R + {} * prod(x - x_pos), remainder commitment recomputed", cmul), stats, out);
                    }
                }
            }
        }
    }
    // (2) swapping two opened rows / (3) replacing or swapping Merkle nodes, in every opened table
    let eb = elem_bytes::<B>(c.opts.field_extension());
    let mut tables: Vec<(String, usize)> = vec![("tq0".into(), c.spec.width * B::ELEMENT_BYTES)];
    if c.spec.aux_width > 0 { tables.push(("tq1".into(), c.spec.aux_width * eb)); }
    let cq = lay.get("cq.values"); let nq = c.proof.num_unique_queries as usize;
    tables.push(("cq".into(), (cq.end - cq.start) / nq.max(1)));
    for i in 0..lay.nlayers { tables.push((format!("fri{}", i), fold * eb)); }
    for (t, rowlen) in &tables {
        let vs = lay.get(&format!("{}.values", t));
        let rows = (vs.end - vs.start) / rowlen;
        let class = format!("adaptive:swap-rows:{}", t.trim_end_matches(char::is_numeric));
        if rows >= 2 {
            for _ in 0..3 {
                let (i, j) = (r.below(rows as u64) as usize, r.below(rows as u64) as usize);
                if i == j { continue; }
                let mut m = c.bytes.clone();
                for k in 0..*rowlen { m.swap(vs.start + i * rowlen + k, vs.start + j * rowlen + k); }
                judge::<B, H>(c, &m, &class, format!("rows {} and {} of {} swapped", i, j, t), stats, out);
            }
            // a row replaced by a copy of another opened row (a duplicated position's row)
            let (i, j) = (0, rows - 1);
            let mut m = c.bytes.clone();
            for k in 0..*rowlen { m[vs.start + i * rowlen + k] = c.bytes[vs.start + j * rowlen + k]; }
            judge::<B, H>(c, &m, &format!("adaptive:dup-row:{}", t.trim_end_matches(char::is_numeric)), format!("row {} of {} := row {}", i, t, j), stats, out);
        } else { note_infeasible(stats, &class); }
        // Merkle nodes: paths = u8 #vectors, then per vector u8 #digests + digests
        let ps = lay.get(&format!("{}.paths", t));
        let pb = &c.bytes[ps.start..ps.end];
        let mut offs = Vec::new();
        if !pb.is_empty() { let nv = pb[0] as usize; let mut p = 1; for _ in 0..nv { if p >= pb.len() { break; } let nd = pb[p] as usize; p += 1; for _ in 0..nd { if p + dsz <= pb.len() { offs.push(p); } p += dsz; } } }
        // structure-aware extension of the count-prefixed parts of the batch proof (count bytes AND the u32 length fixed):
        // a well-formed surplus node vector (empty / one digest / two digests) appended, a surplus digest appended to an
        // existing vector, an empty vector inserted in front
        if !pb.is_empty() && pb[0] < 255 {
            let sclass = format!("structured-extend:merkle-node-vector:{}", t.trim_end_matches(char::is_numeric));
            let cs = lay.get("commitments");
            let some_digest = c.bytes[cs.start..cs.start + dsz].to_vec();
            let extras: Vec<(&str, Vec<u8>)> = vec![
                ("an empty node vector appended", vec![0u8]),
                ("a node vector holding one zero digest appended", { let mut v = vec![1u8]; v.extend(std::iter::repeat(0u8).take(dsz)); v }),
                ("a node vector holding one commitment appended", { let mut v = vec![1u8]; v.extend_from_slice(&some_digest); v }),
                ("a node vector holding two random digests appended", { let mut v = vec![2u8]; v.extend(r.bytes(2 * dsz)); v }),
            ];
            for (w, ex) in extras {
                let mut b = pb.to_vec(); b[0] += 1; b.extend_from_slice(&ex);
                judge::<B, H>(c, &splice(&c.bytes, ps, &b), &sclass, format!("{}: {}", t, w), stats, out);
            }
            { let mut b = vec![pb[0] + 1, 0u8]; b.extend_from_slice(&pb[1..]);
              judge::<B, H>(c, &splice(&c.bytes, ps, &b), &sclass, format!("{}: an empty node vector inserted in front", t), stats, out); }
            // a surplus digest at the end of the last non-trivial vector (its count byte incremented)
            let nv = pb[0] as usize; let mut q = 1usize; let mut last: Option<(usize, usize)> = None;
            for _ in 0..nv { if q >= pb.len() { break; } let nd = pb[q] as usize; last = Some((q, q + 1 + nd * dsz)); q += 1 + nd * dsz; }
            if let Some((cnt, end)) = last { if end <= pb.len() && pb[cnt] < 255 {
                let mut b = pb[..end].to_vec(); b[cnt] += 1; b.extend_from_slice(&some_digest); b.extend_from_slice(&pb[end..]);
                judge::<B, H>(c, &splice(&c.bytes, ps, &b), &format!("structured-extend:merkle-node:{}", t.trim_end_matches(char::is_numeric)), format!("{}: a surplus digest appended to the last node vector", t), stats, out);
            } }
        }
        let class = format!("adaptive:merkle-node:{}", t.trim_end_matches(char::is_numeric));
        if offs.is_empty() { note_infeasible(stats, &class); continue; }
        for _ in 0..3 {
            let o = ps.start + *r.pick(&offs);
            let mut m = c.bytes.clone();
            // a node replaced by another digest of the proof (a commitment), by a sibling node, by the all-zero digest
            match r.below(3) { 0 => { let cs = lay.get("commitments"); let src = cs.start; for k in 0..dsz { m[o + k] = c.bytes[src + k]; } }
                               1 => { let o2 = ps.start + *r.pick(&offs); for k in 0..dsz { m[o + k] = c.bytes[o2 + k]; } }
                               _ => { for k in 0..dsz { m[o + k] = 0; } } }
            judge::<B, H>(c, &m, &class, format!("one Merkle node of {} replaced", t), stats, out);
        }
        if offs.len() >= 2 {
            let (a, b) = (ps.start + offs[0], ps.start + offs[offs.len() - 1]);
            let mut m = c.bytes.clone();
            for k in 0..dsz { m.swap(a + k, b + k); }
            judge::<B, H>(c, &m, &class, format!("two Merkle nodes of {} swapped", t), stats, out);
        }
    }
    // (4) one OOD value changed (the dependent hash is recomputed by the verifier itself: nothing to patch), OOD rows exchanged
    for name in ["ood.trace", "ood.evals"] {
        let s = lay.get(name);
        let first = if name == "ood.trace" { s.start + 1 } else { s.start };
        let n = (s.end - first) / eb;
        if n == 0 { continue; }
        let k = r.below(n as u64) as usize;
        let mut m = c.bytes.clone();
        m[first + k * eb] = m[first + k * eb].wrapping_add(1);
        judge::<B, H>(c, &m, "adaptive:ood-value", format!("{} element {} += 1", name, k), stats, out);
        if n >= 2 {
            let mut m = c.bytes.clone();
            for b in 0..eb { m.swap(first + b, first + (n - 1) * eb + b); }
            judge::<B, H>(c, &m, "adaptive:ood-value", format!("{} first and last element exchanged", name), stats, out);
        }
    }
}

// ================================================================================================ component-wise edits
fn component_edits<B: Fld, H>(c: &Case<B>, r: &mut Rng, stats: &mut BTreeMap<String, Stats>, out: &mut Vec<String>)
where H: ElementHasher<BaseField = B> + Send + Sync {
    let lay = match layout_of(c, &c.bytes) { Some(l) => l, None => return };
    let eb = elem_bytes::<B>(c.opts.field_extension());
    let dsz = <H::Digest as Default>::default().to_bytes().len();
    // truncation / extension of EVERY length-prefixed component (prefix rewritten so that the rest of the proof stays aligned)
    for s in lay.segs.iter().filter(|s| s.pfx.is_some()) {
        let body = &c.bytes[s.start..s.end];
        let cname: String = s.name.chars().filter(|ch| !ch.is_ascii_digit()).collect();
        for k in [1usize, 2, eb, dsz, 2 * eb] {
            if body.len() >= k {
                judge::<B, H>(c, &splice(&c.bytes, s, &body[..body.len() - k]), &format!("component-truncate:{}", cname), format!("{}: last {} bytes dropped", s.name, k), stats, out);
            }
            let mut b = body.to_vec(); b.extend(std::iter::repeat(0u8).take(k));
            judge::<B, H>(c, &splice(&c.bytes, s, &b), &format!("component-extend:{}", cname), format!("{}: {} zero bytes appended", s.name, k), stats, out);
            let mut b = body.to_vec(); b.extend(r.bytes(k));
            judge::<B, H>(c, &splice(&c.bytes, s, &b), &format!("component-extend:{}", cname), format!("{}: {} random bytes appended", s.name, k), stats, out);
            if body.len() >= k { let mut b = body.to_vec(); b.extend_from_slice(&body[body.len() - k..]);
                judge::<B, H>(c, &splice(&c.bytes, s, &b), &format!("component-extend:{}", cname), format!("{}: last {} bytes repeated", s.name, k), stats, out); }
        }
        judge::<B, H>(c, &splice(&c.bytes, s, &[]), &format!("component-truncate:{}", cname), format!("{}: emptied", s.name), stats, out);
        // the prefix alone (body untouched: the following components shift)
        if let Some((p, _)) = s.pfx { for d in [1u8, 0xff] { let mut m = c.bytes.clone(); m[p] = m[p].wrapping_add(d); judge::<B, H>(c, &m, "component-prefix", format!("{}: length prefix {:+}", s.name, d as i8), stats, out); } }
    }
    // every fixed-width field x boundary and random values
    for name in ["nq", "fri.nlayers", "fri.partitions", "nonce", "gkr"] {
        let s = lay.get(name);
        for v in [0u8, 1, 2, 0x7f, 0x80, 0xfe, 0xff, r.next_u64() as u8] {
            for off in s.start..s.end { if c.bytes[off] != v { let mut m = c.bytes.clone(); m[off] = v; judge::<B, H>(c, &m, &format!("field:{}", name), format!("{} byte {} := {:#x}", name, off - s.start, v), stats, out); } }
        }
    }
    // a GKR proof attached (the last byte is Option::None)
    {
        let mut m = c.bytes.clone(); let l = m.len(); m[l - 1] = 1; m.extend([7u8, 1, 2, 3]); // Some(vec![1,2,3]): vint length 3 = 0b0111
        judge::<B, H>(c, &m, "edit:gkr-proof-added", "gkr_proof := Some([1,2,3])".into(), stats, out);
    }
    // FRI layers appended / removed / duplicated / exchanged
    {
        let nl = lay.get("fri.nlayers"); let rs = lay.get("fri.remainder"); let ins = rs.pfx.unwrap().0;
        let fold = c.opts.to_fri_options().folding_factor();
        let mut fab = Vec::new();   // a well-formed layer: one all-zero row, a batch proof without nodes
        fab.extend(((fold * eb) as u32).to_le_bytes()); fab.extend(std::iter::repeat(0u8).take(fold * eb)); fab.extend(1u32.to_le_bytes()); fab.push(0);
        let mut variants: Vec<(String, Vec<u8>)> = vec![("fabricated layer appended".into(), fab)];
        if lay.nlayers > 0 {
            let a = lay.get(&format!("fri{}.values", lay.nlayers - 1)).pfx.unwrap().0;
            variants.push(("copy of the last layer appended".into(), c.bytes[a..ins].to_vec()));
            let a0 = lay.get("fri0.values").pfx.unwrap().0; let e0 = lay.get("fri0.paths").end;
            variants.push(("copy of the first layer appended".into(), c.bytes[a0..e0].to_vec()));
        }
        for (w, extra) in variants {
            let mut m = c.bytes[..ins].to_vec(); m.extend_from_slice(&extra); m.extend_from_slice(&c.bytes[ins..]);
            m[nl.start] = m[nl.start].wrapping_add(1);
            judge::<B, H>(c, &m, "edit:fri-layer-added", w, stats, out);
        }
        if lay.nlayers > 0 {
            let a = lay.get(&format!("fri{}.values", lay.nlayers - 1)).pfx.unwrap().0;
            let mut m = c.bytes[..a].to_vec(); m.extend_from_slice(&c.bytes[ins..]); m[nl.start] -= 1;
            judge::<B, H>(c, &m, "edit:fri-layer-removed", "last layer removed".into(), stats, out);
        }
        if lay.nlayers >= 2 {
            let a0 = lay.get("fri0.values").pfx.unwrap().0; let a1 = lay.get("fri1.values").pfx.unwrap().0; let e1 = lay.get("fri1.paths").end;
            let mut m = c.bytes[..a0].to_vec(); m.extend_from_slice(&c.bytes[a1..e1]); m.extend_from_slice(&c.bytes[a0..a1]); m.extend_from_slice(&c.bytes[e1..]);
            judge::<B, H>(c, &m, "edit:fri-layers-exchanged", "layers 0 and 1 exchanged".into(), stats, out);
        }
    }
    // commitments exchanged (trace <-> constraint, FRI roots among themselves)
    {
        let cs = lay.get("commitments"); let n = (cs.end - cs.start) / dsz;
        for _ in 0..4 { let (i, j) = (r.below(n as u64) as usize, r.below(n as u64) as usize); if i == j { continue; }
            let mut m = c.bytes.clone(); for k in 0..dsz { m.swap(cs.start + i * dsz + k, cs.start + j * dsz + k); }
            judge::<B, H>(c, &m, "edit:commitments-exchanged", format!("commitments {} and {} exchanged", i, j), stats, out); }
    }
    // OOD frame: frame-size byte, Lagrange-kernel frame fabricated
    {
        let s = lay.get("ood.trace");
        for v in [0u8, 1, 3, 4, 0xff] { let mut m = c.bytes.clone(); m[s.start] = v; judge::<B, H>(c, &m, "field:ood-frame-size", format!("frame size := {}", v), stats, out); }
        let l = lay.get("ood.lagrange");
        for k in [1usize, 2, 3] { let mut b = vec![k as u8]; b.extend(std::iter::repeat(0u8).take(k * eb));
            judge::<B, H>(c, &splice(&c.bytes, l, &b), "edit:lagrange-frame-added", format!("Lagrange kernel frame of {} zero elements attached", k), stats, out); }
    }
    // trace metadata (decoded content: TraceInfo::meta): trailing zero, changed byte, removed byte
    {
        let s = lay.get("ctx");
        let ml = rd(&c.bytes, s.start + 4, 2).unwrap_or(0);
        let (ms, me) = (s.start + 6, s.start + 6 + ml);
        let meta_edit = |newmeta: Vec<u8>| -> Vec<u8> { let mut m = c.bytes[..ms].to_vec(); m.extend_from_slice(&newmeta); m.extend_from_slice(&c.bytes[me..]); m[s.start + 4] = (newmeta.len() & 0xff) as u8; m[s.start + 5] = (newmeta.len() >> 8) as u8; m };
        let meta = c.bytes[ms..me].to_vec();
        debug_assert_eq!(meta, c.meta);
        let mut z = meta.clone(); z.push(0);
        judge::<B, H>(c, &meta_edit(z), "edit:trace-meta", "trace metadata: one zero byte appended".into(), stats, out);
        let mut z = meta.clone(); z.push(1);
        judge::<B, H>(c, &meta_edit(z), "edit:trace-meta", "trace metadata: one byte 0x01 appended".into(), stats, out);
        if !meta.is_empty() {
            let mut z = meta.clone(); z.pop();
            judge::<B, H>(c, &meta_edit(z), "edit:trace-meta", "trace metadata: last byte dropped".into(), stats, out);
            let mut z = meta.clone(); let k = r.below(z.len() as u64) as usize; z[k] ^= 1;
            judge::<B, H>(c, &meta_edit(z), "edit:trace-meta", "trace metadata: one bit changed".into(), stats, out);
        }
    }
}

fn run_case<B: Fld, H>(c: &Case<B>, r: &mut Rng, stats: &mut BTreeMap<String, Stats>, out: &mut Vec<String>, exhaustive_bits: bool)
where H: ElementHasher<BaseField = B> + Send + Sync {
    let n = c.bytes.len();
    // (a) single-bit flips
    let total_bits = n * 8;
    let stride = if exhaustive_bits { 1 } else { (total_bits / 1500).max(1) };
    let mut i = r.below(stride as u64) as usize;
    while i < total_bits {
        let mut m = c.bytes.clone();
        m[i / 8] ^= 1 << (i % 8);
        judge::<B, H>(c, &m, "bitflip", format!("bit {} of byte {}", i % 8, i / 8), stats, out);
        i += stride;
    }
    // (b) byte replacement with boundary values at every offset (sampled)
    for _ in 0..600.min(n * 2) {
        let pos = r.below(n as u64) as usize;
        let v = *r.pick(&[0u8, 1, 0x7f, 0x80, 0xfe, 0xff]);
        if c.bytes[pos] == v { continue; }
        let mut m = c.bytes.clone(); m[pos] = v;
        judge::<B, H>(c, &m, "byte-boundary", format!("byte {} := {:#x}", pos, v), stats, out);
    }
    // (c) truncation / extension of the whole proof
    for k in [1usize, 2, 3, 8, 16, 32] {
        if n > k { judge::<B, H>(c, &c.bytes[..n - k], "truncate", format!("drop last {} bytes", k), stats, out); }
        let mut m = c.bytes.clone(); m.extend(std::iter::repeat(0u8).take(k));
        judge::<B, H>(c, &m, "extend-zeros", format!("append {} zero bytes", k), stats, out);
        let mut m = c.bytes.clone(); m.extend(r.bytes(k));
        judge::<B, H>(c, &m, "extend-random", format!("append {} random bytes", k), stats, out);
    }
    for _ in 0..40 {
        let cut = r.below(n as u64) as usize;
        judge::<B, H>(c, &c.bytes[..cut], "truncate", format!("truncate at {}", cut), stats, out);
    }
    // (d) structural edits on the decoded proof, re-serialised
    let edits: Vec<(&str, Box<dyn Fn(&mut Proof, &mut Rng)>)> = vec![
        ("nonce", Box::new(|p: &mut Proof, r: &mut Rng| { p.pow_nonce = p.pow_nonce.wrapping_add(1 + r.below(5)); })),
        ("num-unique-queries", Box::new(|p: &mut Proof, r: &mut Rng| { p.num_unique_queries = p.num_unique_queries.wrapping_add(1 + r.below(3) as u8); })),
        ("swap-trace-constraint-queries", Box::new(|p: &mut Proof, _| { let t = p.trace_queries[0].clone(); p.trace_queries[0] = p.constraint_queries.clone(); p.constraint_queries = t; })),
        ("dup-trace-queries", Box::new(|p: &mut Proof, _| { let t = p.trace_queries[0].clone(); p.trace_queries.push(t); })),
        ("swap-trace-segments", Box::new(|p: &mut Proof, _| { if p.trace_queries.len() == 2 { p.trace_queries.swap(0, 1); } })),
    ];
    for (name, f) in edits.iter() {
        let mut p = c.proof.clone();
        f(&mut p, r);
        if p == c.proof { continue; }
        judge::<B, H>(c, &p.to_bytes(), &format!("edit:{}", name), name.to_string(), stats, out);
    }
    // (e) every component of the wire format, (f) substitutions that need the query positions
    component_edits::<B, H>(c, r, stats, out);
    adaptive::<B, H>(c, r, stats, out);
}

// ================================================================================================ correspondence
/// The observable event list of the real verifier on an accepted proof.
fn observe<B: Fld, H>(c: &Case<B>) -> (String, String)
where H: ElementHasher<BaseField = B> + Send + Sync {
    type LH<H> = LoggingHasher<H>;
    let lay = layout_of(c, &c.bytes).expect("layout");
    let eb = elem_bytes::<B>(c.opts.field_extension());
    let dsz = <H::Digest as Default>::default().to_bytes().len();
    let fold = c.opts.to_fri_options().folding_factor();
    let lde = c.spec.n() * c.opts.blowup_factor();
    let nseg = if c.spec.aux_width > 0 { 2 } else { 1 };
    let nq = c.proof.num_unique_queries as usize;
    // ---- names of the proof's components, from the wire format only
    let mut rows: HashMap<Vec<u8>, String> = HashMap::new();
    let mut add_rows = |name: &str, comp: &str, rowlen: usize| { for ch in lay.body(&c.bytes, name).chunks(rowlen) { rows.entry(ch.to_vec()).or_insert(comp.to_string()); } };
    add_rows("tq0.values", "trace0", c.spec.width * B::ELEMENT_BYTES);
    if nseg == 2 { add_rows("tq1.values", "trace1", c.spec.aux_width * eb); }
    let cql = lay.body(&c.bytes, "cq.values").len();
    add_rows("cq.values", "constraint", cql / nq);
    let mut frirows = Vec::new();
    for i in 0..lay.nlayers { add_rows(&format!("fri{}.values", i), &format!("fri{}", i), fold * eb); frirows.push(lay.body(&c.bytes, &format!("fri{}.values", i)).len() / (fold * eb)); }
    let mut whole: HashMap<Vec<u8>, String> = HashMap::new();
    { let mut t = lay.body(&c.bytes, "ood.trace")[1..].to_vec(); t.extend_from_slice(&lay.body(&c.bytes, "ood.lagrange")[1..]); whole.insert(t, "oodtrace".into()); }
    whole.insert(lay.body(&c.bytes, "ood.evals").to_vec(), "oodevals".into());
    whole.insert(lay.body(&c.bytes, "fri.remainder").to_vec(), "remainder".into());
    let cb = lay.body(&c.bytes, "commitments");
    let mut roots: HashMap<Vec<u8>, String> = HashMap::new();
    let ncom = cb.len() / dsz;
    for k in 0..ncom {
        let name = if k < nseg { format!("traceroot{}", k) } else if k == nseg { "constraintroot".to_string() } else if k == ncom - 1 { "remroot".to_string() } else { format!("friroot{}", k - nseg - 1) };
        roots.entry(cb[k * dsz..(k + 1) * dsz].to_vec()).or_insert(name);
    }
    // ---- run the real verifier
    let _ = take_ulog();
    let acc = AcceptableOptions::OptionSet(vec![c.opts.clone()]);
    let v = catch(AssertUnwindSafe(|| verify::<FamAir<B>, LH<H>, RecordingCoin<DefaultRandomCoin<LH<H>>>>(c.proof.clone(), c.pi.clone(), &acc)));
    let log = take_ulog();
    // ---- abstraction
    let mut ev: Vec<String> = Vec::new();
    let mut push = |ev: &mut Vec<String>, kind: &str, arg: &str| {
        // runs of Draw / HashLeaves c are collapsed into one event with a count
        if let Some(last) = ev.last_mut() {
            let mut parts: Vec<String> = last.split(' ').map(|s| s.to_string()).collect();
            if (kind == "Draw" && parts[0] == "Draw") || (kind == "HashLeaves" && parts[0] == "HashLeaves" && parts[1] == arg) {
                let n: usize = parts.last().unwrap().parse().unwrap(); let l = parts.len(); parts[l - 1] = (n + 1).to_string(); *last = parts.join(" "); return;
            }
        }
        ev.push(match kind { "Draw" => "Draw 1".to_string(), "HashLeaves" => format!("HashLeaves {} 1", arg), _ => if arg.is_empty() { kind.to_string() } else { format!("{} {}", kind, arg) } });
    };
    let (mut pending_new, mut pending_reseed): (bool, Option<String>) = (false, None);
    let mut hashed: HashMap<Vec<u8>, String> = HashMap::new();   // digest -> H(name)
    let mut leaf_of: HashMap<Vec<u8>, String> = HashMap::new();  // digest -> component whose row hashes to it
    let mut block: BTreeSet<String> = BTreeSet::new();
    let mut block_open = false;
    let mut reseeded = false;
    for e in log {
        match e {
            Ent::Coin(s) => {
                let mut it = s.splitn(3, ' '); let _ = it.next(); let op = it.next().unwrap_or(""); let rest = it.next().unwrap_or("");
                match op {
                    "new" => pending_new = true,
                    "reseed" => { reseeded = true; pending_reseed = Some(rest.to_string()) },
                    "draw" => push(&mut ev, "Draw", ""),
                    "check_leading_zeros" => push(&mut ev, "CheckPow", ""),
                    "draw_integers" => push(&mut ev, "DrawPositions", ""),
                    _ => push(&mut ev, "Coin?", op),
                }
            }
            Ent::HashElems { bytes, out } => {
                if pending_new { pending_new = false; push(&mut ev, "AbsorbSeed", ""); }
                // rows are hashed while the channel is built (before the first reseed), whole components afterwards; the two
                // tables are consulted in that order only (a constant composition polynomial makes an opened row equal to
                // the OOD evaluations)
                else if !reseeded && rows.contains_key(&bytes) { let cn = rows[&bytes].clone(); leaf_of.insert(out, cn.clone()); push(&mut ev, "HashLeaves", &cn); }
                else if reseeded && whole.contains_key(&bytes) { let w = whole[&bytes].clone(); hashed.insert(out, format!("H({})", w)); push(&mut ev, "HashWhole", &w); }
                else { push(&mut ev, "HashElems?", &bytes.len().to_string()); }
            }
            Ent::HashBytes { len } => push(&mut ev, "HashBytes?", &len.to_string()),
            Ent::MergeInt => {}
            Ent::Merge { a, b, out } => {
                if let Some(d) = pending_reseed.take() {
                    let db = if d == "-" { vec![] } else { (0..d.len() / 2).map(|i| u8::from_str_radix(&d[2 * i..2 * i + 2], 16).unwrap()).collect::<Vec<u8>>() };
                    let name = if db != b { "?mismatch".to_string() } else if let Some(n) = roots.get(&db) { n.clone() } else if let Some(n) = hashed.get(&db) { n.clone() } else { "?".to_string() };
                    push(&mut ev, "Absorb", &name);
                } else {
                    block_open = true;
                    for x in [&a, &b] { if let Some(cn) = leaf_of.get(x) { block.insert(cn.clone()); } }
                    if let Some(rn) = roots.get(&out) {
                        let cs: Vec<String> = block.iter().cloned().collect();
                        push(&mut ev, "AuthCheck", &format!("{} {}", if cs.is_empty() { "?".to_string() } else { cs.join("+") }, rn));
                        block.clear(); block_open = false;
                    }
                }
            }
        }
    }
    if block_open { let cs: Vec<String> = block.iter().cloned().collect(); push(&mut ev, "AuthCheck", &format!("{} ?", cs.join("+"))); }
    ev.push(format!("verdict={}", match v { Ok(Ok(())) => "ok", Ok(Err(_)) => "rejected", Err(_) => "panic" }));
    // ---- the shape, from the AIR and the wire format
    let air = FamAir::<B>::new(c.proof.trace_info().clone(), c.pi.clone(), c.opts.clone());
    let ncomp = air.context().num_transition_constraints() + air.context().num_assertions();
    let ndeep = air.trace_info().width() + air.context().num_constraint_composition_columns();
    let shape = format!("shape aux={} auxrands={} ncomp={} ndeep={} layers={} q={} frirows={} grind={}", (nseg == 2) as u8, c.spec.aux_rands, ncomp, ndeep,
        c.opts.to_fri_options().num_fri_layers(lde), nq, if frirows.is_empty() { "-".to_string() } else { frirows.iter().map(|x| x.to_string()).collect::<Vec<_>>().join(",") }, c.opts.grinding_factor());
    (shape, ev.join(";"))
}

fn corr(seed: u64, n: usize) {
    let mut r = Rng::new(seed);
    let mut seen = BTreeMap::new();
    for i in 0..n {
        let want = Want {
            // the cubic extension exists for f64 only (even i)
            ext: Some(if i % 14 == 6 { FieldExtension::Cubic } else if (i / 2) % 2 == 0 { FieldExtension::None } else { FieldExtension::Quadratic }),
            layers: Some((i / 4) % 3), aux: Some((i / 12) % 2 == 1), grind: Some((i / 24) % 2 == 1), min_domain: 16, many_queries: (i / 48) % 2 == 1, meta: vec![], big_remainder: false, no_preverify: true, constant: false,
        };
        let res = match (i % 2, (i / 96) % 3) {
            (0, 0) => make_case::<f64::BaseElement, Blake3_256<f64::BaseElement>>(&mut r, 1 << 20, "blake3_256", &want).map(|c| { if i % 6 == 0 { let sh = observe::<_, Blake3_256<f64::BaseElement>>(&c).0; policy_probe::<_, Blake3_256<f64::BaseElement>>(&c, &mut Rng::new(seed ^ i as u64), &sh); } (c.desc.clone(), observe::<_, Blake3_256<f64::BaseElement>>(&c)) }),
            (0, 1) => make_case::<f64::BaseElement, ToyHasher<f64::BaseElement>>(&mut r, 1 << 20, "toy", &want).map(|c| (c.desc.clone(), observe::<_, ToyHasher<f64::BaseElement>>(&c))),
            (0, _) => make_case::<f64::BaseElement, Rp64_256>(&mut r, 1 << 20, "rp64_256", &want).map(|c| (c.desc.clone(), observe::<_, Rp64_256>(&c))),
            (_, 1) => make_case::<f128::BaseElement, ToyHasher<f128::BaseElement>>(&mut r, 1 << 20, "toy", &want).map(|c| (c.desc.clone(), observe::<_, ToyHasher<f128::BaseElement>>(&c))),
            (_, _) => make_case::<f128::BaseElement, Blake3_256<f128::BaseElement>>(&mut r, 1 << 20, "blake3_256", &want).map(|c| { if i % 6 == 1 { let sh = observe::<_, Blake3_256<f128::BaseElement>>(&c).0; policy_probe::<_, Blake3_256<f128::BaseElement>>(&c, &mut Rng::new(seed ^ i as u64), &sh); } (c.desc.clone(), observe::<_, Blake3_256<f128::BaseElement>>(&c)) }),
        };
        match res {
            Some((desc, (shape, evs))) => {
                println!("{} => {}", shape, evs);
                let key = format!("{} layers={} aux={} grind={} manyq={}", desc.split(' ').next().unwrap_or(""), (i / 4) % 3, (i / 12) % 2, (i / 24) % 2, (i / 48) % 2);
                *seen.entry(key).or_insert(0usize) += 1;
                eprintln!("# case {} {}", i, desc);
            }
            None => println!("#nocase {}", i),
        }
    }
    println!("#classes {}", seen.len());
    println!("#honest_rejected {}", HONEST_REJECTED.with(|c| *c.borrow()));
}

fn main() {
    silence_panics();
    let args: Vec<String> = std::env::args().collect();
    let seed: u64 = args.get(2).and_then(|s| s.parse().ok()).unwrap_or(1);
    let n: usize = args.get(3).and_then(|s| s.parse().ok()).unwrap_or(4);
    if args.get(1).map(|s| s.as_str()) == Some("corr") { corr(seed, n); return; }
    let maxb: usize = args.get(4).and_then(|s| s.parse().ok()).unwrap_or(2500);
    if args.get(1).map(|s| s.as_str()) == Some("replay") { CLASS_FILTER.with(|f| *f.borrow_mut() = args.get(5).cloned().unwrap_or_default()); }
    let mut r = Rng::new(seed);
    let mut stats = BTreeMap::new();
    let mut out = Vec::new();
    let mut descs = Vec::new();
    for i in 0..n {
        let exhaustive = i < 2;
        // every 4th..: a trace with metadata (decoded content of the context); the others as drawn
        let want = Want { min_domain: 64, meta: if i % 3 == 2 { let k = 1 + r.below(6) as usize; r.bytes(k).iter().map(|b| b | 1).collect() } else { vec![] }, ..Default::default() };
        match i % 4 {
            0 => if let Some(c) = make_case::<f64::BaseElement, Blake3_256<f64::BaseElement>>(&mut r, maxb, "blake3_256", &want) { descs.push(c.desc.clone()); run_case::<f64::BaseElement, Blake3_256<f64::BaseElement>>(&c, &mut r, &mut stats, &mut out, exhaustive); },
            1 => if let Some(c) = make_case::<f128::BaseElement, Blake3_256<f128::BaseElement>>(&mut r, maxb, "blake3_256", &want) { descs.push(c.desc.clone()); run_case::<f128::BaseElement, Blake3_256<f128::BaseElement>>(&c, &mut r, &mut stats, &mut out, exhaustive); },
            2 => if let Some(c) = make_case::<f64::BaseElement, ToyHasher<f64::BaseElement>>(&mut r, maxb, "toy", &want) { descs.push(c.desc.clone()); run_case::<f64::BaseElement, ToyHasher<f64::BaseElement>>(&c, &mut r, &mut stats, &mut out, exhaustive); },
            _ => if let Some(c) = make_case::<f64::BaseElement, Rp64_256>(&mut r, maxb, "rp64_256", &want) { descs.push(c.desc.clone()); run_case::<f64::BaseElement, Rp64_256>(&c, &mut r, &mut stats, &mut out, exhaustive); },
        }
        // a second proof of the same round whose remainder is large enough for the position-dependent substitution
        let want = Want { min_domain: 64, big_remainder: true, ext: Some(if i % 2 == 0 { FieldExtension::None } else if i % 3 != 1 && i % 4 == 3 { FieldExtension::Cubic } else { FieldExtension::Quadratic }), ..Default::default() };
        match i % 3 {
            0 => if let Some(c) = make_case::<f64::BaseElement, Blake3_256<f64::BaseElement>>(&mut r, 1 << 16, "blake3_256", &want) { descs.push(c.desc.clone()); adaptive::<f64::BaseElement, Blake3_256<f64::BaseElement>>(&c, &mut r, &mut stats, &mut out); },
            1 => if let Some(c) = make_case::<f128::BaseElement, Blake3_256<f128::BaseElement>>(&mut r, 1 << 16, "blake3_256", &want) { descs.push(c.desc.clone()); adaptive::<f128::BaseElement, Blake3_256<f128::BaseElement>>(&c, &mut r, &mut stats, &mut out); },
            _ => if let Some(c) = make_case::<f64::BaseElement, ToyHasher<f64::BaseElement>>(&mut r, 1 << 16, "toy", &want) { descs.push(c.desc.clone()); adaptive::<f64::BaseElement, ToyHasher<f64::BaseElement>>(&c, &mut r, &mut stats, &mut out); },
        }
    }
    // ---- element-level family: dedicated accepted proofs (all three base fields, every extension degree, the three Rescue
    // digests, all-zero traces so that "modulus + original value" fits the word) and the Lagrange-kernel AIR
    {
        use FieldExtension::{Cubic as X3, None as X1, Quadratic as X2};
        type B64 = f64::BaseElement; type B128 = f128::BaseElement; type B62 = f62::BaseElement;
        let mut r = Rng::new(seed ^ 0x0C03_E1E5);
        macro_rules! nc {
            ($b:ty, $h:ty, $hn:expr, $ext:expr, $aux:expr, $constant:expr) => {{
                let want = Want { ext: Some($ext), aux: Some($aux), constant: $constant, min_domain: 16, ..Default::default() };
                match make_case::<$b, $h>(&mut r, 1 << 16, $hn, &want) {
                    Some(c) => { println!("nc-config {} constant={}", c.desc, $constant); noncanonical::<$b, $h>(&c, &mut stats, &mut out); }
                    None => println!("nc-noconfig {} {} {:?} aux={} constant={}", <$b as Fld>::NAME, $hn, $ext, $aux, $constant),
                }
            }};
        }
        nc!(B64, Blake3_256<B64>, "blake3_256", X1, false, true);
        nc!(B64, Blake3_256<B64>, "blake3_256", X3, false, true);
        nc!(B64, Blake3_256<B64>, "blake3_256", X2, true, true);
        nc!(B64, Blake3_256<B64>, "blake3_256", X3, true, false);
        nc!(B64, Rp64_256, "rp64_256", X2, true, false);
        nc!(B64, RpJive64_256, "rpjive64_256", X1, false, false);
        nc!(B128, Blake3_256<B128>, "blake3_256", X1, false, true);
        nc!(B128, Blake3_256<B128>, "blake3_256", X2, false, true);
        nc!(B128, Blake3_256<B128>, "blake3_256", X2, true, true);
        nc!(B128, Blake3_256<B128>, "blake3_256", X2, true, false);
        nc!(B62, Blake3_256<B62>, "blake3_256", X3, true, false);
        nc!(B62, Blake3_256<B62>, "blake3_256", X1, false, false);
        nc!(B62, Rp62_248, "rp62_248", X2, true, false);
        noncanonical_lagrange::<B64, Blake3_256<B64>>("blake3_256", X2, &mut r, &mut stats, &mut out);
        noncanonical_lagrange::<B64, Rp64_256>("rp64_256", X1, &mut r, &mut stats, &mut out);
        noncanonical_lagrange::<B128, Blake3_256<B128>>("blake3_256", X2, &mut r, &mut stats, &mut out);
        noncanonical_lagrange::<B62, Blake3_256<B62>>("blake3_256", X3, &mut r, &mut stats, &mut out);
    }
    for l in &out { println!("{}", l); }
    for d in &descs { println!("config {}", d); }
    let mut total = 0;
    for (k, s) in &stats {
        println!("class={} mutants={} parse_err={} rejected={} same_content={} accepted_diff={} panics={} alt_nonce={} infeasible={}", k, s.mutants, s.parse_err, s.rejected, s.same_content, s.accepted_diff, s.panics, s.alt_nonce, s.infeasible);
        total += s.mutants;
    }
    println!("configs={} honest_rejected={}", descs.len(), HONEST_REJECTED.with(|c| *c.borrow()));
    println!("evaluations={} failures={}", total, out.len());
}
