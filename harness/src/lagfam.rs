//! Lagrange-kernel family, generic in field, hasher AND RandomCoin (so that it can run under RecordingCoin), with a
//! "use log": which values each side actually USES as GKR / Lagrange randomness and as ordinary auxiliary randomness.
//! (Generic version of the family in bin/c01.rs, which keeps its own DefaultRandomCoin copy.)
//!
//! main: one column 0,1,2,.. (next = cur + 1, col0[0] = 0); aux: `aw - 1` columns (sum of all random elements) * main and
//! the Lagrange kernel column (last), built from log2(n) random elements drawn by a dummy GKR step.
use std::cell::RefCell;
use std::marker::PhantomData;

use winter_air::{
    Air, AirContext, Assertion, AuxRandElements, ConstraintCompositionCoefficients, EvaluationFrame, GkrVerifier,
    LagrangeKernelRandElements, ProofOptions, TraceInfo, TransitionConstraintDegree,
};
use winter_crypto::{ElementHasher, RandomCoin};
use winter_math::{ExtensibleField, ExtensionOf, FieldElement, StarkField};
use winter_prover::{matrix::ColMatrix, DefaultConstraintEvaluator, DefaultTraceLde, Prover, ProverGkrProof, StarkDomain, Trace, TracePolyTable};
use winter_utils::Serializable;

use crate::hex_bytes;

thread_local! { static USES: RefCell<Vec<String>> = RefCell::new(Vec::new()); }
/// Drains the use log: lines `gkr <hex,hex,..>` (values drawn by the GKR step) and `aux <hex,..>` (ordinary auxiliary
/// random elements as handed to the trace builder / to Air::get_aux_assertions).
pub fn take_uses() -> Vec<String> { USES.with(|l| std::mem::take(&mut *l.borrow_mut())) }
fn used<E: FieldElement>(kind: &str, v: &[E]) {
    let s: Vec<String> = v.iter().map(|e| hex_bytes(&e.to_bytes())).collect();
    USES.with(|l| l.borrow_mut().push(format!("{} {}", kind, s.join(","))));
}

#[derive(Debug, Clone, Default)]
pub struct LagGkrVerifier;
impl GkrVerifier for LagGkrVerifier {
    type GkrProof = usize;
    type Error = String;
    fn verify<E, Hh>(&self, gkr_proof: usize, public_coin: &mut impl RandomCoin<BaseField = E::BaseField, Hasher = Hh>) -> Result<LagrangeKernelRandElements<E>, String>
    where E: FieldElement, Hh: ElementHasher<BaseField = E::BaseField> {
        if gkr_proof > 64 { return Err("bad gkr proof".into()); }
        let mut v: Vec<E> = Vec::with_capacity(gkr_proof);
        for _ in 0..gkr_proof { v.push(public_coin.draw().map_err(|e| e.to_string())?); }
        used("gkr", &v);
        Ok(LagrangeKernelRandElements::new(v))
    }
}

pub struct LagAir<B: StarkField> { ctx: AirContext<B> }
impl<B: StarkField + ExtensibleField<2> + ExtensibleField<3>> Air for LagAir<B> {
    type BaseField = B;
    type PublicInputs = ();
    type GkrProof = usize;
    type GkrVerifier = LagGkrVerifier;
    fn new(trace_info: TraceInfo, _pi: (), options: ProofOptions) -> Self {
        let aw = trace_info.aux_segment_width();
        LagAir { ctx: AirContext::new_multi_segment(trace_info, vec![TransitionConstraintDegree::new(1)], vec![TransitionConstraintDegree::new(1)], 1, 1, Some(aw - 1), options) }
    }
    fn context(&self) -> &AirContext<B> { &self.ctx }
    fn evaluate_transition<E: FieldElement<BaseField = B>>(&self, frame: &EvaluationFrame<E>, _p: &[E], result: &mut [E]) { result[0] = frame.next()[0] - frame.current()[0] - E::ONE; }
    fn get_assertions(&self) -> Vec<Assertion<B>> { vec![Assertion::single(0, 0, B::ZERO)] }
    fn evaluate_aux_transition<F, E>(&self, _m: &EvaluationFrame<F>, _a: &EvaluationFrame<E>, _p: &[F], _r: &[E], _result: &mut [E])
    where F: FieldElement<BaseField = B>, E: FieldElement<BaseField = B> + ExtensionOf<F> {}
    fn get_aux_assertions<E: FieldElement<BaseField = B>>(&self, r: &[E]) -> Vec<Assertion<E>> { used("aux", r); vec![Assertion::single(0, 0, E::ZERO)] }
    fn get_auxiliary_proof_verifier<E: FieldElement<BaseField = B>>(&self) -> LagGkrVerifier { LagGkrVerifier }
}

pub struct LagTrace<B: StarkField> { pub main: ColMatrix<B>, pub info: TraceInfo }
impl<B: StarkField> LagTrace<B> {
    /// the valid trace 0,1,..,n-1 with `aw` auxiliary columns (the last is the Lagrange kernel) and `nr` ordinary random elements
    pub fn new(log_n: u32, aw: usize, nr: usize) -> Self {
        let n = 1usize << log_n;
        let col: Vec<B> = (0..n).map(|i| B::from(i as u32)).collect();
        LagTrace { main: ColMatrix::new(vec![col]), info: TraceInfo::new_multi_segment(1, aw, nr, n, vec![]) }
    }
}
impl<B: StarkField> Trace for LagTrace<B> {
    type BaseField = B;
    fn info(&self) -> &TraceInfo { &self.info }
    fn main_segment(&self) -> &ColMatrix<B> { &self.main }
    fn read_main_frame(&self, row_idx: usize, frame: &mut EvaluationFrame<B>) {
        let next = (row_idx + 1) % self.main.num_rows();
        self.main.read_row_into(row_idx, frame.current_mut());
        self.main.read_row_into(next, frame.next_mut());
    }
}

pub struct LagProver<B: StarkField, H, R> { pub options: ProofOptions, pub aw: usize, _p: PhantomData<(B, H, R)> }
impl<B: StarkField, H, R> LagProver<B, H, R> {
    pub fn new(options: ProofOptions, aw: usize) -> Self { LagProver { options, aw, _p: PhantomData } }
}
impl<B, H, R> Prover for LagProver<B, H, R>
where B: StarkField + ExtensibleField<2> + ExtensibleField<3> + 'static, H: ElementHasher<BaseField = B> + Send + Sync,
      R: RandomCoin<BaseField = B, Hasher = H> + Send + Sync {
    type BaseField = B;
    type Air = LagAir<B>;
    type Trace = LagTrace<B>;
    type HashFn = H;
    type RandomCoin = R;
    type TraceLde<E: FieldElement<BaseField = B>> = DefaultTraceLde<E, H>;
    type ConstraintEvaluator<'a, E: FieldElement<BaseField = B>> = DefaultConstraintEvaluator<'a, LagAir<B>, E>;
    fn get_pub_inputs(&self, _t: &LagTrace<B>) {}
    fn options(&self) -> &ProofOptions { &self.options }
    fn new_trace_lde<E: FieldElement<BaseField = B>>(&self, trace_info: &TraceInfo, main_trace: &ColMatrix<B>, domain: &StarkDomain<B>) -> (Self::TraceLde<E>, TracePolyTable<E>) { DefaultTraceLde::new(trace_info, main_trace, domain) }
    fn new_evaluator<'a, E: FieldElement<BaseField = B>>(&self, air: &'a LagAir<B>, aux: Option<AuxRandElements<E>>, cc: ConstraintCompositionCoefficients<E>) -> Self::ConstraintEvaluator<'a, E> { DefaultConstraintEvaluator::new(air, aux, cc) }
    fn generate_gkr_proof<E: FieldElement<BaseField = B>>(&self, main_trace: &LagTrace<B>, public_coin: &mut Self::RandomCoin) -> (ProverGkrProof<Self>, LagrangeKernelRandElements<E>) {
        let k = main_trace.main.num_rows().ilog2() as usize;
        let v: Vec<E> = (0..k).map(|_| public_coin.draw().unwrap()).collect();
        used("gkr", &v);
        (k, LagrangeKernelRandElements::new(v))
    }
    fn build_aux_trace<E: FieldElement<BaseField = B>>(&self, main_trace: &LagTrace<B>, aux: &AuxRandElements<E>) -> ColMatrix<E> {
        let main = main_trace.main_segment();
        let r = aux.lagrange().expect("lagrange random elements");
        used("aux", aux.rand_elements());
        let sum = r.iter().fold(E::ZERO, |a, &x| a + x) + aux.rand_elements().iter().fold(E::ZERO, |a, &x| a + x);
        let mut cols: Vec<Vec<E>> = (1..self.aw).map(|_| main.get_column(0).iter().map(|v| sum.mul_base(*v)).collect()).collect();
        let n = main.num_rows();
        cols.push((0..n).map(|row| r.iter().enumerate().fold(E::ONE, |acc, (bit, &ri)| if row & (1 << bit) == 0 { acc * (E::ONE - ri) } else { acc * ri })).collect());
        ColMatrix::new(cols)
    }
}
