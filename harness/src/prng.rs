//! SplitMix64: every random choice of a check derives from one state seeded by VERIF_SEED.
#[derive(Clone)]
pub struct Rng(pub u64);

impl Rng {
    pub fn new(seed: u64) -> Self {
        Rng(seed ^ 0x9E3779B97F4A7C15)
    }
    pub fn next_u64(&mut self) -> u64 {
        self.0 = self.0.wrapping_add(0x9E3779B97F4A7C15);
        let mut z = self.0;
        z = (z ^ (z >> 30)).wrapping_mul(0xBF58476D1CE4E5B9);
        z = (z ^ (z >> 27)).wrapping_mul(0x94D049BB133111EB);
        z ^ (z >> 31)
    }
    pub fn next_u128(&mut self) -> u128 {
        ((self.next_u64() as u128) << 64) | self.next_u64() as u128
    }
    pub fn below(&mut self, n: u64) -> u64 {
        if n == 0 { 0 } else { self.next_u64() % n }
    }
    pub fn pick<'a, T>(&mut self, v: &'a [T]) -> &'a T {
        &v[self.below(v.len() as u64) as usize]
    }
    pub fn bytes(&mut self, n: usize) -> Vec<u8> {
        (0..n).map(|_| self.next_u64() as u8).collect()
    }
    pub fn chance(&mut self, num: u64, den: u64) -> bool {
        self.below(den) < num
    }
}
