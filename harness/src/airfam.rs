//! A parametric family of computation descriptions (AIRs) with trace generator, prover and an
//! independent reference validity predicate.  Shared by the checks for C01/C02/C03/C04/C06/C14/C17/C18.
//!
//! Main column c obeys   next[c] = cur[c]^d_c * (1 + per_c) + k_c * cur[(c+1) % w]
//! where d_c in 1.. is the declared degree, per_c a periodic column value (or absent: factor 1)
//! and k_c a small constant from the spec seed.  An optional auxiliary segment has
//!   aux_next[0] = aux_cur[0] * (main_cur[0] + r_0)              (running product, degree 2)
//!   aux_next[j] = aux_cur[j] + r_{j mod nr} * main_cur[j mod w]  (running sums, degree 1 .. 2)
//! Assertions (single / periodic / sequence) are read off the generated trace so that the honest
//! trace is valid by construction; `is_valid` re-checks everything from the definition.
use core::marker::PhantomData;

use winter_air::{
    Air, AirContext, Assertion, AuxRandElements, ConstraintCompositionCoefficients, EvaluationFrame, FieldExtension,
    ProofOptions, TraceInfo, TransitionConstraintDegree,
};
use winter_crypto::{ElementHasher, RandomCoin};
use winter_math::{ExtensibleField, ExtensionOf, FieldElement, StarkField, ToElements};
use winter_prover::{
    matrix::ColMatrix, DefaultConstraintEvaluator, DefaultTraceLde, Prover, StarkDomain, Trace, TracePolyTable,
};

use crate::prng::Rng;

#[derive(Clone, Debug, PartialEq, Eq)]
pub enum AKind {
    Single { col: usize, step: usize },
    Periodic { col: usize, first: usize, stride: usize },
    Sequence { col: usize, first: usize, stride: usize },
}

#[derive(Clone, Debug, PartialEq, Eq)]
pub struct Spec {
    pub width: usize,
    pub log_n: u32,
    pub degs: Vec<u32>,          // len = width
    pub periodic: Vec<usize>,    // cycle lengths; column c uses periodic[c % len] when non-empty and use_per[c]
    pub use_per: Vec<bool>,      // len = width
    pub hold: Vec<bool>,         // len = width: column is constant (next = cur); periodic assertions live here
    pub exemptions: usize,
    pub assertions: Vec<AKind>,  // on main columns
    pub aux_width: usize,        // 0 = no auxiliary segment
    pub aux_rands: usize,
    pub aux_assert_last: bool,   // also assert the last value of aux column 0
    pub seed: u64,
    pub constant_trace: bool,    // degenerate: start from a fixed point when possible
    pub rot: Vec<u32>,           // (C01, additive) empty = feature off; rot[c] = j > 0: column c obeys next = g^j * cur (g the trace-domain
                                 // generator), i.e. the column is a * x^j: a valid column of LOW degree j (declared constraint degree 1)
}

impl Spec {
    pub fn n(&self) -> usize { 1 << self.log_n }
    pub fn simple(width: usize, log_n: u32, deg: u32, seed: u64) -> Self {
        Spec { width, log_n, degs: vec![deg; width], periodic: vec![], use_per: vec![false; width], hold: vec![false; width], exemptions: 1,
               assertions: vec![AKind::Single { col: 0, step: 0 }], aux_width: 0, aux_rands: 0, aux_assert_last: false,
               seed, constant_trace: false, rot: vec![] }
    }
    /// (C01) rotation exponent of column c (0 = ordinary column)
    pub fn rot_of(&self, c: usize) -> u32 { if self.hold[c] { 0 } else { self.rot.get(c).copied().unwrap_or(0) } }
    /// Serialise the shape (not the values) for the public inputs / trace metadata.
    pub fn to_u64s(&self) -> Vec<u64> {
        let mut v = vec![self.width as u64, self.log_n as u64, self.exemptions as u64, self.aux_width as u64,
                         self.aux_rands as u64, self.aux_assert_last as u64, self.seed, self.constant_trace as u64];
        v.push(self.degs.len() as u64); v.extend(self.degs.iter().map(|&d| d as u64));
        v.push(self.periodic.len() as u64); v.extend(self.periodic.iter().map(|&d| d as u64));
        v.push(self.use_per.len() as u64); v.extend(self.use_per.iter().map(|&d| d as u64));
        v.push(self.hold.len() as u64); v.extend(self.hold.iter().map(|&d| d as u64));
        v.push(self.assertions.len() as u64);
        for a in &self.assertions {
            match a {
                AKind::Single { col, step } => v.extend([0, *col as u64, *step as u64, 0]),
                AKind::Periodic { col, first, stride } => v.extend([1, *col as u64, *first as u64, *stride as u64]),
                AKind::Sequence { col, first, stride } => v.extend([2, *col as u64, *first as u64, *stride as u64]),
            }
        }
        if !self.rot.is_empty() { v.push(self.rot.len() as u64); v.extend(self.rot.iter().map(|&d| d as u64)); }
        v
    }
    fn small_consts<B: StarkField>(&self) -> Vec<B> {
        let mut r = Rng::new(self.seed ^ 0xABCD);
        (0..self.width).map(|_| B::from((r.below(5) + 1) as u32)).collect()
    }
    pub fn periodic_values<B: StarkField>(&self) -> Vec<Vec<B>> {
        let mut r = Rng::new(self.seed ^ 0x5151);
        self.periodic.iter().map(|&len| (0..len).map(|_| B::from((r.below(7)) as u32)).collect()).collect()
    }
    pub fn per_index(&self, c: usize) -> Option<usize> {
        if !self.periodic.is_empty() && self.use_per[c] && !self.hold[c] && self.rot_of(c) == 0 { Some(c % self.periodic.len()) } else { None }
    }
}

fn pow<E: FieldElement>(x: E, d: u32) -> E {
    let mut r = E::ONE;
    for _ in 0..d { r *= x; }
    r
}

/// one step of the main transition function (reference semantics, used by generator and oracle)
pub fn step_main<B: StarkField>(spec: &Spec, cur: &[B], step: usize, pers: &[Vec<B>], ks: &[B]) -> Vec<B> {
    (0..spec.width).map(|c| {
        if spec.hold[c] { return cur[c]; }
        if spec.rot_of(c) > 0 { return cur[c] * B::get_root_of_unity(spec.log_n).exp((spec.rot_of(c) as u64).into()); }
        let per = match spec.per_index(c) { Some(i) => B::ONE + pers[i][step % pers[i].len()], None => B::ONE };
        pow(cur[c], spec.degs[c]) * per + ks[c] * cur[(c + 1) % spec.width]
    }).collect()
}

/// main trace, column-major
pub fn gen_main<B: StarkField>(spec: &Spec) -> Vec<Vec<B>> {
    let n = spec.n();
    let pers = spec.periodic_values::<B>();
    let ks = spec.small_consts::<B>();
    let mut r = Rng::new(spec.seed);
    let mut cur: Vec<B> = (0..spec.width).map(|_| if spec.constant_trace { B::ZERO } else { B::from(r.next_u64() as u32) }).collect();
    let mut cols = vec![Vec::with_capacity(n); spec.width];
    for step in 0..n {
        for c in 0..spec.width { cols[c].push(cur[c]); }
        if step + 1 < n {
            cur = step_main(spec, &cur, step, &pers, &ks);
            // rows that only take part in exempt transitions may hold anything: exercise that
            if step + 1 > n - spec.exemptions && !spec.constant_trace {
                for c in 0..spec.width { if !spec.hold[c] && spec.rot_of(c) == 0 { cur[c] += B::from((r.below(3)) as u32); } }
            }
        }
    }
    cols
}

pub fn gen_aux<B: StarkField, E: FieldElement<BaseField = B>>(spec: &Spec, main: &ColMatrix<B>, rands: &[E]) -> Vec<Vec<E>> {
    let n = spec.n();
    let mut cols = vec![vec![E::ZERO; n]; spec.aux_width];
    if spec.aux_width == 0 { return cols; }
    let r = |i: usize| if rands.is_empty() { E::ONE } else { rands[i % rands.len()] };
    cols[0][0] = E::ONE;
    for j in 1..spec.aux_width { cols[j][0] = E::ZERO; }
    for i in 1..n {
        cols[0][i] = cols[0][i - 1] * (E::from(main.get(0, i - 1)) + r(0));
        for j in 1..spec.aux_width {
            cols[j][i] = cols[j][i - 1] + r(j) * E::from(main.get(j % spec.width, i - 1));
        }
    }
    // (C02, additive) aux_assert_last: the last row of aux column 0 carries the publicly known value `aux_last_value`;
    // the row only takes part in exempt transitions when exemptions >= 2 (a spec with aux_assert_last and exemptions = 1
    // has no valid trace), so that cell is protected by the assertion alone
    if spec.aux_assert_last { cols[0][n - 1] = aux_last_value(rands); }
    cols
}

/// (C02, additive) the value asserted on the last row of aux column 0 when `aux_assert_last` is set
pub fn aux_last_value<E: FieldElement>(rands: &[E]) -> E {
    if rands.is_empty() { E::ONE + E::ONE } else { rands[0] + E::ONE }
}

pub fn assertion_steps(a: &AKind, n: usize) -> (usize, Vec<usize>) {
    match a {
        AKind::Single { col, step } => (*col, vec![*step]),
        AKind::Periodic { col, first, stride } => (*col, (0..n / stride).map(|i| first + i * stride).collect()),
        AKind::Sequence { col, first, stride } => (*col, (0..n / stride).map(|i| first + i * stride).collect()),
    }
}

/// Assertion values read from a trace (what the honest prover publishes).
pub fn assertion_values<B: StarkField>(spec: &Spec, main: &[Vec<B>]) -> Vec<Vec<B>> {
    spec.assertions.iter().map(|a| {
        let (col, steps) = assertion_steps(a, spec.n());
        match a {
            AKind::Sequence { .. } => steps.iter().map(|&s| main[col][s]).collect(),
            _ => vec![main[col][steps[0]]],
        }
    }).collect()
}

/// Reference validity predicate (independent of the library): all non-exempt transitions and all assertions.
pub fn is_valid<B: StarkField>(spec: &Spec, main: &[Vec<B>], avals: &[Vec<B>]) -> bool {
    let n = spec.n();
    let pers = spec.periodic_values::<B>();
    let ks = spec.small_consts::<B>();
    for step in 0..n - spec.exemptions {
        let cur: Vec<B> = (0..spec.width).map(|c| main[c][step]).collect();
        let nxt = step_main(spec, &cur, step, &pers, &ks);
        for c in 0..spec.width { if main[c][step + 1] != nxt[c] { return false; } }
    }
    for (a, vals) in spec.assertions.iter().zip(avals) {
        let (col, steps) = assertion_steps(a, n);
        for (i, &s) in steps.iter().enumerate() {
            let want = match a { AKind::Sequence { .. } => vals[i], _ => vals[0] };
            if main[col][s] != want { return false; }
        }
    }
    true
}

// ------------------------------------------------------------------------------------------------ public inputs
#[derive(Clone, Debug)]
pub struct PubInputs<B: StarkField> {
    pub spec: Spec,
    pub avals: Vec<Vec<B>>,
}
impl<B: StarkField> ToElements<B> for PubInputs<B> {
    fn to_elements(&self) -> Vec<B> {
        let mut v: Vec<B> = self.spec.to_u64s().iter().map(|&x| B::from((x & 0xFFFF_FFFF) as u32)).collect();
        v.extend(self.spec.to_u64s().iter().map(|&x| B::from((x >> 32) as u32)));
        for a in &self.avals { v.push(B::from(a.len() as u32)); v.extend(a.iter().copied()); }
        v
    }
}

// ------------------------------------------------------------------------------------------------ AIR
pub struct FamAir<B: StarkField> {
    ctx: AirContext<B>,
    pub spec: Spec,
    avals: Vec<Vec<B>>,
    ks: Vec<B>,
}

impl<B: StarkField + ExtensibleField<2> + ExtensibleField<3>> Air for FamAir<B> {
    type BaseField = B;
    type PublicInputs = PubInputs<B>;
    type GkrProof = ();
    type GkrVerifier = ();

    fn new(trace_info: TraceInfo, pi: PubInputs<B>, options: ProofOptions) -> Self {
        let spec = pi.spec.clone();
        let main_degrees: Vec<_> = (0..spec.width).map(|c| if spec.hold[c] || spec.rot_of(c) > 0 { TransitionConstraintDegree::new(1) } else { match spec.per_index(c) {
            Some(i) => TransitionConstraintDegree::with_cycles(spec.degs[c] as usize, vec![spec.periodic[i]]),
            None => TransitionConstraintDegree::new(spec.degs[c] as usize),
        } }).collect();
        let ctx = if spec.aux_width > 0 {
            let aux_degrees: Vec<_> = (0..spec.aux_width).map(|j| TransitionConstraintDegree::new(if j == 0 { 2 } else { 1 })).collect();
            let num_aux_assert = spec.aux_width + spec.aux_assert_last as usize;
            AirContext::new_multi_segment(trace_info, main_degrees, aux_degrees, num_assertions(&spec), num_aux_assert, None, options)
        } else {
            AirContext::new(trace_info, main_degrees, num_assertions(&spec), options)
        };
        let ctx = ctx.set_num_transition_exemptions(spec.exemptions);
        let ks = spec.small_consts::<B>();
        FamAir { ctx, spec, avals: pi.avals, ks }
    }

    fn context(&self) -> &AirContext<B> { &self.ctx }

    fn evaluate_transition<E: FieldElement<BaseField = B>>(&self, frame: &EvaluationFrame<E>, periodic_values: &[E], result: &mut [E]) {
        let (cur, nxt) = (frame.current(), frame.next());
        let w = self.spec.width;
        for c in 0..w {
            if self.spec.hold[c] { result[c] = nxt[c] - cur[c]; continue; }
            if self.spec.rot_of(c) > 0 { result[c] = nxt[c] - cur[c] * E::from(B::get_root_of_unity(self.spec.log_n).exp((self.spec.rot_of(c) as u64).into())); continue; }
            let per = match self.spec.per_index(c) { Some(i) => E::ONE + periodic_values[i], None => E::ONE };
            result[c] = nxt[c] - (pow(cur[c], self.spec.degs[c]) * per + E::from(self.ks[c]) * cur[(c + 1) % w]);
        }
    }

    fn get_assertions(&self) -> Vec<Assertion<B>> {
        let n = self.spec.n();
        self.spec.assertions.iter().zip(&self.avals).map(|(a, v)| match a {
            AKind::Single { col, step } => Assertion::single(*col, *step, v[0]),
            AKind::Periodic { col, first, stride } => Assertion::periodic(*col, *first, *stride, v[0]),
            AKind::Sequence { col, first, stride } => { let _ = n; Assertion::sequence(*col, *first, *stride, v.clone()) }
        }).collect()
    }

    fn get_periodic_column_values(&self) -> Vec<Vec<B>> { self.spec.periodic_values::<B>() }

    fn evaluate_aux_transition<F, E>(&self, main_frame: &EvaluationFrame<F>, aux_frame: &EvaluationFrame<E>, _periodic: &[F], rands: &[E], result: &mut [E])
    where F: FieldElement<BaseField = B>, E: FieldElement<BaseField = B> + ExtensionOf<F> {
        let (mc, ac, an) = (main_frame.current(), aux_frame.current(), aux_frame.next());
        let r = |i: usize| if rands.is_empty() { E::ONE } else { rands[i % rands.len()] };
        result[0] = an[0] - ac[0] * (E::from(mc[0]) + r(0));
        for j in 1..self.spec.aux_width {
            result[j] = an[j] - (ac[j] + r(j) * E::from(mc[j % self.spec.width]));
        }
    }

    fn get_aux_assertions<E: FieldElement<BaseField = B>>(&self, _rands: &[E]) -> Vec<Assertion<E>> {
        let mut v: Vec<Assertion<E>> = Vec::new();
        if self.spec.aux_width == 0 { return v; }
        v.push(Assertion::single(0, 0, E::ONE));
        for j in 1..self.spec.aux_width { v.push(Assertion::single(j, 0, E::ZERO)); }
        // (C02, additive) matches the count declared in `new` (aux_width + aux_assert_last)
        if self.spec.aux_assert_last { v.push(Assertion::single(0, self.spec.n() - 1, aux_last_value(_rands))); }
        v
    }
}

pub fn num_assertions(spec: &Spec) -> usize { spec.assertions.len() }

// ------------------------------------------------------------------------------------------------ trace
pub struct FamTrace<B: StarkField> {
    info: TraceInfo,
    main: ColMatrix<B>,
    pub spec: Spec,
}
impl<B: StarkField> FamTrace<B> {
    pub fn new(spec: &Spec, cols: Vec<Vec<B>>) -> Self {
        let n = spec.n();
        let info = if spec.aux_width > 0 {
            TraceInfo::new_multi_segment(spec.width, spec.aux_width, spec.aux_rands, n, vec![])
        } else {
            TraceInfo::new(spec.width, n)
        };
        FamTrace { info, main: ColMatrix::new(cols), spec: spec.clone() }
    }
    pub fn cols(&self) -> Vec<Vec<B>> { (0..self.spec.width).map(|c| self.main.get_column(c).to_vec()).collect() }
}
impl<B: StarkField> Trace for FamTrace<B> {
    type BaseField = B;
    fn info(&self) -> &TraceInfo { &self.info }
    fn main_segment(&self) -> &ColMatrix<B> { &self.main }
    fn read_main_frame(&self, row_idx: usize, frame: &mut EvaluationFrame<B>) {
        let next = (row_idx + 1) % self.info.length();
        self.main.read_row_into(row_idx, frame.current_mut());
        self.main.read_row_into(next, frame.next_mut());
    }
}

// ------------------------------------------------------------------------------------------------ prover
pub struct FamProver<B: StarkField, H, R> {
    pub options: ProofOptions,
    pub avals_override: Option<Vec<Vec<B>>>,
    _p: PhantomData<(H, R)>,
}
impl<B: StarkField, H, R> FamProver<B, H, R> {
    pub fn new(options: ProofOptions) -> Self { FamProver { options, avals_override: None, _p: PhantomData } }
}

impl<B, H, R> Prover for FamProver<B, H, R>
where
    B: StarkField + ExtensibleField<2> + ExtensibleField<3> + 'static,
    H: ElementHasher<BaseField = B> + Send + Sync,
    R: RandomCoin<BaseField = B, Hasher = H> + Send + Sync,
{
    type BaseField = B;
    type Air = FamAir<B>;
    type Trace = FamTrace<B>;
    type HashFn = H;
    type RandomCoin = R;
    type TraceLde<E: FieldElement<BaseField = B>> = DefaultTraceLde<E, H>;
    type ConstraintEvaluator<'a, E: FieldElement<BaseField = B>> = DefaultConstraintEvaluator<'a, FamAir<B>, E>;

    fn get_pub_inputs(&self, trace: &FamTrace<B>) -> PubInputs<B> {
        let avals = match &self.avals_override { Some(a) => a.clone(), None => assertion_values(&trace.spec, &trace.cols()) };
        PubInputs { spec: trace.spec.clone(), avals }
    }
    fn options(&self) -> &ProofOptions { &self.options }
    fn new_trace_lde<E: FieldElement<BaseField = B>>(&self, trace_info: &TraceInfo, main_trace: &ColMatrix<B>, domain: &StarkDomain<B>) -> (Self::TraceLde<E>, TracePolyTable<E>) {
        DefaultTraceLde::new(trace_info, main_trace, domain)
    }
    fn new_evaluator<'a, E: FieldElement<BaseField = B>>(&self, air: &'a FamAir<B>, aux_rand_elements: Option<AuxRandElements<E>>, composition_coefficients: ConstraintCompositionCoefficients<E>) -> Self::ConstraintEvaluator<'a, E> {
        DefaultConstraintEvaluator::new(air, aux_rand_elements, composition_coefficients)
    }
    fn build_aux_trace<E: FieldElement<BaseField = B>>(&self, trace: &FamTrace<B>, aux_rand_elements: &AuxRandElements<E>) -> ColMatrix<E> {
        ColMatrix::new(gen_aux::<B, E>(&trace.spec, trace.main_segment(), aux_rand_elements.rand_elements()))
    }
}

// ------------------------------------------------------------------------------------------------ generators
pub fn pow2_le(r: &mut Rng, lo: u32, hi: u32) -> usize { 1usize << (lo + r.below((hi - lo + 1) as u64) as u32) }

/// A random member of the family (mostly small shapes so that proving stays in the millisecond range).
pub fn random_spec(r: &mut Rng, max_log_n: u32, blowup: usize) -> Spec {
    let log_n = 3 + r.below((max_log_n - 2) as u64) as u32;
    let n = 1usize << log_n;
    let width = match r.below(6) { 0 => 1, 1 => 2, 2 => 3, 3 => 1 + r.below(8) as usize, 4 => 1 + r.below(20) as usize, _ => 1 + r.below(4) as usize };
    let max_deg = (blowup as u32 + 1).min(5).max(1);
    let degs: Vec<u32> = (0..width).map(|_| 1 + r.below(max_deg as u64) as u32).collect();
    let nper = r.below(3) as usize;
    let periodic: Vec<usize> = (0..nper).map(|_| pow2_le(r, 1, log_n.min(5))).collect();
    let use_per: Vec<bool> = (0..width).map(|_| nper > 0 && r.chance(1, 2)).collect();
    let exemptions = match r.below(4) { 0 => 1, 1 => 2, 2 => 1 + r.below((n / 2 + 1) as u64) as usize, _ => 1 };
    let mut assertions = vec![];
    let mut hold = vec![false; width];
    let na = 1 + r.below(3) as usize;
    for _ in 0..na {
        let col = r.below(width as u64) as usize;
        let a = match r.below(3) {
            0 => AKind::Single { col, step: match r.below(3) { 0 => 0, 1 => n - 1, _ => r.below(n as u64) as usize } },
            1 => { let stride = pow2_le(r, 1, log_n); AKind::Periodic { col, first: r.below(stride as u64) as usize, stride } }
            _ => { let stride = pow2_le(r, 1, log_n); AKind::Sequence { col, first: r.below(stride as u64) as usize, stride } }
        };
        // keep assertions non-overlapping: at most one assertion per column in random specs
        if !assertions.iter().any(|b: &AKind| assertion_steps(b, n).0 == col) {
            if let AKind::Periodic { .. } = a { hold[col] = true; }
            assertions.push(a);
        }
    }
    let (aux_width, aux_rands) = if r.chance(1, 4) { (1 + r.below(3) as usize, 1 + r.below(3) as usize) } else { (0, 0) };
    Spec { width, log_n, degs, periodic, use_per, hold, exemptions, assertions, aux_width, aux_rands, aux_assert_last: false,
           seed: r.next_u64(), constant_trace: false, rot: vec![] }
}

/// Declared degrees must fit the constraint-evaluation blowup and the exemption rule of AirContext; adjust a spec so that
/// the library's constructors accept it for the given options (returns false when impossible).
pub fn admissible(spec: &Spec, blowup: usize) -> bool {
    let maxd = spec.degs.iter().copied().max().unwrap_or(1) as usize + if spec.periodic.is_empty() { 0 } else { 1 };
    maxd <= blowup + 1 && (spec.n() * blowup) >= 16
}

pub fn options(queries: usize, blowup: usize, grinding: u32, ext: FieldExtension, fold: usize, rem_max: usize) -> ProofOptions {
    ProofOptions::new(queries, blowup, grinding, ext, fold, rem_max)
}

/// The property's notion of a well-formed FRI schedule: every folded layer keeps at least two rows and the
/// remainder has at least one coefficient.
pub fn fri_wellformed(lde: usize, blowup: usize, fold: usize, rem_max: usize) -> bool {
    let max_rem = (rem_max + 1) * blowup;
    let mut d = lde;
    while d > max_rem {
        if d % fold != 0 || d / fold < 2 { return false; }
        d /= fold;
    }
    d / blowup >= 1
}
