//! RecordingCoin: a RandomCoin wrapper that logs every operation with its arguments and results.
//! Substituted for the `RandomCoin` type parameter of the Prover and of `verify()` (no hook in /repo).
//! The log is per-thread; `take_log()` drains it.  Each coin instance gets an id (prover and verifier
//! create their own coin), so two runs can be told apart.
use std::cell::RefCell;

use winter_crypto::{Digest, ElementHasher, Hasher, RandomCoin, RandomCoinError};
use winter_math::{FieldElement, StarkField};
use winter_utils::Serializable;

use crate::hex_bytes;

thread_local! {
    static LOG: RefCell<Vec<String>> = RefCell::new(Vec::new());
    static NEXT_ID: RefCell<u32> = RefCell::new(0);
}

pub fn take_log() -> Vec<String> { LOG.with(|l| std::mem::take(&mut *l.borrow_mut())) }
fn push(s: String) { LOG.with(|l| l.borrow_mut().push(s)); }

pub struct RecordingCoin<R: RandomCoin> { inner: R, id: u32 }

impl<R: RandomCoin> RandomCoin for RecordingCoin<R> {
    type BaseField = R::BaseField;
    type Hasher = R::Hasher;

    fn new(seed: &[Self::BaseField]) -> Self {
        let id = NEXT_ID.with(|n| { let mut n = n.borrow_mut(); *n += 1; *n });
        let s: Vec<String> = seed.iter().map(|e| hex_bytes(&e.to_bytes())).collect();
        push(format!("coin{} new [{}]", id, s.join(",")));
        RecordingCoin { inner: R::new(seed), id }
    }
    fn reseed(&mut self, data: <Self::Hasher as Hasher>::Digest) {
        push(format!("coin{} reseed {}", self.id, hex_bytes(&data.to_bytes())));
        self.inner.reseed(data)
    }
    fn check_leading_zeros(&self, value: u64) -> u32 {
        let r = self.inner.check_leading_zeros(value);
        push(format!("coin{} check_leading_zeros {:x} -> {}", self.id, value, r));
        r
    }
    fn draw<E: FieldElement<BaseField = Self::BaseField>>(&mut self) -> Result<E, RandomCoinError> {
        let r = self.inner.draw::<E>();
        match &r {
            Ok(e) => push(format!("coin{} draw deg{} -> {}", self.id, E::EXTENSION_DEGREE, hex_bytes(&e.to_bytes()))),
            Err(_) => push(format!("coin{} draw deg{} -> err", self.id, E::EXTENSION_DEGREE)),
        }
        r
    }
    fn draw_integers(&mut self, num_values: usize, domain_size: usize, nonce: u64) -> Result<Vec<usize>, RandomCoinError> {
        let r = self.inner.draw_integers(num_values, domain_size, nonce);
        match &r {
            Ok(v) => push(format!("coin{} draw_integers {} {} {:x} -> {:?}", self.id, num_values, domain_size, nonce, v)),
            Err(_) => push(format!("coin{} draw_integers {} {} {:x} -> err", self.id, num_values, domain_size, nonce)),
        }
        r
    }
}

/// helper: as_int() as u128 for any StarkField
pub trait IntoU128 { fn into_u128(self) -> u128; }
impl IntoU128 for u64 { fn into_u128(self) -> u128 { self as u128 } }
impl IntoU128 for u128 { fn into_u128(self) -> u128 { self } }
#[allow(dead_code)]
fn _unused<H: ElementHasher, D: Digest, B: StarkField>() {}
