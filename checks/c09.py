"""C09 — FFT, interpolation and LDE equal direct polynomial evaluation.

Theorems (coq/Props/C09.v): for every field with FLaws and every k — (a) the recursive list FFT `fft_rec` is the DFT by
direct evaluation; (c) the faithful index-level model of `fft_in_place` (both recursion strategies, every
count/stride/offset) refines the bit-reversed list FFT, `permute` is the bit-reversal permutation, and
evaluate_poly / evaluate_poly_with_offset / interpolate_poly(_with_offset) / infer_degree of the model equal direct
evaluation / its inverse / the true degree.  (b) Tie to /repo: the extracted faithful model AND the extracted `fft_rec`
run against winter_math::fft::* and winter_prover::matrix::* on every size, three fields.
Falsifier: Horner evaluation with u128 reference arithmetic (no FFT in the oracle)."""
import concurrent.futures
import hashlib
import json
import math
import os
import re
import vcheck

SPEC_OPS = {"twiddles", "inv_twiddles", "permute", "evalt", "eval_off", "interpt", "interp_off", "degree", "rowmat"}


def veclen(tok):
    return 0 if tok == "-" else tok.count(",") + 1


def case_info(case):
    """-> (op, field, n = vector length, total = work size (n * blowup), tw token or None)"""
    t = case.split(" ")
    op = t[0]
    try:
        if op in ("twiddles", "inv_twiddles"):
            return op, t[1], int(t[2]), int(t[2]), None
        if op == "permute_index":
            return op, "-", 1, 1, None
        if op == "permute":
            n = veclen(t[2]); return op, t[1], n, n, None
        if op == "fft_raw":
            n = veclen(t[6]); return op, t[1], n, n, t[5]
        if op in ("evalt", "interpt"):
            n = veclen(t[3]); return op, t[1], n, n, t[2]
        if op == "eval_off":
            n = veclen(t[5]); return op, t[1], n, n * max(1, int(t[4])), t[2]
        if op == "interp_off":
            n = veclen(t[4]); return op, t[1], n, n, t[2]
        if op == "degree":
            n = veclen(t[3]); return op, t[1], n, n, None
        if op in ("colmat_eval",):
            cols = t[4].split(";"); n = veclen(cols[0]); return op, t[1], n, n * len(cols) * max(1, int(t[3])), None
        if op == "colmat_interp":
            cols = t[2].split(";"); n = veclen(cols[0]); return op, t[1], n, n * len(cols), None
        if op == "rowmat":
            cols = t[5].split(";"); n = veclen(cols[0]); return op, t[1], n, n * len(cols) * max(1, int(t[4])), None
    except (ValueError, IndexError):
        pass
    return op, "-", 0, 0, None


def par_correspondence(ctx, name, impl_lines, driver, jobs=6, timeout=1500, weight=None):
    """ctx.correspondence, but the cases are spread over `jobs` driver processes (longest-processing-time first)."""
    cases, impl = [], []
    for l in impl_lines:
        if " => " not in l:
            continue
        c, r = l.split(" => ", 1)
        cases.append(c)
        impl.append(r.strip())
    if not cases:
        ctx.ob(f"corr:{name}", False, "no cases produced")
        return []
    w = [(weight(c) if weight else len(c)) + 50 for c in cases]
    order = sorted(range(len(cases)), key=lambda i: -w[i])
    buckets = [[] for _ in range(jobs)]
    load = [0] * jobs
    for i in order:
        k = load.index(min(load))
        buckets[k].append(i)
        load[k] += w[i]
    model = [None] * len(cases)
    errs = []

    def work(idx):
        if not idx:
            return
        rc, out, _ = vcheck.sh([driver], input_="\n".join(cases[i] for i in idx) + "\n", timeout=timeout)
        res = out.split("\n")
        if res and res[-1] == "":
            res.pop()
        if rc != 0 or len(res) != len(idx):
            errs.append(f"driver rc={rc} produced {len(res)} lines for {len(idx)} cases: {out[-200:]}")
            return
        for i, r in zip(idx, res):
            model[i] = r

    with concurrent.futures.ThreadPoolExecutor(max_workers=jobs) as ex:
        list(ex.map(work, buckets))
    if errs:
        ctx.ob(f"corr:{name}", False, errs[0])
        return []
    diffs = [{"case": c[:300], "impl": a[:200], "model": (b or "")[:200]} for c, a, b in zip(cases, impl, model) if a != b]
    ctx.evaluations += len(cases)
    for c in cases:
        ctx.distinct.add(hashlib.sha1(c.encode()).hexdigest())
    ctx.notes.setdefault("correspondence", {})[name] = {"cases": len(cases), "disagreements": len(diffs)}
    small = sorted(range(len(cases)), key=lambda i: len(cases[i]))
    for k in (small[len(small) // 3], small[len(small) // 2]):
        if len(ctx.samples) < 12:
            ctx.samples.append({"corr": name, "case": cases[k][:400], "impl": impl[k][:400], "model": model[k][:400]})
    ctx.ob(f"corr:{name}", not diffs, json.dumps(diffs[:3]))
    return diffs


def coverage(lines):
    cov = {}
    for l in lines:
        if " => " not in l:
            continue
        c, r = l.split(" => ", 1)
        op, fld, n, total, tw = case_info(c)
        e = cov.setdefault(op, {"cases": 0, "panic": 0, "fields": set(), "log2_sizes": set(), "blowups": set(),
                                "columns": set(), "seg_width": set(), "csr": set()})
        e["cases"] += 1
        e["fields"].add(fld)
        if r.strip() == "panic":
            e["panic"] += 1
        if n > 0:
            e["log2_sizes"].add(int(math.log2(n)) if n & (n - 1) == 0 else -n)
        t = c.split(" ")
        if op == "eval_off":
            e["blowups"].add(t[4])
        if op == "rowmat":
            e["blowups"].add(t[4]); e["columns"].add(len(t[5].split(";"))); e["seg_width"].add(t[2])
        if op == "colmat_eval":
            e["blowups"].add(t[3]); e["columns"].add(len(t[4].split(";")))
        if op == "fft_raw" and len(e["csr"]) < 400:
            e["csr"].add(f"{t[2]}/{t[3]}/{t[4]}")
    out = {}
    for op, e in cov.items():
        o = {"cases": e["cases"], "panic_cases": e["panic"], "fields": sorted(e["fields"]),
             "log2_sizes": sorted(x for x in e["log2_sizes"] if x >= 0),
             "non_pow2_lengths": sorted(-x for x in e["log2_sizes"] if x < 0)}
        if e["blowups"]:
            o["blowups"] = sorted(e["blowups"], key=lambda s: int(s) if s.isdigit() else -1)
        if e["columns"]:
            cs = sorted(e["columns"]); o["columns"] = f"{cs[0]}..{cs[-1]} ({len(cs)} distinct)"
        if e["seg_width"]:
            o["segment_widths_N"] = sorted(e["seg_width"])
        if e["csr"]:
            o["count/stride/offset_combinations"] = len(e["csr"])
            o["two_call_branch(count>=256 or stride!=count)"] = sorted(x for x in e["csr"] if int(x.split("/")[0]) >= 256 or x.split("/")[0] != x.split("/")[1])[:12]
        out[op] = o
    return out


def exercise(ctx, hb, drv, quick, profile):
    """correspondence (faithful model + spec model) and falsifier for the harness binary `hb`"""
    maxlog = 11 if quick else 14
    jobs = 10 if quick else 12
    if hb and drv:
        rc, out, dt = vcheck.sh([hb, "corr", str(ctx.seed), str(maxlog), ctx.tier], timeout=900)
        lines = [l for l in out.split("\n") if " => " in l]
        ctx.ob("harness:corr-ran", rc == 0 and len(lines) > 100, f"rc={rc} lines={len(lines)} {out[-200:] if rc else ''}")
        cov = coverage(lines)
        ctx.notes["coverage_by_op"] = cov
        # sizes that must be present (strategy switch of fft_in_place at count = MAX_LOOP = 256 <=> n >= 2^10)
        for op in ("evalt", "fft_raw", "interpt", "eval_off"):
            have = set(cov.get(op, {}).get("log2_sizes", []))
            need = set(range(1, maxlog + 1))
            ctx.ob(f"coverage:{op}:all-sizes-2^1..2^{maxlog}", need <= have, f"missing {sorted(need - have)}")
        rm = cov.get("rowmat", {})
        ctx.ob("coverage:rowmat:columns", rm.get("cases", 0) > 0 and "8" in rm.get("segment_widths_N", []), json.dumps(rm)[:300])
        # faithful index-level model: everything whose work size is affordable on lists with unary indices;
        # spec model (fft_rec / peval / rev_bits): every well-formed case with standard twiddles.
        # The model arithmetic (inductive Z, unary nat) is slow: a work budget selects cases class by class
        # (op, field, log2 size), cheap cases (small sizes, unit vectors) first, then round-robin over the classes.
        fmax = 1 << (12 if quick else 13)

        def wt(c):
            op, fld, n, total, tw = case_info(c.replace("spec:", "", 1))
            dens = 1.0 - min(0.95, c.count(",0,") / max(1, n))       # sparse vectors are cheap
            slow = 6 if (c.startswith("spec:") and op in ("twiddles", "inv_twiddles", "rowmat")) else 1   # per-element powers
            return int(total * max(1, math.log2(max(2, total))) * (8 if fld == "f128" else 1) * dens * slow) + len(c) // 8

        def select(cands, budget, cheap_thr):
            """all cheap cases; per class (op, field, log2 work, blowup / segment width) the cheapest and the heaviest
            (= dense) case regardless of the budget; then round-robin over the classes until the budget is used."""
            classes, chosen, used = {}, [], 0
            for l in cands:
                c = l.split(" => ", 1)[0]
                op, fld, n, total, tw = case_info(c.replace("spec:", "", 1))
                w = wt(c)
                if w <= cheap_thr or op == "permute_index" or (op.endswith("rowmat") and w <= 120000):
                    chosen.append(l)
                    used += w
                    continue
                t = c.split(" ")
                extra = t[4] if op.endswith("eval_off") else (t[2] if op.endswith("rowmat") else "")
                classes.setdefault((("spec:" if c.startswith("spec:") else "") + op, fld, total.bit_length(), extra), []).append((w, l))
            for k in sorted(classes):
                v = classes[k]
                v.sort(key=lambda x: x[0])
                picks = [v.pop(0)] if v[0][0] <= budget // 20 else []
                heavy_cap = 60_000 if (quick and k[1] == "f128") else budget // 20
                # quick tier: the spec run (redundant with theorem (c)) gets no forced dense case beyond 60k work units
                if quick and k[0].startswith("spec:"):
                    heavy_cap = min(heavy_cap, 60_000)
                if v and v[-1][0] <= heavy_cap:
                    picks.append(v.pop())
                for w, l in picks:
                    chosen.append(l)
                    used += w
            while classes and used < budget:
                for k in sorted(classes):
                    v = classes[k]
                    if not v:
                        del classes[k]
                        continue
                    w, l = v.pop(0)
                    if used + w <= budget:
                        chosen.append(l)
                        used += w
                if all(not v or v[0][0] + used > budget for v in classes.values()):
                    break
            return chosen, used

        cand_f, cand_s = [], []
        for l in lines:
            c, r = l.split(" => ", 1)
            op, fld, n, total, tw = case_info(c)
            if total <= fmax:
                cand_f.append(l)
            if op in SPEC_OPS and r.strip() != "panic" and tw in (None, "std") and n >= 2 and n & (n - 1) == 0 \
                    and total <= (1 << (13 if quick else 15)):
                cand_s.append("spec:" + l)
        budget = 3_500_000 if quick else 60_000_000
        cheap = 1000 if quick else 30000
        faithful, used_f = select(cand_f, budget, cheap)
        spec, used_s = select(cand_s, budget // 3, cheap)
        import time as _t
        t0 = _t.time()
        tmo = 900 if quick else 5400
        par_correspondence(ctx, f"faithful-model:{profile}", faithful, drv, jobs=jobs, weight=wt, timeout=tmo)
        t1 = _t.time()
        par_correspondence(ctx, f"spec-fft_rec:{profile}", spec, drv, jobs=jobs, weight=wt, timeout=tmo)
        ctx.notes["correspondence_wall_s"] = {"faithful": round(t1 - t0, 1), "spec": round(_t.time() - t1, 1), "jobs": jobs}
        ctx.notes["coverage_faithful_model"] = coverage(faithful)
        ctx.notes["coverage_spec_model"] = coverage([l.replace("spec:", "", 1) for l in spec])
        ctx.notes["correspondence_split"] = {"harness_lines": len(lines), "faithful_model_candidates": len(cand_f),
                                             "faithful_model_cases": len(faithful), "faithful_model_max_work_size": fmax,
                                             "spec_candidates": len(cand_s), "spec_cases": len(spec),
                                             "work_budget_units": budget, "work_used": [used_f, used_s]}
    if hb:
        fl = maxlog if not ctx.broken() else maxlog + (0 if quick else 1)
        rc, out, dt = vcheck.sh([hb, "falsify", str(ctx.seed), str(fl), ctx.tier], timeout=1500)
        nfail, evals = 0, None
        for line in out.split("\n"):
            if line.startswith("{"):
                try:
                    f = json.loads(line)
                except ValueError:
                    continue
                f["profile"] = profile
                f["replay"] = f"{hb} falsify {ctx.seed} {fl} {ctx.tier}"
                nfail += 1
                ctx.add_failure(f)
            else:
                m = re.search(r"evaluations=(\d+)", line)
                if m:
                    evals = int(m.group(1))
        ctx.ob("falsifier:ran-to-completion", evals is not None and rc == 0, f"rc={rc} tail={out[-300:]}")
        if evals:
            ctx.evaluations += evals
        ctx.notes["falsifier"] = {"profile": profile, "maxlog": fl, "vectors_checked": evals, "failures": nfail, "wall_s": round(dt, 1),
                                  "oracle": "Horner with refmath u128 arithmetic at offset*g^i (extension fields: Horner with the crate's element ops); never an FFT"}


def split_radix(ctx, drv, quick):
    """The concurrent code path: the harness built with --features concurrent (fft::evaluate_poly etc. dispatch to
    math/src/fft/concurrent.rs split_radix_fft for n >= 1024, Segment::new to its duplicate) under several rayon pool
    sizes vs the extracted model of split_radix_fft (Model/FFTSplit.v) resp. the serial model."""
    conc = ctx.build_harness("c09", "release", features=("concurrent",))
    if not conc or not drv:
        return
    maxlog = 12 if quick else 13
    outs, t0 = {}, __import__("time").time()
    for T in (1, 2, 3, 8):
        rc, out, dt = vcheck.sh([conc, "split", str(ctx.seed), str(maxlog)], timeout=600, env={"RAYON_NUM_THREADS": str(T)})
        head = [l for l in out.split("\n") if l.startswith("# build")]
        ctx.ob(f"split:run:threads={T}", rc == 0 and bool(head) and "concurrent=true" in head[0] and f"threads={T}" in head[0],
               f"rc={rc} {head[:1]} {out[-200:] if rc else ''}")
        outs[T] = [l for l in out.split("\n") if " => " in l]
    ref = outs[1]
    for T in (2, 3, 8):
        bad = [a.split(" => ")[0][:120] for a, b in zip(ref, outs[T]) if a != b]
        ctx.ob(f"split:threads={T}:same-output-as-1-thread", len(ref) == len(outs[T]) and not bad, f"{len(bad)} differing lines, first: {bad[:1]}")
    sizes = sorted({veclen(l.split(" => ")[0].split(" ")[2]).bit_length() - 1 for l in ref if l.startswith("split_eval ") or l.startswith("split_interp ")})
    ctx.ob("coverage:split:sizes-2^10..", set(range(10, maxlog + 1)) <= set(sizes), f"sizes {sizes}")
    par_correspondence(ctx, "split-radix:concurrent-build", ref, drv, jobs=10, timeout=900,
                       weight=lambda c: len(c) * (8 if " f128 " in c[:20] else 1))
    ctx.notes["split_radix"] = {"pool_sizes": [1, 2, 3, 8], "log2_sizes": sizes, "cases": len(ref),
                                "ops": sorted({l.split(" ")[0] for l in ref}), "wall_s": round(__import__("time").time() - t0, 1),
                                "what": "concurrent build vs the extracted Model/FFTSplit.v: evaluate_poly, interpolate_poly, evaluate_poly_with_offset, "
                                        "interpolate_poly_with_offset (split_radix_fft + permute + scalings) and RowMatrix::evaluate_polys_over "
                                        "(segment_new_concurrent: split_radix_fft on [[B;N]] rows, row FFT sizes 8/16/32, full and partial segments)"}


def run(ctx):
    quick = ctx.tier == "quick"
    ctx.rule = ("correspondence: every size 2^1..2^maxlog (maxlog 11 quick / 14 thorough; sizes >= 2^10 take the two-call branch of "
                "fft_in_place, smaller ones the doubling branch), three base fields, unit vectors (all for n<=32, boundary+random "
                "positions above), all-ones, p-1, alternating, ramp, random and boundary-value vectors, offsets 1/GENERATOR/random/p-1, "
                "blowups 1..128, explicit count/stride/offset triples for fft_in_place_raw, explicit (non-standard) twiddles, malformed "
                "lengths (=> panic on both sides), 1..40 (thorough ..255) columns at segment widths 1,2,3,4,8 through the extracted "
                "faithful index-level model AND (second run) through the extracted fft_rec/peval spec; falsifier: direct Horner "
                "evaluation with u128 reference arithmetic at offset*g^i, interpolate(evaluate)=id, true degree; distinct = distinct case lines")
    ctx.assumptions += [
        "the hand-written Gallina model coq/Model/FFT.v is tied to the Rust source by the correspondence only (no translator)",
        "E = B in the model (base-field vectors); extension-field vectors are covered by the falsifier (mul_base acts coordinate-wise)",
        "panics: the checked model (every values[i]/twiddles[i]/swap and the debug_asserts as explicit None) is proved equal to the option-valued model on all inputs (C09_entry_points_no_panic); a butterfly that touches i and j is one guard on both indices",
        "usize = 64 bits; lengths below 2^32 (`len as u32`)",
        "concurrent build: split_radix_fft is modelled with its rows sequentialised (C14_disjoint_commute / C14_phase_schedule_independent); "
        "rayon scheduling, batched scaling and the parallel permute are C14's",
    ]
    # pure integer part: permute_index is TRANSLATED from math/src/fft/mod.rs on every run (coq/Gen/FftIndex.v);
    # Proofs/FFTGen.v proves that the hand model computes the generated term
    ctx.rs2v(["FftIndex"])
    ctx.audit_sources()
    ctx.coq_build("C09")
    if not quick:
        ctx.coqchk("C09")
    drv = ctx.build_driver("c09")
    profile = "debug" if quick else "release"
    hb = ctx.build_harness("c09", profile)
    exercise(ctx, hb, drv, quick, profile)
    split_radix(ctx, drv, quick)
    ctx.notes["proof_stages"] = {
        "a": "theorem (every k): fft_rec = DFT by direct evaluation; coset evaluation; interpolation inverse at the spec level",
        "b": "checked every run: extracted faithful model and extracted fft_rec vs the crate (see correspondence)",
        "c": "theorem (every k): faithful index-level fft_in_place (both strategies, any count/stride/offset) = bit-reversed list FFT; "
             "permute = bit reversal; evaluate_poly/evaluate_poly_with_offset/interpolate_poly(_with_offset)/infer_degree of the faithful model",
        "no_panic": "theorem (every k): no slice access of fft_in_place/permute out of range under the entry-point asserts; checked entry points = "
                    "entry points on all inputs; exact panic domains (_total_iff); the driver also runs the checked model on every case of work size <= 256",
        "split_radix": "theorem (every n = 4^k, 2*4^k): split_radix_fft of the concurrent build (swap-loop transpositions, strided row FFTs, outer "
                       "twiddles) = fft_in_place, scalar AND [[B;N]] row instance; Segment::new_with_buffer concurrent branch = serial branch; the "
                       "concurrent wrappers satisfy the serial specifications; checked every run: extracted models vs the --features concurrent "
                       "build under 1/2/3/8 threads",
        "generated": "permute_index is translated by rs2v from the source on every run; theorem: model = generated term for every size <= 2^63; "
                     "the driver evaluates the generated term on every permute_index case",
    }
    for s in ctx.samples:
        for k in list(s):
            if isinstance(s[k], str) and len(s[k]) > 400:
                s[k] = s[k][:400] + "..."
    ctx.trusted.insert(0, "Coq 8.16.1 kernel + vm_compute (no native_compute); Print Assumptions under every theorem")
