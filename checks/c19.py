"""C19 — public coin contract (crypto/src/random/default.rs, Randomizable impls of math/src/field/*)."""
import hashlib
import json
import os
import re
import threading

import vcheck


# signature of the one open finding (copy of notes/C19.findings.json, used when that file has not been merged into
# known_findings.json yet or is missing): the check prints KNOWN-FINDING for exactly this failure and reports any other
_F1 = {"id": "C19-F1-seed-reseed-shape-ambiguity", "property": "C19", "status": "open",
       "what": "new(E) and new(E').reseed(d) are the same coin when bytes(E) = hash_elements(E') || d: the hashers do not separate "
               "hash_elements from merge (Blake3_256, Blake3_192, Sha3_256, Rp64_256); no hash collision involved; see notes/C19.findings.json",
       "match": {"what": r"^history shape ambiguity: new\(E\) and new\(E'\)\.reseed\(d\) are the same coin",
                 "input": r"^(Blake3_256|Blake3_192|Sha3_256|Rp64_256) f(64|128) "}}


def _load_known(ctx):
    have = {k.get("id") for k in ctx.known}
    items = []
    p = os.path.join(vcheck.VERIF, "notes", "C19.findings.json")
    try:
        d = json.load(open(p))
        items = [i for i in d.get("findings", []) if i.get("property") == "C19"]
    except (OSError, ValueError):
        items = []
    if not any(i.get("id") == _F1["id"] for i in items):
        items.append(_F1)
    for i in items:
        if i.get("id") not in have:
            ctx.known.append(i)


def _falsify(ctx, hb, profile, budget):
    rc, out, _ = vcheck.sh([hb, "falsify", str(ctx.seed), str(budget)], timeout=1500)
    nfail, seen_final = 0, False
    for line in out.split("\n"):
        if line.startswith("{"):
            try:
                f = json.loads(line)
            except ValueError:
                continue
            f["profile"] = profile
            f["replay"] = f"{hb} falsify {ctx.seed} {budget}"
            nfail += 1
            ctx.add_failure(f)
        elif line.startswith("evaluations="):
            seen_final = True
            ctx.evaluations += int(line.split()[0].split("=")[1])
    ctx.ob(f"falsifier-ran:{profile}", rc == 0 and seen_final, out[-300:])
    ctx.notes.setdefault("falsifier", {})[profile] = {"budget": budget, "failures": nfail,
                                                      "hashers": "Blake3_192/Blake3_256/Sha3_256 x f64,f62,f128; Rp62_248; Rp64_256; RpJive64_256"}


def _corr_parallel(ctx, name, lines, drv, chunks):
    """The extracted model keeps Z inductive (~1-3 ms per hash call): the driver runs on interleaved chunks in
    parallel processes; comparison and bookkeeping are sequential (same records as Ctx.correspondence)."""
    cases, impl = [], []
    for l in lines:
        c, r = l.split(" => ", 1)
        cases.append(c)
        impl.append(r.strip())
    model = [None] * len(cases)
    errs = []

    def work(k):
        idx = list(range(k, len(cases), chunks))
        if not idx:
            return
        rc, out, _ = vcheck.sh([drv], input_="\n".join(cases[i] for i in idx) + "\n", timeout=1500)
        res = out.split("\n")
        if res and res[-1] == "":
            res.pop()
        if rc != 0 or len(res) != len(idx):
            errs.append(f"driver rc={rc} produced {len(res)} lines for {len(idx)} cases: {out[-200:]}")
            return
        for i, r in zip(idx, res):
            model[i] = r

    ths = [threading.Thread(target=work, args=(k,)) for k in range(chunks)]
    for t in ths:
        t.start()
    for t in ths:
        t.join()
    if errs:
        ctx.ob(f"corr:{name}", False, errs[0])
        return
    diffs = [{"case": c, "impl": a, "model": b} for c, a, b in zip(cases, impl, model) if a != b]
    ctx.evaluations += len(cases)
    for c in cases:
        ctx.distinct.add(hashlib.sha1(c.encode()).hexdigest())
    ctx.notes.setdefault("correspondence", {})[name] = {"cases": len(cases), "disagreements": len(diffs),
                                                         "operations": sum(len(c.split()) - 3 for c in cases)}
    if cases and len(ctx.samples) < 12:
        for k in (0, len(cases) // 2, len(cases) - 1):
            ctx.samples.append({"corr": name, "case": cases[k][:600], "impl": impl[k][:600], "model": model[k][:600]})
    ctx.ob(f"corr:{name}", not diffs, json.dumps(diffs[:3])[:1500])
    for d in diffs[:5]:
        ctx.add_failure({"what": "model/implementation disagreement on a coin history", "input": d["case"][:2000],
                         "expected": d["model"][:1000], "actual": d["impl"][:1000]})


def run(ctx):
    quick = ctx.tier == "quick"
    _load_known(ctx)
    ctx.rule = ("correspondence: whole histories new(seed) ; (reseed | draw base/quadratic/cubic | draw_integers | check_leading_zeros | "
                "nonce search)* ; probe, run on the real DefaultRandomCoin over ToyHasher<B> (8-byte digest) and WideToy<B,MODE> "
                "(32-byte digest; modes that force the rejection branch, the 1000-try failure, a first admissible candidate placed at try 998..1002, and first candidates with M, M+1 or 2^bits-1 - the gap [M, 2^MODULUS_BITS) - in each coefficient slot) for B in f64/f62/f128, every "
                "output token and error class (ok/err/panic) compared with the extracted Gallina model. Boundary stream first: "
                "every domain size 2^1..2^32 with counts 1 and min(255,dom-1) and nonces 0/1/u64::MAX, every count 1..255, counts "
                ">= domain size, non-powers of two, zero counts, 999..1001 and 2000 values (iteration limit), seed lengths "
                "0/1/2/3/7/8/9/40/100, every element type repeated, nonce search for grinding factors 0..8; then random histories. "
                "falsifier: boundary nonces first (0, 1, 2, p-2..p+2 for the f64 modulus, k*p-1..k*p+1 for k = 1..4 and the f62 modulus, 2^32+-1, "
                "2^62, 2^63+-1, u64::MAX-1, u64::MAX; every pair must give different draw_integers output and a different next draw, on "
                "every hasher x field, three history variants), gap candidates on WideToy<B,5> against the reference coin, then random histories on the six real hashers checked against a reference counter-mode expansion written "
                "from the documentation, replay (determinism), canonical-form checks of every drawn element, interleaved "
                "check_leading_zeros (purity), single-component mutations (sensitivity); distinct = distinct history lines")
    ctx.assumptions += [
        "usize is 64 bits (draw_integers arguments are modelled as u64 values)",
        "Hasher::merge / merge_with_int / hash_elements and Digest::as_bytes are pure functions of their arguments (true of the six "
        "hashers: no interior state); the theorems hold for every such triple, collision resistance is never assumed",
        "the u64 counter cannot overflow in practice: counter_bound proves counter <= 1000 * (#operations since the last reseed)",
    ]
    ctx.audit_sources()
    ctx.coq_build("C19")
    if not quick:
        ctx.coqchk("C19")
    drv = ctx.build_driver("c19")
    n = 150 if quick else 2500
    profiles = ("debug",) if quick else ("debug", "release")
    for profile in profiles:
        hb = ctx.build_harness("c19", profile)
        if not hb:
            continue
        if drv:
            rc, out, _ = vcheck.sh([hb, "corr", str(ctx.seed), str(n)], timeout=600)
            lines = [l for l in out.split("\n") if " => " in l]
            dist = [l for l in out.split("\n") if l.startswith("distribution ")]
            ctx.ob(f"corr-generated:{profile}", rc == 0 and len(lines) >= n, out[-300:] if rc else f"{len(lines)} cases")
            if dist:
                m = re.match(r"distribution boundary=(\d+) random=(\d+) (\{.*\})", dist[0])
                if m:
                    ctx.notes.setdefault("input_distribution", {})[profile] = {
                        "boundary_histories": int(m.group(1)), "random_histories": int(m.group(2)),
                        "output_tokens_and_case_classes": json.loads(m.group(3))}
            _corr_parallel(ctx, f"coin-histories:{profile}", lines, drv, 6 if quick else 12)
        budget = (600 if quick else 24000) * (4 if ctx.broken() else 1)
        _falsify(ctx, hb, profile, budget)
    ctx.notes["observations"] = [
        "draw_integers(0, d, _) returns 1000 values (the length test follows the push): outside the property's quantifier "
        "(counts 1..255), modelled faithfully and proved as C19_draw_integers_zero_count",
        "draw_integers does not de-duplicate; a count >= domain size is the documented Err (coin untouched), a non-power-of-two "
        "domain the documented panic",
        "check_leading_zeros counts TRAILING zero bits of the little-endian u64 head (doc comment says leading/big-endian); "
        "prover and verifier call the same function, C19_pow_measure_agree",
        "draw::<CubeExtension<f128>> panics (48 > 32 bytes) after advancing the counter; that extension is not supported",
        "Blake3_192 digests are padded with 8 zero bytes by as_bytes: the high half of the second coefficient of a drawn "
        "quadratic f128 element is always 0 with that hasher (valid and canonical, but not uniform)",
    ]
    ctx.trusted.insert(0, "Coq 8.16.1 kernel + vm_compute (no native_compute); Print Assumptions under every theorem")
    ctx.trusted.append("hand-written model coq/Model/Coin.v (tied by the history correspondence on every run); "
                       "ToyHasher/WideToy are defined twice (Rust, Gallina) and compared through the same correspondence")
