"""C20 — polynomial arithmetic (math/src/polynom) and the serial math utils (math/src/utils)."""
import json
import vcheck

FIELDS = ("f64", "f62", "f128", "q64", "q62", "q128", "c64", "c62")
MIXED_OPS = ("eval_mixed", "eval_many_mixed", "mul_acc_mixed")


def run(ctx):
    quick = ctx.tier == "quick"
    ctx.rule = ("correspondence: extracted Gallina model (coq/Model/Polynom.v over zp_ops P64/P62/P128 and over the quadratic / cubic extension "
                "records quad64/62/128_ops, cube64/62_ops of Model/PolynomExt.v) vs the crate on one case per line, fields f64 f62 f128 q64 q62 q128 "
                "c64 c62 (extension elements travel as base coordinates; pool = tuples over {0,1,2,p-1,random} incl. embedded base elements and a "
                "zero low coordinate; the same boundary classes with lengths <= 9, 64/65 only for linear-time ops); mixed instantiations "
                "eval<B,E>, eval_many<B,E>, mul_acc<B,E> on every extension field (base polynomial lengths 0,1,2,3,7,8,9,64 with zero leading/low "
                "coefficients at the points 0, 1, embedded base element, zero low coordinate, random; mul_acc equal/unequal lengths, c in "
                "{0,1,embedded,random}, b entries incl. 0,1,p-1); "
                "boundary stream first (deterministic: vector lengths 0,1,2,3,7,8,9,63,64,65 and 1023..1025 for the linear-time ops; 0/1/2/all zero "
                "leading coefficients, 0/1/2 zero low coefficients; elements 0,1,2,p-1,p-2,(p-1)/2; mul on all length pairs of {0,1,2,3,7,8,9}; "
                "div valid/exact/with remainder and every panic class (b empty, [0], all zero, deg b > deg a, empty dividend); syn_div a in "
                "{1,2,3,4,7} x b in {1,p-1,random} plus a in {0,len-1,len,len+1}, b = 0; syn_div_roots 0..len roots incl. 0 and repeated; "
                "batch_inversion with all zero masks for L<=4; interpolate with x=0 at first/middle/last position, duplicates, low-degree ys, "
                "length mismatch; interpolate_batch N in {0,1,2,3,4,8}, nx != ny), then a random structured stream (4/5) and a malformed "
                "stream (1/5) over all 20 operations (+ the 3 mixed ones on extension fields) and all eight fields (half of it on extension fields); falsifier: schoolbook reference polynomial arithmetic + u128 modular "
                "arithmetic on base and extension fields, boundary sizes first then random rounds; distinct = distinct case lines")
    ctx.assumptions += [
        "field operations of the base fields agree with Z/p on canonical residues (C07, C08): the model runs on zp_ops p",
        "B != E instantiations (eval<B,E>, eval_many<B,E>, mul_acc<F,E>) are in the correspondence with B = the base field of E, for E in "
        "q64/q62/q128/c64/c62: the model takes E::from = the embedding b -> (b, 0[, 0]) and mul_base = the ExtensibleField::mul_base routine "
        "of C08's model (coq/Model/ExtField.v)",
        "arithmetic of QuadExtension / CubeExtension agrees with C08's model (coq/Model/ExtField.v over the generated ExtensibleField bodies): "
        "the extension correspondence runs the polynomial model on that arithmetic",
        "serial (non-`concurrent`) code paths of get_power_series, get_power_series_with_offset, add_in_place, mul_acc, batch_inversion",
        "uninit_vector contents are never read before being written: proved for poly_from_roots (C20_poly_from_roots_spec, arbitrary `init`) and "
        "fill_power_series (any initial content of the right length); batch_inversion writes every result slot in its first loop",
        "usize arithmetic on lengths does not overflow (a Vec holds at most isize::MAX bytes)",
    ]
    ctx.audit_sources()
    ctx.coq_build("C20")
    if not quick:
        ctx.coqchk("C20")
    # correspondence: extracted model vs implementation.  The boundary streams (1615 base-field + 1071 extension-field
    # + 177 mixed-instantiation cases = 2863) are always emitted in full; n is the total, so the quick tier adds ~240
    # random/malformed cases on top.
    n = 3100 if quick else 20000
    drv = ctx.build_driver("c20")
    for profile in ("debug",) + (("release",) if not quick else ()):
        hb = ctx.build_harness("c20", profile)
        if hb and drv:
            rc, out, _ = vcheck.sh([hb, "corr", str(ctx.seed), str(n)], timeout=600)
            lines = out.split("\n")
            corr_lines = [l for l in lines if " => " in l]
            ctx.ob(f"corr-harness:{profile}", rc == 0 and len(corr_lines) >= min(n, 1500),
                   f"rc={rc} produced {len(corr_lines)} case lines: {out[-200:]}")
            for l in lines:
                if l.startswith("dist "):
                    ctx.notes.setdefault("input_distribution", {})[profile] = l[5:]
                    kv = dict(t.split("=", 1) for t in l[5:].split() if "=" in t)
                    ctx.notes.setdefault("cases_per_field", {})[profile] = {f: int(kv[f]) for f in FIELDS if f in kv}
                    ext = sum(int(kv.get(f, 0)) for f in FIELDS if f[0] in "qc")
                    ctx.ob(f"corr-ext-fields:{profile}", all(int(kv.get(f, 0)) > 0 for f in FIELDS),
                           f"cases per field: {l[5:200]}")
                    ctx.notes.setdefault("extension_field_cases", {})[profile] = ext
                    ctx.ob(f"corr-mixed-ops:{profile}", all(int(kv.get(o, 0)) > 0 for o in MIXED_OPS),
                           "cases per mixed op: " + " ".join(f"{o}={kv.get(o, 0)}" for o in MIXED_OPS))
                    ctx.notes.setdefault("mixed_instantiation_cases", {})[profile] = {o: int(kv.get(o, 0)) for o in MIXED_OPS}
            ctx.correspondence(f"polynom:{profile}", corr_lines, drv, timeout=900)
        # property-level falsifier (independent oracle); more effort when an obligation is broken
        if hb:
            budget = (300 if quick else 5000) * (4 if ctx.broken() else 1)
            rc, out, _ = vcheck.sh([hb, "falsify", str(ctx.seed), str(budget)], timeout=1500)
            nfail = 0
            seen_summary = False
            for line in out.split("\n"):
                if line.startswith("{"):
                    try:
                        f = json.loads(line)
                    except ValueError:
                        continue
                    f["profile"] = profile
                    f["replay"] = f"{hb} falsify {ctx.seed} {budget}"
                    nfail += 1
                    ctx.add_failure(f)
                elif line.startswith("evaluations="):
                    seen_summary = True
                    ctx.evaluations += int(line.split()[0].split("=")[1])
            # a hang report exits through the watchdog without the summary line, but then a failure record was printed
            ctx.ob(f"falsifier-ran:{profile}", seen_summary or nfail > 0, f"rc={rc}: {out[-200:]}")
            ctx.notes.setdefault("falsifier", {})[profile] = {"budget": budget, "failures": nfail}
    ctx.trusted.insert(0, "Coq 8.16.1 kernel + vm_compute (no native_compute); Print Assumptions under every theorem")
    ctx.trusted.append("hand-written model coq/Model/Polynom.v (not generated from the Rust source): tied to /repo's current source by the per-run "
                       "correspondence of every modelled function on the three base fields and five extension fields")
    ctx.notes["proved_for_every_field_and_length"] = (
        "eval, eval_many, add, sub, mul_by_scalar, mul (peval product AND convolution of coefficients), degree_of, remove_leading_zeros, "
        "div (function identity, coefficient identity a_k = (q*b)_k + r_k, remainder layout, exact panic domain, uniqueness of (q,r), "
        "EXACT division a = q0*b => q0 with zero remainder), syn_div/syn_div_in_place (remainder layout, exact panic domain, exact division "
        "for every a >= 1), syn_div_roots_in_place (+panic domain, exact division), poly_from_roots (independent of the uninitialised content), "
        "interpolate (distinct xs incl. 0; panic domains; uniqueness; interpolate o eval_many = id), interpolate_batch (= interpolate per row, any N, "
        "any number of rows), batch_inversion, get_power_series(_with_offset), add_in_place, mul_acc, mixed eval<B,E> / mul_acc<F,E>")
    ctx.notes["tested_only"] = "`concurrent` feature variants (other property)"
    ctx.notes["defects_repaired"] = "notes/C20.findings.json: F20a interpolate panics on X = 0; F20b mul([],[]); F20c div([],[c]); F20d get_power_series(_,0)"
