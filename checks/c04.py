"""C04 — Fiat-Shamir transcript: challenges depend on all earlier prover messages."""
import json
import os
import vcheck


def _coverage(ctx, lines):
    """The correspondence must EXERCISE the classes of the quantifier: record which were seen."""
    seen = {"single": 0, "multi": 0, "aux_rands0": 0, "ext1": 0, "ext2": 0, "ext3": 0, "layers0": 0, "layers>=4": 0,
            "grind0": 0, "grind>0": 0, "lagrange": 0, "lagrange+aux_rands>=1": 0}
    hashers, fields, maxl = set(), set(), 0
    for l in lines:
        if not l.startswith("tr p "):   # prover lines exist for accepted and for rejected honest proofs
            continue
        t = l.split(" => ")[0].split()
        tag, sh = t[2], [int(x) for x in t[3:18]]
        f, h, _ = tag.split("/")
        fields.add(f)
        hashers.add(h)
        seen["multi" if sh[1] > 0 else "single"] += 1
        seen["aux_rands0"] += int(sh[1] > 0 and sh[2] == 0)
        seen["ext%d" % sh[8]] += 1
        seen["layers0"] += int(sh[9] == 0)
        seen["layers>=4"] += int(sh[9] >= 4)
        maxl = max(maxl, sh[9])
        seen["grind0" if sh[10] == 0 else "grind>0"] += 1
        seen["lagrange"] += int(sh[12] == 1)
        seen["lagrange+aux_rands>=1"] += int(sh[12] == 1 and sh[2] >= 1)
    missing = [k for k, v in seen.items() if v == 0]
    want_h = {"toy", "blake3_256", "rp64_256"}
    want_f = {"f64", "f128"}
    ctx.ob("coverage:quantifier-classes-exercised", not missing and want_h <= hashers and want_f <= fields,
           f"missing={missing} hashers={sorted(hashers)} fields={sorted(fields)}")
    ctx.notes["coverage"] = {"classes": seen, "hashers": sorted(hashers), "fields": sorted(fields), "max_fri_layers": maxl}


def _own_findings(ctx):
    """notes/C04.findings.json holds this property's findings until the coordinator merges them into known_findings.json."""
    p = os.path.join(vcheck.VERIF, "notes", "C04.findings.json")
    if os.path.exists(p):
        have = {k["id"] for k in ctx.known}
        ctx.known += [k for k in json.load(open(p)).get("findings", []) if k.get("property") == "C04" and k["id"] not in have]


def run(ctx):
    quick = ctx.tier == "quick"
    _own_findings(ctx)
    ctx.rule = ("correspondence: the real Prover::prove and winter_verifier::verify run with RecordingCoin<DefaultRandomCoin<H>> over "
                "boundary shapes first (0 / max FRI layers, aux segment with and without random elements, base/quadratic/cubic, "
                "grinding 0 and >0) then random members of the AIR family and of the Lagrange-kernel family (GKR draws + 0..3 ordinary "
                "auxiliary random elements; observed USES of the drawn values as GKR / auxiliary randomness are part of the abstract log) x {f64,f128,f62} x {ToyHasher,Blake3_256,Rp64_256,"
                "Rp62_248,Sha3_256}; both coin logs abstracted to (operation, absorbed proof component) by byte comparison with "
                "values recomputed from the serialized proof and compared with the extracted Coq generators (tr), and fed to the "
                "extracted Coq decision procedure log_ok (chk); Context::to_elements vs its arithmetic model (ctx). falsifier "
                "(model-independent, raw logs): identical logs, reseed data = proof components in order, seed = context ++ public "
                "inputs, single-component flips change every later challenge (real verifier + replay on a fresh coin); "
                "distinct = distinct case lines")
    ctx.assumptions += [
        "the RandomCoin trait is the only channel through which prover and verifier obtain challenges (type-level: the coin is a private field of ProverChannel / a local of verify)",
        "which draw serves which purpose is determined by call order in air/src/air/mod.rs (get_aux_rand_elements, get_constraint_composition_coefficients, get_deep_composition_coefficients) — the model labels the i-th draw accordingly; FriVerifier::verify_generic reads layer_alphas[depth] only for depth < num_fri_layers (code reading)",
        "hash functions are modelled as free constructors (Seed/Reseed/Nonce): the theorems are about WHAT is absorbed in WHICH order, not about collision resistance",
        "Lagrange-kernel AIRs: the number of elements the user's GKR step draws is a shape parameter; absorption of the GKR proof bytes (user code) is not modelled",
    ]
    ctx.audit_sources()
    ctx.coq_build("C04")
    if not quick:
        ctx.coqchk("C04")
    drv = ctx.build_driver("c04")
    hb = ctx.build_harness("c04", "release")
    if hb and drv:
        n = 120 if quick else 3000
        rc, out, _ = vcheck.sh([hb, "corr", str(ctx.seed), str(n)], timeout=900)
        lines = out.split("\n")
        ctx.ob("harness-run:corr", rc == 0 and any(l.startswith("tr v ") for l in lines), out[-300:] if rc else "")
        for pref, name in (("tr ", "transcript-events-vs-model"), ("chk ", "observed-log-vs-coq-decision-procedure"),
                           ("trp ", "early-stopped-verifier-log-is-prefix-of-model"),
                           ("ctx ", "context-to-elements-vs-model")):
            sel = [l for l in lines if l.startswith(pref)]
            if sel or pref != "trp ":      # trp lines exist only when a verifier rejected an honest proof
                ctx.correspondence(name, sel, drv)
        _coverage(ctx, lines)
    if hb:
        budget = (150 if quick else 5000) * (4 if ctx.broken() else 1)
        rc, out, _ = vcheck.sh([hb, "falsify", str(ctx.seed), str(budget)], timeout=1500)
        nfail, evals, sens = 0, 0, {}
        for line in out.split("\n"):
            if line.startswith("{"):
                try:
                    f = json.loads(line)
                except ValueError:
                    continue
                f["replay"] = f"{hb} falsify {ctx.seed} {budget}"
                nfail += 1
                ctx.add_failure(f)
            elif line.startswith("evaluations="):
                evals = int(line.split()[0].split("=")[1])
                ctx.evaluations += evals
            elif line.startswith("sensitivity_observed="):
                sens = dict(kv.split("=") for kv in line.split())
        ctx.ob("harness-run:falsify", rc == 0 and evals > 0, out[-300:] if rc else f"evaluations={evals}")
        proofs = int(sens.get("proofs", 0))
        ctx.ob("falsifier:sensitivity-observed", proofs > 0 and int(sens.get("sensitivity_observed", 0)) > 20 * proofs,
               f"{sens}")
        ctx.notes["falsifier"] = {"budget": budget, "failures": nfail, "evaluations": evals, **sens}
    ctx.trusted.insert(0, "Coq 8.16.1 kernel (no axioms: every theorem is closed under the global context); Print Assumptions under every theorem")
    ctx.trusted.append("harness/src/coinrec.rs RecordingCoin (forwards every RandomCoin call to DefaultRandomCoin and logs it; the falsifier "
                       "re-executes each verifier log on a fresh DefaultRandomCoin and demands identical results) and harness/src/bin/c04.rs "
                       "(identification of absorbed components by their bytes)")
