"""C15 — FRI completeness and the folding identity."""
import json
import concurrent.futures
import vcheck


def _falsify(ctx, hb, budget, profile="debug", timeout=1500):
    rc, out, _ = vcheck.sh([hb, "falsify", str(ctx.seed), str(budget)], timeout=timeout)
    nfail, seen_summary = 0, False
    for line in out.split("\n"):
        if line.startswith("{"):
            try:
                f = json.loads(line)
            except ValueError:
                continue
            f["profile"] = profile
            f["replay"] = f"{hb} falsify {ctx.seed} {budget}"
            nfail += 1
            ctx.add_failure(f)
        elif line.startswith("evaluations="):
            seen_summary = True
            ctx.evaluations += int(line.split()[0].split("=")[1])
    ctx.ob(f"falsifier-ran:{profile}", seen_summary and rc == 0, out[-300:])
    ctx.notes.setdefault("falsifier", {})[profile] = {"budget": budget, "failures": nfail}


def correspondence_parallel(ctx, name, lines, drv, jobs=8, timeout=1500):
    """The extracted model computes on inductive Z: split the cases over several driver processes."""
    lines = [l for l in lines if " => " in l]
    chunks = [lines[i::jobs] for i in range(jobs)]
    with concurrent.futures.ThreadPoolExecutor(max_workers=jobs) as ex:
        futs = [ex.submit(ctx.correspondence, f"{name}:{i}", ch, drv, None, timeout) for i, ch in enumerate(chunks) if ch]
        for f in futs:
            f.result()
    ops = {}
    for l in lines:
        ops[l.split(" ", 1)[0]] = ops.get(l.split(" ", 1)[0], 0) + 1
    ctx.notes.setdefault("corr_ops", {})[name] = ops


def build_inst(ctx):
    """Model/FriInst.v (executable instantiation used only by the extraction) is not in the closure of Props/*.vo."""
    with vcheck.Lock("coq"):
        rc, out, _ = vcheck.sh("make -f Makefile.coq -j8 Model/FriInst.vo", cwd=vcheck.COQ, timeout=900)
    ctx.ob("coq:Model/FriInst.vo", rc == 0, out[-300:])


def run(ctx):
    quick = ctx.tier == "quick"
    ctx.rule = ("correspondence (real winter_fri::{fold_positions, map_positions_to_indexes, FriOptions, apply_drp, FriProver, "
                "DefaultProverChannel, FriVerifier, DefaultVerifierChannel} with ToyHasher + DefaultRandomCoin<ToyHasher> vs the "
                "extracted model): ops fold/mapidx/opts/nlayers (15%: duplicates, positions colliding after folding, out-of-range, "
                "zero/unsupported factors), drp (25%: N in 2/4/8/16, offsets GENERATOR/1/random, alpha incl. 0/1/full extension "
                "elements, polynomial and random evaluations, panicking shapes), prove (35%: commitments, opened values, Merkle nodes, "
                "remainder, verdict; N 2/4/8/16, blowup 2..16 (thorough ..128), remainder max degree 0..31 (thorough ..255), domains "
                "2^4..2^10 (wide fields capped lower), degree 0 / exactly the bound / random, query lists with duplicates and "
                "collisions, zero-layer and ill-formed schedules, mis-claimed degrees), twice (5%: prover reuse), verify (20%: decoded "
                "honest proofs re-serialised by hand + single mutations), fields f64, f128 and their quadratic extensions; "
                "falsifier: folding identity against u128 schoolbook arithmetic, honest proofs verify (also after to_bytes/"
                "read_from_bytes), prover reuse, fold_positions/num_fri_layers against own loops; distinct = distinct case lines")
    ctx.assumptions += [
        "the hand model coq/Model/Fri.v follows fri/src (validated by the correspondence on every run); field values are computed "
        "by value-equivalent formulas (direct inverse DFT / Lagrange form) rather than operation by operation",
        "usize arithmetic of the modelled functions does not overflow for inputs a Vec can hold ((remmax+1)*blowup is unbounded in the model)",
        "rustc/LLVM compile the crate as written; ToyHasher (64-bit, not collision resistant) stands for 'all hashers': the code is generic in H",
    ]
    # the pure integer parts of fri/src are re-translated on every run (coq/Gen/FriInt.v); Proofs/FriGen.v proves that
    # the hand model computes those terms, so a change of that arithmetic in the source breaks the Coq build
    ctx.rs2v(["FriInt"])
    ctx.audit_sources()
    ctx.coq_build("C15")
    if not quick:
        ctx.coqchk("C15")
    build_inst(ctx)
    drv = ctx.build_driver("c15")
    n = 320 if quick else 4000
    for profile in (("debug",) if quick else ("debug", "release")):
        hb = ctx.build_harness("c15", profile)
        if hb and drv:
            rc, out, _ = vcheck.sh([hb, "corr", str(ctx.seed), str(n)], timeout=900)
            ctx.ob(f"harness-corr-ran:{profile}", rc == 0 and out.count(" => ") >= n * 0.9, out[-300:])
            correspondence_parallel(ctx, f"fri-model:{profile}", out.split("\n"), drv, jobs=12, timeout=2400)
        if hb:
            budget = (3000 if quick else 60000) * (4 if ctx.broken() else 1)
            _falsify(ctx, hb, budget, profile)
    ctx.notes["level_note"] = ("theorems: fold_positions, num_fri_layers (+ well-formed schedule), layer layout, folding identity "
                               "(N=2 explicit formula and every power-of-two N), degree propagation; fri_complete is proved "
                               "per layer (_partial), the end-to-end composition is tested by correspondence + falsifier")
    ctx.trusted.insert(0, "Coq 8.16.1 kernel + vm_compute (no native_compute); Print Assumptions under every theorem")
