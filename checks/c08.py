"""C08 — extension fields: arithmetic equals polynomial arithmetic modulo the irreducible polynomial."""
import json
import vcheck


def run(ctx):
    quick = ctx.tier == "quick"
    ctx.rule = ("correspondence: QuadExtension<f64|f62|f128>, CubeExtension<f64|f62> vs the extracted model (hand model of the "
                "wrappers over the GENERATED ExtensibleField bodies, base field zp_ops p) on canonical coefficients: every tuple of "
                "{0,1,p-1,p-2,(p-1)/2,(p+1)/2} through every unary op and as operand of every binary op, every boundary class "
                "(2^32+-1, 2^63, 2^64+-1, ...) in every coefficient position, operands with a0+a1 in {0,1,p-1}, a0=a_{N-1}, single "
                "non-zero coefficient, random; ops mul square mul_base inv div conj add sub neg double exp eq from_base base_element "
                "slice_as/from_base_elements to_bytes read_from_bytes try_from(bytes incl. non-canonical/short/long); coefficients are "
                "also built as sums/differences/negations so that internal representations differ from `new`; "
                "falsifier: schoolbook product + reduction by the documented polynomial over u128 refmath, a*inv(a)=1, conj "
                "multiplicative/additive/fixes exactly the base field/order N/equals a^p, norm in base, == iff coefficients equal, "
                "slice and byte round trips; distinct = distinct case lines")
    ctx.assumptions += [
        "rs2v preserves the meaning of the translated `impl ExtensibleField<N>` bodies (validated by the correspondence on every run)",
        "the base-field operations of BaseElement are the field operations on residues (that is property C07); the theorems are for "
        "any FOps with FLaws and are instantiated with the sigma-type prime fields of Proofs/ZpLaws.v",
        "the #[repr(C)] layout behind slice_as_base_elements / slice_from_base_elements / as_bytes is modelled as flatten/group on "
        "lists, not verified (covered by the correspondence only)",
        "the hand model of the generic wrappers (Model/ExtField.v) is tied to quadratic.rs / cubic.rs by the correspondence only",
    ]
    ok_tr = ctx.rs2v(["F64", "F62", "F128"])
    ctx.audit_sources()
    ctx.coq_build("C08")
    if not quick:
        ctx.coqchk("C08")
    n = 300 if quick else 20000
    drv = ctx.build_driver("c08") if ok_tr else None
    for profile in ("debug",) + (("release",) if not quick else ()):
        hb = ctx.build_harness("c08", profile)
        if hb and drv:
            rc, out, _ = vcheck.sh([hb, "corr", str(ctx.seed), str(n)], timeout=600)
            ctx.correspondence(f"ext-q64-q62-q128-c64-c62:{profile}", out.split("\n"), drv, timeout=2400)
        if hb:
            budget = (400 if quick else 40000) * (4 if ctx.broken() else 1)
            rc, out, _ = vcheck.sh([hb, "falsify", str(ctx.seed), str(budget)], timeout=1500)
            nfail = 0
            seen_final = False
            for line in out.split("\n"):
                if line.startswith("{"):
                    try:
                        f = json.loads(line)
                    except ValueError:
                        continue
                    f["profile"] = profile
                    f["replay"] = f"{hb} falsify {ctx.seed} {budget}"
                    nfail += 1
                    ctx.add_failure(f)
                elif line.startswith("evaluations="):
                    seen_final = True
                    ctx.evaluations += int(line.split()[0].split("=")[1])
            ctx.ob(f"falsifier-completed:{profile}", seen_final and rc == 0, out[-300:])
            ctx.notes.setdefault("falsifier", {})[profile] = {"budget": budget, "failures": nfail}
    ctx.trusted.insert(0, "Coq 8.16.1 kernel + vm_compute (no native_compute); Print Assumptions under every theorem")
