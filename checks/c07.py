"""C07 — base fields: arithmetic equals integer arithmetic modulo the prime."""
import json
import vcheck


def cmp_debug(case, impl, model):
    # model prints "<value> !ok" when a checked operation of the generated term is out of range:
    # the debug build panics there, the release build wraps.
    if model.endswith(" !ok"):
        return impl == "panic"
    return impl == model


def cmp_release(case, impl, model):
    return impl == model.replace(" !ok", "")


def run(ctx):
    quick = ctx.tier == "quick"
    ctx.rule = ("correspondence: raw internal words from the boundary classes of the reductions (0,1,p-1,p-2,(p+-1)/2,2^32+-1,"
                "2^63,2^64-2^32+-k, carry/borrow straddling halves) and random words, canonical and non-canonical, through every "
                "translated function; falsifier: short sequences of public operations checked against u128 big-integer arithmetic; "
                "distinct = distinct case lines")
    ctx.assumptions += ["rs2v preserves the meaning of the translated Rust subset (validated by the raw-word correspondence)",
                        "rustc/LLVM compile the field code as written; `unsafe` byte views (as_bytes/elements_as_bytes) are modelled as LE words"]
    ok_tr = ctx.rs2v(["F64", "F62", "F128"])
    ctx.audit_sources()
    ctx.coq_build("C07")
    import os
    for extra in ("C07_f62", "C07_f128"):
        if os.path.exists(os.path.join(vcheck.COQ, "Props", extra + ".v")):
            ctx.coq_build(extra)
    if not quick:
        ctx.coqchk("C07")
    # correspondence: generated model (extracted) vs implementation on raw words
    n = 4000 if quick else 200000
    drv = ctx.build_driver("c07") if ok_tr else None
    for profile, cmp in (("debug", cmp_debug),) + ((("release", cmp_release),) if not quick else ()):
        hb = ctx.build_harness("c07", profile)
        if hb and drv:
            rc, out, _ = vcheck.sh([hb, "corr", str(ctx.seed), str(n)], timeout=600)
            ctx.correspondence(f"raw-words-f64-f62-f128:{profile}", out.split("\n"), drv, compare=cmp, shards=8, timeout=1500)
        # property-level falsifier (independent oracle); more effort when an obligation is broken
        if hb:
            budget = (3000 if quick else 100000) * (4 if ctx.broken() else 1)
            rc, out, _ = vcheck.sh([hb, "falsify", str(ctx.seed), str(budget)], timeout=1500)
            nfail = 0
            for line in out.split("\n"):
                if line.startswith("{"):
                    try:
                        f = json.loads(line)
                    except ValueError:
                        continue
                    f["profile"] = profile
                    f["replay"] = f"{hb} falsify {ctx.seed} {budget}"
                    nfail += 1
                    ctx.add_failure(f)
                elif line.startswith("evaluations="):
                    ctx.evaluations += int(line.split()[0].split("=")[1])
            ctx.notes.setdefault("falsifier", {})[profile] = {"budget": budget, "failures": nfail}
    ctx.trusted.insert(0, "Coq 8.16.1 kernel + vm_compute (no native_compute); Print Assumptions under every theorem")
