"""C07 — base fields: arithmetic equals integer arithmetic modulo the prime."""
import json
import vcheck


def cmp_debug(case, impl, model):
    # model prints "<value> !ok" when a checked operation of the generated term is out of range:
    # the debug build panics there, the release build wraps.
    if model.endswith(" !ok"):
        return impl == "panic"
    return impl == model


def cmp_release(case, impl, model):
    return impl == model.replace(" !ok", "")


# coverage obligation: every operation of the correspondence must be sampled for each field that has it, and
# the outcome classes that separate the branches of the conversions must all occur (value / none / panic).
_COMMON = ["new", "add", "sub", "mul", "neg", "exp", "inv", "div", "grou", "fbwp", "conjugate", "add_assign", "sub_assign",
           "mul_assign", "div_assign", "base_element", "try_from_slice", "as_bytes", "eab", "bae", "from_u8", "from_u16", "from_u32",
           "try_from_u128"]
REQUIRED_OPS = {
    "f64": _COMMON + ["as_int", "double", "mul_small", "exp7", "eq", "try_from_u64", "try_from_bytes", "exp_vartime", "from_bool",
                      "try_from_usize", "to_bool", "to_u8", "to_u16", "to_u32", "to_u64", "to_u128", "sf_as_int"],
    "f62": _COMMON + ["as_int", "double", "eq", "try_from_u64", "exp_vartime", "to_u64", "to_u128", "try_from_bytes"],
    "f128": _COMMON + ["from_u64"],
}
# (op suffix, outcome class) pairs that must be seen for every field having the op
REQUIRED_OUTCOMES = [("bae", "none"), ("bae", "value"), ("try_from_slice", "none"), ("try_from_slice", "value"),
                     ("base_element", "panic"), ("base_element", "value"), ("fbwp", "panic"), ("fbwp", "value"),
                     ("grou", "panic"), ("grou", "value")]
REQUIRED_OUTCOMES_F64 = [("to_bool", "none"), ("to_bool", "value"), ("to_u8", "none"), ("to_u8", "value"), ("to_u16", "none"),
                         ("to_u16", "value"), ("to_u32", "none"), ("to_u32", "value"), ("try_from_usize", "none"),
                         ("try_from_usize", "value")]


def corr_coverage(lines):
    seen, outcomes = set(), set()
    for l in lines:
        if " => " not in l:
            continue
        case, res = l.split(" => ", 1)
        op = case.split()[0]
        seen.add(op)
        outcomes.add((op, res if res in ("none", "panic") else "value"))
    missing = [f"{f}.{o}" for f, ops in REQUIRED_OPS.items() for o in ops if f"{f}.{o}" not in seen]
    for f in REQUIRED_OPS:
        for o, c in REQUIRED_OUTCOMES + (REQUIRED_OUTCOMES_F64 if f == "f64" else []):
            if (f"{f}.{o}", c) not in outcomes:
                missing.append(f"{f}.{o}:{c}")
    # bytes_as_elements: aligned slice whose length is a half word off, and half-word-misaligned whole slices
    for f, nb in (("f64", 8), ("f62", 8), ("f128", 16)):
        bae = [l.split() for l in lines if l.startswith(f + ".bae ")]
        cases = [(int(t[1], 16), 0 if t[2] == "-" else len(t[2]) // 2) for t in bae if len(t) > 2]
        if not any(o == 0 and n % nb == nb // 2 for o, n in cases):
            missing.append(f"{f}.bae:aligned-half-word-length")
        if not any(o % nb == nb // 2 and n > 0 and n % nb == 0 for o, n in cases):
            missing.append(f"{f}.bae:half-word-offset")
        if not any(o % nb not in (0, nb // 2) and n > 0 and n % nb == 0 for o, n in cases):
            missing.append(f"{f}.bae:odd-offset")
    return sorted(seen), missing


def run(ctx):
    quick = ctx.tier == "quick"
    ctx.rule = ("correspondence: raw internal words from the boundary classes of the reductions (0,1,p-1,p-2,(p+-1)/2,2^32+-1,"
                "2^63,2^64-2^32+-k, carry/borrow straddling halves) and random words, canonical and non-canonical, through every "
                "translated function; falsifier: short sequences of public operations checked against u128 big-integer arithmetic; "
                "distinct = distinct case lines")
    ctx.assumptions += ["rs2v preserves the meaning of the translated Rust subset (validated by the raw-word correspondence)",
                        "rustc/LLVM compile the field code as written; `unsafe` byte views (as_bytes/elements_as_bytes) are modelled as LE words"]
    ok_tr = ctx.rs2v(["F64", "F62", "F128"])
    ctx.audit_sources()
    ctx.coq_build("C07")
    import os
    for extra in ("C07_f62", "C07_f128"):
        if os.path.exists(os.path.join(vcheck.COQ, "Props", extra + ".v")):
            ctx.coq_build(extra)
    if not quick:
        ctx.coqchk("C07")
    # correspondence: generated model (extracted) vs implementation on raw words
    n = 4000 if quick else 200000
    drv = ctx.build_driver("c07") if ok_tr else None
    for profile, cmp in (("debug", cmp_debug),) + ((("release", cmp_release),) if not quick else ()):
        hb = ctx.build_harness("c07", profile)
        if hb and drv:
            rc, out, _ = vcheck.sh([hb, "corr", str(ctx.seed), str(n)], timeout=600)
            seen, missing = corr_coverage(out.split("\n"))
            ctx.ob(f"coverage:corr-ops:{profile}", not missing, "not sampled: " + ", ".join(missing[:20]))
            ctx.notes.setdefault("corr_ops", {})[profile] = len(seen)
            ctx.correspondence(f"raw-words-f64-f62-f128:{profile}", out.split("\n"), drv, compare=cmp, shards=8, timeout=1500)
        # property-level falsifier (independent oracle); more effort when an obligation is broken
        if hb:
            budget = (3000 if quick else 100000) * (4 if ctx.broken() else 1)
            rc, out, _ = vcheck.sh([hb, "falsify", str(ctx.seed), str(budget)], timeout=1500)
            nfail = 0
            for line in out.split("\n"):
                if line.startswith("{"):
                    try:
                        f = json.loads(line)
                    except ValueError:
                        continue
                    f["profile"] = profile
                    f["replay"] = f"{hb} falsify {ctx.seed} {budget}"
                    nfail += 1
                    ctx.add_failure(f)
                elif line.startswith("evaluations="):
                    ctx.evaluations += int(line.split()[0].split("=")[1])
            ctx.notes.setdefault("falsifier", {})[profile] = {"budget": budget, "failures": nfail}
    ctx.trusted.insert(0, "Coq 8.16.1 kernel + vm_compute (no native_compute); Print Assumptions under every theorem")
