"""C10 — Merkle openings verify for committed leaves and only for them."""
import collections
import json
import os
import re
import stat
import vcheck

PAR_WRAPPER = r'''#!/usr/bin/env python3
# runs the extracted C10 driver on contiguous chunks of stdin in parallel; output order = input order
import os, subprocess, sys
from concurrent.futures import ThreadPoolExecutor
drv = os.path.join(os.path.dirname(os.path.abspath(__file__)), "c10_driver")
lines = sys.stdin.read().split("\n")
if lines and lines[-1] == "":
    lines.pop()
k = max(1, min(int(os.environ.get("C10_JOBS", "6")), (len(lines) + 499) // 500))
size = (len(lines) + k - 1) // k if lines else 1
chunks = [lines[i:i + size] for i in range(0, len(lines), size)]
def run(c):
    p = subprocess.run([drv], input="\n".join(c) + "\n", stdout=subprocess.PIPE, stderr=subprocess.STDOUT, text=True)
    return p.returncode, p.stdout
with ThreadPoolExecutor(max_workers=k) as ex:
    res = list(ex.map(run, chunks))
rc = 0
for r, out in res:
    rc = rc or r
    sys.stdout.write(out)
sys.exit(rc)
'''

# outcome classes the correspondence stream has to reach (op, class-regex): if a generator change or a
# code change makes one of them unreachable the comparison no longer exercises that path
NEED = [
    ("new", r"^ok$"), ("new", r"^err:TooFewLeaves"), ("new", r"^err:NumberOfLeavesNotPowerOfTwo"),
    ("build_nodes", r"^ok$"), ("build_nodes", r"^panic"),
    ("prove", r"^ok$"), ("prove", r"^err:LeafIndexOutOfBounds"),
    ("verify", r"^ok$"), ("verify", r"^err:InvalidProof"), ("verify", r"^err:LeafIndexOutOfBounds"),
    ("prove_batch", r"^ok$"), ("prove_batch", r"^err:TooFewLeafIndexes"), ("prove_batch", r"^err:TooManyLeafIndexes"),
    ("prove_batch", r"^err:DuplicateLeafIndex"), ("prove_batch", r"^err:LeafIndexOutOfBounds"),
    ("get_root", r"^ok$"), ("get_root", r"^err:InvalidProof"), ("get_root", r"^err:DuplicateLeafIndex"),
    ("get_root", r"^err:LeafIndexOutOfBounds"), ("get_root", r"^err:TooFewLeafIndexes"), ("get_root", r"^err:TooManyLeafIndexes"),
    ("into_paths", r"^err:TooFewLeafIndexes"), ("into_paths", r"^err:TooManyLeafIndexes"), ("into_paths", r"^err:DuplicateLeafIndex"),
    ("verify_batch", r"^ok$"), ("verify_batch", r"^err:InvalidProof"),
    ("into_paths", r"^ok$"), ("into_paths", r"^err:InvalidProof"), ("into_paths", r"^err:LeafIndexOutOfBounds"),
    ("from_paths", r"^ok$"), ("from_paths", r"^panic"),
    ("ser", r"^ok$"), ("ser", r"^panic"), ("deser", r"^ok$"), ("deser", r"^err"),
]


# coverage round: named classes of malformed openings (harness stream F) and the error sites they have to reach.
# The harness re-implements the ORDER of the shape guards of get_root / into_paths (`predict`, no digest involved), names the
# guard that must answer each case, and compares the implementation's result with it; it prints the counters parsed here.
REQ_CLASSES = [
    "leaves-fewer", "leaves-more", "positions-fewer", "positions-more", "pair-dropped", "sibling-dropped-even", "sibling-dropped-odd",
    "first-node-missing-even", "first-node-missing-odd", "vec-missing", "vec-extra-empty", "vec-extra-full", "level-node-missing",
    "node-at-known-sibling", "node-surplus", "node-moved", "depth-smaller", "depth-larger", "depth-0", "depth-64plus",
    "position-out-of-range", "position-duplicated", "positions-none", "positions-256plus", "position-to-sibling", "position-to-other-pair",
    "deser-vector-count-more", "deser-vector-count-fewer", "deser-digest-count-more", "deser-digest-count-fewer", "deser-truncated",
    "deser-no-leaves", "deser-256-leaves", "deser-depth-0", "deser-honest",
]
LIVE_SITES = ["no-positions", "too-many-positions", "leaf-count", "depth>=64", "position-out-of-range", "position-duplicated", "vector-count",
              "first-level-right-sibling-missing", "first-level-left-sibling-missing", "upper-level-sibling-missing", "nodes-not-consumed"]
REQ_SITES = [("get_root", s) for s in LIVE_SITES + ["no-root(depth-0)", "accept"]] + [("into_paths", s) for s in LIVE_SITES + ["accept"]]
MIN_CLASS, MIN_SITE = 20, 10


def _malformed(ctx, profile, lines):
    classes, sites, bad, bad_total = {}, {}, [], None
    for l in lines:
        if l.startswith("F-class "):
            t = l.split()
            classes[t[1]] = {"n": int(t[2].split("=")[1]), "aims": t[3].split("=", 1)[1], "sites": t[4].split("=", 1)[1]}
        elif l.startswith("F-site "):
            t = l.split()
            sites[(t[1], t[2])] = {"lines": t[3].split("=", 1)[1], "n": int(t[4].split("=")[1])}
        elif l.startswith("F-bad-total "):
            bad_total = int(l.split()[1])
        elif l.startswith("F-bad {"):
            try:
                bad.append(json.loads(l[6:]))
            except ValueError:
                pass
    thin = [f"{c}:{classes.get(c, {}).get('n', 0)}" for c in REQ_CLASSES if classes.get(c, {}).get("n", 0) < MIN_CLASS]
    ctx.ob(f"malformed-classes-sampled:{profile}", not thin and bad_total is not None,
           f"classes sampled fewer than {MIN_CLASS} times (name:count): " + ", ".join(thin))
    ctx.ob(f"malformed-classes-expected-outcome:{profile}", bad_total == 0,
           f"{bad_total} malformed openings did not end at the predicted guard with the predicted error (or were accepted / panicked): "
           + json.dumps(bad[:2])[:1500])
    for b in bad:
        ctx.add_failure({"what": b.get("what", "malformed-class"), "input": f"class {b.get('class')}: {b.get('input', '')}"[:2000],
                         "expected": b.get("expected"), "actual": b.get("actual"), "profile": profile})
    cold = [f"{f}:{s}:{sites.get((f, s), {}).get('n', 0)}" for f, s in REQ_SITES if sites.get((f, s), {}).get("n", 0) < MIN_SITE]
    ctx.ob(f"error-sites-reached:{profile}", not cold, f"error sites answered fewer than {MIN_SITE} times (function:site:count): " + ", ".join(cold))
    dead = {f"{f}:{s}": v["n"] for (f, s), v in sites.items() if s.startswith("DEAD-")}
    ctx.ob(f"dead-branches-never-predicted:{profile}", len(dead) == 10 and not any(dead.values()),
           "the guard-order oracle ended in a defensive branch that C10_dead_branches_* proves unreachable: " + json.dumps(dead))
    ctx.notes.setdefault("malformed_classes", {})[profile] = {k: f"n={v['n']} aims={v['aims']} answered-by={v['sites']}" for k, v in classes.items()}
    ctx.notes.setdefault("error_sites", {})[profile] = {f"{f}:{s}": f"lines={v['lines']} n={v['n']}" for (f, s), v in sites.items()}


def _klass(res):
    m = re.match(r"^(ok|panic|notree|err:[A-Za-z]+|err)", res)
    return m.group(1) if m else res[:12]


def _falsify(ctx, hb, profile, budget):
    rc, out, _ = vcheck.sh([hb, "falsify", str(ctx.seed), str(budget)], timeout=2400)
    nfail, summary = 0, ""
    for line in out.split("\n"):
        if line.startswith("{"):
            try:
                f = json.loads(line)
            except ValueError:
                continue
            f["profile"] = profile
            f["replay"] = f"{hb} falsify {ctx.seed} {budget}"
            nfail += 1
            ctx.add_failure(f)
        elif line.startswith("evaluations="):
            summary = line.strip()
            ctx.evaluations += int(line.split()[0].split("=")[1])
        elif line.startswith("falsifier guards answered") or line.startswith("falsifier malformed classes"):
            k, v = line.split(":", 1)
            ctx.notes.setdefault("falsifier", {}).setdefault(profile + ":" + k.replace(" ", "_"), v.strip())
    ctx.ob(f"falsifier-ran:{profile}", rc == 0 and summary != "", out[-300:] if rc else "no summary line")
    ctx.notes.setdefault("falsifier", {})[profile] = {"budget": budget, "reported_failures": nfail, "summary": summary}


def run(ctx):
    quick = ctx.tier == "quick"
    ctx.rule = ("correspondence (real MerkleTree<ToyHasher<f64>>/BatchMerkleProof vs the extracted Gallina model, same inputs, results compared "
                "as strings incl. error variants+payloads, node vectors, depth and serialized bytes): A trees of 2..256 leaves and the error cases "
                "of new/build_merkle_nodes, every path for <=16 leaves; B EVERY non-empty position subset of trees with 2,4,8 (thorough: 16) leaves, "
                "sorted and permuted (all permutations for <=4 leaves): prove_batch,get_root,verify_batch,into_paths,from_paths; C random subsets/"
                "orders for 16..256 leaves + empty/duplicate/out-of-range/>255 index lists; D every single-element mutation (each leaf, each node, "
                "each position, root) and shape mutation (node removed/added, vector removed/added, leaves shortened/extended, depth in "
                "{0..d+2,63,64,65,128,255}, truncated/extended/65+-element paths, index swapped/dropped/appended/duplicated/out of range) of those "
                "openings through verify/get_root/verify_batch/into_paths, malformed from_paths inputs; E serialize_nodes/deserialize incl. every "
                "truncation; F named classes of malformed openings (leaves/positions/node vectors too few or too many at the first or an upper "
                "level, nodes where the sibling is a queried position, empty vector where a sibling is needed, depth smaller/larger/0/>=64, "
                "positions out of range/duplicated/none/>255/moved, serialized counts inconsistent), each >= 20 times, through get_root, "
                "into_paths, verify_batch, every case additionally checked against a shape-only re-implementation of the guard order that "
                "names the error site (each live site answered >= 10 times per function; the 14 defensive branches proved dead never named). "
                "falsifier (independent of the model): naive root recomputation from ALL leaves with 7 hashers (Toy, Blake3_256/192, "
                "Sha3_256, Rp64_256, RpJive64_256, Rp62_248): honest openings verify, into_paths = individual proves, from_paths(into_paths)= "
                "prove_batch, any mutated opening with a wrong claimed leaf/shape/position is rejected, garbage proofs never panic, every mutated / "
                "malformed-class / garbage opening ends at the guard (error value incl. payload) the shape-only guard-order oracle names. "
                "distinct = distinct case lines")
    ctx.assumptions += [
        "the hand-written model coq/Model/Merkle.v describes crypto/src/merkle/{mod,proofs}.rs as repaired by fixes/c10-merkle-opening-checks.diff "
        "(validated on every run by the correspondence; get_root and into_paths share one model of their textually identical loops)",
        "binding theorems are relative to a known tree depth (length of a single path = depth+1; BatchMerkleProof.depth is supplied by the verifier): "
        "an internal node presented as a leaf of a shallower tree verifies - the API leaves the depth check to the caller",
        "usize is 64 bits; a Vec holds at most isize::MAX elements (tree depth <= 62 in the completeness theorems)",
        "BTreeMap/BTreeSet behave as sorted association lists with overwrite-on-insert; Hasher::merge is a pure function (arbitrary in the theorems)",
    ]
    ctx.audit_sources()
    ctx.coq_build("C10")
    if not quick:
        ctx.coqchk("C10")
    drv = ctx.build_driver("c10")
    par = None
    if drv:
        par = os.path.join(os.path.dirname(drv), "c10_driver_par.py")
        with open(par, "w") as f:
            f.write(PAR_WRAPPER)
        os.chmod(par, os.stat(par).st_mode | stat.S_IXUSR | stat.S_IXGRP | stat.S_IXOTH)
    n = 300 if quick else 3000
    for profile in ("debug",) + (() if quick else ("release",)):
        hb = ctx.build_harness("c10", profile)
        if not hb:
            continue
        if par:
            # thorough: the exhaustive 16-leaf sweep only once (debug profile: checked arithmetic)
            args = [hb, "corr", str(ctx.seed), str(n)] + (["thorough"] if (not quick and profile == "debug") else [])
            rc, out, _ = vcheck.sh(args, timeout=900)
            lines = out.split("\n")
            ctx.ob(f"harness-corr-ran:{profile}", rc == 0, out[-300:])
            ctx.correspondence(f"merkle-model:{profile}", lines, par, timeout=5400)
            hist = collections.Counter()
            for l in lines:
                if " => " in l:
                    c, r = l.split(" => ", 1)
                    hist[(c.split(" ", 1)[0], _klass(r.strip()))] += 1
                elif l.startswith("stream sizes:"):
                    ctx.notes.setdefault("input_distribution", {})[profile + ":streams"] = l.strip()
            ctx.notes.setdefault("input_distribution", {})[profile + ":op/outcome"] = {f"{k[0]}:{k[1]}": v for k, v in sorted(hist.items())}
            missing = []
            for op, rx in NEED:
                if not any(k[0] == op and re.match(rx, k[1]) and v > 0 for k, v in hist.items()):
                    missing.append(f"{op}~{rx}")
            ctx.ob(f"corr-reaches-all-outcome-classes:{profile}", not missing, "never produced: " + ", ".join(missing))
            _malformed(ctx, profile, lines)
            npanic = sum(v for k, v in hist.items() if k[1] == "panic" and k[0] in ("verify", "get_root", "verify_batch", "into_paths", "deser"))
            ctx.ob(f"no-panic-on-openings:{profile}", npanic == 0,
                   f"{npanic} verification calls panicked (property: an error, never acceptance and never a panic)")
            if npanic:
                for l in lines:
                    if l.endswith("=> panic") and l.split(" ", 1)[0] in ("verify", "get_root", "verify_batch", "into_paths", "deser"):
                        ctx.add_failure({"what": "panic-on-opening", "input": l.split(" => ")[0][:2000], "expected": "err", "actual": "panic",
                                         "profile": profile})
                        break
        budget = (20000 if quick else 600000) * (3 if ctx.broken() else 1)
        _falsify(ctx, hb, profile, budget)
    ctx.trusted.insert(0, "Coq 8.16.1 kernel; Print Assumptions under every theorem (all closed under the global context)")
    ctx.trusted.append("harness/src/bin/c10.rs (case generators, mutation catalogue, malformed classes, guard-order oracle `predict`, canonical printing, naive-root oracle) and harness/src/toy.rs = "
                       "coq/Model/ToyHash.v (ToyHasher defined twice)")
