"""C18 — security estimate and acceptance policy."""
import json
import vcheck

LEVEL = "proof"

POLICY_ERRS = ("err:InconsistentBaseField", "err:InsufficientConjecturedSecurity", "err:InsufficientProvenSecurity",
               "err:UnacceptableProofOptions")


def _cmp(case, impl, model, debug, stats):
    op = case.split(" ", 1)[0]
    if op == "verify":
        if model == "rest":
            # the modelled prefix of verify() (field check, policy, seed) lets the proof through: the result is whatever
            # the unmodelled remainder returns; it can never be one of the policy errors, and a context that was
            # tampered with must not verify
            if impl == "panic":
                stats["rest_panics"] = stats.get("rest_panics", 0) + 1
                return True
            return impl == "err:other"
        return impl == model
    if model.endswith(" !ok"):
        # a checked operation of the generated term is out of range: debug build panics, release build wraps
        return impl == "panic" if debug else impl == model[:-4]
    return impl == model


def _source_order(ctx):
    """Syntactic tie of the hand model's order of checks to verifier/src/lib.rs: inside verify(), the field-modulus
    comparison, acceptable_options.validate, proof.context.to_elements() and AIR::new( occur once each, in this order."""
    import os
    import re
    src = open(os.path.join(vcheck.REPO, "verifier", "src", "lib.rs")).read()
    src = re.sub(r"//[^\n]*", "", src)
    m = re.search(r"pub fn verify<", src)
    end = src.find("fn perform_verification<")
    body = src[m.start():end] if m and end > 0 else ""
    marks = ["get_modulus_le_bytes() != proof.context.field_modulus_bytes()", "return Err(VerifierError::InconsistentBaseField)",
             "acceptable_options.validate::<HashFn>(&proof)?", "proof.context.to_elements()", "AIR::new("]
    norm = re.sub(r"\s+", " ", body)
    pos = [norm.find(k) for k in marks]
    once = [norm.count(k) == 1 for k in marks]
    ok = all(p >= 0 for p in pos) and pos == sorted(pos) and all(once)
    # nothing but the field check may mention `proof` before validate
    if ok:
        head = norm[norm.find("{", norm.find("RandCoin: RandomCoin")):pos[2]]
        ok = head.count("proof") == 1
    ctx.ob("source-order:verify(field-check < validate < to_elements < AIR::new)", ok, f"positions={pos} once={once}")


def _unit_base_premise(ctx, drv, quick):
    """The premises of C18_proven_monotone_queries that are specific to this code, on binary64: for every blowup, every
    trace length 2^3..2^32 and every proximity parameter m in [3, m_max): 0 < 1 - theta_plus(m) <= 1 (all points, both
    tiers), and the chain q -> base**q -> log2(base**q) is non-increasing over the integer exponents 1..255 (all points, both tiers)."""
    chain_tls = tuple(range(3, 33))
    cases = [f"qbase {b} {t} {1 if t in chain_tls else 0}" for b in (2, 4, 8, 16, 32, 64, 128) for t in range(3, 33)]
    rc, out, _ = vcheck.sh([drv], input_="\n".join(cases) + "\n", timeout=1200)
    lines = [l for l in out.split("\n") if l]
    n, bad, cn, cbad = 0, 0, 0, 0
    for l in lines:
        d = dict(kv.split("=") for kv in l.split() if "=" in kv)
        n += int(d.get("n", 0))
        bad += int(d.get("bad", 1))
        cn += int(d.get("chain_n", 0))
        cbad += int(d.get("chain_bad", 1))
    ok = rc == 0 and len(lines) == len(cases) and n > 0 and cn > 0
    ctx.ob("proven-premise:query-base-in-unit-range(binary64, all blowups x trace 2^3..2^32 x m)", ok and bad == 0,
           f"lines={len(lines)} evaluated={n} bad={bad}")
    ctx.ob("proven-premise:pow-and-log2-chain-antitone-in-queries(binary64, q=1..255)", ok and cbad == 0,
           f"evaluated={cn} bad={cbad}")
    ctx.evaluations += n + cn
    ctx.notes["proven_premises_on_binary64"] = {"unit_base_m_values": n, "unit_base_violations": bad, "unit_base_exhaustive": True,
                                                "pow_log2_chain_steps": cn, "pow_log2_chain_violations": cbad,
                                                "pow_log2_chain_exhaustive": True}


def run(ctx):
    quick = ctx.tier == "quick"
    ctx.rule = ("correspondence: Proof::security_level / Context::num_modulus_bits / verify() of the real crates against the "
                "extracted models; conjectured estimate exhaustively over queries 1..255 x blowup {2..128} x grinding 0..32 x "
                "degree {1,2,3} x field {f62,f64,f128} for each (trace length, collision resistance) grid point, plus boundary "
                "(grinding-threshold straddling) and hostile contexts read from bytes (claimed moduli of 1..255 bytes, trace "
                "lengths up to 2^63); proven estimate with the model instantiated by OCaml floats; verify() decisions on real "
                "proofs with original / tampered / foreign-field contexts under the three policy modes; falsifier: independent "
                "integer re-implementation of the documented formula, monotonicity sweeps of both estimates, accept-iff policy "
                "oracle on valid proofs, foreign-field proofs must be refused with an error; distinct = distinct case lines")
    ctx.assumptions += [
        "rs2v preserves the meaning of the translated Rust subset (get_conjectured_security is regenerated from /repo on every run "
        "and run against Proof::security_level); the accessors of ProofOptions/FieldExtension are pinned by source guards",
        "proven estimate: the monotonicity theorems hold for any float type whose +,-,casts,log2,pow are monotone as named in the "
        "premises of C18_proven_monotone_* (IEEE-754 add/sub/casts are; for libm log2 and pow it is an assumption), and for the "
        "queries theorem the FRI query base 1-theta_plus(m) must lie in (0,1] for every m tried",
        "AIR::new (user code) and everything after the seed construction in verify() is the unmodelled remainder `rest`",
        "rustc/LLVM compile the integer code as written; OCaml's and Rust's f64 log2/pow/sqrt/ceil agree on the sampled inputs "
        "(same libm), which the proven-estimate correspondence checks",
    ]
    _source_order(ctx)
    ok_tr = ctx.rs2v(["Security"])
    ctx.audit_sources()
    ctx.coq_build("C18")
    if not quick:
        ctx.coqchk("C18")
    drv = ctx.build_driver("c18") if ok_tr else None
    if drv:
        _unit_base_premise(ctx, drv, quick)
    # the grid of (log2 trace length, collision resistance) points for the exhaustive option sweep
    tls, crs = [3, 10, 18, 24, 27, 30], [96, 112, 124, 128]
    if quick:
        grid = [(tls[ctx.seed % len(tls)], crs[(ctx.seed // 7) % len(crs)])]
    else:
        grid = [(t, c) for t in tls for c in crs]
    sweep = {"options_per_grid_point": 255 * 7 * 33 * 3 * 3, "grid_points": [], "exhaustive": True,
             "space": "queries 1..255 x blowup {2,4,8,16,32,64,128} x grinding 0..32 x degree {1,2,3} x field {f62,f64,f128}, restricted to trace length * blowup <= u32::MAX (no other context can be constructed or read)"}
    profiles = ("debug",) if quick else ("debug", "release")
    for profile in profiles:
        debug = profile == "debug"
        stats = {}
        cmp = lambda c, a, b, d=debug, s=stats: _cmp(c, a, b, d, s)
        hb = ctx.build_harness("c18", profile)
        if not hb:
            continue
        rc, out, _ = vcheck.sh([hb, "selfcheck"], timeout=120)
        ctx.ob(f"harness-selfcheck:{profile}", rc == 0 and "selfcheck ok" in out, out[-300:])
        if drv:
            # exhaustive sweep of the conjectured estimate (release: one grid point, the debug build covers the grid)
            for (t, c) in (grid if debug else grid[:1] + grid[-1:]):
                rc, out, _ = vcheck.sh([hb, "corr-full", str(t), str(c)], timeout=600)
                lines = out.split("\n")
                ctx.correspondence(f"conj-exhaustive:tracelog={t}:cr={c}:{profile}", lines, drv, compare=cmp)
                n = sum(1 for l in lines if " => " in l)
                # a context exists iff the LDE domain fits u32 (trace length * blowup <= u32::MAX; Context::new asserts it, the
                # reader refuses anything else), i.e. tracelog + log2(blowup) <= 31
                expect = 255 * 33 * 3 * 3 * sum(1 for lb in range(1, 8) if t + lb <= 31)
                ctx.ob(f"sweep-size:tracelog={t}:cr={c}:{profile}", n == expect, f"{n} lines, expected {expect}")
                if debug:
                    sweep["grid_points"].append({"tracelog": t, "cr": c, "cases": n})
            n = 1500 if quick else 40000
            rc, out, _ = vcheck.sh([hb, "corr", str(ctx.seed), str(n)], timeout=1500)
            lines = out.split("\n")
            for kind in ("conj", "bits", "proven", "verify"):
                sel = [l for l in lines if l.startswith(kind + " ")]
                ctx.ob(f"corr-stream-nonempty:{kind}:{profile}", len(sel) > 20, f"{len(sel)} lines")
                ctx.correspondence(f"{kind}:{profile}", sel, drv, compare=cmp)
            # the verify cases must exercise every policy outcome
            outcomes = {}
            for l in lines:
                if l.startswith("verify ") and " => " in l:
                    k = l.split(" => ", 1)[1].split("(")[0]
                    outcomes[k] = outcomes.get(k, 0) + 1
            need = ["ok", "err:InconsistentBaseField", "err:InsufficientConjecturedSecurity", "err:InsufficientProvenSecurity",
                    "err:UnacceptableProofOptions", "err:UnsupportedFieldExtension", "err:other"]
            ctx.ob(f"verify-outcomes-covered:{profile}", all(outcomes.get(k, 0) > 0 for k in need), json.dumps(outcomes))
            ctx.notes.setdefault("verify_outcomes", {})[profile] = outcomes
            if stats:
                ctx.notes.setdefault("remainder_panics_not_attributed_to_C18", {})[profile] = stats
        # property-level falsifier (independent oracles); more effort when an obligation is broken
        budget = (3000 if quick else 100000) * (3 if ctx.broken() else 1)
        rc, out, _ = vcheck.sh([hb, "falsify", str(ctx.seed), str(budget)], timeout=2400)
        nfail, seen_final = 0, False
        for line in out.split("\n"):
            if line.startswith("{"):
                try:
                    f = json.loads(line)
                except ValueError:
                    continue
                f["profile"] = profile
                f["replay"] = f"{hb} falsify {ctx.seed} {budget}"
                nfail += 1
                ctx.add_failure(f)
            elif line.startswith("evaluations="):
                seen_final = True
                ctx.evaluations += int(line.split()[0].split("=")[1])
                total = int(line.split()[1].split("=")[1])
                ctx.notes.setdefault("falsifier", {})[profile] = {"budget": budget, "failures": total}
            elif line.startswith("real_proofs="):
                ctx.notes.setdefault("real_proofs", {})[profile] = int(line.split("=")[1])
        ctx.ob(f"falsifier-completed:{profile}", seen_final and rc == 0, out[-300:])
    ctx.notes["conjectured_sweep"] = sweep
    ctx.notes["falsifier_sweeps"] = {
        "conjectured_formula_and_monotonicity": "every option combination (530145) at the grid points; quick: 1 full grid point + 12 "
                                                "points with query step 7; thorough: 24 full grid points",
        "proven_monotonicity": "random base points, each of queries/grinding/degree/collision-resistance bumped by 1 and by a random "
                               "amount: 2 x budget base points",
        "exhaustive": True,
    }
    ctx.trusted.insert(0, "Coq 8.16.1 kernel + vm_compute (no native_compute); Print Assumptions under every theorem")
    ctx.trusted.append("harness/src/bin/c18.rs: case generators, the tiny AIR x'=x^2+42 with winter-prover, the independent oracles; "
                       "CrH<CR> hasher wrapper (Blake3_256 with a chosen COLLISION_RESISTANCE constant)")
    ctx.trusted.append("OCaml float operations (+. -. *. /. ** sqrt ceil Float.log2) passed to the extracted proven-estimate model; "
                       "conversions float_of_z / u64_of_float in ocaml/c18_driver.ml")
