"""C05 — FRI soundness: functions far from low degree are rejected (deterministic part: what the verifier enforces)."""
import json
import os
import vcheck
from c15 import correspondence_parallel, _falsify, build_inst


def run(ctx):
    quick = ctx.tier == "quick"
    ctx.rule = ("correspondence: decoded transcripts replayed through the real FriVerifier (hand-serialised FriProof -> "
                "DefaultVerifierChannel -> FriVerifier::new -> verify) vs the extracted model verifier, verdict compared "
                "including the error variant: 25% honest, 50% adversarial (honest folding of far functions: degree bound+1 "
                "exactly, bound+2, random high, domain-1, random functions, low degree corrupted on 0.1/1/10/25/50%; folding "
                "with a wrong challenge; value tampered and re-committed; value tampered in the opening; remainder replaced "
                "after the queries by R + 5*prod(x - x_p) or by the interpolant through the opened values; remainder changed "
                "before the queries and re-committed; dropped/swapped/duplicated layers; swapped/changed commitments; changed "
                "evaluation), 25% malformed (row count, value count, remainder length, partitions, position/evaluation "
                "count, claimed degree, domain / folding arguments, commitment count); N 2/4/8/16, blowup 2..16 (..128), "
                "remainder degree 0..31 (..255), domains 2^4..2^10, f64/f128 + quadratic extensions, queries with duplicates "
                "and collisions; falsifier: the same adversaries against the real verifier with the exact consistency "
                "predicate computed from the adversary's full transcript as oracle (both directions), far functions with "
                "the whole last layer queried must be rejected; distinct = distinct case lines")
    ctx.assumptions += [
        "the epsilon-soundness bound (far functions rejected except with small probability) is NOT proved: it needs proximity-gap "
        "results; proved is the exact characterisation of what the verifier enforces (fri_accept_iff) and binding",
        "Merkle batch-proof binding is a hypothesis of C05_fri_binding (C10 proves the single-path version)",
        "the hand model coq/Model/Fri.v follows fri/src/verifier (validated by the correspondence on every run, incl. malformed transcripts)",
        "ToyHasher (64-bit) stands for 'all hashers' in the runs: the code is generic in H; the falsifier's oracle treats a ToyHasher "
        "collision (probability 2^-64 per comparison) and a degenerate challenge (probability <= N*|D|/|F|) as impossible",
    ]
    # the pure integer parts of fri/src are re-translated on every run (coq/Gen/FriInt.v); Proofs/FriGen.v proves that
    # the hand model computes those terms, so a change of that arithmetic in the source breaks the Coq build
    ctx.rs2v(["FriInt"])
    ctx.audit_sources()
    ctx.coq_build("C05")
    if not quick:
        ctx.coqchk("C05")
    build_inst(ctx)
    drv = ctx.build_driver("c05")
    n = 420 if quick else 5000
    for profile in (("debug",) if quick else ("debug", "release")):
        hb = ctx.build_harness("c05", profile)
        if hb and drv:
            rc, out, _ = vcheck.sh([hb, "corr", str(ctx.seed), str(n)], timeout=900)
            ctx.ob(f"harness-corr-ran:{profile}", rc == 0 and out.count(" => ") >= n * 0.9, out[-300:])
            correspondence_parallel(ctx, f"fri-verifier:{profile}", out.split("\n"), drv, jobs=12, timeout=2400)
            verdicts = {}
            for l in out.split("\n"):
                if " => " in l:
                    v = l.rsplit(" => ", 1)[1].split("(")[0]
                    verdicts[v] = verdicts.get(v, 0) + 1
            ctx.notes.setdefault("verdict_distribution", {})[profile] = verdicts
        if hb:
            budget = (6000 if quick else 120000) * (4 if ctx.broken() else 1)
            _falsify(ctx, hb, budget, profile)
            # the recorded adaptive-remainder replay (known defect, repaired in the working tree)
            rc, out, _ = vcheck.sh([hb, "replay-adaptive"], timeout=300)
            verdict = ""
            for l in out.split("\n"):
                if l.startswith("verdict="):
                    verdict = l[len("verdict="):].strip()
            ctx.notes.setdefault("replay_adaptive", {})[profile] = verdict
            if verdict == "ok":
                ctx.add_failure({"what": "adaptive-remainder: FriVerifier::verify accepts a remainder replaced after the queries "
                                         "(R + 5*prod(x - GENERATOR*g_last^pos)); f128, domain 2^12, blowup 8, folding 4, remainder max degree 31, 8 queries",
                                 "input": f"{hb} replay-adaptive", "expected": "err:RemainderCommitmentMismatch", "actual": verdict,
                                 "replay": f"{hb} replay-adaptive"})
            else:
                ctx.ob(f"replay-adaptive:{profile}", verdict == "err:RemainderCommitmentMismatch", out[-300:])
            ctx.evaluations += 1
    ctx.notes["level_note"] = ("proof of the enforced-checks characterisation (accept iff (a)-(f)), of the attack on the unrepaired "
                               "code and of binding; the epsilon-soundness bound is NOT proved")
    ctx.trusted.insert(0, "Coq 8.16.1 kernel + vm_compute (no native_compute); Print Assumptions under every theorem")
