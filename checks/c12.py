"""C12 — serialization round trip for every serializable value."""
import json
import os
import re
import stat
import vcheck


def load_open_findings(ctx):
    """open findings proposed by this worker (notes/C12.findings.json) count as known until the coordinator
    merges them into known_findings.json"""
    p = os.path.join(vcheck.VERIF, "notes", "C12.findings.json")
    if os.path.exists(p):
        have = {k["id"] for k in ctx.known}
        for k in json.load(open(p)).get("findings", []):
            if k.get("property") == "C12" and k.get("status") == "open" and k["id"] not in have:
                ctx.known.append(k)


# ---- coverage round: every Serializable / Deserializable impl of utils/core/src/serde/mod.rs must be driven ----
MEM_KB = 4 * 1024 * 1024   # 4 GB of address space for a harness process (the largest legitimate inputs are a few MB)
READERS = ("SliceReader", "Cursor", "ReadAdapter")
CLASSES = ("complete", "trailing", "truncated")
# the encoding of () is empty: it has no proper prefix
NO_CELL = {("unit", "truncated")}


def impl_tag(ty):
    """cell name (as used by harness/src/bin/c12.rs) of the type of an `impl .. for <ty>` header; None = not known"""
    ty = re.sub(r"\s+", "", ty)
    if ty == "()":
        return "unit"
    if ty.startswith("(") and ty.endswith(")"):
        return "tuple%d" % len([x for x in ty[1:-1].split(",") if x])
    if ty in ("u8", "u16", "u32", "u64", "u128", "usize", "str"):
        return ty
    if ty == "String":
        return "string"
    if ty.startswith("&"):
        return "ref"
    if re.fullmatch(r"\[\w+;\w+\]", ty):
        return "array"
    if re.fullmatch(r"\[\w+\]", ty):
        return "slice"
    for pre, tag in (("Option<", "option"), ("Vec<", "vec"), ("BTreeMap<", "map"), ("BTreeSet<", "set")):
        if ty.startswith(pre):
            return tag
    return None


def serde_impls():
    """(trait, type, tag) of every impl header of serde/mod.rs, read from the source of the tree under check"""
    src = open(os.path.join(vcheck.REPO, "utils", "core", "src", "serde", "mod.rs")).read()
    out = []
    for m in re.finditer(r"^impl\s*(?:<[^>]*>)?\s*(Serializable|Deserializable)\s+for\s+(.+?)\s*(?:\{|where|$)", src, re.M):
        out.append((m.group(1), m.group(2).strip(), impl_tag(m.group(2))))
    return out


def check_cells(ctx, profile, corr_cells, fals_cells):
    impls = serde_impls()
    unknown = sorted({f"{tr} for {ty}" for tr, ty, tag in impls if tag is None})
    ctx.ob(f"serde-impls-known:{profile}", len(impls) >= 40 and not unknown,
           f"{len(impls)} impl headers found in serde/mod.rs; impls the generator does not instantiate: {unknown}")
    # bool has no impl of its own (ByteWriter::write_bool / ByteReader::read_bool), it is required all the same
    tags = sorted({tag for _, _, tag in impls if tag} | {"bool"})
    miss_c = [f"{t}|{c}" for t in tags if t != "ref" for c in CLASSES if (t, c) not in NO_CELL and corr_cells.get(f"{t}|{c}", 0) == 0]
    ctx.ob(f"corr-cells-sampled:{profile}", bool(corr_cells) and not miss_c,
           "impl x input class never compared with the model (each case runs on all three readers): " + ", ".join(miss_c))
    miss_f = [f"{t}|{r}|{c}" for t in tags for r in READERS for c in CLASSES
              if (t, c) not in NO_CELL and fals_cells.get(f"{t}|{r}|{c}", 0) == 0]
    ctx.ob(f"falsifier-cells-sampled:{profile}", bool(fals_cells) and not miss_f,
           "impl x reader x input class never sampled by the falsifier: " + ", ".join(miss_f[:40]))
    ctx.notes.setdefault("serde_impl_matrix", {})[profile] = {
        "impl_headers_in_source": len(impls), "tags": tags, "readers": list(READERS), "classes": list(CLASSES),
        "corr_cells": len(corr_cells), "falsifier_cells": len(fals_cells),
        "min_falsifier_cell": min(fals_cells.values()) if fals_cells else 0}


def run(ctx):
    quick = ctx.tier == "quick"
    load_open_findings(ctx)
    ctx.rule = ("correspondence (impl vs extracted model, outcome classes ok(value,unread)/err eof/err invalid/panic): "
                "enc = bytes of values built with the REAL constructors at the boundaries of their accepted sets "
                "(vint64 at every 2^7k+-1 and 2^8k, 255-column traces, 65535/65536 metadata bytes, aux segment with 0 rands, "
                "trace length 2^3..2^63, every ProofOptions limit +-1, Commitments 65534/65535/65536 bytes, 255x255 query tables, "
                "maximal FRI remainder, real FRI proofs, composed Proofs); dec = those bytes exact / with trailing bytes / every or "
                "sampled truncation / single-byte mutations biased to the header, plus byte sweeps 0..255 of every header position of "
                "ProofOptions and TraceInfo, hostile lengths (2^60 elements), non-canonical field elements, malformed UTF-8, "
                "unsorted/duplicate map keys, random strings; every dec case runs on SliceReader, std::io::Cursor AND ReadAdapter "
                "(chunked source) and must give one common result.  falsifier (model-independent): read_from(to_bytes(v) ++ junk) == v "
                "leaving exactly junk, for SliceReader, Cursor, ReadAdapter(slice, chunked); plus the serde/mod.rs matrix: every "
                "Serializable/Deserializable impl found in the source x three readers x {complete, trailing bytes, every proper "
                "prefix -> Err(UnexpectedEOF)} with check_eor/has_more_bytes observed at the end; distinct = distinct case lines")
    ctx.assumptions += [
        "64-bit target (usize = u64); debug profile semantics for overflow checks (release differences are noted in notes/C12.design.md)",
        "a field element is identified with its canonical residue as_int() (equality of elements = equality of residues: C07)",
        "UTF-8 validity is an oracle parameter of the String codec (instantiated in the driver by the Unicode table 3-7 automaton)",
        "BTreeMap/BTreeSet::from_iter = successive insertion, last entry wins (std semantics), keys compared by a strict order",
        "the model's byte source is the list semantics shared by SliceReader, Cursor and ReadAdapter (C13 proves the equivalences; here "
        "every decoding case of the correspondence and of the falsifier matrix is run on all three and must agree)",
    ]
    # regenerate the vint64 arithmetic and the limit constants / validation code from the Rust source; the equalities
    # hand model = generated terms are theorems (Proofs/CodecGen.v, C12_gen_* in Props/C12.v)
    ctx.rs2v(["Serde", "Limits"])
    ctx.audit_sources()
    ctx.coq_build("C12")
    if not quick:
        ctx.coqchk("C12")
    drv = ctx.build_driver("c12")
    if drv:
        # deep non-tail recursion of the extracted list functions on megabyte inputs: lift the stack limit
        wrapper = drv + ".sh"
        with open(wrapper, "w") as f:
            f.write("#!/bin/sh\nulimit -s unlimited 2>/dev/null || ulimit -s 4000000 2>/dev/null\nexec %s\n" % drv)
        os.chmod(wrapper, os.stat(wrapper).st_mode | stat.S_IXUSR | stat.S_IXGRP | stat.S_IXOTH)
        drv = wrapper
    n = 400 if quick else 4000
    profiles = ("debug",) if quick else ("debug", "release")
    for profile in profiles:
        hb = ctx.build_harness("c12", profile)
        # replay aid: evaluate a previously built harness binary (e.g. one built from an unrepaired tree)
        if os.environ.get("C12_HARNESS_BIN"):
            hb = os.environ["C12_HARNESS_BIN"]
            ctx.notes["harness_override"] = hb
        if not hb:
            continue
        corr_cells, fals_cells = {}, {}
        if drv:
            # address-space limit: a reader that never reports end-of-data (seeded: Cursor::read_u8 answering Ok at EOF) turns a
            # hostile element count into an unbounded allocation; it must end in an attributed abort, not in exhausting the machine
            rc, out, _ = vcheck.sh(f"ulimit -v {MEM_KB}; {hb} corr {ctx.seed} {n} 2>{vcheck.CACHE}/c12.dist", timeout=900)
            try:
                err = open(f"{vcheck.CACHE}/c12.dist").read().strip()
                for l in err.split("\n"):
                    if l.startswith("cells "):
                        corr_cells = json.loads(l[6:])
                ctx.notes.setdefault("input_distribution", {})[profile] = "\n".join(l for l in err.split("\n") if not l.startswith("cells "))[-1500:]
            except (OSError, ValueError):
                pass
            lines = out.split("\n")
            while lines and lines[-1] == "":
                lines.pop()
            if rc != 0 and lines and lines[-1].rstrip().endswith("=>"):
                # the harness streams "<case> => " before calling the library: the process died inside this case
                lines[-1] = lines[-1].rstrip() + f" abort(rc={rc})"
            ctx.ob(f"harness-corr-exit:{profile}", rc == 0, f"rc={rc} last line: {lines[-1][:300] if lines else ''}")
            diffs = ctx.correspondence(f"codec:{profile}", lines, drv, timeout=1500)
            for dff in diffs[:20]:
                # a disagreement is a concrete counterexample: the replay is the case line itself
                ctx.add_failure({"what": "correspondence:" + dff["case"].split(" ")[0] + ":" + dff["case"].split(" ")[1],
                                 "input": dff["case"][:2000], "expected": "model: " + dff["model"][:600],
                                 "actual": "impl: " + dff["impl"][:600], "profile": profile,
                                 "replay": f"{hb} corr {ctx.seed} {n} | grep -F '{dff['case'][:80]}'"})
        budget = (300 if quick else 3000) * (3 if ctx.broken() else 1)
        rc, out, _ = vcheck.sh(f"ulimit -v {MEM_KB}; {hb} falsify {ctx.seed} {budget}", timeout=1500)
        nfail, delegated, seen_final, recs = 0, [], False, []
        for line in out.split("\n"):
            if line.startswith("{"):
                try:
                    recs.append(json.loads(line))
                except ValueError:
                    continue
            elif line.startswith("#cells "):
                try:
                    fals_cells = json.loads(line[7:])
                except ValueError:
                    pass
            elif line.startswith("evaluations="):
                seen_final = True
                ctx.evaluations += int(line.split()[0].split("=")[1])
        # a ReadAdapter failure on an input that SliceReader/Cursor decode correctly belongs to C13;
        # if the other readers fail on the same input it is a C12 failure like theirs
        bad_inputs = {(r.get("what", "").split(":")[-1], r.get("input")) for r in recs
                      if not r.get("what", "").startswith("delegated-to-C13")}
        for f in recs:
            f["profile"] = profile
            f["replay"] = f"{hb} falsify {ctx.seed} {budget}"
            w = f.get("what", "")
            if w.startswith("delegated-to-C13"):
                if (w.split(":")[-1], f.get("input")) not in bad_inputs:
                    delegated.append({k: f[k] for k in ("what", "input", "actual")})
                    continue
                f["what"] = "roundtrip:" + w.split(":", 1)[1]
            nfail += 1
            ctx.add_failure(f)
        ctx.ob(f"falsifier-ran:{profile}", seen_final and rc == 0, out[-300:])
        if drv:
            check_cells(ctx, profile, corr_cells, fals_cells)
        ctx.notes.setdefault("falsifier", {})[profile] = {"budget": budget, "failures": nfail,
                                                          "delegated_to_C13": len(delegated)}
        if delegated:
            ctx.notes.setdefault("delegated-to-C13", []).extend(delegated[:10])
    ctx.trusted.insert(0, "Coq 8.16.1 kernel + vm_compute (no native_compute); Print Assumptions under every theorem")
    ctx.trusted.append("hand-written model coq/Model/Codec.v of the write_into/read_from code (tied by the correspondence only: no translator)")
    ctx.trusted.append("harness/src/bin/c12.rs + derived Debug output of the air/fri structs (used to print decoded values)")
