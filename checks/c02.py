"""C02 — Soundness: proofs of invalid executions or for other public inputs are rejected.

Theorems (coq/Props/C02.v): deterministic enforcement structure + counting lemmas, for every field with FLaws.
NOT a theorem: the probabilistic eps-soundness bound (no probability / random-oracle theory installed); it is
exercised by the soundness falsifier (search for an accepted proof of an invalid trace)."""
import json
import vcheck

MIN_PER_CLASS = 20


def _json_after(line, prefix):
    try:
        return json.loads(line[len(prefix):].strip())
    except ValueError:
        return None


def run(ctx):
    quick = ctx.tier == "quick"
    ctx.rule = (
        "falsifier stream 1 (oracle = airfam::is_valid, the reference validity predicate, cross-checked with Trace::validate under "
        "catch_unwind; independent of the Coq model): members of the parametric AIR family (single / periodic / sequence assertions, "
        "hold and periodic columns, 1..n/2 exemptions, optional auxiliary segment) x fields {f64,f128,f62} x extensions {none,quadratic,"
        "cubic} x hashers (blake3_256/192, sha3_256, rp64_256, rpjive64_256, rp62_248, toy) x options (20..40 queries, blowup 8/16, "
        "grinding 0/3, folding 2..16): ONE cell of a valid trace is changed at each class of (column, step): first step, last enforced "
        "step n-k-1, n-k, n-k+1, last step, interior, exempt-only rows, every asserted step kind (single; first/middle/last named step "
        "of periodic and sequence assertions; assertions sharing a divisor group) with honest or corrupted published values, degenerate specs, the same classes in the auxiliary segment, the same again for members with ONE main column and 2..3 auxiliary columns (more "
        "auxiliary than main transition constraints / assertions: aux-heavy classes, incl. a shift of a whole running-sum column, which only "
        "its step-0 assertion notices, and the asserted last row of aux column 0, which no enforced transition reads), and "
        "random cells of random specs; in every second round of the honest-value assertion classes the cell is left alone and the prover "
        "publishes a FALSE value for that named step instead, so that only the assertion (no transition) is violated; proved with the honest prover code in the RELEASE profile and verified: is_valid = false => must "
        "be rejected (an acceptance is re-run with up to 3 other hashers = coin seeds and reported); is_valid = true => must be accepted. "
        "stream 2: a valid proof against every assertion value +-1, spec seed / exemptions / degree / assertion step changed, each option "
        "changed (expected by the verifier or claimed by the proof), trace length / width / aux / metadata changed in the proof context "
        "=> must be rejected.  stream 3 (Lagrange kernel column; members of harness/src/lagfam.rs with the honest columns and ONE corruption of "
        "the kernel column, oracle = the definition c(i) = prod_b (r_b if bit b of i else 1 - r_b) and, read off the same definition, the "
        "boundary constraint and the log2(n) transition constraints r_(v-k) c(x) = (1 - r_(v-k)) c(g^(2^(v-k)) x) on the subgroup of size "
        "2^(k-1)): odd rows only, even rows only, a single row 0 / 1 / 2 / n/2 / n-1, the whole column scaled (only the boundary value is "
        "wrong), and for n = 8, 16, 64 and every k the block [2^(v-k) odd, +2^(v-k)) scaled so that constraint k is the ONLY violated one "
        "=> must be rejected; the honest column must be accepted.  correspondence: honest proofs with ONE component perturbed after proving (OOD trace value, OOD constraint "
        "evaluation, queried trace value, queried constraint value, options expected/claimed, field modulus, pow nonce, an assertion "
        "value, exemptions; for members with an auxiliary segment also an auxiliary OOD value and a queried auxiliary value) through "
        "verify() with a recording coin vs the extracted decision function verify_model on the parsed proof "
        "and the recorded coin outputs: same failing check, and on acceptance the model's DEEP evaluations equal the FRI layer-0 "
        "openings.  The base proofs walk through a schedule of {no extension, quadratic, cubic} x {no auxiliary segment, 1..3 auxiliary "
        "columns next to 3..5 main columns, ONE main column with 2..3 auxiliary columns}; the model runs over the base field resp. the "
        "extension FOps of Model/PolynomExt.v and takes the coefficients in the order of the coin: auxiliary random elements, "
        "transition (main, auxiliary), boundary (main, auxiliary), z, DEEP trace (main columns, then auxiliary columns CONTINUING the "
        "index), DEEP constraint columns; valid_b vs is_valid on honest and corrupted traces; seed_of vs the recorded coin seed.  "
        "Members of the Lagrange family (ext 1/2/3, n = 8/16/64) go through the same extracted verify_model with its Lagrange part "
        "(C16's lag_new / lag_evaluate_and_combine / lag_boundary_evaluate_at in evaluate_constraints, the interpolation term of the kernel "
        "column in the DEEP composer, the GKR verdict as a parameter): honest, a Lagrange OOD frame entry (0, 1 = read by the last "
        "constraint only, any), an ordinary auxiliary OOD value, a refused GKR proof, a GKR proof yielding other random elements, a queried "
        "kernel value, an OOD constraint evaluation.  distinct = distinct case lines")
    ctx.assumptions += [
        "the eps-soundness bound is NOT proved: no probability theory / random-oracle model in the installed libraries; rejection of an "
        "invalid trace is exercised, the deterministic structure behind it is proved",
        "the numerator polynomials of the theorems are characterised by their values on the enforced steps (hypotheses HN/HB of "
        "valid_iff_divisible); that the prover's interpolation + composition produces such polynomials is C09/C17/C20",
        "Merkle authentication of openings (C10), proof-of-work and transcript (C04) and the FRI verdict (C05) are parameters of the "
        "model's decision function; in the correspondence they are computed with the library's public API (MerkleTree::verify_batch, "
        "coin log) resp. instantiated with the first FRI check (DEEP evaluations = layer-0 openings)",
        "the model covers main + auxiliary trace segment incl. a Lagrange kernel column (the user's GkrVerifier is a parameter: verdict "
        "e_gkr_ok, output lg_rands; a GKR proof that does not deserialise exactly is a ProofDeserializationError, outside the model like "
        "every other deserialisation error) and FieldExtension::{None, Quadratic, Cubic}; opened main-segment values, periodic and main assertion polynomials enter the extension through E::from (applied by the driver)",
        "the field operations of the crate agree with Z/p on canonical residues (C07) and the extension arithmetic with C08's model: the "
        "model runs on zp_ops p and on quad_ops / cube_ops of Model/PolynomExt.v (Model/ExtField.v over the generated ExtensibleField bodies)",
    ]
    ctx.audit_sources()
    ctx.coq_build("C02")
    if not quick:
        ctx.coqchk("C02")
    drv = ctx.build_driver("c02")
    # RELEASE profile: the debug prover refuses invalid traces (Trace::validate under cfg(debug_assertions)); a malicious
    # prover runs release code
    hb = ctx.build_harness("c02", "release")
    if hb and drv:
        n = 24 if quick else 150   # base proofs; ~19 case lines each; the extracted Z arithmetic costs ~0.1-0.5 s per verify line
        rc, out, _ = vcheck.sh([hb, "corr", str(ctx.seed), str(n)], timeout=900)
        lines = [l for l in out.split("\n") if " => " in l]
        kinds = {}
        for l in lines:
            toks = l.split(" ")
            tag = next((t[4:] for t in toks if t.startswith("tag=")), "?")
            if toks[0] == "valid":
                tag = "cell" if tag.startswith("cell") else tag
            res = "" if toks[0] == "seed" else l.split(' => ', 1)[1].split(' ')[0]
            key = f"{toks[0]}:{tag}->{res}"
            kinds[key] = kinds.get(key, 0) + 1
        ctx.notes["correspondence_classes"] = kinds
        need = ["verify:honest->accept", "verify:ood-constraint-eval->ood", "verify:queried-trace-value->trace-query",
                "verify:queried-constraint-value->cons-query", "verify:options-expected-other->options", "verify:field-modulus->field",
                "verify:assertion-value->ood", "valid:honest->1", "valid:cell->0", "valid:cell->1", "seed:honest->",
                "verify:ood-aux-cur->ood", "verify:ood-aux-next->ood", "verify:queried-aux-value->trace-query",
                "verify:lag-ood-frame-0->ood", "verify:lag-ood-frame-1->ood", "verify:lag-ood-frame-any->ood", "verify:gkr-refused->gkr",
                "verify:gkr-other-rands->ood", "verify:queried-lagrange-value->trace-query"]
        missing = [k for k in need if not any(x.startswith(k) and v > 0 for x, v in kinds.items())]
        ctx.ob("corr-harness:release", rc == 0 and len(lines) >= 10 * n and not missing,
               f"rc={rc} lines={len(lines)} missing classes={missing}: {out[-200:]}")
        # coverage of the carrier / segment layout: ACCEPTED honest proofs (the DEEP evaluations of the model are compared with the
        # layer-0 openings exactly there) per extension degree x auxiliary layout
        cov = {}
        lagc = {}
        for l in lines:
            toks = l.split(" ")
            if toks[0] != "verify" or "tag=honest" not in toks:
                continue
            kvs = dict(t.split("=", 1) for t in toks if "=" in t and not t.startswith("=>"))
            res = l.split(" => ", 1)[1].split(" ")
            if res[0] != "accept" or len(res) < 2 or res[1] == "-":
                continue
            if kvs.get("famk") == "lag":   # Lagrange family: extension degree x trace length
                key = f"lagrange:ext{kvs.get('ext', '?')}:n{int(kvs.get('n', '0'), 16)}"
                lagc[key] = lagc.get(key, 0) + 1
                continue
            aw, w = int(kvs.get("aw", "0"), 16), len(kvs.get("fam", "").split(";"))
            layout = "no-aux" if aw == 0 else ("aux>main" if aw > w else "aux<=main")
            key = f"ext{kvs.get('ext', '?')}:{layout}"
            cov[key] = cov.get(key, 0) + 1
        ctx.notes["correspondence_coverage_ext_x_aux"] = cov
        want = [f"ext{e}:{a}" for e in (1, 2, 3) for a in ("no-aux", "aux<=main", "aux>main")]
        thin = [k for k in want if cov.get(k, 0) < 1]
        ctx.ob("corr-coverage:aux-segment(aux_width>=1, aux_width>main width) x extension degree(1,2,3) sampled with accepted honest proofs",
               not thin, f"missing={thin} have={cov}")
        ctx.notes["correspondence_coverage_lagrange"] = lagc
        lthin = [k for k in (f"lagrange:ext{e}:n{n_}" for e in (1, 2) for n_ in (8, 16, 64)) if lagc.get(k, 0) < 1]
        ctx.ob("corr-coverage:Lagrange kernel column x extension degree(1,2) x n(8,16,64) sampled with accepted honest proofs",
               not lthin, f"missing={lthin} have={lagc}")
        ctx.correspondence("verifier-decision+validity+seed:release", lines, drv, timeout=900, shards=4)
        for sm in ctx.samples:  # case lines carry whole parsed proofs: keep the evidence readable
            for k in ("case", "impl", "model"):
                if isinstance(sm.get(k), str) and len(sm[k]) > 900:
                    sm[k] = sm[k][:900] + " ...(truncated)"
    if hb:
        budget = (37 * 24 if quick else 37 * 400) * (3 if ctx.broken() else 1)
        maxlog = "6" if quick else "9"   # largest log2(trace length); thorough also takes traces of 128..512 rows
        rc, out, _ = vcheck.sh([hb, "falsify", str(ctx.seed), str(budget), maxlog], timeout=2400)
        nfail = 0
        seen = False
        classes = {}
        lagcov = {}
        for line in out.split("\n"):
            if line.startswith("{"):
                try:
                    f = json.loads(line)
                except ValueError:
                    continue
                f["profile"] = "release"
                f["replay"] = f"{hb} falsify {ctx.seed} {budget} {maxlog}   (single case: {hb} one {ctx.seed} {budget} <idx> {maxlog}; stream 3: {hb} lag {ctx.seed} {budget} <idx>)"
                nfail += 1
                ctx.add_failure(f)
            elif line.startswith("h "):
                ctx.distinct.add("falsify:" + line[2:].strip())
            elif line.startswith("sample ") and len(ctx.samples) < 8:
                sm = _json_after(line, "sample")
                if sm:
                    ctx.samples.insert(0, {"falsifier": sm})
            elif line.startswith("classes "):
                classes = _json_after(line, "classes") or {}
            elif line.startswith("lagcov "):
                lagcov = _json_after(line, "lagcov") or {}
            elif line.startswith("verdicts "):
                ctx.notes["falsifier_verdicts"] = _json_after(line, "verdicts")
            elif line.startswith("combos "):
                ctx.notes["falsifier_field_hasher_extension"] = _json_after(line, "combos")
            elif line.startswith("evaluations="):
                seen = True
                ctx.evaluations += int(line.split()[0].split("=")[1])
                ctx.notes["oracle_crosschecked_with_Trace_validate"] = int(line.split()[2].split("=")[1]) if len(line.split()) > 2 else 0
        ctx.notes["falsifier_classes"] = classes
        ctx.notes["falsifier"] = {"budget": budget, "failures": nfail, "profile": "release"}
        ctx.ob("falsifier-ran:release", seen, f"rc={rc}: {out[-300:]}")
        # every class of the quantifier must have been exercised
        cell_classes = {k: v for k, v in classes.items() if not k.startswith("pub:")}
        thin = {k: v["cases"] for k, v in cell_classes.items() if v["cases"] < MIN_PER_CLASS}
        ctx.ob("falsifier-coverage:every-cell-class>=20", seen and len(cell_classes) >= 37 and not thin, f"classes={len(cell_classes)} thin={thin}")
        must_reject = sum(v["rejected"] for v in cell_classes.values())
        must_accept = sum(v["valid_accepted"] for v in cell_classes.values())
        ctx.ob("falsifier-coverage:both-directions", must_reject >= 200 and must_accept >= 40,
               f"invalid&rejected={must_reject} valid&accepted={must_accept}")
        # stream 3: the Lagrange kernel column
        lag = {k: v for k, v in classes.items() if k.startswith("lagrange:")}
        lag_named = ["honest", "odd-rows-only", "even-rows-only", "single-row-0", "single-row-1", "single-row-2", "single-row-n/2",
                     "single-row-n-1", "boundary-value"]
        lag_thin = {c: lag.get("lagrange:" + c, {}).get("cases", 0) for c in lag_named if lag.get("lagrange:" + c, {}).get("cases", 0) < MIN_PER_CLASS}
        hon = lag.get("lagrange:honest", {})
        ctx.ob("falsifier-coverage:lagrange-kernel-classes>=20(honest; odd/even rows, single rows 0,1,2,n/2,n-1, boundary value)",
               seen and not lag_thin, f"thin={lag_thin} honest={hon}")
        ctx.notes["falsifier_lagrange_only_violated_constraint"] = lagcov
        need_nk = [f"n{1 << lg}:k{k}" for lg in (3, 4, 6) for k in range(1, lg + 1)]
        miss_nk = [x for x in need_nk if lagcov.get(x, 0) < 1]
        ctx.ob("falsifier-coverage:every Lagrange transition constraint k=1..log2(n) is the ONLY violated one in a sampled case (n=8,16,64)",
               seen and not miss_nk, f"missing={miss_nk} have={lagcov}")
        pub = {k: v["cases"] for k, v in classes.items() if k.startswith("pub:")}
        groups = {}
        for k, v in pub.items():
            g = k.split(":")[1]
            groups[g] = groups.get(g, 0) + v
        ctx.notes["falsifier_public_input_groups"] = groups
        ctx.ob("falsifier-coverage:public-input-perturbations",
               all(groups.get(g, 0) >= MIN_PER_CLASS for g in ("assertion-value", "shape", "options-expected", "options-claimed", "trace-info")),
               json.dumps(groups))
    ctx.trusted.insert(0, "Coq 8.16.1 kernel + vm_compute (no native_compute); Print Assumptions under every theorem")
    ctx.trusted.append("hand-written model coq/Model/Soundness.v (not generated from the Rust source): the decision function, the validity "
                       "predicate and the seed layout are tied to /repo's current source by the per-run correspondence")
    ctx.trusted.append("harness/src/airfam.rs: the parametric AIR family and its reference validity predicate is_valid (the falsifier's oracle), "
                       "cross-checked against Trace::validate on every main-segment case")
    ctx.trusted.append("harness/src/lagfam.rs (Lagrange-kernel family) and the Lagrange oracle lag_oracle of harness/src/bin/c02.rs: the kernel "
                       "definition and the constraints read off it must agree on every case (kernel <=> no constraint violated)")
    ctx.notes["proved_for_every_field_and_size"] = (
        "root_factor, roots_bound(+degree form), agree_bound, divides_zpoly_iff; valid_b_spec; invalid_transition_not_divisible, "
        "invalid_assertion_not_divisible (all three assertion kinds via asserted_roots_bnd), valid_iff_divisible, invalid_trace_not_divisible; "
        "exempt_corruption_harmless; trans_divisor_eval_spec ((x^n-1)/prod(x-e) = vanishing polynomial of the enforced steps, via "
        "xn_minus_one_factors) and bnd_divisor_eval_spec / bnd_divisor_eval_single (x^m - g^(a m) = vanishing polynomial of the named steps); "
        "verify_accept_implies, verify_accept_iff, deep_evaluations_nth, deep_trace_at_spec, accept_gives_polynomial_relation (all over main + "
        "auxiliary segment); deep_coeff_index_aux_offset / _injective / _enumerates (main i -> i, aux j -> main_width + j: injective, exactly "
        "0..w+aw-1), deep_trace_at_index_form, deep_ood_difference_linear + ood_delta_nth, deep_ood_binding_partial (a non-zero per-column "
        "difference of OOD values is annihilated by at most |F|^(m-1) coefficient vectors), aliased_index_not_injective, "
        "deep_binding_aliased_refuted (aux j -> j: opposite errors in main column 0 and aux column 0 give the same DEEP value for ALL coins); "
        "ood_reduce_is_evaluation, ood_counting_partial; ali_counting (at most |F|^(k-1) good coefficient vectors, for fixed polynomials), "
        "ali_counting_partial (subspace) and ali_fiber_unique_partial (one good coefficient per line); seed_binds_statement (+ its hypothesis "
        "for f64/f62/f128), flat_avals_inj; non-vacuity Examples over the 64-bit field (incl. an accepting and a rejecting run of verify_model)")
    ctx.notes["not_proved"] = (
        "the probabilistic soundness bound (statement kept as a comment in coq/Props/C02.v): no proximity-gap / list-decoding / random-oracle "
        "argument; the counting lemmas are for FIXED polynomials (divisibility), not for closeness to low-degree polynomials; that the prover's "
        "numerators satisfy HN/HB (C09/C17/C20); boundary terms of accept_gives_polynomial_relation are kept in evaluation form; the DEEP "
        "binding is proved at ONE query position as linear algebra over the coefficient vector (deep_ood_binding_partial), not as a statement "
        "about low-degree polynomials; the interpolant p_S of the DEEP Lagrange term is modelled by its value (Lagrange's formula), not by the "
        "code of polynom::interpolate (C20); panics of the Lagrange code on frames of inconsistent length are outside the verdict enum")
