"""C03 — proof integrity: any change to the content of an accepted proof causes rejection."""
import json
import os
import re
import vcheck

LEVEL = "proof"


def _nows(s):
    return re.sub(r"\s+", "", s)


def _fn_body(src, header):
    """text of the function whose header contains `header` (brace matching; comments stripped)"""
    src = re.sub(r"//[^\n]*", "", src)
    i = src.find(header)
    if i < 0:
        return None
    j = src.find("{", src.find(")", i))
    # skip a where-clause: the body starts at the first '{' that follows the signature
    depth, k = 0, j
    while k < len(src):
        if src[k] == "{":
            depth += 1
        elif src[k] == "}":
            depth -= 1
            if depth == 0:
                return src[j:k + 1]
        k += 1
    return None


# The events of Model/Integrity.v that no hasher/coin log can observe (Use, Compare) and the order of the observable ones,
# as ordered anchors in the source text (whitespace-insensitive).  A reordering, a dropped `?`, a removed comparison
# breaks this obligation even when the event-log correspondence cannot see it.
SOURCE_ORDER = [
    ("verifier/src/lib.rs", "fn perform_verification<", [
        "channel.read_trace_commitments()", "public_coin.reseed(trace_commitments[MAIN_TRACE_IDX])",
        "air.get_aux_rand_elements(&mut public_coin)", "public_coin.reseed(trace_commitments[AUX_TRACE_IDX])",
        ".get_constraint_composition_coefficients(&mut public_coin)",
        "channel.read_constraint_commitment()", "public_coin.reseed(constraint_commitment)", "public_coin.draw::<E>()",
        "channel.read_ood_trace_frame()", "evaluate_constraints(", "public_coin.reseed(ood_trace_frame.hash::<H>())",
        "channel.read_ood_constraint_evaluations()", "public_coin.reseed(H::hash_elements(&ood_constraint_evaluations))",
        "ifood_constraint_evaluation_1!=ood_constraint_evaluation_2{returnErr(VerifierError::InconsistentOodConstraintEvaluations);}",
        ".get_deep_composition_coefficients::<E,R>(&mut public_coin)", "FriVerifier::new(", ".map_err(VerifierError::FriVerificationFailed)?;",
        "channel.read_pow_nonce()", "ifpublic_coin.check_leading_zeros(pow_nonce)<air.options().grinding_factor(){returnErr(",
        ".draw_integers(air.options().num_queries(),air.lde_domain_size(),pow_nonce)",
        "query_positions.sort_unstable();", "query_positions.dedup();",
        "channel.read_queried_trace_states(&query_positions)?;", "channel.read_constraint_evaluations(&query_positions)?;",
        "DeepComposer::new(&air,&query_positions,z,deep_coefficients)", "composer.compose_trace_columns(",
        ".compose_constraint_evaluations(queried_constraint_evaluations,ood_constraint_evaluations)",
        "composer.combine_compositions(t_composition,c_composition)",
        "fri_verifier.verify(&mut channel,&deep_evaluations,&query_positions).map_err(VerifierError::FriVerificationFailed)}",
    ]),
    ("verifier/src/channel.rs", "pub fn read_queried_trace_states(", [
        "for(root,proof)inself.trace_roots.iter().zip(queries.query_proofs.iter()){MerkleTree::verify_batch(root,positions,proof).map_err(|_|VerifierError::TraceQueryDoesNotMatchCommitment)?;}",
        "Ok((queries.main_states,queries.aux_states))",
    ]),
    ("verifier/src/channel.rs", "pub fn read_constraint_evaluations(", [
        "MerkleTree::verify_batch(&self.constraint_root,positions,&queries.query_proofs).map_err(|_|VerifierError::ConstraintQueryDoesNotMatchCommitment)?;",
        "Ok(queries.evaluations)",
    ]),
    ("verifier/src/channel.rs", "pub fn new<A: Air<BaseField = E::BaseField>>(", [
        "ifgkr_proof.is_some()!=air.context().has_lagrange_kernel_aux_column(){returnErr(",
        "commitments.parse::<H>(num_trace_segments,fri_options.num_fri_layers(lde_domain_size))",
        "TraceQueries::new(trace_queries,air,num_unique_queriesasusize)?;", "ConstraintQueries::new(constraint_queries,air,num_unique_queriesasusize)?;",
        "iffri_proof.num_layers()!=num_fri_layers{returnErr(", "fri_proof.parse_remainder()", ".parse_layers::<H,E>(lde_domain_size,fri_options.folding_factor())",
        "ood_frame.parse(main_trace_width,aux_trace_width,constraint_frame_width)",
    ]),
    ("fri/src/verifier/mod.rs", "fn verify_generic<const N: usize>(", [
        "fordepthin0..self.options.num_fri_layers(self.domain_size){", "fold_positions(&positions,domain_size,self.options.folding_factor())",
        "map_positions_to_indexes(", "channel.read_layer_queries(&position_indexes,&layer_commitment)?;",
        "get_query_values::<E,N>(&layer_values,&positions,&folded_positions,domain_size)",
        "ifevaluations!=query_values{returnErr(VerifierError::InvalidLayerFolding(depth));}",
        "polynom::interpolate_batch(&xs,&layer_values)", "evaluations=row_polys.iter().map(|p|polynom::eval(p,alpha)).collect();",
        "channel.read_remainder()?;", "<HasElementHasher>::hash_elements(&remainder_poly)",
        "ifself.layer_commitments.get(num_layers)!=Some(&remainder_commitment){returnErr(VerifierError::RemainderCommitmentMismatch);}",
        "ifremainder_poly.len()>max_degree_plus_1{returnErr(", "eval_horner::<E>(", "ifcomp_eval!=evaluation{returnErr(VerifierError::InvalidRemainderFolding);}",
    ]),
    ("fri/src/verifier/mod.rs", "pub fn new(", [
        "for(depth,commitment)inlayer_commitments.iter().enumerate(){public_coin.reseed(*commitment);letalpha=public_coin.draw().map_err(VerifierError::RandomCoinError)?;",
    ]),
    ("fri/src/verifier/channel.rs", "fn read_layer_queries<const N: usize>(", [
        "MerkleTree::<Self::Hasher>::verify_batch(commitment,positions,&layer_proof).map_err(|_|VerifierError::LayerCommitmentMismatch)?;",
    ]),
    ("air/src/proof/queries.rs", "pub fn parse<H, E>(", [
        "ifself.values.len()!=expected_bytes{returnErr(", "Table::<E>::from_bytes(&self.values,num_queries,values_per_query)?;",
        "query_values.rows().map(|row|H::hash_elements(row)).collect();", "BatchMerkleProof::deserialize(&mutreader,hashed_queries,tree_depth)?;",
        "ifreader.has_more_bytes(){returnErr(DeserializationError::UnconsumedBytes);}",
    ]),
    ("fri/src/proof.rs", "pub fn parse<H, E>(", [
        "*query_hash=H::hash_elements(&qe);", "ifreader.has_more_bytes(){returnErr(DeserializationError::UnconsumedBytes);}",
        "BatchMerkleProof::deserialize(&mutreader,hashed_queries,tree_depth)?;", "ifreader.has_more_bytes(){returnErr(DeserializationError::UnconsumedBytes);}",
    ]),
    ("air/src/proof/commitments.rs", "pub fn parse<H: Hasher>(", [
        "reader.read_many(num_trace_segments)?;", "reader.read()?;", "reader.read_many(num_fri_layers+1)?;",
        "ifreader.has_more_bytes(){returnErr(DeserializationError::UnconsumedBytes);}",
    ]),
    ("air/src/proof/ood_frame.rs", "pub fn parse<E: FieldElement>(", [
        "SliceReader::new(&self.lagrange_kernel_trace_states)", "ifreader.has_more_bytes(){returnErr(DeserializationError::UnconsumedBytes);}",
        "SliceReader::new(&self.trace_states)", "ifreader.has_more_bytes(){returnErr(DeserializationError::UnconsumedBytes);}",
        "SliceReader::new(&self.evaluations)", "ifreader.has_more_bytes(){returnErr(DeserializationError::UnconsumedBytes);}",
    ]),
]


def source_order(ctx):
    for rel, header, anchors in SOURCE_ORDER:
        path = os.path.join(vcheck.REPO, rel)
        name = f"source-order:{rel}:{header.split('(')[0].split('<')[0].split()[-1]}"
        try:
            body = _fn_body(open(path).read(), header)
        except OSError as ex:
            ctx.ob(name, False, str(ex))
            continue
        if body is None:
            ctx.ob(name, False, "function not found")
            continue
        text, pos, bad = _nows(body), 0, None
        for a in anchors:
            k = text.find(_nows(a), pos)
            if k < 0:
                bad = a
                break
            pos = k + len(_nows(a))
        ctx.ob(name, bad is None, f"anchor missing or out of order: {bad}")


def _load_own_findings(ctx):
    """open findings proposed in notes/C03.findings.json count as known until the coordinator merges them"""
    p = os.path.join(vcheck.VERIF, "notes", "C03.findings.json")
    if not os.path.exists(p):
        return
    have = {k.get("id") for k in ctx.known}
    for k in json.load(open(p)).get("findings", []):
        if k.get("property") == "C03" and k.get("id") not in have:
            ctx.known.append(k)


NEED_CLASSES = ["bitflip", "byte-boundary", "truncate", "adaptive:remainder+vanishing", "adaptive:remainder+vanishing+recommit",
                "adaptive:swap-rows:tq", "adaptive:swap-rows:cq", "adaptive:merkle-node:tq", "adaptive:merkle-node:cq", "adaptive:ood-value",
                "structured-extend:merkle-node-vector:tq", "structured-extend:merkle-node-vector:cq", "structured-extend:merkle-node:tq",
                "component-extend:ood.lagrange", "component-extend:commitments", "component-extend:fri.remainder", "component-truncate:tq.values",
                "edit:fri-layer-added", "edit:gkr-proof-added", "edit:trace-meta", "field:nq", "field:nonce", "gkr:trailing-bytes", "gkr:truncated"]


# Element-level tamper family (coverage round): noncanonical:<component>:<value kind>:<base field | Rescue hasher>.
# ONE base-field word of an element-bearing component of an accepted proof is overwritten with the modulus, modulus + 1,
# all ones, or modulus + (original value).  The last is the SAME residue in another encoding: changed content (the property
# excludes alternative encodings of digests only), so every cell of the element-bearing components must be refused.
# Digest limbs (Rescue): the readers reduce; a different residue must be refused, the same residue is the exclusion.
NC_ELEMENT = ["ood.trace", "ood.evals", "tq0.values", "tq1.values", "cq.values", "fri.values", "fri.remainder"]
NC_NEED = ([f"noncanonical:{c}:{k}:{f}" for f in ("f64", "f128", "f62") for c in NC_ELEMENT for k in ("mod", "mod+1", "ones", "same")]
           + [f"noncanonical:ood.lagrange:{k}:{f}" for f in ("f64", "f128", "f62") for k in ("mod", "mod+1", "ones")]
           + [f"noncanonical:digest.{c}:{k}:{h}" for h in ("rp64_256", "rpjive64_256", "rp62_248") for c in ("commitments", "paths") for k in ("mod", "mod+1", "ones")])


def _noncanonical_obligations(ctx, classes):
    missing = [c for c in NC_NEED if classes.get(c, {}).get("mutants", 0) == 0]
    ctx.ob("noncanonical-cells-all-sampled", not missing, f"{len(missing)} of {len(NC_NEED)} (component, value kind, field) cells without a mutant: " + ", ".join(missing[:8]))
    bad = []
    for c, st in sorted(classes.items()):
        if not c.startswith("noncanonical:") or st.get("mutants", 0) == 0:
            continue
        digest = c.split(":")[1].startswith("digest.")
        refused = st.get("rejected", 0) + st.get("parse_err", 0) + (st.get("same_content", 0) if digest else 0)
        if refused != st["mutants"] or st.get("panics", 0) or st.get("accepted_diff", 0):
            bad.append(f"{c}: {st}")
    ctx.ob("noncanonical-cells-all-refused", not bad, "cells with a mutant that was not refused (accepted, panicked, or decoded to the same content): " + "; ".join(bad[:5]))
    # bytes appended to / removed from the GKR proof of an accepted Lagrange-kernel proof: every mutant refused (finding C03-F6)
    for c in ("gkr:trailing-bytes", "gkr:truncated"):
        st = classes.get(c, {})
        ctx.ob(f"lagrange-{c}-refused", st.get("mutants", 0) > 0 and st.get("rejected", 0) + st.get("parse_err", 0) == st.get("mutants", 0), f"{c}: {st}")
    ctx.notes["noncanonical"] = {"cells_required": len(NC_NEED), "cells_sampled": sum(1 for c in classes if c.startswith("noncanonical:") and classes[c].get("mutants", 0)),
                                 "mutants": sum(st.get("mutants", 0) for c, st in classes.items() if c.startswith("noncanonical:"))}


def _falsify(ctx, hb, n_cfg, maxb):
    cmd = [hb, "falsify", str(ctx.seed), str(n_cfg), str(maxb)]
    rc, out, _ = vcheck.sh(cmd, timeout=1500)
    nfail, summary, classes, configs = 0, "", {}, None
    for line in out.split("\n"):
        if line.startswith("{"):
            try:
                f = json.loads(line)
            except ValueError:
                continue
            f.pop("proof_hex", None) if len(f.get("proof_hex", "")) > 20000 else None
            f["replay"] = f"{hb} replay {ctx.seed} {n_cfg} {maxb} {f.get('class', '')}"
            nfail += 1
            ctx.add_failure(f)
        elif line.startswith("class="):
            kv = dict(x.split("=", 1) for x in line.split())
            classes[kv["class"]] = {k: int(v) for k, v in kv.items() if k != "class"}
        elif line.startswith("configs="):
            configs = dict(x.split("=") for x in line.split())
        elif line.startswith("evaluations="):
            summary = line.strip()
            ctx.evaluations += int(line.split()[0].split("=")[1])
    ctx.ob("falsifier-ran", rc == 0 and summary != "", out[-300:] if rc else "no summary line")
    # every requested round yields two accepted proofs (one of them with a large remainder)
    ctx.ob("falsifier-has-cases", configs is not None and int(configs.get("configs", 0)) == 2 * n_cfg,
           f"configs line: {configs} (expected {2 * n_cfg} accepted proofs; honest proofs rejected or not generated)")
    missing = [c for c in NEED_CLASSES if classes.get(c, {}).get("mutants", 0) == 0]
    ctx.ob("falsifier-reaches-all-classes", not missing, "mutation classes without a single mutant: " + ", ".join(missing))
    _noncanonical_obligations(ctx, classes)
    ctx.notes["falsifier"] = {"cmd": " ".join(cmd[1:]), "reported_failures": nfail, "summary": summary, "configs": configs,
                              "classes": {k: v for k, v in sorted(classes.items())}}
    for c in sorted(classes):
        ctx.distinct.add("class:" + c)


def run(ctx):
    quick = ctx.tier == "quick"
    ctx.rule = ("correspondence: real verify() on accepted proofs of the AIR family (f64/f128, base + quadratic extension, 0/1/several FRI "
                "layers, with/without auxiliary segment, with/without grinding, few/many queries; blake3, toy and rescue hashers) run with "
                "RecordingCoin + LoggingHasher; the single ordered log is abstracted to the event alphabet of Model/Integrity.v by comparing "
                "logged bytes with the wire-format components and must equal the model's observable event list for that shape; per-blob "
                "trailing-bytes policy probed and compared with the model's Parse flags; unobservable events (Use/Compare) tied to the source "
                "by ordered text anchors; falsifier: exhaustive single-bit flips of small proofs, boundary bytes, truncation/extension of the "
                "proof and of EVERY length-prefixed component, structure-aware extension of the count-prefixed parts of every batch Merkle proof (surplus node vector / digest with count bytes and length fixed), every fixed-width field x boundary values, structural edits, and the "
                "position-dependent substitutions (remainder + multiple of the vanishing polynomial of the folded positions, with and without "
                "recomputed commitment; swapped / duplicated rows; replaced / swapped Merkle nodes; OOD values), and the element-level family "
                "noncanonical:<component>:<kind>:<field> (ONE base-field word - first/middle/last element, every limb of an extension element - of the OOD trace states / evaluations / "
                "Lagrange kernel states, opened main / auxiliary / constraint rows, FRI rows, remainder, and of Rescue digests, overwritten with modulus, modulus+1, all ones, "
                "modulus+original value, on dedicated accepted proofs over f64 / f128 / f62 incl. all-zero traces and a Lagrange-kernel AIR; every cell must be sampled and refused), "
                "gkr:trailing-bytes / gkr:truncated (1, 2, 17 zero / 0xff / random bytes appended to the GKR proof of accepted Lagrange-kernel proofs, length prefix re-serialised; the GKR proof emptied); oracle: decoded content differs "
                "=> rejected or parse error; distinct = distinct shapes + mutation classes")
    ctx.assumptions += [
        "in scope: AIRs without a Lagrange-kernel column (no GKR sub-protocol), at most one auxiliary trace segment (all that TraceInfo describes)",
        "the coin is modelled as a free term algebra over the absorbed values (hash_elements / merge / merge_with_int as injective constructors): "
        "that a different term yields different challenges/positions is a (probabilistic) property of the hash, exercised by the falsifier only",
        "Use/Compare events of the model are placed by reading the source; their order is re-checked against the source text on every run "
        "(source-order obligations), not observed at run time",
    ]
    _load_own_findings(ctx)
    ctx.audit_sources()
    ctx.coq_build("C03")
    if not quick:
        ctx.coqchk("C03")
    source_order(ctx)
    drv = ctx.build_driver("c03")
    hb = ctx.build_harness("c03", "release")
    if hb and drv:
        n = 300 if quick else 8000
        rc, out, _ = vcheck.sh([hb, "corr", str(ctx.seed), str(n)], timeout=900)
        lines = out.split("\n")
        ctx.correspondence("event-log+trailing-bytes-policy:release", lines, drv, timeout=900)
        meta = {l.split()[0]: l.split()[1] for l in lines if l.startswith("#") and len(l.split()) == 2}
        nocase = [l for l in lines if l.startswith("#nocase")]
        ctx.ob("corr-cases-generated", rc == 0 and not nocase and meta.get("#honest_rejected") == "0",
               f"rc={rc} nocase={len(nocase)} honest_rejected={meta.get('#honest_rejected')}")
        # field x {0,1,>=2 layers} x aux x grinding (x many-queries beyond 48 cases): all classes of the quantifier must occur
        want = 48 if n >= 96 else 24
        ctx.ob("corr-reaches-all-classes", int(meta.get("#classes", 0)) >= want, f"{meta.get('#classes')} configuration classes, expected >= {want}")
        shapes = {l.split(" => ")[0] for l in lines if l.startswith("shape ")}
        ctx.notes["corr"] = {"cases": n, "distinct_shapes": len(shapes), "policy_lines": sum(1 for l in lines if l.startswith("policy ")),
                             "configuration_classes": meta.get("#classes")}
    if hb:
        n_cfg, maxb = (6, 2500) if quick else (120, 8000)
        if ctx.broken():
            n_cfg *= 2
        _falsify(ctx, hb, n_cfg, maxb)
    ctx.trusted.insert(0, "Coq 8.16.1 kernel + vm_compute (no native_compute); Print Assumptions under every theorem")
    ctx.trusted.append("hand-written Gallina model coq/Model/Integrity.v of verify()/VerifierChannel::new/FriVerifier at component level (tied to the code "
                       "by the per-run event-log correspondence for observable events and by source-order anchors for the others)")
    ctx.trusted.append("harness/src/bin/c03.rs: wire-format dissector, LoggingHasher, log abstraction, mutation generators, decoded-equality oracle; "
                       "harness/src/{airfam,coinrec}.rs (AIR family, RecordingCoin)")
