"""C01 — completeness: every valid execution yields a proof that the verifier accepts."""
import json
import os
import vcheck

GROUPS = ["opts", "tinfo", "ctx", "fri"]
LEVEL = "proof"


def run(ctx):
    quick = ctx.tier == "quick"
    ctx.rule = ("falsifier, X stream (coverage round; DEBUG and release profile): the wrapper family XAir/XProver of harness/src/bin/c01.rs around the airfam members "
                "(same transition functions and assertions, plus: Lagrange-kernel column after the family's auxiliary columns, sequence / periodic assertions on auxiliary "
                "columns, traces that USE the rows taking part only in exempt transitions in the main and the auxiliary segment) on 8..64 rows: cells "
                "{no aux, aux narrower / as wide as / wider than main} x {without, with Lagrange column} x {1 exemption, 2 / 3 / 4 exemptions with every exempt step violated, "
                "2 exemptions unused} x rotating {periodic column, main assertion kind, aux assertion kind, extension 1/2/3, field, hasher}; every declared degree 1..blowup+1 "
                "(blowup 2,4,8) with/without periodic column x exemptions {1,2,d}; wide segments (64, 8+8, 9+9, 128+125+Lagrange, 1+253+Lagrange); auxiliary sequence assertions with "
                ">= 64 values (128 / 256 rows); degenerate traces; the plain "
                "Lagrange family; random members.  Oracle: reference validity (is_valid, x_aux_check) => prove Ok, verify Ok, byte round trip, in both profiles; in the debug "
                "profile a panic of the prover's debug-only degree validation on a valid trace is the OPEN finding F-C01-debug-degree-diagnostics: it is attributed to that "
                "finding (KNOWN-FINDING, one report per kind degrees / domain-size per run, the rest counted) only where the reference computation of the actual constraint degrees "
                "(x_main_exact / x_aux_check / x_domain_ok: leading coefficients of the trace, periodic and constraint polynomials) predicts exactly that assertion; a predicted "
                "diagnostic that does not fire, that assertion where none is predicted, and every other debug panic are violations; the cells count only members predicted degree-exact; Trace::validate is additionally called directly with auxiliary segment + Lagrange column on valid / exempt-row-using / "
                "one-cell-mutated traces (degenerate ones included) and must agree with the reference.  "
                "Falsifier, main streams (RELEASE profile; debug builds run debug-only degree validation that the property's degenerate traces trip): members of the "
                "parametric AIR family harness/src/airfam.rs — boundary stream: degenerate valid traces (constant column, all-constant, all-zero, "
                "low-degree columns a*x^j) x 3 fields x 3 extensions; widths 1,2,8,9,16,17,64,254,255, 254+1/1+254/128+127 aux; every degree 1..blowup+1 "
                "for blowup 2,4,8(,16) with/without periodic column x exemptions {1,2,d,d+1,blowup,n/2,n/2+1}; single/periodic/sequence assertions with "
                "first step 0 / >0 and 1..n/2 values incl. >= 64; query counts 1,2,LDE-1,253..255 incl. 255 DISTINCT positions (LDE 2^18); every "
                "well-formed (blowup,folding,remainder) FRI schedule for LDE <= 2^12 (sampled in quick); grinding 0..16; every field x hasher x extension "
                "once (f62/f64/f128 x Blake3_256/Blake3_192/Sha3_256/Rp62_248/Rp64_256/RpJive64_256/Toy x none/quadratic/cubic where supported); "
                "then a random stream over the whole quantifier.  Oracle: the family's reference validity predicate is_valid (independent of the library): "
                "valid => prove Ok, verify Ok, to_bytes/from_bytes/to_bytes identical, verify(reparsed) Ok.  Failures are shrunk and printed as replayable JSON.  "
                "correspondence: extracted Shape model vs the real constructors (ProofOptions::new/to_fri_options, TraceInfo::new/new_multi_segment, "
                "TransitionConstraintDegree, AirContext::new/new_multi_segment/set_num_transition_exemptions/num_constraint_composition_columns/ce_domain_size, "
                "FriOptions::num_fri_layers, the well-formedness predicate) on boundary sweeps + random; and the extracted algebraic model over Z/p (deep_poly, "
                "degree_of, segment, evals, v_deep) vs the real DeepCompositionPoly (add_trace_polys/add_composition_poly/degree/evaluate), CompositionPoly::new/"
                "evaluate_at and the verifier's DeepComposer (compose_trace_columns/compose_constraint_evaluations/combine_compositions), whose sources are "
                "compiled into the harness from /repo, on random / constant / low-degree / zero trace polynomials over f64, f62, f128; "
                "alg:deeplag: the same two composers WITH a Lagrange-kernel column (add_aux_segment(.., Some(idx)), cc.lagrange, Lagrange OOD frame) vs deep_trace + deep_lag / "
                "v_trace_lag / lag_frame of Model/StarkLagrange.v (interp_pts = C20's polynom::interpolate) for n in {8,16,64}, base fields and quadratic extensions of f64 / f62, honest / "
                "arbitrary / low-degree kernel polynomials; shape:lagrange: ctx_model + the guards of prove_lag / verify_lag (lag_new, lag_eval defined on a frame of log2(n)+1 entries, "
                "log2(n)+1 < n) vs the real constructors with Some(lagrange idx), the real LagrangeKernelEvaluationFrame and the outcome of proving + verifying the member; distinct = distinct case lines")
    ctx.assumptions += [
        "z (the out-of-domain point) lies outside the trace domain and the LDE coset, and z*g too (probability <= 2^-30 per proof; protocol-inherent, an assumption of C01_stark_complete_partial, not searched for)",
        "no coin draw exhausts its documented limit of 1000 rejection-sampling attempts (outside the claim by the property text)",
        "C01_stark_complete has NO stage premise: merkle_complete, interp_complete, coset_off_domain, transcript_agree and fri_complete are discharged from C10_new_ok/C10_build_nodes_spec/C10_batch_complete, C09_interpolate_with_offset_spec/C09_get_inv_twiddles, C04_transcript_agree and C15_fri_complete by instantiating the model's stages with Model/Merkle.v, Model/FFT.v, Model/Transcript.v, Model/Fri.v (Proofs/StarkInst.v, Proofs/StarkFri.v); its premises are: field facts (two-adic roots rou with rou_sq/rou_1, 1+1<>0, offset<>0, offset^ce_size<>1, 2^(S kc) invertible, root_cond, primitive_root g n, itw = get_inv_twiddles), the well-formed FRI schedule (num_fri_layers = Some k, k*f < a, b <= a-k*f, a <= two-adicity, a <= 62, supported folding), shape (2 <= n = 2^(a-b), CE size = n*ce_b >= n*cols), draw_total (no coin draw exhausts its 1000 tries: outside the claim), validity of the trace, and the assumptions on z and the query points (<= 255 distinct LDE points, non-empty, different from z and z*g); serialisation round trip (C12) is outside the algebraic model and covered by the falsifier only",
        "the Coq closure of Props/C01.v now includes other workers' files (Props/C04, C09, C10, C15, C16 and their Proofs): a change that breaks them breaks this check's coq build obligation",
        "the coin values are an arbitrary function `sem` of the labelled symbolic challenge list of Model/Transcript.v (the same function on both sides): that the real DefaultRandomCoin is such a function (deterministic in the absorbed history and the draw index) is C19_coin_deterministic",
        "the algebraic model (Model/Stark.v part 2): its DEEP composition / composition-column segmentation / verifier recomputation are run against the real composer code (correspondence alg:deep, base fields only); the remaining glue of prove/verify (order of stages, transcript, Merkle, FRI) is tied by reading and by the end-to-end falsifier only",
        "Lagrange-kernel auxiliary columns: Coq model Model/StarkLagrange.v with the capstone C01_stark_complete_lagrange (all stages instantiated as in C01_stark_complete, point interpolation = C20's polynom::interpolate); its DEEP term / verifier recomputation / OOD frame are run against the real composers (corr alg:deeplag), the Lagrange constraint part is C16's model (tied by C16/C17), the guards of prove_lag / verify_lag are compared with real runs (corr shape:lagrange), the remaining glue by reading and the end-to-end falsifier; the GKR step is user code: assumption that prover and verifier obtain the same Lagrange random elements; the falsifier covers Lagrange members end to end (mini family LagAir and the wrapper family XAir of harness/src/bin/c01.rs, both profiles)",
        "debug profile: the prover's #[cfg(debug_assertions)] validate_transition_degrees (declared vs actual constraint degrees, smallest evaluation domain) panics on valid traces of the supported class (degenerate columns; and the degree-exact corners n=8/degree 5 + cycle-2 column/blowup 8, n=16/degree 9 + cycle-2 column/blowup 16, n=8/degree 10/blowup 16): the property names no build profile, so this is recorded as the OPEN finding F-C01-debug-degree-diagnostics (coordinator's decision; not repaired: a patch would remove or weaken a maintainers' diagnostic), reproduced on every run by pinned cases and matched ONLY where the check's reference computation of the actual degrees predicts exactly that assertion; the same members are proved in release; every other debug outcome, in particular a panic of Trace::validate on a valid trace, is a violation",
        "extension fields: the algebraic theorems hold for every FOps with FLaws (hence for the extensions once C08 provides their FLaws); E::from(B) embeddings are not modelled separately",
    ]
    # findings proposed by this check that are not yet merged into known_findings.json
    fp = os.path.join(vcheck.VERIF, "notes", "C01.findings.json")
    if os.path.exists(fp):
        have = {k["id"] for k in ctx.known}
        for k in json.load(open(fp)).get("findings", []):
            if k.get("property") == "C01" and k["id"] not in have:
                ctx.known.append(k)
    ctx.audit_sources()
    ctx.coq_build("C01")
    if not quick:
        ctx.coqchk("C01")
    drv = ctx.build_driver("c01")
    hb = ctx.build_harness("c01", "release")
    if hb and drv:
        n = 1500 if quick else 40000
        for g in GROUPS:
            rc, out, _ = vcheck.sh([hb, "corr", str(ctx.seed), str(n), g], timeout=900)
            lines = out.split("\n")
            if rc != 0 or not any(" => " in l for l in lines):
                ctx.ob(f"harness-run:{g}", False, out[-300:])
                continue
            ctx.correspondence(f"shape:{g}", lines, drv, timeout=1200)
        # algebraic level: the REAL composer sources (prover/src/composer/mod.rs, verifier/src/composer.rs, compiled into the harness
        # from /repo by #[path]) and CompositionPoly::new against deep_poly / v_deep / segment / degree_of of Model/Stark.v over Z/p
        nd = 60 if quick else 1500
        rc, out, _ = vcheck.sh([hb, "corr", str(ctx.seed), str(nd), "deep"], timeout=900)
        lines = out.split("\n")
        if rc != 0 or not any(" => " in l for l in lines):
            ctx.ob("harness-run:deep", False, out[-300:])
        else:
            ctx.correspondence("alg:deep", lines, drv, timeout=3000)
        # round "Lagrange in the model": (i) the DEEP term of the kernel column — the REAL add_trace_polys with a kernel polynomial
        # (add_aux_segment(.., Some(idx)), cc.lagrange) and the REAL compose_trace_columns with a Lagrange frame against deep_trace + deep_lag /
        # v_trace_lag of Model/StarkLagrange.v over Z/p and the quadratic extensions (interp_pts = C20's interpolate); (ii) the shape
        # predicates / guards of prove_lag / verify_lag on Lagrange members the falsifier proves (verdict granularity)
        nl = 60 if quick else 1200
        rc, out, _ = vcheck.sh([hb, "corr", str(ctx.seed), str(nl), "deeplag"], timeout=900)
        lines = out.split("\n")
        if rc != 0 or not any(" => " in l for l in lines):
            ctx.ob("harness-run:deeplag", False, out[-300:])
        else:
            ctx.correspondence("alg:deeplag", lines, drv, timeout=3000, shards=8)
            seen = set()
            for l in lines:
                t = l.split(" ")
                if len(t) > 4 and t[0] == "deeplag" and " => panic" not in l:
                    seen.add((int(t[3]), int(t[2])))            # (trace length, extension degree)
            want = {(nn, e) for nn in (8, 16, 64) for e in (1, 2)}
            ctx.ob("corr-lagrange-deep-sampled", want <= seen, "missing (n, extension degree): " + str(sorted(want - seen)))
            ctx.notes.setdefault("correspondence", {}).setdefault("alg:deeplag", {})["sampled (n, ext)"] = sorted(seen)
        ns = 40 if quick else 600
        rc, out, _ = vcheck.sh([hb, "corr", str(ctx.seed), str(ns), "lagshape"], timeout=900)
        lines = out.split("\n")
        if rc != 0 or not any(" => " in l for l in lines):
            ctx.ob("harness-run:lagshape", False, out[-300:])
        else:
            ctx.correspondence("shape:lagrange", lines, drv, timeout=1200)
    if hb:
        budget = (4000 if quick else 80000) * (3 if ctx.broken() else 1)
        cmd = [hb, "falsify", str(ctx.seed), str(budget)] + ([] if quick else ["thorough"])
        rc, out, dt = vcheck.sh(cmd, timeout=900 if quick else 6000)
        nfail, tail = 0, False
        for line in out.split("\n"):
            if line.startswith("{"):
                try:
                    f = json.loads(line)
                except ValueError:
                    continue
                f["profile"] = "release"
                f["input"] = json.dumps(f["input"], separators=(",", ":"))
                f.pop("unshrunk", None)
                nfail += 1
                ctx.add_failure(f)
            elif line.startswith("evaluations="):
                tail = True
                ctx.evaluations += int(line.split()[0].split("=")[1])
            elif line.startswith("strata:"):
                strata = dict(kv.rsplit("=", 1) for kv in line[len("strata: "):].split(" ") if "=" in kv)
                ctx.notes["falsifier_strata"] = {k: int(v) for k, v in strata.items()}
            elif line.startswith("boundary="):
                ctx.notes["falsifier_counts"] = line
        ctx.ob("falsifier-ran:release", rc == 0 and tail, out[-300:])
        # every stratum named by the quantifier must actually have been exercised (a generator that silently skips a class is a broken check)
        st = ctx.notes.get("falsifier_strata", {})
        need = ["degenerate:one-constant-column", "degenerate:low-degree-x^1", "width:255+0", "width:254+1", "degree:blowup+1", "degree:mid+periodic",
                "assertion:sequence:first>0:>=64-values", "assertion:periodic:first>0", "queries:255", "width:255+queries:255", "grinding", "random"]
        missing = [k for k in need if st.get(k, 0) == 0]
        ctx.ob("falsifier-strata-covered", tail and not missing, "strata never exercised: " + ",".join(missing))
        ctx.notes.setdefault("falsifier", {})["release"] = {"budget": budget, "failures": nfail, "wall_s": round(dt, 1)}
    # ---- coverage round: the X stream in the DEBUG profile (the prover's #[cfg(debug_assertions)] self-checks: Trace::validate with auxiliary segment and
    # Lagrange column, validate_transition_degrees with auxiliary constraints) and, for the same members, in the release profile
    hbd = ctx.build_harness("c01", "debug")
    xstrata = {}
    for prof, binp in (("debug", hbd), ("release", hb)):
        if not binp:
            continue
        nx = (1500 if quick else 20000) * (3 if ctx.broken() else 1)
        reps = 6 if quick else 24
        rc, out, dt = vcheck.sh([binp, "xfalsify", str(ctx.seed), str(nx), str(reps)], timeout=600 if quick else 4000)
        nfail, nknown, tail, prof_ok = 0, 0, False, False
        for line in out.split("\n"):
            if line.startswith("{"):
                try:
                    f = json.loads(line)
                except ValueError:
                    continue
                f["profile"] = prof
                f["input"] = json.dumps(f["input"], separators=(",", ":"))
                f.pop("unshrunk", None)
                if ctx.add_failure(f):
                    nfail += 1
                else:
                    nknown += 1   # matched the signature of an open known finding (F-C01-debug-degree-diagnostics)
            elif line.startswith("evaluations="):
                tail = True
                ctx.evaluations += int(line.split()[0].split("=")[1])
            elif line.startswith("xstrata:"):
                xstrata[prof] = {k: int(v) for k, v in (kv.rsplit("=", 1) for kv in line[len("xstrata: "):].split(" ") if "=" in kv)}
            elif line.startswith("profile="):
                prof_ok = line.split()[0] == "profile=" + prof   # the binary itself says whether debug assertions are compiled in
        ctx.ob("falsifier-ran:debug" if prof == "debug" else "falsifier-ran:release:x-stream", rc == 0 and tail and prof_ok, out[-300:])
        ctx.notes.setdefault("falsifier", {})[prof + ":x-stream"] = {"budget": nx, "failures": nfail, "known_finding_reports": nknown, "wall_s": round(dt, 1)}
    # every cell profile x aux shape x Lagrange column x exemptions-used must have been PROVED AND VERIFIED at least once (debug: by a member the
    # reference computation calls degree-exact), and the direct Trace::validate cross-check must have seen valid and invalid traces with aux + Lagrange
    need = []
    for prof in ("debug", "release"):
        for shape, lags in (("none", (0,)), ("lt", (0, 1)), ("eq", (0, 1)), ("gt", (0, 1))):
            for lag in lags:
                for ex in ("e1", "e2:used", "e3:used"):
                    need.append((prof, f"cell:aux-{shape}:lag{lag}:{ex}"))
        need += [(prof, k) for k in ("x-plain-lagrange-kernel", "x-degenerate:zero-trace-aux", "x-degenerate:all-hold-e3", "x-degenerate:constant-column-e2", "x-degree:n=8,d=5,cycle=2", "x-degree:n=8,d=10,cycle=0",
                                     "x-degree:n=16,d=9,cycle=2", "x-width:9+9", "x-aux-sequence:>=64-values",
                                     "x-crosscheck:valid:aux1:lag1:e>=2", "x-crosscheck:invalid:aux1:lag1:e>=2", "x-crosscheck:valid:aux1:lag0:e>=2",
                                     "x-crosscheck:invalid:aux1:lag0:e>=2", "x-crosscheck:valid:aux0:lag0:e>=2")]
    missing = [f"{p}/{k}" for p, k in need if xstrata.get(p, {}).get(k, 0) == 0]
    ctx.ob("falsifier-cells-covered", bool(xstrata) and not missing, "cells never proved and verified: " + ",".join(missing[:12]))
    ctx.notes["x_stream_cells"] = {p: {k: v for k, v in st.items() if k.startswith("cell:")} for p, st in xstrata.items()}
    ctx.notes["x_stream_other"] = {p: {k: v for k, v in st.items() if not k.startswith("cell:") and not k.startswith("x:")} for p, st in xstrata.items()}
    ctx.notes["stages"] = {
        "theorems (all fields/sizes/coins)": ["root_factor", "vanish_divisible", "domain_vanishing (x^n-1 = prod(x-g^i))", "quotient_is_poly",
                                              "air_quotient_exists", "ood_equation_holds", "deep_quotients_are_polys", "deep_degree_le",
                                              "deep_assert_lax_holds", "query_consistency", "comp_cols_fit", "comp_cols_le_ce",
                                              "snapshot_cols_exact", "snapshot_loss_iff_exemptions_eq_degree", "coset_vanishing",
                                              "merkle_complete_inst (from C10)", "interp_complete_inst + coset_off_domain_inst (from C09)",
                                              "transcript_agree_inst (from C04)", "transition_divisor_inst / assertion_divisor_inst (from C16)",
                                              "fri_complete_inst (from C15_fri_complete + C10)", "stark_complete (capstone, ALL stages instantiated)"],
        "refuted (snapshot behaviour)": ["deep_assert_strict_refuted_general", "deep_degree_eq_refuted", "snapshot_cols_refuted"],
        "stage premises of C01_stark_complete": [],
        "stage premise of C01_stark_complete_generic_fri (arbitrary FRI stage)": ["fri_complete"],
        "other premises of C01_stark_complete": ["shape facts", "root-of-unity / twiddle facts of the field", "trace validity", "z outside domains, z and z*g non-zero, query points distinct LDE points (assumptions)"],
        "Lagrange round (Model/StarkLagrange.v)": ["lagrange_honest_numer_vanishes / _first_cell / _term_is_poly (row-to-point, from C16)", "lagrange_deep_term",
                                                    "stark_complete_lagrange_partial (stage premises: merkle_complete, fri_complete, interp_complete, coset_off_domain, interp_pts_spec)",
                                                    "stark_complete_lagrange (ALL stages instantiated: C10, C09, C15, C04, C20 interpolate; no stage premise)", "interp_pts_inst (from C20_interpolate_spec)"],
        "not modelled": ["serialisation round trip (C12; falsifier only)", "coin retry limit (C19; outside the claim)", "the user's GKR prover/verifier (assumption: same Lagrange random elements on both sides)"],
    }
    ctx.trusted.insert(0, "Coq 8.16.1 kernel + vm_compute (no native_compute); Print Assumptions under every theorem")
    ctx.trusted.append("harness/src/airfam.rs: the AIR family, its trace generator and the reference validity predicate is_valid (the falsifier's oracle)")
