"""C16 — constraints are enforced on exactly the intended steps."""
import json
import vcheck

GROUPS = ["ctor", "len", "ovl", "ft", "fa", "bc", "prep", "ex", "lag", "glue"]
GLUE_WIDTHS = ((3, 2), (2, 5))
LAG_FIELDS = ("f64", "f62", "f128")


def lag_lengths(fld, L):
    """log2 of the trace lengths the Lagrange group must cover (same rule as lag_lengths in harness/src/bin/c16.rs)."""
    v = list(range(1, L + 1))
    if fld == "f64":
        v += [e for e in (14, 16) if e > L]
    return v


def glue_coverage(ctx, profile, lines, diffs):
    """BoundaryConstraints::new on two-segment traces: every (segment, column class, outcome) cell must have been sampled and
    the implementation's outcome must be the one the DEFINITION dictates (accepted iff the column is below the segment's OWN
    width) -- computed here from the integers, not taken from the harness or the model."""
    def classes(seg, mw, aw):
        if seg == "m":
            return {"0": 0, "mw-1": mw - 1, "mw": mw, "mw+aw-1": mw + aw - 1, "mw+aw": mw + aw}
        return {"0": 0, "aw-1": aw - 1, "aw": aw, "mw-1": mw - 1, "mw": mw, "mw+aw-1": mw + aw - 1, "mw+aw": mw + aw}
    want, seen, wrong = set(), set(), []
    for mw, aw in GLUE_WIDTHS:
        for mn, mc in classes("m", mw, aw).items():
            for an, ac in classes("a", mw, aw).items():
                for kind in "spq":
                    want.add((mw, aw, kind, mn, an, mc < mw and ac < aw))
    for l in lines:
        if " => " not in l or not l.startswith("glue "):
            continue
        c, res = l.split(" => ", 1)
        w = c.split()
        if not w[6].startswith("cols:"):
            continue
        mw, aw = int(w[3], 16), int(w[4], 16)
        _, kind, mn, an = w[6].split(":")
        mn, an = mn[2:], an[2:]
        accepted = res.strip().startswith("ok")
        exp = classes("m", mw, aw)[mn] < mw and classes("a", mw, aw)[an] < aw
        seen.add((mw, aw, kind, mn, an, accepted))
        if accepted != exp:
            wrong.append(f"{c[:70]} => {res.strip()[:20]} (definition: {'accepted' if exp else 'refused'})")
    missing = sorted(want - seen)
    ctx.ob(f"coverage:glue:every-segment-columnclass-outcome:{profile}", not missing,
           f"{len(missing)} cells (main width, aux width, kind, main class, aux class, accepted) not observed, e.g. {missing[:3]}; "
           f"{len(wrong)} outcomes against the definition, e.g. {wrong[:2]}")
    bad = [d["case"][:70] for d in diffs]
    ctx.ob(f"coverage:glue:compared-equal:{profile}", not bad, f"{len(bad)} disagreements, e.g. {bad[:3]}")
    ctx.notes.setdefault("glue_coverage", {})[profile] = {"cells_expected": len(want), "cells_observed": len(want & seen)}


def lag_coverage(ctx, profile, lines, diffs, L):
    """Every constraint k = 1..log2(n) of every sampled trace length n (three fields) must have been compared with the
    model: a case line `lagd <field> <n> <k> ..` present in the harness output, a count line `lagn <field> <n>`, and no
    disagreement on them.  The expected set is computed HERE from L, not from what the harness (or the library's
    num_constraints()) chose to enumerate."""
    want_d = {(f, 1 << v, k) for f in LAG_FIELDS for v in lag_lengths(f, L) for k in range(1, v + 1)}
    want_n = {(f, 1 << v) for f in LAG_FIELDS for v in lag_lengths(f, L)}
    seen_d, seen_n = set(), set()
    for l in lines:
        if " => " not in l:
            continue
        w = l.split(" => ", 1)[0].split()
        try:
            if w[0] == "lagd":
                seen_d.add((w[1], int(w[2], 16), int(w[3], 16)))
            elif w[0] == "lagn":
                seen_n.add((w[1], int(w[2], 16)))
        except (IndexError, ValueError):
            pass
    missing = sorted(want_d - seen_d) + sorted(want_n - seen_n)
    ctx.ob(f"coverage:lag:every-constraint-every-length:{profile}", not missing,
           f"{len(missing)} (field, n, k) not enumerated, e.g. {missing[:4]}")
    bad = [d["case"][:60] for d in diffs if d["case"].startswith(("lagd ", "lagn "))]
    ctx.ob(f"coverage:lag:compared-equal:{profile}", not bad, f"{len(bad)} disagreements on Lagrange divisors/counts, e.g. {bad[:3]}")
    ctx.notes.setdefault("lagrange_coverage", {})[profile] = {
        "log2_lengths": {f: lag_lengths(f, L) for f in LAG_FIELDS}, "constraints_compared": len(want_d & seen_d),
        "constraints_expected": len(want_d)}


def cmp_release(case, impl, model):
    # `values.len() * stride` / `(first_step + 1).next_power_of_two()` overflow: the debug build panics (model: panic),
    # the release build wraps; those few boundary cases are compared in the debug profile only.
    if model.startswith("panic") and case.startswith("len "):
        return True
    return impl == model


def run(ctx):
    quick = ctx.tier == "quick"
    nmax = 64 if quick else 256
    # Lagrange kernel constraints: trace lengths 2^1..2^L (+2^14, 2^16 on f64); the model evaluates its divisors at EVERY
    # point of the trace domain for n <= 2^LF, above that the model side of the zero pattern is the proved row set lag_rows
    lag_L, lag_LF = (12, 8) if quick else (13, 10)
    ctx.rule = ("correspondence: EXHAUSTIVE enumeration for every trace length 8.." + str(nmax) + " (powers of two) of every assertion "
                "valid for it (single: every step; periodic: every stride 2..n and first step; sequence: every #values 2..n/2 and first "
                "step), every ordered pair of them in one column (overlaps_with), every exemption count 0..n+1 (from_transition structure, "
                "degree; evaluations at the two boundary steps for k in {0,1,2,n/2+1,n}), every assertion divisor (structure + evaluation at a named "
                "step, its successor and a random point), BoundaryConstraint value polynomials for every sequence assertion, constructor "
                "acceptance on a grid 0..n+2 plus usize boundary values, validate_trace_length/get_num_steps/apply on every constructible "
                "assertion x {all n<=65, 2^j-1,2^j,2^j+1, 2^63, usize::MAX}, prepare_assertions on all ordered pairs for n=8 and random lists; "
                "on f64, f62, f128 with g = get_root_of_unity(log2 n).  Lagrange kernel constraints (real LagrangeKernelConstraints obtained "
                "through an AIR with a Lagrange kernel column): for EVERY trace length 2^1..2^" + str(lag_L) + " (and 2^14, 2^16 on f64), three fields: "
                "number of coefficients drawn / num_constraints() / number of divisors, and for EVERY constraint k = 1..log2 n the zero pattern of "
                "evaluate_ith_divisor over the WHOLE trace domain + values at two random points (model side: its divisor evaluated at every domain "
                "point for n <= 2^" + str(lag_LF) + ", the proved row set above); frames from_lagrange_kernel_column_poly, every evaluate_ith_numerator, "
                "evaluate_and_combine and the boundary constraint at every row and at outside points for the honest column, one corrupted column "
                "per constraint and a random column (n = 4..32); ill-sized frames / random elements / coefficient vectors (panics, zip truncation).  falsifier: brute-force step sets from the definition of the three kinds "
                "and reference u128 polynomial evaluation (divisor = product over the intended steps), all n, all k in 0..n/2+1, all assertions, all pairs; "
                "Lagrange kernel constraints against their definition: count = log2 n, divisor k zero exactly on the multiples of n/2^(k-1) "
                "(all rows, all k, n up to 2^" + str(lag_L) + " / 2^16) and = x^(2^(k-1)) - 1 at random points, union of domains = even rows, numerators = definition at "
                "every row, zero on the enforcement domain for the honest column, a cell corrupted in row odd*2^(v-k) leaves constraints < k satisfied and "
                "is detected by constraint k (n <= 1024), evaluate_and_combine = sum over ALL log2 n constraints (reference Horner + inverse), boundary constraint; "
                "glue: the real BoundaryConstraints::new on two-segment traces (main/aux widths 3/2 and 2/5): every combination of column classes "
                "{0, w-1, w, other width, mw+aw-1, mw+aw} of both segments x three assertion kinds, ill-sized assertions in either segment, duplicates / overlaps "
                "within and across segments, random lists; outcome (ok + #constraints | width | length | overlap) against the model's boundary_prepare "
                "(each list against its OWN segment's width) and, in the falsifier, against the definition; "
                "distinct = distinct case lines")
    ctx.assumptions += [
        "the extension-field embedding E::from(B) and evaluation at extension-field points are not modelled (E = B); the trace-domain statements only involve base-field points",
        "fft::interpolate_poly is modelled by its specification (inverse DFT); the correspondence compares the resulting coefficients with the real FFT output on every sequence assertion (the FFT itself is C09)",
        "B::get_root_of_unity(log2 n) has exact order n (checked numerically by the falsifier for every n and field; TWO_ADIC_ROOT_OF_UNITY order is C07/C08)",
        "usize is 64 bits (theorems assume n < 2^64)",
        "Lagrange kernel constraints: E = B; the honest column is the one harness/src/lagfam.rs builds (bit b of the row selects r_b or 1 - r_b); how the prover/verifier FILL the frame from the trace (TraceLde::read_lagrange_kernel_frame_into, the OOD frame) is outside C16 (from_lagrange_kernel_column_poly is modelled and tied); the prover's own divisor table (prover/src/constraints/evaluator/lagrange.rs) is not an anchored file",
        "translator-tied (model proved equal to rs2v output): single/periodic/sequence, validate_stride, is_single/is_periodic/is_sequence, overlaps_with, validate_trace_width, validate_trace_length, get_num_steps; hand-modelled and tied by correspondence only: apply, Ord::cmp, prepare_assertions, set_num_transition_exemptions, get_evaluation_degree and the field-level functions",
    ]
    # integer-level functions of assertions/mod.rs are regenerated from the source on every run (coq/Gen/Assertions.v);
    # Proofs/EnforceGen.v proves the hand model equal to the generated terms, so a source change that alters their
    # meaning breaks either the translation (obligation translate:Assertions) or those proofs
    ctx.rs2v(["Assertions"])
    ctx.audit_sources()
    ctx.coq_build("C16")
    if not quick:
        ctx.coqchk("C16")
    drv = ctx.build_driver("c16")
    sizes = {}
    for profile, cmp in (("debug", None),) + ((("release", cmp_release),) if not quick else ()):
        hb = ctx.build_harness("c16", profile)
        if hb and drv:
            for g in GROUPS:
                extra = [str(lag_L), str(lag_LF)] if g == "lag" else []
                rc, out, dt = vcheck.sh([hb, "corr", str(ctx.seed), str(nmax), g] + extra, timeout=900)
                lines = out.split("\n")
                sizes[f"{g}:{profile}"] = sum(1 for l in lines if " => " in l)
                if rc != 0 or not sizes[f"{g}:{profile}"]:
                    ctx.ob(f"harness-run:{g}:{profile}", False, out[-300:])
                    if g == "lag":
                        lag_coverage(ctx, profile, [], [], lag_L)
                    if g == "glue":
                        glue_coverage(ctx, profile, [], [])
                    continue
                diffs = ctx.correspondence(f"{g}:{profile}", lines, drv, compare=cmp, timeout=2400, shards=8 if g == "lag" else 1)
                if g == "lag":
                    lag_coverage(ctx, profile, lines, diffs, lag_L)
                if g == "glue":
                    glue_coverage(ctx, profile, lines, diffs)
        if hb:
            rc, out, _ = vcheck.sh([hb, "falsify", str(ctx.seed), str(nmax), str(lag_L)], timeout=1500)
            nfail, seen_tail = 0, False
            for line in out.split("\n"):
                if line.startswith("{"):
                    try:
                        f = json.loads(line)
                    except ValueError:
                        continue
                    f["profile"] = profile
                    f["replay"] = f"{hb} falsify {ctx.seed} {nmax} {lag_L}"
                    nfail += 1
                    ctx.add_failure(f)
                elif line.startswith("evaluations="):
                    seen_tail = True
                    ctx.evaluations += int(line.split()[0].split("=")[1])
                    nfail = max(nfail, int(line.split()[1].split("=")[1]))
            ctx.ob(f"falsifier-ran:{profile}", rc == 0 and seen_tail, out[-300:])
            ctx.notes.setdefault("falsifier", {})[profile] = {"nmax": nmax, "failures": nfail}
    ctx.notes["enumeration_sizes"] = sizes
    ctx.notes["exhaustive"] = (f"trace lengths {[n for n in (8, 16, 32, 64, 128, 256) if n <= nmax]}; all valid assertions per length "
                               "(n + (2n-2) + (n-2) per column), all ordered same-column pairs, all exemption counts 0..n+1 "
                               "(n<=64; 0..n/2+2,n-1,n,n+1 above) on three fields")
    ctx.notes["lagrange"] = ("constraint k (from 1) of a trace of length n = 2^v: divisor x^(2^(k-1)) - 1 (no exemptions), enforced on the multiples of "
                             "n/2^(k-1), relates rows i and i + n/2^k; union of the domains = even rows; every row but 0 is the second row of exactly one "
                             "enforced (k, i); odd rows are read by constraint v only (C16_lagrange_*); dropping the last constraint leaves the odd rows "
                             "unconstrained (C16_lagrange_cover_without_last_refuted, C16_lagrange_determine_without_last_refuted)")
    ctx.notes["evaluate_at_totalisation"] = ("ConstraintDivisor::evaluate_at returns 0 (0 * inv(0)) at the k exempt trace-domain points, where the quotient "
                                             "polynomial is non-zero; stated by theorem C16_transition_evaluate_at_exempt_is_zero")
    # bin/check calls ctx.finish() without arguments: add the coverage keys of a fully enumerated finite space
    fin = ctx.finish
    ctx.finish = lambda extra_coverage=None, level_note=None: fin(
        extra_coverage={**(extra_coverage or {}), "exhaustive": True, "enumeration_sizes": sizes}, level_note=level_note)
    ctx.trusted.insert(0, "Coq 8.16.1 kernel + vm_compute (no native_compute); Print Assumptions under every theorem")
