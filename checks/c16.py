"""C16 — constraints are enforced on exactly the intended steps."""
import json
import vcheck

GROUPS = ["ctor", "len", "ovl", "ft", "fa", "bc", "prep", "ex"]


def cmp_release(case, impl, model):
    # `values.len() * stride` / `(first_step + 1).next_power_of_two()` overflow: the debug build panics (model: panic),
    # the release build wraps; those few boundary cases are compared in the debug profile only.
    if model.startswith("panic") and case.startswith("len "):
        return True
    return impl == model


def run(ctx):
    quick = ctx.tier == "quick"
    nmax = 64 if quick else 256
    ctx.rule = ("correspondence: EXHAUSTIVE enumeration for every trace length 8.." + str(nmax) + " (powers of two) of every assertion "
                "valid for it (single: every step; periodic: every stride 2..n and first step; sequence: every #values 2..n/2 and first "
                "step), every ordered pair of them in one column (overlaps_with), every exemption count 0..n+1 (from_transition structure, "
                "degree; evaluations at the two boundary steps for k in {0,1,2,n/2+1,n}), every assertion divisor (structure + evaluation at a named "
                "step, its successor and a random point), BoundaryConstraint value polynomials for every sequence assertion, constructor "
                "acceptance on a grid 0..n+2 plus usize boundary values, validate_trace_length/get_num_steps/apply on every constructible "
                "assertion x {all n<=65, 2^j-1,2^j,2^j+1, 2^63, usize::MAX}, prepare_assertions on all ordered pairs for n=8 and random lists; "
                "on f64, f62, f128 with g = get_root_of_unity(log2 n).  falsifier: brute-force step sets from the definition of the three kinds "
                "and reference u128 polynomial evaluation (divisor = product over the intended steps), all n, all k in 0..n/2+1, all assertions, all pairs; "
                "distinct = distinct case lines")
    ctx.assumptions += [
        "the extension-field embedding E::from(B) and evaluation at extension-field points are not modelled (E = B); the trace-domain statements only involve base-field points",
        "fft::interpolate_poly is modelled by its specification (inverse DFT); the correspondence compares the resulting coefficients with the real FFT output on every sequence assertion (the FFT itself is C09)",
        "B::get_root_of_unity(log2 n) has exact order n (checked numerically by the falsifier for every n and field; TWO_ADIC_ROOT_OF_UNITY order is C07/C08)",
        "usize is 64 bits (theorems assume n < 2^64)",
        "translator-tied (model proved equal to rs2v output): single/periodic/sequence, validate_stride, is_single/is_periodic/is_sequence, overlaps_with, validate_trace_width, validate_trace_length, get_num_steps; hand-modelled and tied by correspondence only: apply, Ord::cmp, prepare_assertions, set_num_transition_exemptions, get_evaluation_degree and the field-level functions",
    ]
    # integer-level functions of assertions/mod.rs are regenerated from the source on every run (coq/Gen/Assertions.v);
    # Proofs/EnforceGen.v proves the hand model equal to the generated terms, so a source change that alters their
    # meaning breaks either the translation (obligation translate:Assertions) or those proofs
    ctx.rs2v(["Assertions"])
    ctx.audit_sources()
    ctx.coq_build("C16")
    if not quick:
        ctx.coqchk("C16")
    drv = ctx.build_driver("c16")
    sizes = {}
    for profile, cmp in (("debug", None),) + ((("release", cmp_release),) if not quick else ()):
        hb = ctx.build_harness("c16", profile)
        if hb and drv:
            for g in GROUPS:
                rc, out, dt = vcheck.sh([hb, "corr", str(ctx.seed), str(nmax), g], timeout=900)
                lines = out.split("\n")
                sizes[f"{g}:{profile}"] = sum(1 for l in lines if " => " in l)
                if rc != 0 or not sizes[f"{g}:{profile}"]:
                    ctx.ob(f"harness-run:{g}:{profile}", False, out[-300:])
                    continue
                ctx.correspondence(f"{g}:{profile}", lines, drv, compare=cmp, timeout=2400)
        if hb:
            rc, out, _ = vcheck.sh([hb, "falsify", str(ctx.seed), str(nmax)], timeout=1500)
            nfail, seen_tail = 0, False
            for line in out.split("\n"):
                if line.startswith("{"):
                    try:
                        f = json.loads(line)
                    except ValueError:
                        continue
                    f["profile"] = profile
                    f["replay"] = f"{hb} falsify {ctx.seed} {nmax}"
                    nfail += 1
                    ctx.add_failure(f)
                elif line.startswith("evaluations="):
                    seen_tail = True
                    ctx.evaluations += int(line.split()[0].split("=")[1])
                    nfail = max(nfail, int(line.split()[1].split("=")[1]))
            ctx.ob(f"falsifier-ran:{profile}", rc == 0 and seen_tail, out[-300:])
            ctx.notes.setdefault("falsifier", {})[profile] = {"nmax": nmax, "failures": nfail}
    ctx.notes["enumeration_sizes"] = sizes
    ctx.notes["exhaustive"] = (f"trace lengths {[n for n in (8, 16, 32, 64, 128, 256) if n <= nmax]}; all valid assertions per length "
                               "(n + (2n-2) + (n-2) per column), all ordered same-column pairs, all exemption counts 0..n+1 "
                               "(n<=64; 0..n/2+2,n-1,n,n+1 above) on three fields")
    ctx.notes["evaluate_at_totalisation"] = ("ConstraintDivisor::evaluate_at returns 0 (0 * inv(0)) at the k exempt trace-domain points, where the quotient "
                                             "polynomial is non-zero; stated by theorem C16_transition_evaluate_at_exempt_is_zero")
    # bin/check calls ctx.finish() without arguments: add the coverage keys of a fully enumerated finite space
    fin = ctx.finish
    ctx.finish = lambda extra_coverage=None, level_note=None: fin(
        extra_coverage={**(extra_coverage or {}), "exhaustive": True, "enumeration_sizes": sizes}, level_note=level_note)
    ctx.trusted.insert(0, "Coq 8.16.1 kernel + vm_compute (no native_compute); Print Assumptions under every theorem")
