"""C14 — multi-threaded execution produces the same results as single-threaded.

Level: proof (task-level fork-join model) + differential correspondence; scheduler / memory model not modelled.
  * Coq: Props/C14.v (disjoint_commute, interleavings, permute / Merkle / batch utilities / transpose / fragments /
    nonce) over Model/Par.v.
  * falsifier's oracle: the SAME harness source built without features (single-threaded reference) and with
    `--features concurrent`, the latter run under RAYON_NUM_THREADS in a list of pool sizes: every digest line must be
    byte-identical (nonce and nonce-dependent query data excluded), every proof must verify.
  * correspondence with the model: the chunking of batch_iter_mut! observed with a recording closure, the permutation
    realised by fft::permute observed through get_twiddles, the task structure of the concurrent Merkle builder
    observed through a logging hasher (which thread computed which node, in which global order, from which children),
    the panic boundary of the concurrent builder called directly — against the extracted Model/Par.v.
"""
import json
import os
import re
import vcheck

LEVEL = "proof"

QUICK_T = [1, 2, 3, 5, 8, 16, 64]
THOROUGH_T = [1, 2, 3, 5, 6, 7, 8, 12, 16, 24, 33, 64]


def _parse(out):
    d, info, nd = {}, [], {}
    for line in out.split("\n"):
        if line.startswith("D ") and " => " in line:
            k, v = line[2:].split(" => ", 1)
            d[k] = v.strip()
        elif line.startswith("N ") and " => " in line:
            k, v = line[2:].split(" => ", 1)
            nd[k] = v.strip()
        elif line.startswith("I "):
            info.append(line[2:])
    return d, info, nd


def _cmp_merkle(impl, model):
    """impl: flags + global event list 'thread:node'; model: 'sub:<task>|<task>..;top:<nodes> indep:ok sched:ok'."""
    m = re.match(r"^root:(\w+) leafset:(\w+) leaf-before-internal:(\w+) reads:(\w+) int:(.*)$", impl)
    mm = re.match(r"^sub:(.*);top:(\S*) indep:(\w+) sched:(\w+)$", model)
    if not m or not mm:
        return False
    if any(g != "ok" for g in m.groups()[:4]) or mm.group(3) != "ok" or mm.group(4) != "ok":
        return False
    ev = []
    for e in filter(None, m.group(5).split(",")):
        th, k = e.split(":")
        if k == "bad":
            return False
        ev.append((int(th), int(k)))
    tasks = [[int(x) for x in t.split(",") if x] for t in mm.group(1).split("|")] if mm.group(1) else []
    tasks = [t for t in tasks if t]
    top = [int(x) for x in mm.group(2).split(",") if x]
    # phase 3: the tip of the tree, after every subtree task has finished, in program order
    if len(ev) < len(top):
        return False
    tail = ev[len(ev) - len(top):]
    if [k for _, k in tail] != top:
        return False
    body = ev[:len(ev) - len(top)]
    # phase 2: the projection on each worker thread is a concatenation of whole subtree tasks, each run exactly once
    first = {t[0]: i for i, t in enumerate(tasks)}
    used = set()
    per = {}
    for th, k in body:
        per.setdefault(th, []).append(k)
    for th, seq in per.items():
        pos = 0
        while pos < len(seq):
            i = first.get(seq[pos])
            if i is None or i in used or seq[pos:pos + len(tasks[i])] != tasks[i]:
                return False
            used.add(i)
            pos += len(tasks[i])
    return len(used) == len(tasks)


def _cmp(case, impl, model):
    if case.startswith("merkle "):
        return _cmp_merkle(impl, model)
    return impl == model


def _acc_column_guard(ctx):
    """Source guard for C14_acc_z_index_spec_gen: acc_column (transition branch) indexes z with the batch-LOCAL index
    `z[i % z.len()]`; z.len() = constraint-evaluation blowup = 2^j <= blowup factor <= MAX_BLOWUP_FACTOR.  The theorem needs
    2^j <= mn where mn is the minimum batch size passed to batch_iter_mut! there (batches are powers of two >= mn, hence
    multiples of z.len()).  Read mn and the library's bounds off the current source."""
    try:
        src = open(os.path.join(vcheck.REPO, "prover/src/constraints/evaluation_table.rs")).read()
        opt = open(os.path.join(vcheck.REPO, "air/src/options.rs")).read()
        actx = open(os.path.join(vcheck.REPO, "air/src/air/context.rs")).read()
    except OSError as ex:
        ctx.ob("source-guard:acc_column-min-batch", False, str(ex))
        return
    consts = {m.group(1): int(m.group(2).replace("_", "")) for m in re.finditer(r"const\s+(\w+)\s*:\s*usize\s*=\s*([0-9_]+)\s*;", src)}
    m = re.search(r"\nfn acc_column<.*?\n}\n", src, re.S)
    mb = re.search(r"const\s+MAX_BLOWUP_FACTOR\s*:\s*usize\s*=\s*([0-9_]+)\s*;", opt)
    ce_le_blowup = re.search(r"options\.blowup_factor\(\)\s*>=\s*ce_blowup_factor", actx) is not None
    if not m or not mb:
        ctx.ob("source-guard:acc_column-min-batch", False, "acc_column or MAX_BLOWUP_FACTOR not found in the source (model out of date)")
        return
    body, max_blowup = m.group(0), int(mb.group(1).replace("_", ""))
    local_index = re.search(r"z\[\s*i\s*%\s*z\.len\(\)\s*\]", body[body.find("batch_iter_mut!"):] if "batch_iter_mut!" in body else "") is not None
    call = re.search(r"batch_iter_mut!\(\s*(?:&mut\s+)?\w+\s*,\s*(\w+)\s*,", body)
    tok = call.group(1) if call else None      # two-argument form of the macro (no minimum) = 1
    if tok is None:
        mn = 1 if "batch_iter_mut!" in body else None
    elif tok.isdigit():
        mn = int(tok)
    else:
        mn = consts.get(tok)
    rec = {"min_batch_token": tok, "min_batch": mn, "MAX_BLOWUP_FACTOR": max_blowup, "ce_blowup<=blowup asserted by AirContext": ce_le_blowup,
           "batch-local z index in acc_column": local_index}
    ctx.notes["acc_column_min_batch_guard"] = rec
    if not local_index:
        # the code no longer uses the local index inside a batch: nothing to guard (the digests decide)
        ctx.ob("source-guard:acc_column-min-batch", True)
        return
    pow2 = mn is not None and mn > 0 and (mn & (mn - 1)) == 0
    ok = mn is not None and pow2 and ce_le_blowup and max_blowup <= mn
    ctx.ob("source-guard:acc_column-min-batch", ok,
           f"acc_column passes min batch size {tok}={mn} to batch_iter_mut! but looks z up with the batch-local index: needs a power of two >= "
           f"MAX_BLOWUP_FACTOR={max_blowup} (C14_acc_z_index_spec_gen; C14_acc_z_index_min16_refuted: trace 8, ce blowup 32, 12 threads)")


def _fragment_coverage(ctx, info):
    """Coverage of the fragmented constraint evaluation (evaluator/default.rs: num_fragments = next_power_of_two(pool size) when
    the ce domain has >= 8192 rows, fragment k starts at row k * ce/num_fragments): every per-row lookup must use the GLOBAL row
    `fragment.offset() + i`.  A fragment-local index is invisible unless the looked-up table is longer than a fragment
    (C14_periodic_local_index_ok / _wrong), so for EVERY pool size with more than one fragment the kernel set (run under every
    pool size 1..64) must contain, for both evaluation paths (main-only / main+aux), a member whose periodic table
    (max cycle * ce blowup) is longer than a fragment and which has boundary constraints (their x / divisor lookups also depend on
    the global row), i.e. whose periodic values, transition and boundary evaluations all happen at a non-zero fragment offset."""
    members = []
    for l in info:
        m = re.match(r"evaluator\.(.*) trace_length=(\d+) ce_domain_size=(\d+) ce_blowup=(\d+) max_cycle=(\d+) cycles=\[(.*?)\] assertions=(\d+) aux=(\d+)", l)
        if m:
            members.append({"id": m.group(1), "n": int(m.group(2)), "ce": int(m.group(3)), "ceb": int(m.group(4)), "max_cycle": int(m.group(5)),
                            "cycles": [int(x) for x in m.group(6).split(",") if x.strip()], "assertions": int(m.group(7)), "aux": int(m.group(8))})
    missing = []
    table = {}
    for T in range(1, 65):
        nf_rule = 1 << (T - 1).bit_length()          # usize::next_power_of_two
        for path in ("main", "full"):
            hit = []
            for mb in members:
                if (mb["aux"] > 0) != (path == "full") or mb["ce"] < 8192:
                    continue
                frag = mb["ce"] // nf_rule
                if frag < 16:                          # MIN_FRAGMENT_SIZE assertion: outside the guarantee
                    continue
                if nf_rule > 1 and mb["max_cycle"] * mb["ceb"] > frag and mb["assertions"] >= 1:
                    hit.append(mb["id"])
            if nf_rule > 1 and not hit:
                missing.append(f"T={T}:{path}")
            table[f"T={T}:{path}"] = len(hit)
    single = [mb["id"] for mb in members if mb["ce"] < 8192]
    all_cycles = sorted(set(c for mb in members for c in mb["cycles"]))
    ctx.notes["fragment_coverage"] = {"members": members, "single_fragment_members": single, "cycle_lengths": all_cycles,
                                      "pool_sizes_with_a_sensitive_member(main,full)": [sum(1 for k, v in table.items() if v and k.endswith(p)) for p in ("main", "full")]}
    ctx.ob("coverage:fragment-offset-sensitive-member-for-every-pool-size", bool(members) and not missing and bool(single),
           f"no member with a periodic table longer than a fragment (+ boundary constraints) for {missing[:8]}; members={len(members)} single-fragment={single}")


def _falsify(ctx, hb, tag, budget, env):
    rc, out, _ = vcheck.sh([hb, "falsify", str(ctx.seed), str(budget)], timeout=1500, env=env)
    nfail, summary = 0, ""
    for line in out.split("\n"):
        if line.startswith("{"):
            try:
                f = json.loads(line)
            except ValueError:
                continue
            f["build"] = tag
            f["replay"] = " ".join(f"{k}={v}" for k, v in (env or {}).items()) + f" {hb} falsify {ctx.seed} {budget}"
            nfail += 1
            ctx.add_failure(f)
        elif line.startswith("evaluations="):
            summary = line.strip()
            ctx.evaluations += int(line.split()[0].split("=")[1])
    ctx.ob(f"falsifier-ran:{tag}", rc == 0 and summary != "", out[-300:] if rc else "no summary line")
    ctx.notes.setdefault("falsifier_in_process_oracles", {})[tag] = {"budget": budget, "failures": nfail, "summary": summary}


def run(ctx):
    quick = ctx.tier == "quick"
    Ts = QUICK_T if quick else THOROUGH_T
    repeats = 1 if quick else 3
    scale = 1 if quick else 2
    ctx.rule = ("differential: one harness source, built single-threaded (reference) and with --features concurrent; the concurrent binary runs "
                "under every RAYON_NUM_THREADS of the tier (x repeated runs in thorough) and each 'D' line (digest of a deterministic result: FFT "
                "evaluate/interpolate with/without offset on both sides of 1024, power series / batch inversion with zeros at batch boundaries / "
                "add_in_place / mul_acc around n = 1024*npo2(T), Merkle trees on both sides of 1024 leaves, Row/ColMatrix LDE + commitments incl. "
                "short-and-wide shapes, FRI folding + layer commitments, and for whole proofs the coin log before the nonce, commitments, OOD frame, "
                "FRI remainder, verify()) must be byte-identical to the reference; nonce and query data ('N' lines) are excluded. "
                "correspondence: observed batch_iter_mut! chunks, realised fft::permute permutation, Merkle task structure (logging hasher) and the "
                "panic boundary of the concurrent Merkle builder vs the extracted Model/Par.v run under several schedules/interleavings. "
                "distinct = distinct (result name, pool size) pairs + distinct correspondence case lines")
    ctx.assumptions += [
        "rayon implements fork-join: every task spawned in a scope / produced by a parallel iterator runs exactly once and has finished when the "
        "scope / for_each returns (NOT modelled; observed per run by the logging-hasher correspondence: leaf phase before subtree tasks before the tip)",
        "the `&mut` slices aliased through raw pointers in fft::concurrent::permute, prover::matrix::segments::concurrent::permute and "
        "merkle::concurrent::build_merkle_nodes are race-free under the Rust memory model when the index footprints are disjoint (the theorems give "
        "index disjointness and sequentially consistent interleavings of the atomic steps only)",
        "timing, thread starvation, stack sizes and RAYON_NUM_THREADS > 64 are out of scope; Model/Par.v states what the code does there "
        "(permute silently skipped when npo2(T) > n; Merkle builder panics when npo2(T) > leaves/2; par_chunks_mut(0) panics)",
        "b.exp(k) is the k-fold product (C07), finv is the field inverse with finv 0 = 0 (C07); field laws as FLaws in Base/FieldOps.v",
        "the two builds differ only by the cargo feature; rustc/LLVM compile both as written",
    ]
    ctx.audit_sources()
    _acc_column_guard(ctx)
    ctx.coq_build("C14")
    if not quick:
        ctx.coqchk("C14")
    drv = ctx.build_driver("c14")
    ser = ctx.build_harness("c14", "release")
    conc = ctx.build_harness("c14", "release", features=("concurrent",))
    ctx.trusted.insert(0, "Coq 8.16.1 kernel + vm_compute (no native_compute); Print Assumptions under every theorem")
    ctx.trusted.append("hand-written Gallina model coq/Model/Par.v of the task decompositions (tied to the code by the per-run correspondence, not by "
                       "translation); NOT in the model: rayon's scheduler, the Rust memory model, timing")
    ctx.trusted.append("harness/src/bin/c14.rs (digest canonicalisation = canonical little-endian serialisation of field elements / digest bytes, "
                       "blake3 of the stream; SpyHasher; recording closure for batch_iter_mut!), harness/src/airfam.rs, harness/src/coinrec.rs; "
                       "the comparison code of checks/c14.py")
    if not ser or not conc:
        return

    # ------------------------------------------------------------------ reference run (single-threaded build)
    rc, out, dt = vcheck.sh([ser, "digests", str(ctx.seed), str(scale)], timeout=1200)
    ref, info, ref_nd = _parse(out)
    ctx.ob("reference-run", rc == 0 and len(ref) > 500, f"rc={rc} lines={len(ref)} {out[-200:]}")
    bad_verify = [k for k, v in ref.items() if (" verify" in k or k.endswith(" result")) and v != "ok"]
    ctx.ob("reference:every-proof-verifies", not bad_verify, "; ".join(f"{k}={ref[k]}" for k in bad_verify[:4]))
    ces = []
    for l in info:
        m = re.search(r"ce_domain_sizes \[(.*)\]", l)
        if m:
            ces = [int(x) for x in m.group(1).split(",") if x.strip()]
    ctx.ob("covers-both-sides:8192-constraint-evaluation-rows", any(c < 8192 for c in ces) and any(c == 8192 for c in ces) and any(c > 8192 for c in ces), str(ces))

    def sizes(prefix, key):
        s = set()
        for k in ref:
            if k.startswith(prefix):
                m = re.search(key + r"=(\d+)", k)
                if m:
                    s.add(int(m.group(1)))
        return sorted(s)
    fft_n, mk_n, ps_n = sizes("f64.evaluate_poly ", "n"), sizes("merkle.blake3", "leaves"), sizes("f64.get_power_series ", "n")
    ctx.ob("covers-both-sides:1024-elements", any(n < 1024 for n in fft_n) and any(n >= 1024 for n in fft_n) and any(n <= 1024 for n in mk_n)
           and any(n > 1024 for n in mk_n) and all(any(n < 1024 * s for n in ps_n) and any(n >= 1024 * s for n in ps_n) for s in (1, 2, 4, 8, 16, 64)),
           f"fft={fft_n} merkle={mk_n} series={ps_n}")
    cov = {"thread_counts": Ts, "repeats": repeats, "digest_lines_per_run": len(ref), "fft_sizes": fft_n, "merkle_leaf_counts": mk_n,
           "series_and_inversion_sizes": ps_n, "ce_domain_sizes": ces, "matrix_shapes(rows,cols,blowup)": sorted(set(
               re.search(r"rows=(\d+) cols=(\d+) blowup=(\d+)", k).groups() for k in ref if k.startswith("rowmatrix.lde"))),
           "proof_cases": sorted(set(k.split(" ")[0] for k in ref if k.startswith("proof."))), "reference_wall_s": round(dt, 1)}

    # ------------------------------------------------------------------ cheap kernels under EVERY pool size 1..64
    rc, out, _ = vcheck.sh([ser, "kernels", str(ctx.seed)], timeout=600)
    kref, kinfo, _ = _parse(out)
    kcases = [l[2:] for l in out.split("\n") if l.startswith("C ")]
    ctx.ob("kernels:reference-run", rc == 0 and len(kref) > 50, f"rc={rc} lines={len(kref)}")
    _fragment_coverage(ctx, kinfo)
    kbad = 0
    for T in range(1, 65):
        rc, out, _ = vcheck.sh([conc, "kernels", str(ctx.seed)], timeout=600, env={"RAYON_NUM_THREADS": str(T)})
        got, _, _ = _parse(out)
        kcases += [l[2:] for l in out.split("\n") if l.startswith("C ")]
        diff = [k for k in sorted(kref) if got.get(k) != kref[k]]
        ctx.evaluations += len(got)
        for k in got:
            ctx.distinct.add(f"kern|{k}|T={T}")
        if rc != 0 or diff:
            kbad += 1
            for k in diff[:3]:
                ctx.add_failure({"what": "kernel result differs from the single-threaded build", "input": f"{k} RAYON_NUM_THREADS={T} seed={ctx.seed}",
                                 "expected": kref[k], "actual": got.get(k, "missing"),
                                 "replay": f"diff <({ser} kernels {ctx.seed}) <(RAYON_NUM_THREADS={T} {conc} kernels {ctx.seed})"})
            if rc != 0 and not diff:
                ctx.add_failure({"what": "kernel run failed", "input": f"RAYON_NUM_THREADS={T}", "expected": "exit 0", "actual": out[-300:]})
    ctx.ob("kernels:bit-identical-for-every-pool-size-1..64", kbad == 0, f"{kbad} pool sizes differ")
    if drv:
        # node vectors of concurrent::build_merkle_nodes called directly (32..4096 leaves, ToyHasher) under every pool size,
        # against the extracted model (Panic exactly when next_power_of_two(pool size) > leaves / 2)
        ctx.ob("merkle-node-vectors:cases-for-every-pool-size", len(kcases) == 65 * 8, f"{len(kcases)} cases")
        # the extracted model hashes on inductive Z (slow): one driver process per (leaves, number of subtrees) class
        import concurrent.futures
        groups = {}
        for l in kcases:
            w = l.split()
            if len(w) >= 4 and w[3].isdigit() and w[1].isdigit():
                T = int(w[3])
                groups.setdefault((w[1], w[2], 1 << (T - 1).bit_length() if T > 0 else 0), []).append(l)
        with concurrent.futures.ThreadPoolExecutor(max_workers=12) as ex:
            futs = [ex.submit(ctx.correspondence, f"merkle-node-vectors:toyhasher:leaves={k[0]}:subtrees={k[2]}", g, drv, None, 1500)
                    for k, g in sorted(groups.items(), key=lambda kv: -int(kv[0][0]))]
            for f in futs:
                f.result()
        nc = ctx.notes.get("correspondence", {})
        mv = {k: v for k, v in nc.items() if k.startswith("merkle-node-vectors:")}
        for k in mv:
            nc.pop(k)
        nc["merkle-node-vectors:toyhasher:every-pool-size-1..64"] = {"cases": sum(v["cases"] for v in mv.values()),
                                                                     "disagreements": sum(v["disagreements"] for v in mv.values()), "driver_processes": len(mv)}

    # ------------------------------------------------------------------ concurrent runs
    nonce_diffs, walls = 0, {}
    for T in Ts:
        env = {"RAYON_NUM_THREADS": str(T)}
        for rep in range(repeats):
            rc, out, dt = vcheck.sh([conc, "digests", str(ctx.seed), str(scale)], timeout=1200, env=env)
            got, info, nd = _parse(out)
            walls[f"T={T}"] = round(dt, 1)
            pool_ok = any(re.search(rf"build concurrent=true threads={T}\b", l) for l in info)
            ctx.ob(f"concurrent-run:T={T}:run={rep}", rc == 0 and pool_ok and set(got) == set(ref),
                   f"rc={rc} pool_ok={pool_ok} missing={sorted(set(ref) - set(got))[:3]} extra={sorted(set(got) - set(ref))[:3]} {out[-200:] if rc else ''}")
            ndiff = 0
            for k in sorted(ref):
                if k in got and got[k] != ref[k]:
                    ndiff += 1
                    if ndiff <= 5:
                        ctx.add_failure({"what": "result differs from the single-threaded build", "input": f"{k} RAYON_NUM_THREADS={T} run={rep} seed={ctx.seed} scale={scale}",
                                         "expected": ref[k], "actual": got[k],
                                         "replay": f"diff <({ser} digests {ctx.seed} {scale}) <(RAYON_NUM_THREADS={T} {conc} digests {ctx.seed} {scale})"})
            ctx.ob(f"bit-identical:T={T}:run={rep}", ndiff == 0, f"{ndiff} of {len(ref)} digest lines differ")
            ctx.evaluations += len(got)
            for k in got:
                ctx.distinct.add(f"{k}|T={T}")
            nonce_diffs += sum(1 for k in nd if k.endswith("pow_nonce") and ref_nd.get(k) != nd[k])
    cov["concurrent_wall_s"] = walls
    cov["nonces_differing_from_serial(legitimate)"] = nonce_diffs
    ctx.samples += [{"digest": k, "value": ref[k], "identical_for_T": Ts} for k in list(sorted(ref))[:: max(1, len(ref) // 6)][:6]]

    # ------------------------------------------------------------------ correspondence with the model
    ncorr = 5 if quick else 60
    if drv:
        rc, out, _ = vcheck.sh([ser, "corr", str(ctx.seed), str(ncorr)], timeout=600)
        ctx.correspondence("task-structure:serial-build", out.split("\n"), drv, compare=_cmp, timeout=1500)
        for T in Ts:
            for rep in range(repeats if T in (3, 8, 64) else 1):
                rc, out, _ = vcheck.sh([conc, "corr", str(ctx.seed + rep), str(ncorr)], timeout=600, env={"RAYON_NUM_THREADS": str(T)})
                lines = out.split("\n")
                ok_t = all(l.split(" => ")[0].split()[-1] == str(T) for l in lines if " => " in l)
                ctx.ob(f"corr-pool-size:T={T}:run={rep}", rc == 0 and ok_t, out[-200:] if rc else "pool size is not the requested one")
                ctx.correspondence(f"task-structure:T={T}:run={rep}", lines, drv, compare=_cmp, timeout=1500)

    # ------------------------------------------------------------------ in-process oracles (independent of the model)
    budget = (100 if quick else 1500) * (3 if ctx.broken() else 1)
    _falsify(ctx, ser, "serial", budget, None)
    for T in Ts:
        _falsify(ctx, conc, f"concurrent:T={T}", budget, {"RAYON_NUM_THREADS": str(T)})
    ctx.notes["coverage_matrix"] = cov
    ctx.notes["not_modelled"] = ["rayon implements fork-join", "race freedom of the aliased &mut slices beyond index disjointness (Rust memory model)", "timing"]
    fj = os.path.join(vcheck.VERIF, "notes", "C14.findings.json")
    if os.path.exists(fj):
        ctx.notes["findings"] = json.load(open(fj))
