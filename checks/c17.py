"""C17 — the committed constraint composition polynomial equals its definition."""
import json
import vcheck

# shapes named in the property's quantifier: the falsifier must have sampled each of them, otherwise the run proves nothing
NEED_SHAPES = [
    "periodic:distinct-cycle-lengths", "periodic:cycle=2", "periodic:cycle=n/2", "periodic:cycle=n",
    "assert:sequence,values=2..32(small-poly),first=0", "assert:sequence,values=2..32(small-poly),first>0",
    "assert:sequence,values=>=64(large-poly),first=0", "assert:sequence,values=>=64(large-poly),first>0",
    "assert:periodic,first>0", "assert:single@nonzero", "boundary-group-with-several-constraints",
    "ce_blowup<lde_blowup", "aux-segment", "ext:None", "ext:Quadratic", "ext:Cubic", "field:f64", "field:f128",
    "exemptions:2", "exemptions:>3", "through-prove+verify",
] + [f"values:{p}:{c}" for p in ("sum-zero", "all-zero", "all-equal", "single-nonzero", "alternating", "top-coeff-zero", "monomial")
     for c in ("single", "small-poly", "large-poly")] \
  + [f"boundary:{seg}:{rep}:{sh}" for seg in ("main", "aux") for rep in ("single-value", "small-poly", "large-poly")
     for sh in ("divisor-shared", "divisor-unshared")] \
  + [f"lagrange:n={1 << v}:{what}:prover-rows" for v in (3, 4, 6, 8) for what in [f"k={k}" for k in range(v)] + ["boundary", "all"]] \
  + [f"lagrange:n={1 << v}:verifier-ood" for v in (3, 4, 6, 8)] \
  + ["lagrange:ext=None", "lagrange:ext=Quadratic", "lagrange:other-aux-columns=yes", "lagrange:other-aux-columns=no",
     "lagrange:ce_blowup<lde_blowup"]


def _falsify(ctx, hb, budget):
    rc, out, _ = vcheck.sh([hb, "falsify", str(ctx.seed), str(budget)], timeout=1500)
    nfail, summary, shapes = 0, "", {}
    for line in out.split("\n"):
        if line.startswith("{"):
            try:
                f = json.loads(line)
            except ValueError:
                continue
            f["profile"] = "release"
            f["replay"] = f"{hb} falsify {ctx.seed} {budget}"
            nfail += 1
            ctx.add_failure(f)
        elif line.startswith("shapes="):
            for kv in line[7:].split(";"):
                if "=" in kv:
                    k, v = kv.rsplit("=", 1)
                    shapes[k] = int(v)
        elif line.startswith("evaluations="):
            summary = line.strip()
            ctx.evaluations += int(line.split()[0].split("=")[1])
    ctx.ob("falsifier-ran:release", rc == 0 and summary != "", out[-300:] if rc else "no summary line")
    missing = [s for s in NEED_SHAPES if shapes.get(s, 0) == 0]
    ctx.ob("falsifier-sampled-every-named-shape", not missing, "never sampled: " + ", ".join(missing))
    ctx.notes["falsifier"] = {"budget": budget, "failures": nfail, "summary": summary, "sampled_shape_distribution": shapes}


def run(ctx):
    quick = ctx.tier == "quick"
    ctx.rule = ("falsifier (independent oracle): for random members of the harness AIR family x {f64, f128} x {no, quadratic, cubic extension} "
                "the rows of DefaultConstraintEvaluator::evaluate at x_i = offset*w_ce^i, CompositionPoly::new(..).evaluate_at(z) recombined as "
                "sum z^(i n) H_i(z) at random z, and the OOD constraint evaluations of real proofs (coefficients and z replayed from a recording "
                "coin) are compared with a from-scratch evaluation of the definition (product-formula Lagrange interpolation of the trace, the "
                "family's transition algebra, divisors as products over enforced steps, assertion polynomials interpolated over their own steps, "
                "coefficients assigned in (stride, first step, column) order); verify() must accept honest proofs and reject them after one OOD "
                "constraint evaluation is changed; boundary streams enumerate every (declared degree, exemptions) pair and structured assertion values "
                "(summing to zero, all zero, all equal, one non-zero, alternating, top coefficient zero, monomial) for 1, 2, 4, 8, 32, 64, 128 values with "
                "zero and non-zero first step, so that vanishing coefficients of the assertion polynomials are exercised in every representation, and the matrix "
                "{main, aux segment} x {single value, small polynomial, large polynomial} x {divisor shared with a group of the other segment or not} "
                "(auxiliary periodic / sequence assertions through a wrapper AIR around the family); Lagrange-kernel members (harness/src/lagfam.rs, n = 8, 16, 64, 256, "
                "base field and quadratic extension): rows of evaluate() with every Lagrange transition constraint k isolated, the Lagrange boundary constraint "
                "isolated and everything together vs a from-scratch definition (numerator r[v-k] L(x) - (1-r[v-k]) L(g^(2^(v-k)) x), divisor = product over the "
                "subgroup of size 2^(k-1)), CompositionPoly at random z, and real proofs (coefficients = coin draws in the real order, OOD Lagrange frame = "
                "L(z), L(gz), L(g^2 z).., verify accepts / rejects a changed Lagrange frame entry); "
                "correspondence: whole evaluate(), CompositionPoly::new/evaluate_at/recombination, BoundaryConstraintGroup::evaluate_at and "
                "TransitionConstraints::combine_evaluations against the extracted Gallina model over f64; distinct = distinct case lines")
    ctx.assumptions += [
        "base field and extension field are identified in the model (mul_base / E::from are the identity); extension-field behaviour is covered by the falsifier only",
        "fft::evaluate_poly_with_offset / interpolate_poly_with_offset compute the DFT / inverse DFT over the coset (property C09); the model uses the direct formulas",
        "capstone C17_composition_is_definition: interpolation is C09's FFT model (round trip discharged from C09_interpolate_with_offset_spec / C09_get_inv_twiddles), the polynomial form of comp_def is discharged from validity through C01_air_quotient_exists; remaining explicit hypotheses: root-of-unity relations + odd characteristic, trace LDE rows = trace polynomials on the LDE coset, numerators given as coefficient lists vanishing on the enforced steps with quotient lengths <= min(|ce|, columns*n), ce coset disjoint from the trace domain",
        "Lagrange-kernel constraints: row-level (C17_lagrange_row_spec), verifier-level (C17_verifier_lagrange_agrees) and table+hook (C17_table_with_lagrange) theorems; the capstone is not extended to them (lag_def as a polynomial quotient is not proved)",
        "the trace LDE rows are the trace polynomials evaluated over the LDE coset (C09); given to the model as data in the correspondence",
    ]
    ctx.audit_sources()
    ctx.coq_build("C17")
    if not quick:
        ctx.coqchk("C17")
    drv = ctx.build_driver("c17")
    hb = ctx.build_harness("c17", "release")   # debug builds of the prover trip debug-only degree assertions on degenerate traces
    if hb and drv:
        n = 10 if quick else 60
        rc, out, _ = vcheck.sh([hb, "corr", str(ctx.seed), str(n)], timeout=900)
        lines = out.split("\n")
        ctx.correspondence("evaluate+split+verifier-pieces:f64:release", lines, drv, timeout=2400)
        ops = {}
        for l in lines:
            if " => " in l:
                ops[l.split(" ", 1)[0]] = ops.get(l.split(" ", 1)[0], 0) + 1
        ctx.notes["correspondence_ops"] = ops
        ctx.ob("corr-covers-all-ops", all(ops.get(k, 0) > 0 for k in ("eval", "split", "vgroup", "tcomb", "lag")), json.dumps(ops))
    if hb:
        budget = (20000 if quick else 400000) * (3 if ctx.broken() else 1)
        _falsify(ctx, hb, budget)
    ctx.notes["theorem_scope"] = {
        "theorems": "periodic_row_spec, boundary_repr_equiv, column_split_recombine (+ truncation form), verifier_eval_agrees (aux / main only), "
                    "table_row_spec (multi-segment) and table_row_spec_single_segment, composition_is_definition (single-segment) and "
                    "composition_is_definition_aux (interpolation from C09, polynomial form from validity via C01), "
                    "composition_is_definition_partial (abstract interpolation hypotheses), group_merge_value_preserving, lde_rows_from_segments, "
                    "lagrange_row_spec, verifier_lagrange_agrees, table_with_lagrange, lagrange_term_is_poly, lagrange_boundary_is_poly, lag_def_is_poly, "
                    "composition_is_definition_lagrange_partial, lag_def_is_poly_honest, mixed_ops_are_embedded, boundary_repr_equiv_ext, ext_f64_embeddings, "
                    "evaluate_mixed_embeds, table_row_spec_single_segment_ext, composition_is_definition_ext, ext_f64_whole_pipeline, "
                    "composition_is_definition_lagrange (closed), verifier_evaluate_constraints_mixed_embeds, verifier_evaluate_constraints_ext, "
                    "evaluate_mixed_full_embeds, table_row_spec_multi_segment_ext, composition_is_definition_aux_ext, composition_is_definition_ext_closed; "
                    "all for any field with FLaws and all sizes",
        "correspondence_only": "extension fields: the Lagrange terms over E (falsifier only; both prover paths and the whole verifier are covered by the _ext / _mixed_embeds theorems)",
        "falsifier_mutation_tests": "notes/C17.design.md: 9 seeded changes on a private copy of /repo, all reported at the quick budget",
    }
    ctx.trusted.insert(0, "Coq 8.16.1 kernel; Print Assumptions under every theorem")
    ctx.trusted.append("hand-written model coq/Model/Composition.v: faithfulness rests on the per-run correspondence (whole evaluate() incl. aux segment, "
                       "periodic tables, all three boundary representations, exemptions; CompositionPoly; verifier-side air functions)")
    ctx.trusted.append("harness/src/bin/c17.rs reference evaluation of the definition and harness/src/airfam.rs (trace generator, FamAir); "
                       "winterfell's field arithmetic (C07) is shared between the reference and the code under test")
