"""C06 — untrusted input: parsing and verifying arbitrary bytes never panics or aborts."""
import collections
import json
import os
import stat
import vcheck


def load_open_findings(ctx):
    """open findings proposed by this worker (notes/C06.findings.json) count as known until the coordinator merges them"""
    p = os.path.join(vcheck.VERIF, "notes", "C06.findings.json")
    if os.path.exists(p):
        have = {k["id"] for k in ctx.known}
        for k in json.load(open(p)).get("findings", []):
            if k.get("property") == "C06" and k.get("status") == "open" and k["id"] not in have:
                ctx.known.append(k)


def compare(case, impl, model):
    """impl: outcome class of the real code; model: what the extracted model allows"""
    kind = case[:1]
    impl, model = impl.strip(), model.strip()
    if kind == "V":
        allowed = set(model.split("|"))
        if impl == "panic":
            # the model must say that every run panics (the only such site left is Air::new: open finding)
            return all(x.startswith("panic") for x in allowed)
        return impl in allowed
    if kind == "P":
        if impl.split(" ")[0] != model.split(" ")[0]:
            return False
        if impl == "panic":
            return True
        try:
            real = int(impl.split("alloc=")[1])
            predicted = int(model.split("alloc<=")[1].split(" ")[0])
            bound = int(model.split("bound=")[1])
        except (IndexError, ValueError):
            return False
        # bytes requested from the allocator by the real Proof::from_bytes <= the model's accounting <= closed-form bound
        return real <= predicted <= bound
    return impl == model


# ---------------------------------------------------------------------------------------------------------------------
# Element-level classes (coverage round): the outcome the PROPERTY and the documented error mapping prescribe for every
# case of the families noncanonical:<component>:<pos>.<limb>=<kind>, frilayer:*, lag:* — independent of the model.
#   element-bearing components (OOD trace states / evaluations / Lagrange kernel states, opened rows, FRI rows, remainder):
#       a word >= modulus is refused by the element reader  -> verify() = ProofDeserializationError (typed parser: err)
#   Rescue digests (commitments, Merkle nodes): the digest readers reduce, they do not refuse -> never a parse error;
#       a different residue is a different digest (some verification error), the same residue is the same proof (ok)
#   a FRI layer without values is refused by Proof::from_bytes (parse-err); without paths by the typed parser
#   Lagrange-kernel AIR: GKR proof absent / undecodable / followed by left-over bytes -> ProofDeserializationError,
#       decodable but wrong -> GkrProofVerificationFailed
def expected_outcome(label, res):
    """None = as expected, else a description of what was expected (res: outcome class, first token of the result)"""
    lab = label
    lag = lab.startswith("lag:")
    if lag:
        lab = lab[4:]
    component = lab.startswith("component:")
    if component:
        lab = lab[len("component:"):]
    want = None
    if lab.startswith("noncanonical:"):
        _, comp, fk = lab.split(":", 2)
        kind = fk.split("=", 1)[1]
        digest = comp == "commitments" or comp.endswith(".paths")
        if component:
            want = ["ok"] if digest else ["err"]
        elif digest:
            if kind == "same":
                want = ["ok"]
            else:
                return None if (res.startswith("err:") and res != "err:ProofDeserializationError") else "a verification error (a different digest)"
        else:
            want = ["err:ProofDeserializationError"]
    elif lab.startswith("frilayer:"):
        k = lab.split(":", 1)[1].split("@")[0]
        if k == "paths-empty":
            want = ["err"] if component else ["err:ProofDeserializationError"]
        else:
            want = ["parse-err"]
    elif lag:
        if lab == "valid" or lab == "gkr=right:9-byte-form":
            want = ["ok"]
        # bytes left over after the GKR proof are refused (fixes/c03-gkr-trailing-bytes)
        elif lab == "gkr=none" or lab.startswith("gkr=undecodable") or lab.startswith("gkr=right+trailing") or lab.startswith("frame"):
            want = ["err:ProofDeserializationError"]
        elif lab.startswith("gkr=wrong"):
            want = ["err:GkrProofVerificationFailed"]
    if want is None:
        return "no expectation recorded for this label"
    return None if res in want else " or ".join(want)


ELEMENT_COMPS = ["ood.trace", "ood.evals", "tq0.values", "tq1.values", "cq.values", "fri.values", "fri.remainder"]


def _comp_class(comp):
    import re
    return re.sub(r"^fri\d+\.", "fri.", comp)


def cell_obligations(ctx, tag, cells, with_lag):
    """cells: list of (field/hasher, label, [outcome classes])"""
    bad, seen, limbs = [], collections.Counter(), collections.Counter()
    for fh, label, outs in cells:
        for o in outs:
            w = expected_outcome(label, o)
            if w is not None:
                bad.append((fh, label, o, w))
        lab = label[4:] if label.startswith("lag:") else label
        comp_level = lab.startswith("component:")
        lab = lab[len("component:"):] if comp_level else lab
        fld, hsh = (fh.split("/") + ["-"])[:2]
        if lab.startswith("noncanonical:"):
            _, comp, fk = lab.split(":", 2)
            limb, kind = fk.split(".", 1)[1].split("=", 1)
            digest = comp == "commitments" or comp.endswith(".paths")
            key = ("digest", hsh, "paths" if comp.endswith(".paths") else comp, kind) if digest else ("elem", fld, _comp_class(comp), kind)
            seen[("component" if comp_level else "proof",) + key] += 1
            if not digest and not comp_level:
                limbs[(fld, int(limb))] += 1
        elif lab.startswith("frilayer:"):
            seen[("component" if comp_level else "proof", "frilayer", lab.split(":", 1)[1].split("@")[0])] += 1
        elif label.startswith("lag:"):
            seen[("lag", lab.split(":")[0])] += 1
    ctx.ob(f"element-cells-expected-outcome:{tag}", not bad,
           f"{len(bad)} of {len(cells)} cases: " + "; ".join(f"{fh} {l}: {o} (expected {w})" for fh, l, o, w in bad[:6]))
    reported = set()
    for fh, l, o, w in bad:
        cls = l.split("=")[0].rsplit(":", 1)[0] if l.count(":") >= 2 else l.split("=")[0]
        if (fh, cls, o) in reported or len(reported) >= 12:
            continue
        reported.add((fh, cls, o))
        ctx.add_failure({"what": f"element-level case with an unexpected outcome: {cls} impl={o}", "input": f"{fh} {l}", "expected": w, "actual": o, "profile": tag})
    need = []
    for level in ("proof", "component"):
        for fld in ("f64", "f128", "f62"):
            for comp in ELEMENT_COMPS:
                for kind in ("mod", "mod+1", "ones", "same"):
                    need.append((level, "elem", fld, comp, kind))
        for k in ("values-empty", "both-empty", "paths-empty", "inserted-both-empty", "inserted-values-empty"):
            need.append((level, "frilayer", k))
    for hsh in ("rp64", "rpjive", "rp62"):
        for comp in ("commitments", "paths"):
            for kind in ("mod", "mod+1", "ones"):
                need.append(("proof", "digest", hsh, comp, kind))
    if with_lag:
        for fld in ("f64", "f128", "f62"):
            for kind in ("mod", "mod+1", "ones"):
                need.append(("proof", "elem", fld, "ood.lagrange", kind))
        need += [("lag", "valid"), ("lag", "gkr=none"), ("lag", "gkr=undecodable"), ("lag", "gkr=wrong"), ("lag", "gkr=right"), ("lag", "gkr=right+trailing"), ("lag", "frame-1")]
    missing = [k for k in need if seen.get(k, 0) == 0]
    ctx.ob(f"element-cells-all-sampled:{tag}", not missing, f"{len(missing)} of {len(need)} (level, component, field, value kind) cells never sampled: " + ", ".join("/".join(k) for k in missing[:8]))
    lneed = [("f64", 0), ("f64", 1), ("f64", 2), ("f128", 0), ("f128", 1), ("f62", 0), ("f62", 1), ("f62", 2)]
    lmiss = [k for k in lneed if limbs.get(k, 0) == 0]
    ctx.ob(f"element-cells-every-limb:{tag}", not lmiss, "base-field limbs of extension elements never overwritten: " + str(lmiss))
    ctx.notes.setdefault("element_cells", {})[tag] = {"cases": len(cells), "distinct_cells": len(seen), "required": len(need)}
    for k in seen:
        ctx.distinct.add("cell:" + "/".join(str(x) for x in k))


PAR_DRIVER = r'''#!/usr/bin/env python3
# evaluates the extracted model on the cases of stdin: results are cached per case line (debug and release produce the same
# cases, the model is evaluated once) and the misses are spread over several driver processes
import hashlib, os, subprocess, sys
DRV, CACHE, JOBS = sys.argv[1], sys.argv[2], int(sys.argv[3])
cases = sys.stdin.read().split("\n")
if cases and cases[-1] == "":
    cases.pop()
known = {}
if os.path.exists(CACHE):
    for l in open(CACHE, errors="replace"):
        k, _, v = l.rstrip("\n").partition(" ")
        known[k] = v
keys = [hashlib.sha1(c.encode()).hexdigest() for c in cases]
miss = [i for i, k in enumerate(keys) if k not in known]
chunks = [miss[j::JOBS] for j in range(JOBS)]
procs = []
for ch in chunks:
    if not ch:
        continue
    p = subprocess.Popen([DRV], stdin=subprocess.PIPE, stdout=subprocess.PIPE, text=True)
    procs.append((ch, p))
import threading
outs = {}
def feed(ch, p):
    o, _ = p.communicate("\n".join(cases[i] for i in ch) + "\n")
    outs[id(p)] = o.split("\n")
ths = [threading.Thread(target=feed, args=(ch, p)) for ch, p in procs]
for t in ths: t.start()
for t in ths: t.join()
bad = False
with open(CACHE, "a") as f:
    for ch, p in procs:
        res = outs[id(p)]
        if res and res[-1] == "":
            res.pop()
        if p.returncode != 0 or len(res) != len(ch):
            bad = True
            continue
        for i, r in zip(ch, res):
            known[keys[i]] = r
            f.write(keys[i] + " " + r + "\n")
if bad:
    sys.exit(3)
sys.stdout.write("".join(known[k] + "\n" for k in keys))
'''


def run(ctx):
    quick = ctx.tier == "quick"
    load_open_findings(ctx)
    ctx.rule = ("correspondence (outcome class of the REAL code vs the set of outcomes the extracted model allows): V = Proof::from_bytes + "
                "verify::<StrictAir<B>, H, DefaultRandomCoin<H>> in a child process (catch_unwind; address-space limit + allocation cap so that "
                "aborts are attributed to their case) on structure-aware mutations of valid proofs of AIR-family members (f64/f128, Blake3-256/"
                "Blake3-192/Rp64_256/Sha3-256, base/quadratic/cubic, 0/1/several FRI layers, with/without auxiliary segment): every length/count/"
                "size field set to 0,1,2,max-1,max,orig+-1,2*orig,..., every byte value of every options/trace-info field, counts inside Merkle "
                "path blobs, components resized consistently (prefix rewritten), nuq+tables, layers added/removed, trace metadata (valid proofs with metadata; contexts re-serialised with metadata of lengths 0..3*EB and 65535 filled with 00/FF/modulus/modulus+-1/random at every alignment), Lagrange frames, OOD frame "
                "sizes, the gkr vint64 length at every boundary of the encoding (…, 2^56+-1, 2^63+-1, 2^64-2, 2^64-1, 2^64-pos+-2) in every encoding length 1..9 incl. non-canonical forms, foreign modulus, metadata, truncation, trailing bytes, single-bit/byte changes (exhaustive on the "
                "smallest proof in thorough), perturbed public inputs, and the element-level classes: noncanonical:<component>:<pos>.<limb>=<kind> (ONE base-field word - first/middle/last "
                "element, every limb of an extension element - of the OOD trace states / evaluations, opened main / auxiliary / constraint rows, FRI rows of every layer, remainder, and of "
                "Rescue digests (commitments, Merkle nodes; Rp64_256, RpJive64_256, Rp62_248) overwritten with modulus, modulus+1, all ones, modulus+original value; f64, f128 and f62; "
                "all-zero proofs make the last kind representable) and frilayer:* (a FRI layer without values / paths / both, existing or inserted), each also against the typed parser "
                "directly, with the outcome the property prescribes checked per (level, component, field, kind) cell and every cell required; model answers a SET (one run per first failing value-dependent check and per "
                "position-count mismatch): impl must be in it, and an impl panic requires an all-panic set.  O/Q/F/C/D = the typed parsers and "
                "draw_integers called directly with AIR-side parameters independent of the bytes (admissible and inadmissible): exact equality "
                "incl. shapes.  P = arbitrary byte strings through Proof::from_bytes with the allocator's byte count <= model accounting <= bound. "
                "falsifier (model-independent): no panic / abort / timeout > 5 s, largest single allocation <= 4*len+128KiB, total <= 3000*len+4MiB, "
                "also with the plain FamAir and MinProvenSecurity, plus (falsifier only: the model has no GKR step) proofs of a Lagrange-kernel AIR with a validating GKR verifier: GKR proof "
                "absent / undecodable / decodable but wrong, Lagrange kernel frame resized, non-canonical Lagrange kernel states, against the documented error mapping; distinct = distinct case lines")
    ctx.assumptions += [
        "64-bit target (usize = u64); the model has debug-profile semantics (arithmetic overflow panics); release wraps and is observed separately",
        "value-dependent checks (hash comparisons, field-element equalities, proof of work) are oracle bits; the numbers of distinct (folded) "
        "query positions are universally quantified inputs; RandomCoin::draw never exhausts its 1000 attempts",
        "the AIR's own code (evaluate_transition, get_assertions, periodic columns, exemptions) does not panic when Air::new accepted the "
        "trace layout and options: the AIR is the verifier's code, not untrusted input",
        "MerkleTree::verify_batch / BatchMerkleProof::get_root return Ok or Err (C10) and reject a number of indexes different from the number of leaves",
        "Vec growth is amortised doubling (at most 4x the bytes finally held are requested in total); memory safety of unsafe blocks is outside (C13 covers the adapter's)",
        "AIRs with a Lagrange kernel column (GKR) are outside the verify_total theorem (ap_lagrange = false); the typed parsers are covered for them, and "
        "verify() on their proofs is exercised by the falsifier against the documented error mapping (no model)",
    ]
    ctx.audit_sources()
    ctx.coq_build("C06")
    if not quick:
        ctx.coqchk("C06")
    drv = ctx.build_driver("c06")
    if drv:
        wrapper = drv + ".sh"
        with open(wrapper, "w") as f:
            f.write("#!/bin/sh\nulimit -s unlimited 2>/dev/null || ulimit -s 4000000 2>/dev/null\nexec %s\n" % drv)
        os.chmod(wrapper, os.stat(wrapper).st_mode | stat.S_IXUSR | stat.S_IXGRP | stat.S_IXOTH)
        drv = wrapper
    if drv:
        # one evaluation of the model per distinct case (both profiles share them), spread over several processes
        os.makedirs(os.path.join(vcheck.CACHE, "c06"), exist_ok=True)
        par = os.path.join(vcheck.CACHE, "c06", "driver_par.py")
        with open(par, "w") as f:
            f.write(PAR_DRIVER)
        mcache = os.path.join(vcheck.CACHE, "c06", f"model-results-{os.getpid()}.txt")
        if os.path.exists(mcache):
            os.remove(mcache)
        wrapper2 = os.path.join(vcheck.CACHE, "c06", "driver_par.sh")
        with open(wrapper2, "w") as f:
            f.write("#!/bin/sh\nexec python3 %s %s %s 6\n" % (par, drv, mcache))
        os.chmod(wrapper2, os.stat(wrapper2).st_mode | stat.S_IXUSR | stat.S_IXGRP | stat.S_IXOTH)
        drv = wrapper2
    # valid proofs are generated once by the release build (the debug prover trips debug-only assertions) and mutated by both profiles
    rel = ctx.build_harness("c06", "release")
    cdir = os.path.join(vcheck.CACHE, "c06")
    os.makedirs(cdir, exist_ok=True)
    corpus = os.path.join(cdir, f"corpus-{ctx.seed}-{ctx.tier}.txt")
    if rel:
        rc, out, _ = vcheck.sh([rel, "gen", str(ctx.seed), corpus, ctx.tier], timeout=900)
        nproofs = sum(1 for _ in open(corpus)) if os.path.exists(corpus) else 0
        ctx.ob("corpus:valid-proofs", rc == 0 and nproofs >= 20, out[-300:])
        # valid proofs whose context carries trace metadata (bytes 4..6 of the proof: u16 metadata length)
        with_meta = 0
        if os.path.exists(corpus):
            for l in open(corpus):
                h = l.rstrip("\n").split(" ")[-1]
                with_meta += 1 if h[8:12] not in ("0000", "") else 0
        ctx.ob("corpus:proofs-with-metadata", with_meta >= 3, f"{with_meta} valid proofs carry trace metadata")
        ctx.notes["corpus"] = out.strip()[-400:]
    n = 600 if quick else 40000
    if os.environ.get("C06_N"):
        n = int(os.environ["C06_N"])
    for profile in ("debug", "release"):
        hb = rel if profile == "release" else ctx.build_harness("c06", "debug")
        if os.environ.get("C06_HARNESS_BIN"):      # replay aid: a harness built from an unrepaired tree
            hb = os.environ["C06_HARNESS_BIN"]
            ctx.notes["harness_override"] = hb
        if not hb or not os.path.exists(corpus):
            continue
        if drv:
            rc, out, _ = vcheck.sh(f"{hb} corr {ctx.seed} {n} {corpus} 2>{cdir}/corr-{profile}.err", timeout=1500)
            lines = [l for l in out.split("\n") if " => " in l]
            try:
                ctx.notes.setdefault("harness", {})[profile] = open(f"{cdir}/corr-{profile}.err").read().strip()[-200:]
            except OSError:
                pass
            ctx.ob(f"harness-corr-exit:{profile}", rc == 0 and len(lines) > 1000, f"rc={rc} lines={len(lines)}")
            cells = []
            try:
                for cl in open(f"{cdir}/corr-{profile}.err", errors="replace"):
                    t = cl.rstrip("\n").split("\t")
                    if len(t) == 4 and t[0] == "cell":
                        cells.append((t[1], t[2], [t[3].strip().split(" ")[0]]))
            except OSError:
                pass
            cell_obligations(ctx, f"corr:{profile}", cells, with_lag=False)
            diffs = ctx.correspondence(f"untrusted:{profile}", lines, drv, compare=compare, timeout=1500)
            # distribution of the outcome classes reached (so that an over-rejecting generator is visible)
            dist = collections.Counter()
            for l in lines:
                c, r = l.split(" => ", 1)
                dist[c[0] + ":" + r.strip().split(" ")[0]] += 1
            ctx.notes.setdefault("impl_outcomes", {})[profile] = dict(dist.most_common(40))
            need = ["V:ok", "V:parse-err", "V:err:ProofDeserializationError", "V:err:InconsistentOodConstraintEvaluations",
                    "V:err:TraceQueryDoesNotMatchCommitment", "V:err:InconsistentBaseField", "V:err:Fri.LayerCommitmentMismatch",
                    "V:err:UnsupportedFieldExtension", "V:err:UnacceptableProofOptions", "O:ok", "O:err", "Q:ok", "Q:err", "F:ok", "F:err", "C:ok", "C:err", "D:ok", "D:err",
                    "P:parse-err"]
            missing = [k for k in need if dist.get(k, 0) == 0]
            ctx.ob(f"corr-reaches-outcome-classes:{profile}", not missing, "never observed: " + ", ".join(missing))
            for dff in diffs[:20]:
                ctx.add_failure({"what": "correspondence:" + dff["case"].split(" ")[0] + " impl=" + dff["impl"].split(" ")[0],
                                 "input": dff["case"][:3000], "expected": "model: " + dff["model"][:600],
                                 "actual": "impl: " + dff["impl"][:200], "profile": profile,
                                 "replay": f"{hb} corr {ctx.seed} {n} {corpus} | grep -F '{dff['case'][:60]}'"})
        budget = n * (3 if ctx.broken() else 1)
        rc, out, _ = vcheck.sh([hb, "falsify", str(ctx.seed), str(budget), corpus], timeout=1500)
        nfail, summary, fcells = 0, "", []
        for line in out.split("\n"):
            if line.startswith("cell\t"):
                t = line.split("\t")
                if len(t) == 4:
                    # typed-parser results carry shapes with commas: they are single results
                    rs = [t[3]] if "component:" in t[2] else t[3].split(",")
                    fcells.append((t[1], t[2], [x.strip().split(" ")[0] for x in rs]))
            elif line.startswith("{"):
                try:
                    f = json.loads(line)
                except ValueError:
                    continue
                f["profile"] = profile
                f["replay"] = f"{hb} falsify {ctx.seed} {budget} {corpus}"
                nfail += 1
                ctx.add_failure(f)
            elif line.startswith("evaluations="):
                summary = line.strip()
                ctx.evaluations += int(line.split()[0].split("=")[1])
        ctx.ob(f"falsifier-ran:{profile}", rc == 0 and summary != "", out[-300:] if rc else "no summary line")
        # the same element-level cases with the plain AIR / proven-security policy, and the Lagrange-kernel AIR (falsifier only)
        cell_obligations(ctx, f"falsify:{profile}", fcells, with_lag=True)
        ctx.notes.setdefault("falsifier", {})[profile] = {"budget": budget, "reported": nfail, "summary": summary}
    try:
        os.remove(os.path.join(vcheck.CACHE, "c06", f"model-results-{os.getpid()}.txt"))
    except OSError:
        pass
    ctx.trusted.insert(0, "Coq 8.16.1 kernel + vm_compute (no native_compute); Print Assumptions under every theorem")
    ctx.trusted.append("hand-written models coq/Model/Untrusted.v (typed parsers, verifier control flow on shapes, allocation accounting) and "
                       "coq/Model/Codec.v (byte readers, C12), tied to /repo by the per-run correspondence only (no translator)")
    ctx.trusted.append("harness/src/bin/c06.rs: mutation generators, wire-format dissector, StrictAir wrapper (asserts the trace layout in Air::new), "
                       "counting global allocator with a 1 GiB cap, child-process supervisor (ulimit -v), outcome canonicalisation")
