"""C13 — the streaming byte reader (ReadAdapter) is equivalent to the in-memory reader (SliceReader)."""
import json
import os
import vcheck


def _falsify(ctx, hb, profile, budget):
    rc, out, _ = vcheck.sh([hb, "falsify", str(ctx.seed), str(budget)], timeout=1500)
    nfail, summary, io = 0, "", {}
    for line in out.split("\n"):
        if line.startswith("{"):
            try:
                f = json.loads(line)
            except ValueError:
                continue
            f["profile"] = profile
            toks = f.get("input", "").split()
            f["replay"] = f"{hb} {'replay-err' if toks[:1] == ['E'] else 'replay'} {' '.join(toks[1:])}"
            nfail += 1
            ctx.add_failure(f)
        elif line.startswith("#io "):
            try:
                io = json.loads(line[4:])
            except ValueError:
                pass
        elif line.startswith("evaluations="):
            summary = line.strip()
            ctx.evaluations += int(line.split()[0].split("=")[1])
    ctx.ob(f"falsifier-ran:{profile}", rc == 0 and summary != "", out[-300:] if rc else "no summary line")
    # coverage round: sources failing with io::Error must reach both error closures of ReadAdapter (non_empty_reader_buffer_mut:
    # &mut self methods, non_empty_reader_buffer: &self methods) with ErrorKind::UnexpectedEof and with other kinds
    served = io.get("errors_served", {})
    missing = [f"{k}|{site}" for k in ("eof", "int", "oth") for site in ("mut", "ref") if served.get(f"{k}|{site}", 0) == 0]
    ctx.ob(f"io-error-sources-reach-both-closures:{profile}", not missing, "error kind x call site never served: " + ", ".join(missing))
    ctx.notes.setdefault("io_error_sources", {})[profile] = io
    ctx.notes.setdefault("falsifier", {})[profile] = {"budget": budget, "reported_minimal_failures": nfail, "summary": summary}


def run(ctx):
    quick = ctx.tier == "quick"
    ctx.rule = ("correspondence: the same (chunking of a byte stream, operation sequence) through the real ReadAdapter over a chunk-replaying "
                "std::io::Read and through the extracted Gallina state machine, results compared operation by operation (sequence ends with a "
                "drain so that every byte's single consumption is observed); every 4th case also real SliceReader vs its model, every 4th "
                "case (and every fixed boundary case, incl. end-of-data probes at every position and after EOF) also real std::io::Cursor vs "
                "its model from position 0 / inside / beyond the end; "
                "falsifier: real ReadAdapter vs real SliceReader on the concatenated bytes (only allowed difference: check_eor answering Ok for "
                "Err while the source has not yet returned an end-of-stream read), real Cursor vs real SliceReader (no allowance), and "
                "ReadAdapter over sources whose read() fails with io::Error (robustness: no panic, documented error, no byte lost); "
                "distinct = distinct case lines")
    ctx.assumptions += [
        "std::io::BufReader::{fill_buf,consume,buffer} with capacity 256 behave as modelled (fill_buf reads the source only when its buffer is "
        "exhausted, one read of at most 256 bytes); validated on every run by the correspondence over a chunk-replaying Read",
        "the theorems are about sources that return no I/O errors (an io::Error is outside the property's 'any byte stream'; the falsifier "
        "checks robustness for such sources: no panic, UnexpectedEOF / UnknownError(kind) as documented, nothing consumed) and, for the refinement theorem, its end-of-stream is sticky (an empty read is never followed by data): "
        "std::io::Read's contract; sources with empty reads before EOF are covered by the correspondence and by C13_empty_read_is_eof_witness",
        "Vec::capacity() >= Vec::len(); buffers fit in memory (no allocation failure, positions < 2^64)",
        "String::from_utf8 validity is an uninterpreted predicate in the theorems (both readers apply it to the same bytes)",
    ]
    ctx.audit_sources()
    ctx.coq_build("C13")
    if not quick:
        ctx.coqchk("C13")
    drv = ctx.build_driver("c13")
    n = 6000 if quick else 150000
    for profile in ("debug",) + (() if quick else ("release",)):
        hb = ctx.build_harness("c13", profile)
        if not hb:
            continue
        if drv:
            rc, out, _ = vcheck.sh([hb, "corr", str(ctx.seed), str(n)], timeout=900)
            lines = out.split("\n")
            ctx.correspondence(f"adapter+slice-models:{profile}", lines, drv, timeout=1500)
            for l in lines:
                if l.startswith("#stats "):
                    try:
                        ctx.notes.setdefault("input_distribution", {})[profile] = json.loads(l[7:])
                    except ValueError:
                        pass
            # which branches of the model (hence, by agreement, of the code) the cases reached
            cases = "\n".join(l.split(" => ", 1)[0] for l in lines if " => " in l and l[:1] in ("d", "r")) + "\n"
            rc2, cov, _ = vcheck.sh([drv], input_=cases, timeout=1500, env={"C13_COV": "1"})
            covd = {}
            for l in cov.split("\n"):
                if l.startswith("#cov "):
                    try:
                        covd = json.loads(l[5:])
                    except ValueError:
                        pass
            ctx.notes.setdefault("model_paths_reached", {})[profile] = covd
            need = ["read_slice:compact-move", "read_slice:compact-empty", "read_slice:absorb-1-append", "read_slice:absorb-several-or-eof",
                    "read_exact:two-copies", "read_exact:partial-local->fallback", "read_exact:empty-local,short-reader->fallback",
                    "read_exact:local-exact(reset)", "read_exact:reader-direct", "read_exact:partial-local,eof",
                    "check_eor:optimistic", "check_eor:local+reader", "check_eor:eof", "check_eor:guaranteed_eof",
                    "source:chunk>256-truncated", "source:empty-read-with-chunks-left", "peek:reader", "pop:reader", "has_more:reader"]
            missing = [k for k in need if covd.get(k, 0) == 0]
            ctx.ob(f"corr-reaches-all-paths:{profile}", not missing, "paths never reached by the generator: " + ", ".join(missing))
            # coverage round: all three reader implementations are tied to their models, each required method with a successful and
            # an end-of-data outcome (this is where Cursor's UnexpectedEOF branches and its check_eor run), Cursor also from a
            # position inside and beyond the end of its buffer
            dist = ctx.notes.get("input_distribution", {}).get(profile, {})
            bro = dist.get("by_reader_op_result", {})
            need3 = [f"{rd}|{op}|{res}" for rd in ("adapter", "slice", "cursor")
                     for op, outs in (("u8", ("ok", "eof")), ("pk", ("ok", "eof")), ("rs", ("ok", "eof")), ("ra", ("ok", "eof")),
                                      ("eor", ("ok", "eof")), ("more", ("t", "f")), ("usz", ("ok", "eof")), ("many", ("ok", "eof")),
                                      ("str", ("ok", "eof", "err:inv")), ("bool", ("ok", "eof", "err:inv")))
                     for res in outs]
            miss3 = [k for k in need3 if bro.get(k, 0) == 0]
            for k in ("cursor_cases", "cursor_offset_cases", "cursor_beyond_end_cases"):
                if dist.get(k, 0) == 0:
                    miss3.append(k)
            ctx.ob(f"corr-three-readers-sampled:{profile}", not miss3, "reader x operation x outcome never compared with a model: " + ", ".join(miss3[:30]))
        budget = (8000 if quick else 300000) * (3 if ctx.broken() else 1)
        _falsify(ctx, hb, profile, budget)
    ctx.trusted.insert(0, "Coq 8.16.1 kernel + vm_compute (no native_compute); Print Assumptions under every theorem")
    ctx.trusted.append("hand-written Gallina model coq/Model/ReadAdapter.v of ReadAdapter/SliceReader/provided ByteReader methods (tied to the code by the "
                       "per-run correspondence, not by translation)")
    ctx.trusted.append("harness/src/bin/c13.rs: chunk-replaying Read implementation, result canonicalisation, SliceReader oracle, delta-debugging shrinker")
