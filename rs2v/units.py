"""Translation units: which Rust items are translated into which Gen/*.v module."""
from trans import U, S


def _sq(tr, args):
    return tr.elem_call("mul", [args[0], args[0]])


def _dbl(tr, args):
    return tr.elem_call("add", [args[0], args[0]])


def _cube(tr, args):
    return tr.elem_call("mul", [tr.elem_call("mul", [args[0], args[0]]), args[0]])


TRAIT_GUARDS = [
    ("math/src/field/traits.rs", "fn square(self) -> Self { self * self }"),
    ("math/src/field/traits.rs", "fn double(self) -> Self { self + self }"),
    ("math/src/field/traits.rs", "fn cube(self) -> Self { self * self * self }"),
]


def fn(name, header="", role="method", **kw):
    d = dict(kind="fn", name=name, header=header, role=role)
    d.update(kw)
    return d


def const(name, header="", **kw):
    d = dict(kind="const", name=name, header=header)
    d.update(kw)
    return d


FE = "FieldElement for BaseElement"
SF = "StarkField for BaseElement"
# trait defaults of math/src/field/traits.rs instantiated per field (C07 round 2)
GROU = dict(kind="fn", name="get_root_of_unity", header="trait StarkField*", role="free", file="math/src/field/traits.rs")


# ---- C07 coverage round: integer/bool conversions, conjugate, *_assign, base_element -------------------------
def _assign_guards(path, semi=("sub",)):
    sym = {"add": "+", "sub": "-", "mul": "*", "div": "/"}
    return [(path, f"fn {o}_assign(&mut self, rhs: Self) {{ *self = *self {sym[o]} rhs{';' if o in semi else ''} }}") for o in sym]


def _assign_raw(pfx, fuelled_div):
    out = [f"(* `*self = *self op rhs` (guarded source text): the compound assignment IS the binary operator *)"]
    for o in ("add", "sub", "mul"):
        out.append(f"Definition {pfx}_{o}_assign (self rhs : Z) : Z := {pfx}_{o} self rhs.")
    if fuelled_div:
        out.append(f"Definition {pfx}_div_assign (fuel : nat) (self rhs : Z) : option Z := {pfx}_div fuel self rhs.")
    else:
        out.append(f"Definition {pfx}_div_assign (self rhs : Z) : Z := {pfx}_div self rhs.")
    return "\n".join(out)


def _base_element_raw(pfx):
    return (f"(* fn base_element(&self, i: usize) -> Self::BaseField {{ match i {{ 0 => *self, _ => panic!(..) }} }} (guarded) *)\n"
            f"Definition {pfx}_base_element (self : Z) (i : Z) : option Z := if Z.eqb i 0 then Some self else None.")


_BASE_ELEMENT_GUARD = "fn base_element(&self, i: usize) -> Self::BaseField { match i { 0 => *self, _ => panic!(\"element index must be 0, but was {i}\"), } }"

_F64_CONV_RAW = """(* TryFrom<usize>: `match u64::try_from(value) { Err(_) => Err(..), Ok(v) => v.try_into() }` (guarded): the usize
   must fit in a u64 (always, on the 64-bit targets of the harness), then TryFrom<u64> *)
Definition f64_try_from_usize (value : Z) : option Z :=
  if in_u 64 value then f64_try_from_u64 value else None.
(* TryFrom<BaseElement> for bool: `match value.as_int() { 0 => Ok(false), 1 => Ok(true), v => Err(..) }` (guarded) *)
Definition f64_to_bool (value : Z) : option bool :=
  if Z.eqb (f64_as_int value) 0 then Some false else if Z.eqb (f64_as_int value) 1 then Some true else None."""

_F64_CONV_GUARDS = [
    ("math/src/field/f64/mod.rs", "fn try_from(value: usize) -> Result<Self, Self::Error> { match u64::try_from(value) { Err(_) => Err(format!(\"invalid field element: value {value} does not fit in a u64\")), Ok(v) => v.try_into(), } }"),
    ("math/src/field/f64/mod.rs", "impl TryFrom<BaseElement> for bool { type Error = String; fn try_from(value: BaseElement) -> Result<Self, Self::Error> { match value.as_int() { 0 => Ok(false), 1 => Ok(true), v => Err(format!(\"Field element does not represent a boolean, got {}\", v)), } } }"),
]


def _conv(pfx, from_ints, to_ints=(), extra=()):
    items = [fn("conjugate", FE, out=f"{pfx}_conjugate")]
    for t in from_ints:
        items.append(fn("from", f"From < {t} > for BaseElement", out=f"{pfx}_from_{t}", **{"as": f"from_{t}"}))
    for t, kind in to_ints:
        n = int(t[1:])
        hdr = ("TryFrom" if kind == "try" else "From") + f" < BaseElement > for {t}"
        items.append(fn("try_from" if kind == "try" else "from", hdr, out=f"{pfx}_to_{t}", self_ty=U(n), **{"as": f"to_{t}"}))
    return items + list(extra)

F64 = dict(
    module="F64", prefix="f64", file="math/src/field/f64/mod.rs", inner=U(64), posint=U(64),
    guards=TRAIT_GUARDS + _assign_guards("math/src/field/f64/mod.rs") + _F64_CONV_GUARDS
           + [("math/src/field/f64/mod.rs", _BASE_ELEMENT_GUARD)],
    defaults={"square": _sq, "cube": _cube},
    items=[
        const("M"), const("R2"),
        fn("mont_red_cst", role="free"),
        fn("mont_to_int", role="free"),
        fn("equals", role="free"),
        fn("new", "BaseElement"),
        fn("as_int", "BaseElement"),
        fn("mul_small", "BaseElement"),
        fn("eq", "PartialEq for BaseElement"),
        fn("add", "Add for BaseElement"),
        fn("sub", "Sub for BaseElement"),
        fn("mul", "Mul for BaseElement"),
        const("ZERO", FE), const("ONE", FE),
        fn("neg", "Neg for BaseElement"),
        fn("double", FE),
        fn("exp7", "BaseElement"),
        fn("exp_acc", role="free"),
        fn("exp", FE),
        fn("inv", FE),
        fn("div", "Div for BaseElement"),
        dict(kind="fn", name="exp_vartime", header="trait FieldElement*", role="method", file="math/src/field/traits.rs", out="f64_exp_vartime"),
        const("MODULUS", SF), const("MODULUS_BITS", SF), const("GENERATOR", SF),
        const("TWO_ADICITY", SF), const("TWO_ADIC_ROOT_OF_UNITY", SF),
        dict(GROU, out="f64_get_root_of_unity"),
        fn("try_from", "TryFrom < u64 > for BaseElement", out="f64_try_from_u64", **{"as": "try_from_u64"}),
        fn("try_from", "TryFrom < u128 > for BaseElement", out="f64_try_from_u128", **{"as": "try_from_u128"}),
        fn("try_from", "TryFrom < [ u8 ; 8 ] > for BaseElement", out="f64_try_from_bytes", **{"as": "try_from_bytes"}),
        # coverage round
        *_conv("f64", ["bool", "u8", "u16", "u32"], [("u8", "try"), ("u16", "try"), ("u32", "try"), ("u64", "from"), ("u128", "from")],
               [fn("as_int", SF, out="f64_sf_as_int", **{"as": "sf_as_int"}), fn("mont_red_var", role="free"),
                dict(raw=_F64_CONV_RAW), dict(raw=_assign_raw("f64", False)), dict(raw=_base_element_raw("f64"))]),
        fn("mul", "ExtensibleField < 2 > for BaseElement", role="ring", out="f64_ext2_mul"),
        fn("square", "ExtensibleField < 2 > for BaseElement", role="ring", out="f64_ext2_square"),
        fn("mul_base", "ExtensibleField < 2 > for BaseElement", role="ring", out="f64_ext2_mul_base"),
        fn("frobenius", "ExtensibleField < 2 > for BaseElement", role="ring", out="f64_ext2_frobenius"),
        fn("mul", "ExtensibleField < 3 > for BaseElement", role="ring", out="f64_ext3_mul"),
        fn("square", "ExtensibleField < 3 > for BaseElement", role="ring", out="f64_ext3_square"),
        fn("mul_base", "ExtensibleField < 3 > for BaseElement", role="ring", out="f64_ext3_mul_base"),
        fn("frobenius", "ExtensibleField < 3 > for BaseElement", role="ring", out="f64_ext3_frobenius"),
    ],
)

F62 = dict(
    module="F62", prefix="f62", file="math/src/field/f62/mod.rs", inner=U(64), posint=U(64),
    guards=TRAIT_GUARDS + _assign_guards("math/src/field/f62/mod.rs") + [("math/src/field/f62/mod.rs", _BASE_ELEMENT_GUARD)],
    defaults={"square": _sq, "cube": _cube},
    items=[
        const("M"), const("R2"), const("R3"), const("U"), const("G"),
        fn("add", role="free", out="f62_fn_add"),
        fn("sub", role="free", out="f62_fn_sub"),
        fn("mul", role="free", out="f62_fn_mul"),
        fn("normalize", role="free"),
        fn("inv", role="free", out="f62_fn_inv"),
        fn("new", "BaseElement"),
        fn("as_int", SF),
        fn("eq", "PartialEq for BaseElement"),
        fn("add", "Add for BaseElement"),
        fn("sub", "Sub for BaseElement"),
        fn("mul", "Mul for BaseElement"),
        fn("neg", "Neg for BaseElement"),
        const("ZERO", FE), const("ONE", FE),
        fn("double", FE),
        fn("exp", FE),
        fn("inv", FE),
        fn("div", "Div for BaseElement"),
        const("MODULUS", SF), const("MODULUS_BITS", SF), const("GENERATOR", SF),
        const("TWO_ADICITY", SF), const("TWO_ADIC_ROOT_OF_UNITY", SF),
        dict(kind="fn", name="exp_vartime", header="trait FieldElement*", role="method", file="math/src/field/traits.rs", out="f62_exp_vartime"),
        dict(GROU, out="f62_get_root_of_unity"),
        fn("try_from", "TryFrom < u64 > for BaseElement", out="f62_try_from_u64", **{"as": "try_from_u64"}),
        fn("try_from", "TryFrom < u128 > for BaseElement", out="f62_try_from_u128", **{"as": "try_from_u128"}),
        # coverage round
        *_conv("f62", ["u8", "u16", "u32"], [("u64", "from"), ("u128", "from")],
               [fn("try_from", "TryFrom < [ u8 ; 8 ] > for BaseElement", out="f62_try_from_bytes", **{"as": "try_from_bytes"}),
                dict(raw=_assign_raw("f62", True)), dict(raw=_base_element_raw("f62"))]),
        fn("mul", "ExtensibleField < 2 > for BaseElement", role="ring", out="f62_ext2_mul"),
        fn("mul_base", "ExtensibleField < 2 > for BaseElement", role="ring", out="f62_ext2_mul_base"),
        fn("frobenius", "ExtensibleField < 2 > for BaseElement", role="ring", out="f62_ext2_frobenius"),
        fn("mul", "ExtensibleField < 3 > for BaseElement", role="ring", out="f62_ext3_mul"),
        fn("mul_base", "ExtensibleField < 3 > for BaseElement", role="ring", out="f62_ext3_mul_base"),
        fn("frobenius", "ExtensibleField < 3 > for BaseElement", role="ring", out="f62_ext3_frobenius"),
    ],
)

EXPV = dict(kind="fn", name="exp_vartime", header="trait FieldElement*", role="method", file="math/src/field/traits.rs")

F128 = dict(
    module="F128", prefix="f128", file="math/src/field/f128/mod.rs", inner=U(128), posint=U(128),
    guards=TRAIT_GUARDS + _assign_guards("math/src/field/f128/mod.rs") + [("math/src/field/f128/mod.rs", _BASE_ELEMENT_GUARD)]
           + [("math/src/field/traits.rs", "fn exp(self, power: Self::PositiveInteger) -> Self { self.exp_vartime(power) }"),
                           ("math/src/field/f128/mod.rs", "#[derive(Copy, Clone, PartialEq, Eq, Default)] #[cfg_attr(feature = \"serde\", derive(Deserialize, Serialize))] #[cfg_attr(feature = \"serde\", serde(transparent))] pub struct BaseElement(u128);")],
    defaults={"square": _sq, "cube": _cube, "double": _dbl},
    items=[
        const("M"), const("G"),
        fn("add64_with_carry", role="free"),
        fn("add_192x192", role="free"),
        fn("sub_192x192", role="free"),
        fn("sub_modulus", role="free"),
        fn("mul_by_modulus", role="free"),
        fn("mul_reduce", role="free"),
        fn("mul_128x64", role="free"),
        fn("add", role="free", out="f128_fn_add"),
        fn("sub", role="free", out="f128_fn_sub"),
        fn("mul", role="free", out="f128_fn_mul"),
        fn("inv", role="free", out="f128_fn_inv", litdef=U(64)),
        fn("new", "BaseElement"),
        fn("as_int", SF),
        fn("add", "Add for BaseElement"),
        fn("sub", "Sub for BaseElement"),
        fn("mul", "Mul for BaseElement"),
        fn("neg", "Neg for BaseElement"),
        const("ZERO", FE), const("ONE", FE),
        dict(raw="Definition f128_eq (a b : Z) : bool := Z.eqb a b.  (* #[derive(PartialEq)] on BaseElement(u128) *)",
             register=("eq", "f128_eq", [("self", ("elem",)), ("other", ("elem",))], ("bool",))),
        fn("inv", FE),
        fn("div", "Div for BaseElement"),
        dict(EXPV, out="f128_exp", also=["exp"]),    # `exp` = `exp_vartime` (trait default, guarded above)
        const("MODULUS", SF), const("MODULUS_BITS", SF), const("GENERATOR", SF),
        const("TWO_ADICITY", SF), const("TWO_ADIC_ROOT_OF_UNITY", SF),
        dict(GROU, out="f128_get_root_of_unity"),
        fn("try_from", "TryFrom < u128 > for BaseElement", out="f128_try_from_u128", **{"as": "try_from_u128"}),
        # coverage round
        *_conv("f128", ["u8", "u16", "u32", "u64"], [],
               [dict(raw=_assign_raw("f128", True)), dict(raw=_base_element_raw("f128"))]),
        fn("mul", "ExtensibleField < 2 > for BaseElement", role="ring", out="f128_ext2_mul"),
        fn("mul_base", "ExtensibleField < 2 > for BaseElement", role="ring", out="f128_ext2_mul_base"),
        fn("frobenius", "ExtensibleField < 2 > for BaseElement", role="ring", out="f128_ext2_frobenius"),
    ],
)

UNITS = [F64, F62, F128]

# ---------------------------------------------------------------------------------------------
# C18 BEGIN (owner: C18 worker) -- security estimate: air/src/proof/mod.rs get_conjectured_security.
# `&ProofOptions` is an opaque struct parameter: its accessors are the Gallina projections declared
# in the raw block below, and the source guards pin the Rust accessor bodies they stand for.
_SEC_RAW = """(* ProofOptions / FieldExtension of air/src/options.rs: fields are u8 in Rust (guarded), the
   accessors widen them losslessly (`self.x as usize` / `as u32`). *)
Inductive FieldExtension : Set := FeNone | FeQuadratic | FeCubic.
Definition fe_degree (e : FieldExtension) : Z :=
  match e with FeNone => 1 | FeQuadratic => 2 | FeCubic => 3 end.
Record ProofOptions : Set := mkProofOptions {
  po_num_queries : Z; po_blowup_factor : Z; po_grinding_factor : Z; po_field_extension : FieldExtension;
  po_fri_folding_factor : Z; po_fri_remainder_max_degree : Z }.
"""

_OPT = "air/src/options.rs"
SECURITY = dict(
    module="Security", prefix="sec", file="air/src/proof/mod.rs",
    structs={
        "ProofOptions": {"gtype": "ProofOptions", "methods": {
            "num_queries": ("po_num_queries", U(64)),
            "blowup_factor": ("po_blowup_factor", U(64)),
            "grinding_factor": ("po_grinding_factor", U(32)),
            "field_extension": ("po_field_extension", "FieldExtension"),
        }},
        "FieldExtension": {"gtype": "FieldExtension", "methods": {"degree": ("fe_degree", U(32))}},
    },
    guards=[
        (_OPT, "pub struct ProofOptions { num_queries: u8, blowup_factor: u8, grinding_factor: u8, field_extension: FieldExtension, fri_folding_factor: u8, fri_remainder_max_degree: u8, }"),
        (_OPT, "pub const fn num_queries(&self) -> usize { self.num_queries as usize }"),
        (_OPT, "pub const fn blowup_factor(&self) -> usize { self.blowup_factor as usize }"),
        (_OPT, "pub const fn grinding_factor(&self) -> u32 { self.grinding_factor as u32 }"),
        (_OPT, "pub const fn field_extension(&self) -> FieldExtension { self.field_extension }"),
        (_OPT, "pub const fn degree(&self) -> u32 { match self { Self::None => 1, Self::Quadratic => 2, Self::Cubic => 3, } }"),
        ("air/src/proof/mod.rs", "get_conjectured_security( self.context.options(), self.context.num_modulus_bits(), self.trace_info().length(), H::COLLISION_RESISTANCE, )"),
    ],
    items=[
        dict(raw=_SEC_RAW),
        const("GRINDING_CONTRIBUTION_FLOOR"), const("MAX_PROXIMITY_PARAMETER"),
        fn("get_conjectured_security", role="free"),
    ],
)
UNITS.append(SECURITY)
# C18 END
# ---------------------------------------------------------------------------------------------

# ---------------------------------------------------------------------------------------------
# C11 BEGIN (owner: C11 worker) -- frequency-domain MDS multiplication (straight-line i64/u64 code):
# crypto/src/hash/mds/mds_f64_12x12.rs, mds_f64_8x8.rs and the real-FFT helpers of math/src/fft/real_u64.rs.
# `mds_multiply` itself (loops over `&mut [BaseElement; N]`, u128 folding) is modelled by hand in
# coq/Model/Rescue.v on top of the generated `*_mds_multiply_freq` and tied by the C11 correspondence.
_RFFT = "math/src/fft/real_u64.rs"


def _mds_unit(module, prefix, path):
    return dict(
        module=module, prefix=prefix, file=path, inner=U(64), posint=U(64),
        items=[
            fn("fft2_real", role="free", file=_RFFT),
            fn("ifft2_real_unreduced", role="free", file=_RFFT),
            fn("fft4_real", role="free", file=_RFFT),
            fn("ifft4_real_unreduced", role="free", file=_RFFT),
            const("MDS_FREQ_BLOCK_ONE"), const("MDS_FREQ_BLOCK_TWO"), const("MDS_FREQ_BLOCK_THREE"),
            fn("block1", role="free"), fn("block2", role="free"), fn("block3", role="free"),
            fn("mds_multiply_freq", role="free"),
        ],
    )


UNITS.append(_mds_unit("Mds12", "mds12", "crypto/src/hash/mds/mds_f64_12x12.rs"))
UNITS.append(_mds_unit("Mds8", "mds8", "crypto/src/hash/mds/mds_f64_8x8.rs"))
# C11 END
# ---------------------------------------------------------------------------------------------

# ---------------------------------------------------------------------------------------------
# C16 BEGIN (owner: C16 worker) -- integer-level functions of air/src/air/assertions/mod.rs.
# `Assertion<E>` is an opaque struct parameter (as ProofOptions above): the generated record GAssertion holds the
# three usize fields and the values vector represented by its LENGTH (the only thing these functions use);
# the source guard pins the Rust struct.  Methods of the struct that this unit translates (is_single, ...) are
# called as translated functions ("translated": True); `E` values are opaque (unit).
_ASSERT_RAW = """(* Assertion<E> of air/src/air/assertions/mod.rs (guarded): column, first_step, stride : usize and
   values : Vec<E>, the vector represented by its length. *)
Record GAssertion : Set := mkGAssertion { ga_column : Z; ga_first_step : Z; ga_stride : Z; ga_values : Z }.
Definition vec_len (v : Z) : Z := v.                       (* Vec::len *)
Definition vec_is_empty (v : Z) : bool := Z.eqb v 0.       (* Vec::is_empty *)
(* usize::is_power_of_two *)
Definition is_pow2 (x : Z) : bool := andb (Z.ltb 0 x) (Z.eqb x (Z.pow 2 (Z.log2 x))).
(* usize::next_power_of_two (mathematical value; the generated code checks that it fits) *)
Definition next_pow2 (x : Z) : Z := if Z.leb x 1 then 1 else Z.pow 2 (Z.log2_up x).
(* Option/Result::is_some / is_ok: `r.unwrap_or_else(|e| panic!(..))` at statement position is this assert *)
Definition opt_is_some {A : Type} (o : option A) : bool := match o with Some _ => true | None => false end.
"""

_ASSERT_STRUCT = {"gtype": "GAssertion", "canon": "Assertion", "translated": True,
                  "ctor": ("mkGAssertion", ["column", "first_step", "stride", "values"]),
                  "fields": {"column": ("ga_column", U(64)), "first_step": ("ga_first_step", U(64)),
                             "stride": ("ga_stride", U(64)), "values": ("ga_values", "Vec<E>")},
                  "methods": {}}
_AH = "< E : FieldElement > Assertion < E >"
_AF = "air/src/air/assertions/mod.rs"
ASSERTIONS = dict(
    module="Assertions", prefix="assertions", file=_AF, elem="__no_element_type__", err_payload=True,
    structs={
        "Self": _ASSERT_STRUCT, "Assertion<E>": _ASSERT_STRUCT, "Assertion": _ASSERT_STRUCT,
        "Vec<E>": {"gtype": "Z", "methods": {"len": ("vec_len", U(64)), "is_empty": ("vec_is_empty", ("bool",))}},
        "E": {"gtype": "unit", "methods": {}},
    },
    guards=[
        (_AF, "pub struct Assertion<E: FieldElement> { pub(super) column: usize, pub(super) first_step: usize, pub(super) stride: usize, pub(super) values: Vec<E>, }"),
        (_AF, "impl<E: FieldElement> Assertion<E> {"),
    ],
    items=[
        dict(raw=_ASSERT_RAW),
        const("MIN_STRIDE_LENGTH"), const("NO_STRIDE"),
        fn("validate_stride", role="free"),
        fn("single", _AH), fn("periodic", _AH), fn("sequence", _AH),
        fn("is_single", _AH), fn("is_periodic", _AH), fn("is_sequence", _AH),
        fn("overlaps_with", _AH),
        fn("validate_trace_width", _AH),
        fn("validate_trace_length", _AH),
        fn("get_num_steps", _AH),
    ],
)
UNITS.append(ASSERTIONS)
# C16 END
# ---------------------------------------------------------------------------------------------

# ---------------------------------------------------------------------------------------------
# C12 BEGIN (owner: C12 worker) -- vint64 size encoding arithmetic and the limits checked by the
# constructors / readers of ProofOptions, TraceInfo, Context, FriProof.
# `fnpart` items (see rs2v.fn_part) translate a contiguous part of a function body whose surroundings
# perform byte I/O (`self.write_u8`, `source.read_u8()?`): the tokens of the part are taken from the source on
# every run; only the wrapper (which variables are live at the start of the part, and their types) is fixed here.
def part(name, of, header="", **kw):
    d = dict(kind="fnpart", name=name, of=of, header=header)
    d.update(kw)
    return d


_BW = "utils/core/src/serde/byte_writer.rs"
_BR = "utils/core/src/serde/byte_reader.rs"
SERDE = dict(
    module="Serde", prefix="serde", file=_BW,
    guards=[
        # the hand-modelled skeleton around the translated arithmetic (coq/Model/Codec.v write_usize / read_usize)
        (_BW, "let value = value as u64; let length = encoded_len(value);"),
        (_BW, "if length == 9 { self.write_u8(0); self.write(value.to_le_bytes()); } else {"),
        (_BW, "self.write_bytes(&encoded_bytes[..length]);"),
        (_BR, "let first_byte = self.peek_u8()?;"),
        (_BR, "let result = if length == 9 { self.read_u8()?; let value = self.read_array::<8>()?; u64::from_le_bytes(value) } else { let mut encoded = [0u8; 8]; let value = self.read_slice(length)?; encoded[..length].copy_from_slice(value);"),
    ],
    items=[
        fn("encoded_len", role="free"),
        part("write_usize_enc", "write_usize", "trait ByteWriter*", params="value: u64, length: usize", ret="[u8; 8]",
             start="let encoded_bytes =", stop="self.write_bytes", tail="encoded_bytes"),
        part("read_usize_length", "read_usize", "trait ByteReader*", file=_BR, params="first_byte: u8", ret="usize",
             start="let length = first_byte", stop="let result", tail="length"),
        part("read_usize_shift", "read_usize", "trait ByteReader*", file=_BR, params="encoded: [u8; 8], length: usize", ret="u64",
             start="u64::from_le_bytes(encoded) >> length", stop="} ;"),
        part("read_usize_check", "read_usize", "trait ByteReader*", file=_BR, params="result: u64", ret="Option<usize>",
             start="if result > usize::MAX as u64"),
    ],
)
UNITS.append(SERDE)
_OPTS = "air/src/options.rs"
_TI = "air/src/air/trace_info.rs"
_CTX = "air/src/proof/context.rs"
_FRIP = "fri/src/proof.rs"
_LIM_RAW = """(* opaque values seen by the translated checks: a `Vec<u8>` is represented by its length, a `ProofOptions`
   by its blowup factor (the only accessor used by the translated parts) *)
Definition is_pow2 (x : Z) : bool := (0 <? x) && (x =? 2 ^ Z.log2 x).   (* usize::is_power_of_two *)
Definition lim_vec_len (n : Z) : Z := n.
Definition lim_po_blowup_factor (b : Z) : Z := b.
"""
_PO5 = "num_queries: usize, blowup_factor: usize, grinding_factor: u32, fri_folding_factor: usize, fri_remainder_max_degree: usize"
_DTI = "Deserializable for TraceInfo"
LIMITS = dict(
    module="Limits", prefix="lim", file=_OPTS, elem="TraceInfo",
    structs={
        "Vec<u8>": {"gtype": "Z", "methods": {"len": ("lim_vec_len", U(64))}},
        "ProofOptions": {"gtype": "Z", "methods": {"blowup_factor": ("lim_po_blowup_factor", U(64))}},
    },
    guards=[
        (_OPTS, "pub const fn blowup_factor(&self) -> usize { self.blowup_factor as usize }"),
        (_TI, "pub fn length(&self) -> usize { self.trace_length }"),
        (_CTX, "let trace_length = trace_info.length();"),
        # `match` is outside the translated subset: the LDE-domain check of Context::read_from stays hand-modelled
        (_CTX, "match trace_length.checked_mul(options.blowup_factor()) { Some(lde_domain_size) if lde_domain_size <= u32::MAX as usize => {}, _ => { return Err("),
    ],
    items=[
        dict(raw=_LIM_RAW),
        const("MAX_NUM_QUERIES"), const("MIN_BLOWUP_FACTOR"), const("MAX_BLOWUP_FACTOR"), const("MAX_GRINDING_FACTOR"),
        const("FRI_MIN_FOLDING_FACTOR"), const("FRI_MAX_FOLDING_FACTOR"), const("FRI_MAX_REMAINDER_DEGREE"),
        const("MIN_TRACE_LENGTH", "TraceInfo", file=_TI), const("MAX_TRACE_WIDTH", "TraceInfo", file=_TI),
        const("MAX_META_LENGTH", "TraceInfo", file=_TI), const("MAX_RAND_SEGMENT_ELEMENTS", "TraceInfo", file=_TI),
        # constructors: everything before the struct literal (the asserts); `_ok` = conjunction of the asserts
        part("po_new_checks", "new", "ProofOptions", params=_PO5, ret="bool", stop="ProofOptions {", tail="true"),
        part("ti_new_checks", "new_multi_segment", "TraceInfo", file=_TI,
             params="main_segment_width: usize, aux_segment_width: usize, num_aux_segment_rands: usize, trace_length: usize, trace_meta: Vec<u8>",
             ret="bool", stop="TraceInfo {", tail="true"),
        part("ctx_new_checks", "new", "Context", file=_CTX, params="trace_length: usize, options: ProofOptions", ret="bool",
             start="assert!(trace_length <= u32::MAX as usize", stop="Context {", tail="true"),
        # readers: the validation between / after the byte reads (None = DeserializationError)
        part("po_read_checks", "read_from", "Deserializable for ProofOptions", params=_PO5, ret="Option<bool>",
             start="if num_queries == 0", stop="Ok(ProofOptions::new", tail="Some(true)"),
        part("ti_read_main", "read_from", _DTI, file=_TI, params="main_segment_width: usize", ret="Option<bool>",
             start="if main_segment_width == 0", stop="let aux_segment_width", tail="Some(true)"),
        part("ti_read_width", "read_from", _DTI, file=_TI, params="main_segment_width: usize, aux_segment_width: usize", ret="Option<bool>",
             start="let full_trace_width", stop="let num_aux_segment_rands", tail="Some(true)"),
        part("ti_read_rands", "read_from", _DTI, file=_TI, params="aux_segment_width: usize, num_aux_segment_rands: usize", ret="Option<bool>",
             start="if aux_segment_width == 0 && num_aux_segment_rands != 0", stop="let trace_length = source", tail="Some(true)"),
        part("ti_read_length", "read_from", _DTI, file=_TI, params="trace_length: u8", ret="Option<usize>",
             start="if trace_length < TraceInfo::MIN_TRACE_LENGTH", stop="let num_meta_bytes", tail="Some(trace_length)"),
        part("ctx_read_checks", "read_from", "Deserializable for Context", file=_CTX, params="trace_length: usize, options: ProofOptions",
             ret="Option<bool>", start="if trace_length > u32::MAX as usize", stop="match trace_length.checked_mul", tail="Some(true)"),
        part("fri_read_partitions", "read_from", "Deserializable for FriProof", file=_FRIP, params="num_partitions: u8", ret="Option<bool>",
             start="if num_partitions as u32 >= usize::BITS", stop="Ok(FriProof {", tail="Some(true)"),
    ],
)
UNITS.append(LIMITS)
# C12 END
# ---------------------------------------------------------------------------------------------

# ---------------------------------------------------------------------------------------------
# C15 BEGIN (owner: C15/C05 worker) -- the pure integer parts of the FRI crate: FriOptions::new asserts,
# num_fri_layers (fuelled while), the domain-size guard / division of FriProof::parse_layers, the running degree
# bound of FriVerifier::new / verify_generic, the index arithmetic of map_positions_to_indexes / fold_positions /
# get_query_values.  Proofs/FriGen.v proves that the hand model coq/Model/Fri.v computes these terms.
_FO = "fri/src/options.rs"
_FV = "fri/src/verifier/mod.rs"
_FP = "fri/src/proof.rs"
_FU = "fri/src/utils.rs"
_FF = "fri/src/folding/mod.rs"
_FRI_RAW = """(* FriOptions of fri/src/options.rs (guarded): three usize fields; a Vec is represented by its length *)
Record GFriOptions : Set := mkGFriOptions { go_folding_factor : Z; go_remainder_max_degree : Z; go_blowup_factor : Z }.
Definition is_pow2 (x : Z) : bool := (0 <? x) && (x =? 2 ^ Z.log2 x).   (* usize::is_power_of_two *)
(* usize::next_power_of_two (mathematical value; the generated code checks that it fits) *)
Definition next_pow2 (x : Z) : Z := if Z.leb x 1 then 1 else Z.pow 2 (Z.log2_up x).
Definition fri_vec_len (n : Z) : Z := n.
"""
_FO_STRUCT = {"gtype": "GFriOptions", "canon": "FriOptions",
              "ctor": ("mkGFriOptions", ["folding_factor", "remainder_max_degree", "blowup_factor"]),
              "fields": {"folding_factor": ("go_folding_factor", U(64)),
                         "remainder_max_degree": ("go_remainder_max_degree", U(64)),
                         "blowup_factor": ("go_blowup_factor", U(64))},
              "methods": {"folding_factor": ("go_folding_factor", U(64)),
                          "remainder_max_degree": ("go_remainder_max_degree", U(64)),
                          "blowup_factor": ("go_blowup_factor", U(64))}}
FRI_INT = dict(
    module="FriInt", prefix="fri", file=_FO, elem="__no_element_type__",
    structs={
        "Self": _FO_STRUCT, "FriOptions": _FO_STRUCT,
        "Vec<D>": {"gtype": "Z", "methods": {"len": ("fri_vec_len", U(64))}},
    },
    guards=[
        (_FO, "pub struct FriOptions { folding_factor: usize, remainder_max_degree: usize, blowup_factor: usize, }"),
        (_FO, "pub fn folding_factor(&self) -> usize { self.folding_factor }"),
        (_FO, "pub fn remainder_max_degree(&self) -> usize { self.remainder_max_degree }"),
        (_FO, "pub fn blowup_factor(&self) -> usize { self.blowup_factor }"),
        (_FO, "FriOptions { folding_factor, remainder_max_degree, blowup_factor, }"),
        # the hand-modelled skeletons around the translated arithmetic
        (_FV, "for (depth, commitment) in layer_commitments.iter().enumerate() {"),
        (_FV, "let mut max_degree_plus_1 = max_poly_degree + 1;"),
        (_FV, "for depth in 0..self.options.num_fri_layers(self.domain_size) {"),
        (_FP, "for (i, layer) in self.layers.into_iter().enumerate() {"),
        (_FU, "if num_partitions == 1 { return positions.to_vec(); }"),
        (_FU, "for position in positions {"),
        (_FF, "let position = position % target_domain_size;"),
    ],
    items=[
        dict(raw=_FRI_RAW),
        part("options_new_checks", "new", "FriOptions", params="blowup_factor: usize, folding_factor: usize, remainder_max_degree: usize",
             ret="bool", stop="FriOptions {", tail="true"),
        fn("num_fri_layers", "FriOptions", litdef=U(64)),   # `let mut result = 0;` is a usize (the return type)
        part("parse_layers_step", "parse_layers", "FriProof", file=_FP, params="domain_size: usize, folding_factor: usize, i: usize",
             ret="Option<usize>", start="if domain_size < folding_factor", stop="let (qv, mp)", tail="Some(domain_size)"),
        part("verifier_new_domain", "new", "< E , C , H , R > FriVerifier*", file=_FV, params="max_poly_degree: usize, options: FriOptions", ret="usize",
             start="let domain_size = (max_poly_degree + 1)", stop="let domain_generator", tail="domain_size"),
        part("verifier_new_step", "new", "< E , C , H , R > FriVerifier*", file=_FV,
             params="depth: usize, layer_commitments: Vec<D>, options: FriOptions, max_degree_plus_1: usize", ret="Option<usize>",
             start="if depth != layer_commitments.len() - 1", stop="} Ok(FriVerifier {", tail="Some(max_degree_plus_1)"),
        part("verify_layer_bound", "verify_generic", "< E , C , H , R > FriVerifier*", file=_FV,
             params="max_degree_plus_1: usize, N: usize, depth: usize", ret="Option<bool>",
             start="if max_degree_plus_1 % N != 0", stop="domain_generator = domain_generator", tail="Some(true)"),
        part("verify_remainder_bound", "verify_generic", "< E , C , H , R > FriVerifier*", file=_FV,
             params="remainder_poly: Vec<D>, max_degree_plus_1: usize", ret="Option<bool>",
             start="if remainder_poly.len() > max_degree_plus_1", stop="let offset", tail="Some(true)"),
        part("verify_layer_degree_update", "verify_generic", "< E , C , H , R > FriVerifier*", file=_FV,
             params="max_degree_plus_1: usize, N: usize", ret="usize",
             start="max_degree_plus_1 /= N", stop="domain_size /= N", tail="max_degree_plus_1"),
        part("verify_layer_domain_update", "verify_generic", "< E , C , H , R > FriVerifier*", file=_FV,
             params="domain_size: usize, N: usize", ret="usize",
             start="domain_size /= N", stop="mem::swap", tail="domain_size"),
        part("query_row_length", "get_query_values", "", file=_FV, params="domain_size: usize, N: usize", ret="usize",
             start="let row_length", stop="let mut result", tail="row_length"),
        part("map_positions_sizes", "map_positions_to_indexes", "", file=_FU,
             params="source_domain_size: usize, folding_factor: usize, num_partitions: usize", ret="usize",
             start="let target_domain_size", stop="let mut result", tail="partition_size"),
        part("map_position_index", "map_positions_to_indexes", "", file=_FU,
             params="position: usize, num_partitions: usize, partition_size: usize", ret="usize",
             start="let partition_idx", stop="result.push", tail="position"),
        part("fold_target_size", "fold_positions", "", file=_FF, params="source_domain_size: usize, folding_factor: usize", ret="usize",
             start="let target_domain_size", stop="let mut result", tail="target_domain_size"),
    ],
)
UNITS.append(FRI_INT)
# C15 END
# ---------------------------------------------------------------------------------------------

# ---------------------------------------------------------------------------------------------
# C09 BEGIN (owner: C09 worker) -- the pure integer part of the FFT module: fft::permute_index
# (`index.reverse_bits().wrapping_shr(USIZE_BITS - size.trailing_zeros())`, math/src/fft/mod.rs).
# `reverse_bits` / `count_zeros` are defined by bits in the raw block (MachInt has no such primitives).
# Proofs/FFTGen.v proves that the hand model's `permute_index_u64` / `permute_index` / `rev_bits` equal the
# generated term for every size 2^k <= 2^63.
_FFTIDX_RAW = """(* uN::reverse_bits, bit by bit: n steps, the low bit of x becomes the next low bit of the accumulator *)
Definition reverse_bits (n x : Z) : Z :=
  (fix go (f : nat) (x acc : Z) : Z :=
     match f with O => acc | S f' => go f' (x / 2) (2 * acc + x mod 2) end) (Z.to_nat n) x 0.
(* uN::count_ones / count_zeros, bit by bit *)
Definition count_ones (n x : Z) : Z :=
  (fix go (f : nat) (x acc : Z) : Z :=
     match f with O => acc | S f' => go f' (x / 2) (acc + x mod 2) end) (Z.to_nat n) x 0.
Definition count_zeros (n x : Z) : Z := n - count_ones n x.
"""
FFTIDX = dict(
    module="FftIndex", prefix="fftidx", file="math/src/fft/mod.rs", elem="__no_element_type__",
    items=[
        dict(raw=_FFTIDX_RAW),
        fn("permute_index", role="free"),
    ],
)
UNITS.append(FFTIDX)
# C09 END
# ---------------------------------------------------------------------------------------------
