"""Translation units: which Rust items are translated into which Gen/*.v module."""
from trans import U, S


def _sq(tr, args):
    return tr.elem_call("mul", [args[0], args[0]])


def _dbl(tr, args):
    return tr.elem_call("add", [args[0], args[0]])


def _cube(tr, args):
    return tr.elem_call("mul", [tr.elem_call("mul", [args[0], args[0]]), args[0]])


TRAIT_GUARDS = [
    ("math/src/field/traits.rs", "fn square(self) -> Self { self * self }"),
    ("math/src/field/traits.rs", "fn double(self) -> Self { self + self }"),
    ("math/src/field/traits.rs", "fn cube(self) -> Self { self * self * self }"),
]


def fn(name, header="", role="method", **kw):
    d = dict(kind="fn", name=name, header=header, role=role)
    d.update(kw)
    return d


def const(name, header="", **kw):
    d = dict(kind="const", name=name, header=header)
    d.update(kw)
    return d


FE = "FieldElement for BaseElement"
SF = "StarkField for BaseElement"

F64 = dict(
    module="F64", prefix="f64", file="math/src/field/f64/mod.rs", inner=U(64), posint=U(64),
    guards=TRAIT_GUARDS, defaults={"square": _sq, "cube": _cube},
    items=[
        const("M"), const("R2"),
        fn("mont_red_cst", role="free"),
        fn("mont_to_int", role="free"),
        fn("equals", role="free"),
        fn("new", "BaseElement"),
        fn("as_int", "BaseElement"),
        fn("mul_small", "BaseElement"),
        fn("eq", "PartialEq for BaseElement"),
        fn("add", "Add for BaseElement"),
        fn("sub", "Sub for BaseElement"),
        fn("mul", "Mul for BaseElement"),
        const("ZERO", FE), const("ONE", FE),
        fn("neg", "Neg for BaseElement"),
        fn("double", FE),
        fn("exp7", "BaseElement"),
        fn("exp_acc", role="free"),
        fn("exp", FE),
        fn("inv", FE),
        fn("div", "Div for BaseElement"),
        dict(kind="fn", name="exp_vartime", header="trait FieldElement*", role="method", file="math/src/field/traits.rs", out="f64_exp_vartime"),
        const("MODULUS", SF), const("MODULUS_BITS", SF), const("GENERATOR", SF),
        const("TWO_ADICITY", SF), const("TWO_ADIC_ROOT_OF_UNITY", SF),
        fn("try_from", "TryFrom < u64 > for BaseElement", out="f64_try_from_u64", **{"as": "try_from_u64"}),
        fn("try_from", "TryFrom < u128 > for BaseElement", out="f64_try_from_u128", **{"as": "try_from_u128"}),
        fn("try_from", "TryFrom < [ u8 ; 8 ] > for BaseElement", out="f64_try_from_bytes", **{"as": "try_from_bytes"}),
        fn("mul", "ExtensibleField < 2 > for BaseElement", role="ring", out="f64_ext2_mul"),
        fn("square", "ExtensibleField < 2 > for BaseElement", role="ring", out="f64_ext2_square"),
        fn("mul_base", "ExtensibleField < 2 > for BaseElement", role="ring", out="f64_ext2_mul_base"),
        fn("frobenius", "ExtensibleField < 2 > for BaseElement", role="ring", out="f64_ext2_frobenius"),
        fn("mul", "ExtensibleField < 3 > for BaseElement", role="ring", out="f64_ext3_mul"),
        fn("square", "ExtensibleField < 3 > for BaseElement", role="ring", out="f64_ext3_square"),
        fn("mul_base", "ExtensibleField < 3 > for BaseElement", role="ring", out="f64_ext3_mul_base"),
        fn("frobenius", "ExtensibleField < 3 > for BaseElement", role="ring", out="f64_ext3_frobenius"),
    ],
)

F62 = dict(
    module="F62", prefix="f62", file="math/src/field/f62/mod.rs", inner=U(64), posint=U(64),
    guards=TRAIT_GUARDS, defaults={"square": _sq, "cube": _cube},
    items=[
        const("M"), const("R2"), const("R3"), const("U"), const("G"),
        fn("add", role="free", out="f62_fn_add"),
        fn("sub", role="free", out="f62_fn_sub"),
        fn("mul", role="free", out="f62_fn_mul"),
        fn("normalize", role="free"),
        fn("inv", role="free", out="f62_fn_inv"),
        fn("new", "BaseElement"),
        fn("as_int", SF),
        fn("eq", "PartialEq for BaseElement"),
        fn("add", "Add for BaseElement"),
        fn("sub", "Sub for BaseElement"),
        fn("mul", "Mul for BaseElement"),
        fn("neg", "Neg for BaseElement"),
        const("ZERO", FE), const("ONE", FE),
        fn("double", FE),
        fn("exp", FE),
        fn("inv", FE),
        fn("div", "Div for BaseElement"),
        const("MODULUS", SF), const("MODULUS_BITS", SF), const("GENERATOR", SF),
        const("TWO_ADICITY", SF), const("TWO_ADIC_ROOT_OF_UNITY", SF),
        fn("try_from", "TryFrom < u64 > for BaseElement", out="f62_try_from_u64", **{"as": "try_from_u64"}),
        fn("try_from", "TryFrom < u128 > for BaseElement", out="f62_try_from_u128", **{"as": "try_from_u128"}),
        fn("mul", "ExtensibleField < 2 > for BaseElement", role="ring", out="f62_ext2_mul"),
        fn("mul_base", "ExtensibleField < 2 > for BaseElement", role="ring", out="f62_ext2_mul_base"),
        fn("frobenius", "ExtensibleField < 2 > for BaseElement", role="ring", out="f62_ext2_frobenius"),
        fn("mul", "ExtensibleField < 3 > for BaseElement", role="ring", out="f62_ext3_mul"),
        fn("mul_base", "ExtensibleField < 3 > for BaseElement", role="ring", out="f62_ext3_mul_base"),
        fn("frobenius", "ExtensibleField < 3 > for BaseElement", role="ring", out="f62_ext3_frobenius"),
    ],
)

EXPV = dict(kind="fn", name="exp_vartime", header="trait FieldElement*", role="method", file="math/src/field/traits.rs")

F128 = dict(
    module="F128", prefix="f128", file="math/src/field/f128/mod.rs", inner=U(128), posint=U(128),
    guards=TRAIT_GUARDS + [("math/src/field/traits.rs", "fn exp(self, power: Self::PositiveInteger) -> Self { self.exp_vartime(power) }"),
                           ("math/src/field/f128/mod.rs", "#[derive(Copy, Clone, PartialEq, Eq, Default)] #[cfg_attr(feature = \"serde\", derive(Deserialize, Serialize))] #[cfg_attr(feature = \"serde\", serde(transparent))] pub struct BaseElement(u128);")],
    defaults={"square": _sq, "cube": _cube, "double": _dbl},
    items=[
        const("M"), const("G"),
        fn("add64_with_carry", role="free"),
        fn("add_192x192", role="free"),
        fn("sub_192x192", role="free"),
        fn("sub_modulus", role="free"),
        fn("mul_by_modulus", role="free"),
        fn("mul_reduce", role="free"),
        fn("mul_128x64", role="free"),
        fn("add", role="free", out="f128_fn_add"),
        fn("sub", role="free", out="f128_fn_sub"),
        fn("mul", role="free", out="f128_fn_mul"),
        fn("inv", role="free", out="f128_fn_inv", litdef=U(64)),
        fn("new", "BaseElement"),
        fn("as_int", SF),
        fn("add", "Add for BaseElement"),
        fn("sub", "Sub for BaseElement"),
        fn("mul", "Mul for BaseElement"),
        fn("neg", "Neg for BaseElement"),
        const("ZERO", FE), const("ONE", FE),
        dict(raw="Definition f128_eq (a b : Z) : bool := Z.eqb a b.  (* #[derive(PartialEq)] on BaseElement(u128) *)",
             register=("eq", "f128_eq", [("self", ("elem",)), ("other", ("elem",))], ("bool",))),
        fn("inv", FE),
        fn("div", "Div for BaseElement"),
        dict(EXPV, out="f128_exp"),
        const("MODULUS", SF), const("MODULUS_BITS", SF), const("GENERATOR", SF),
        const("TWO_ADICITY", SF), const("TWO_ADIC_ROOT_OF_UNITY", SF),
        fn("try_from", "TryFrom < u128 > for BaseElement", out="f128_try_from_u128", **{"as": "try_from_u128"}),
        fn("mul", "ExtensibleField < 2 > for BaseElement", role="ring", out="f128_ext2_mul"),
        fn("mul_base", "ExtensibleField < 2 > for BaseElement", role="ring", out="f128_ext2_mul_base"),
        fn("frobenius", "ExtensibleField < 2 > for BaseElement", role="ring", out="f128_ext2_frobenius"),
    ],
)

UNITS = [F64, F62, F128]

# ---------------------------------------------------------------------------------------------
# C18 BEGIN (owner: C18 worker) -- security estimate: air/src/proof/mod.rs get_conjectured_security.
# `&ProofOptions` is an opaque struct parameter: its accessors are the Gallina projections declared
# in the raw block below, and the source guards pin the Rust accessor bodies they stand for.
_SEC_RAW = """(* ProofOptions / FieldExtension of air/src/options.rs: fields are u8 in Rust (guarded), the
   accessors widen them losslessly (`self.x as usize` / `as u32`). *)
Inductive FieldExtension : Set := FeNone | FeQuadratic | FeCubic.
Definition fe_degree (e : FieldExtension) : Z :=
  match e with FeNone => 1 | FeQuadratic => 2 | FeCubic => 3 end.
Record ProofOptions : Set := mkProofOptions {
  po_num_queries : Z; po_blowup_factor : Z; po_grinding_factor : Z; po_field_extension : FieldExtension;
  po_fri_folding_factor : Z; po_fri_remainder_max_degree : Z }.
"""

_OPT = "air/src/options.rs"
SECURITY = dict(
    module="Security", prefix="sec", file="air/src/proof/mod.rs",
    structs={
        "ProofOptions": {"gtype": "ProofOptions", "methods": {
            "num_queries": ("po_num_queries", U(64)),
            "blowup_factor": ("po_blowup_factor", U(64)),
            "grinding_factor": ("po_grinding_factor", U(32)),
            "field_extension": ("po_field_extension", "FieldExtension"),
        }},
        "FieldExtension": {"gtype": "FieldExtension", "methods": {"degree": ("fe_degree", U(32))}},
    },
    guards=[
        (_OPT, "pub struct ProofOptions { num_queries: u8, blowup_factor: u8, grinding_factor: u8, field_extension: FieldExtension, fri_folding_factor: u8, fri_remainder_max_degree: u8, }"),
        (_OPT, "pub const fn num_queries(&self) -> usize { self.num_queries as usize }"),
        (_OPT, "pub const fn blowup_factor(&self) -> usize { self.blowup_factor as usize }"),
        (_OPT, "pub const fn grinding_factor(&self) -> u32 { self.grinding_factor as u32 }"),
        (_OPT, "pub const fn field_extension(&self) -> FieldExtension { self.field_extension }"),
        (_OPT, "pub const fn degree(&self) -> u32 { match self { Self::None => 1, Self::Quadratic => 2, Self::Cubic => 3, } }"),
        ("air/src/proof/mod.rs", "get_conjectured_security( self.context.options(), self.context.num_modulus_bits(), self.trace_info().length(), H::COLLISION_RESISTANCE, )"),
    ],
    items=[
        dict(raw=_SEC_RAW),
        const("GRINDING_CONTRIBUTION_FLOOR"), const("MAX_PROXIMITY_PARAMETER"),
        fn("get_conjectured_security", role="free"),
    ],
)
UNITS.append(SECURITY)
# C18 END
# ---------------------------------------------------------------------------------------------

# ---------------------------------------------------------------------------------------------
# C11 BEGIN (owner: C11 worker) -- frequency-domain MDS multiplication (straight-line i64/u64 code):
# crypto/src/hash/mds/mds_f64_12x12.rs, mds_f64_8x8.rs and the real-FFT helpers of math/src/fft/real_u64.rs.
# `mds_multiply` itself (loops over `&mut [BaseElement; N]`, u128 folding) is modelled by hand in
# coq/Model/Rescue.v on top of the generated `*_mds_multiply_freq` and tied by the C11 correspondence.
_RFFT = "math/src/fft/real_u64.rs"


def _mds_unit(module, prefix, path):
    return dict(
        module=module, prefix=prefix, file=path, inner=U(64), posint=U(64),
        items=[
            fn("fft2_real", role="free", file=_RFFT),
            fn("ifft2_real_unreduced", role="free", file=_RFFT),
            fn("fft4_real", role="free", file=_RFFT),
            fn("ifft4_real_unreduced", role="free", file=_RFFT),
            const("MDS_FREQ_BLOCK_ONE"), const("MDS_FREQ_BLOCK_TWO"), const("MDS_FREQ_BLOCK_THREE"),
            fn("block1", role="free"), fn("block2", role="free"), fn("block3", role="free"),
            fn("mds_multiply_freq", role="free"),
        ],
    )


UNITS.append(_mds_unit("Mds12", "mds12", "crypto/src/hash/mds/mds_f64_12x12.rs"))
UNITS.append(_mds_unit("Mds8", "mds8", "crypto/src/hash/mds/mds_f64_8x8.rs"))
# C11 END
# ---------------------------------------------------------------------------------------------
