"""Translation units: which Rust items are translated into which Gen/*.v module."""
from trans import U, S


def _sq(tr, args):
    return tr.elem_call("mul", [args[0], args[0]])


def _dbl(tr, args):
    return tr.elem_call("add", [args[0], args[0]])


def _cube(tr, args):
    return tr.elem_call("mul", [tr.elem_call("mul", [args[0], args[0]]), args[0]])


TRAIT_GUARDS = [
    ("math/src/field/traits.rs", "fn square(self) -> Self { self * self }"),
    ("math/src/field/traits.rs", "fn double(self) -> Self { self + self }"),
    ("math/src/field/traits.rs", "fn cube(self) -> Self { self * self * self }"),
]


def fn(name, header="", role="method", **kw):
    d = dict(kind="fn", name=name, header=header, role=role)
    d.update(kw)
    return d


def const(name, header="", **kw):
    d = dict(kind="const", name=name, header=header)
    d.update(kw)
    return d


FE = "FieldElement for BaseElement"
SF = "StarkField for BaseElement"

F64 = dict(
    module="F64", prefix="f64", file="math/src/field/f64/mod.rs", inner=U(64), posint=U(64),
    guards=TRAIT_GUARDS, defaults={"square": _sq, "cube": _cube},
    items=[
        const("M"), const("R2"),
        fn("mont_red_cst", role="free"),
        fn("mont_to_int", role="free"),
        fn("equals", role="free"),
        fn("new", "BaseElement"),
        fn("as_int", "BaseElement"),
        fn("mul_small", "BaseElement"),
        fn("eq", "PartialEq for BaseElement"),
        fn("add", "Add for BaseElement"),
        fn("sub", "Sub for BaseElement"),
        fn("mul", "Mul for BaseElement"),
        const("ZERO", FE), const("ONE", FE),
        fn("neg", "Neg for BaseElement"),
        fn("double", FE),
        fn("exp7", "BaseElement"),
        fn("exp_acc", role="free"),
        fn("exp", FE),
        fn("inv", FE),
        fn("div", "Div for BaseElement"),
        const("MODULUS", SF), const("MODULUS_BITS", SF), const("GENERATOR", SF),
        const("TWO_ADICITY", SF), const("TWO_ADIC_ROOT_OF_UNITY", SF),
        fn("try_from", "TryFrom < u64 > for BaseElement", out="f64_try_from_u64", **{"as": "try_from_u64"}),
        fn("try_from", "TryFrom < u128 > for BaseElement", out="f64_try_from_u128", **{"as": "try_from_u128"}),
        fn("try_from", "TryFrom < [ u8 ; 8 ] > for BaseElement", out="f64_try_from_bytes", **{"as": "try_from_bytes"}),
        fn("mul", "ExtensibleField < 2 > for BaseElement", role="ring", out="f64_ext2_mul"),
        fn("square", "ExtensibleField < 2 > for BaseElement", role="ring", out="f64_ext2_square"),
        fn("mul_base", "ExtensibleField < 2 > for BaseElement", role="ring", out="f64_ext2_mul_base"),
        fn("frobenius", "ExtensibleField < 2 > for BaseElement", role="ring", out="f64_ext2_frobenius"),
        fn("mul", "ExtensibleField < 3 > for BaseElement", role="ring", out="f64_ext3_mul"),
        fn("square", "ExtensibleField < 3 > for BaseElement", role="ring", out="f64_ext3_square"),
        fn("mul_base", "ExtensibleField < 3 > for BaseElement", role="ring", out="f64_ext3_mul_base"),
        fn("frobenius", "ExtensibleField < 3 > for BaseElement", role="ring", out="f64_ext3_frobenius"),
    ],
)

UNITS = [F64]
