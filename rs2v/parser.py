"""Recursive-descent / Pratt parser for the straight-line Rust subset.

AST nodes are tuples: (tag, ...).  Anything outside the subset raises Unsupported,
which makes the translation unit fail loudly (obligation `translate:<fn>`)."""


class Unsupported(Exception):
    pass


BINPREC = {
    "||": 1, "&&": 2,
    "==": 3, "!=": 3, "<": 3, ">": 3, "<=": 3, ">=": 3,
    "|": 4, "^": 5, "&": 6, "<<": 7, ">>": 7,
    "+": 8, "-": 8, "*": 9, "/": 9, "%": 9,
}
ASSIGN_OPS = {"=", "+=", "-=", "*=", "/=", "%=", "^=", "|=", "&=", "<<=", ">>="}


class P:
    def __init__(self, toks):
        self.t = toks
        self.i = 0

    # -- helpers
    def peek(self, k=0):
        j = self.i + k
        return self.t[j].val if j < len(self.t) else None

    def kind(self, k=0):
        j = self.i + k
        return self.t[j].kind if j < len(self.t) else None

    def eat(self, v=None):
        tok = self.t[self.i]
        if v is not None and tok.val != v:
            raise Unsupported(f"expected {v!r} but found {tok.val!r} at token {self.i}")
        self.i += 1
        return tok.val

    def accept(self, v):
        if self.peek() == v:
            self.i += 1
            return True
        return False

    # -- types
    def ty(self):
        if self.accept("&"):
            if self.kind() == "lifetime":
                self.eat()
            self.accept("mut")
            return ("ref", self.ty())
        if self.accept("("):
            items = []
            while not self.accept(")"):
                items.append(self.ty())
                self.accept(",")
            return ("tuple", items)
        if self.accept("["):
            el = self.ty()
            if self.accept(";"):
                n = self.expr()
                self.eat("]")
                return ("array", el, n)
            self.eat("]")
            return ("slice", el)
        name = self.eat()
        while self.accept("::"):
            name += "::" + self.eat()
        if self.peek() == "<":
            depth = 0
            args = ""
            while True:
                v = self.eat()
                args += v
                if v == "<":
                    depth += 1
                elif v == ">":
                    depth -= 1
                elif v == ">>":
                    depth -= 2
                if depth <= 0:
                    break
            name += args
        return ("name", name)

    # -- fn
    def fn(self):
        self.eat("fn")
        name = self.eat()
        cgen = []
        if self.accept("<"):
            while not self.accept(">"):
                if self.accept("const"):
                    n = self.eat()
                    self.eat(":")
                    t = self.ty()
                    cgen.append((n, t))
                else:
                    raise Unsupported("type generics")
                self.accept(",")
        self.eat("(")
        params = []
        while not self.accept(")"):
            if self.accept("&"):
                self.accept("mut")
                self.eat("self")
                params.append(("self", ("name", "Self")))
            elif self.peek() == "self":
                self.eat()
                params.append(("self", ("name", "Self")))
            elif self.peek() == "mut" and self.peek(1) == "self":
                self.eat(); self.eat()
                params.append(("self", ("name", "Self")))
            else:
                self.accept("mut")
                n = self.eat()
                self.eat(":")
                params.append((n, self.ty()))
            self.accept(",")
        ret = ("tuple", [])
        if self.accept("->"):
            ret = self.ty()
        body = self.block()
        return ("fn", name, cgen, params, ret, body)

    # -- const item:  const NAME: T = expr;
    def const(self):
        self.eat("const")
        name = self.eat()
        self.eat(":")
        t = self.ty()
        self.eat("=")
        e = self.expr()
        self.eat(";")
        return ("const", name, t, e)

    # -- blocks / statements
    def block(self):
        self.eat("{")
        stmts = []
        while not self.accept("}"):
            if self.accept(";"):
                continue
            if self.peek() == "#":
                # statement attribute
                self.eat("#"); self.eat("[")
                d = 1
                while d:
                    v = self.eat()
                    d += (v == "[") - (v == "]")
                continue
            stmts.append(self.stmt())
        return ("block", stmts)

    def pat(self):
        if self.accept("("):
            items = []
            while not self.accept(")"):
                items.append(self.pat())
                self.accept(",")
            return ("ptuple", items)
        if self.accept("["):
            # C11: array pattern `let [a, b, c] = arr;` binds like a tuple pattern (arrays are tuples)
            items = []
            while not self.accept("]"):
                items.append(self.pat())
                self.accept(",")
            return ("ptuple", items)
        if self.accept("mut"):
            return ("pvar", self.eat())
        v = self.eat()
        if v == "_":
            return ("pwild",)
        return ("pvar", v)

    def stmt(self):
        v = self.peek()
        if v == "let":
            self.eat()
            p = self.pat()
            t = None
            if self.accept(":"):
                t = self.ty()
            e = None
            if self.accept("="):
                e = self.expr()
            self.eat(";")
            return ("let", p, t, e)
        if v == "const" and self.peek(2) == ":":
            # C09: a block-local `const NAME: T = expr;` is a typed let
            self.eat()
            name = self.eat()
            self.eat(":")
            t = self.ty()
            self.eat("=")
            e = self.expr()
            self.eat(";")
            return ("let", ("pvar", name), t, e)
        if v == "return":
            self.eat()
            e = None
            if self.peek() != ";":
                e = self.expr()
            self.accept(";")
            return ("return", e)
        if v == "for":
            self.eat()
            p = self.pat()
            self.eat("in")
            it = self.expr(no_struct=True)
            body = self.block()
            return ("for", p, it, body)
        if v == "while":
            self.eat()
            c = self.expr(no_struct=True)
            body = self.block()
            return ("while", c, body)
        if v in ("assert", "assert_eq", "debug_assert", "debug_assert_eq", "assert_ne") and self.peek(1) == "!":
            name = self.eat(); self.eat("!")
            args = self.macro_args()
            self.accept(";")
            return ("assert", name, args)
        if v == "if":
            e = self.if_expr()
            if self.accept(";"):
                return ("expr", e)
            # an `if` at statement position: either a statement or the tail
            if self.peek() == "}":
                return ("tail", e)
            return ("expr", e)
        e = self.expr()
        if self.peek() in ASSIGN_OPS:
            op = self.eat()
            rhs = self.expr()
            self.eat(";")
            return ("assign", op, e, rhs)
        if self.accept(";"):
            return ("expr", e)
        if self.peek() == "}":
            return ("tail", e)
        raise Unsupported(f"statement form near {self.peek()!r}")

    def macro_args(self):
        close = {"(": ")", "[": "]", "{": "}"}[self.peek()]
        self.eat()
        args = []
        while not self.accept(close):
            if self.kind() == "str":
                args.append(("str", self.eat()))
            else:
                args.append(self.expr())
            self.accept(",")
        return args

    # -- expressions
    def if_expr(self):
        self.eat("if")
        c = self.expr(no_struct=True)
        t = self.block()
        e = None
        if self.accept("else"):
            if self.peek() == "if":
                e = ("block", [("tail", self.if_expr())])
            else:
                e = self.block()
        return ("if", c, t, e)

    def expr(self, prec=0, no_struct=False):
        lhs = self.unary(no_struct)
        while True:
            op = self.peek()
            if op == "as":
                # `as` binds tighter than every binary operator
                self.eat()
                lhs = ("cast", lhs, self.ty())
                continue
            if op == ".." and prec == 0:
                self.eat()
                hi = self.expr(1, no_struct)
                lhs = ("range", lhs, hi)
                continue
            if op in BINPREC and BINPREC[op] > prec:
                # do not confuse `x < y` followed by generics: subset has none
                p = BINPREC[op]
                self.eat()
                rhs = self.expr(p, no_struct)
                lhs = ("bin", op, lhs, rhs)
                continue
            return lhs

    def unary(self, no_struct):
        v = self.peek()
        if v == "-":
            self.eat()
            return ("neg", self.unary_cast(no_struct))
        if v == "!":
            self.eat()
            return ("not", self.unary_cast(no_struct))
        if v == "*":
            self.eat()
            return ("deref", self.unary_cast(no_struct))
        if v == "&":
            self.eat()
            self.accept("mut")
            return ("addr", self.unary_cast(no_struct))
        return self.postfix(no_struct)

    def unary_cast(self, no_struct):
        # operand of a unary operator: unary binds tighter than `as`
        return self.unary(no_struct)

    def postfix(self, no_struct):
        e = self.primary(no_struct)
        while True:
            v = self.peek()
            if v == ".":
                self.eat()
                if self.kind() == "num":
                    e = ("field", e, self.eat())
                    continue
                name = self.eat()
                targs = None
                if self.peek() == "::" and self.peek(1) == "<":
                    self.eat(); targs = self.turbofish()
                if self.peek() == "(":
                    args = self.call_args()
                    e = ("mcall", e, name, args, targs)
                else:
                    e = ("field", e, name)
                continue
            if v == "[":
                self.eat()
                idx = self.expr()
                self.eat("]")
                e = ("index", e, idx)
                continue
            if v == "(":
                args = self.call_args()
                e = ("call", e, args)
                continue
            if v == "?":
                self.eat()
                e = ("try", e)
                continue
            return e

    def turbofish(self):
        self.eat("<")
        args = []
        while not self.accept(">"):
            if self.kind() == "num":
                args.append(("num", self.eat()))
            else:
                args.append(("type", self.ty()))
            self.accept(",")
        return args

    def call_args(self):
        self.eat("(")
        args = []
        while not self.accept(")"):
            args.append(self.expr())
            self.accept(",")
        return args

    def primary(self, no_struct):
        k, v = self.kind(), self.peek()
        if k == "num":
            self.eat()
            return ("num", v)
        if k == "str":
            self.eat()
            return ("str", v)
        if v == "(":
            self.eat()
            if self.accept(")"):
                return ("tuple", [])
            e = self.expr()
            if self.accept(")"):
                return ("paren", e)
            items = [e]
            while self.accept(","):
                if self.peek() == ")":
                    break
                items.append(self.expr())
            self.eat(")")
            return ("tuple", items)
        if v == "[":
            self.eat()
            items = []
            while not self.accept("]"):
                items.append(self.expr())
                if self.accept(";"):
                    n = self.expr()
                    self.eat("]")
                    return ("arrayrep", items[0], n)
                self.accept(",")
            return ("array", items)
        if v == "if":
            return self.if_expr()
        if v == "|":
            # C16: closure `|a, b| body` (only recognised, never translated as a value)
            self.eat()
            params = []
            while not self.accept("|"):
                params.append(self.pat())
                self.accept(",")
            return ("closure", params, self.expr())
        if v == "{":
            return self.block()
        if v == "unsafe":
            raise Unsupported("unsafe block")
        if v == "match":
            raise Unsupported("match expression")
        if k == "ident":
            name = self.eat()
            targs = None
            while self.peek() == "::":
                if self.peek(1) == "<":
                    self.eat()
                    targs = self.turbofish()
                else:
                    self.eat()
                    name += "::" + self.eat()
            if self.peek() == "!" and self.peek(1) in ("(", "[", "{"):
                self.eat("!")
                args = self.macro_args()
                return ("macro", name, args)
            if (not no_struct and self.peek() == "{" and name[:1].isupper() and "::" not in name
                    and self.kind(1) == "ident" and self.peek(2) in (",", ":", "}")):
                # C16: struct literal `Name { a, b: e }`
                self.eat("{")
                fields = []
                while not self.accept("}"):
                    f = self.eat()
                    if self.accept(":"):
                        fields.append((f, self.expr()))
                    else:
                        fields.append((f, ("path", f, None)))
                    self.accept(",")
                return ("structlit", name, fields)
            return ("path", name, targs)
        raise Unsupported(f"expression form near {v!r}")


def parse_fn(toks):
    # strip qualifiers before `fn`
    i = 0
    while toks[i].val != "fn":
        i += 1
    return P(toks[i:]).fn()


def parse_const(toks):
    return P(toks).const()
