"""Gallina term AST + renderers (value rendering and *_ok rendering)."""

# G nodes:
#  ('var', name) ('lit', text) ('app', f, [args]) ('let', pat, e, body) ('if', c, t, e)
#  ('tuple', [..]) ('checked', cond, val) ('some', e) ('none',) ('bindopt', pat, e, body)
#  ('fun', [pats], body) ('assert', cond, body) ('list', [..])
# pat: str | ('ptuple', [pats]) | '_'


def pat_s(p, top=True):
    if isinstance(p, str):
        return p
    items = p[1]
    if len(items) == 0:
        return "_"
    if len(items) == 1:
        return pat_s(items[0], top)
    s = "(" + ", ".join(pat_s(x, False) for x in items) + ")"
    return ("'" + s) if top else s


def atom(s):
    s = s.strip()
    if all(c.isalnum() or c in "_'." for c in s):
        return s
    if s[0] in "([" :
        # atomic iff the first bracket closes at the very end
        depth = 0
        for i, c in enumerate(s):
            if c in "([":
                depth += 1
            elif c in ")]":
                depth -= 1
                if depth == 0:
                    if i == len(s) - 1:
                        return s
                    break
    return "(" + s + ")"


def render(g, ind=2):
    """Value rendering: ('checked', c, v) -> v;  ('assert', c, b) -> b."""
    t = g[0]
    sp = " " * ind
    if t == "var":
        return g[1]
    if t == "lit":
        return g[1]
    if t == "app":
        if not g[2]:
            return g[1]
        return g[1] + " " + " ".join(atom(render(a, ind)) for a in g[2])
    if t == "tuple":
        if len(g[1]) == 0:
            return "tt"
        if len(g[1]) == 1:
            return render(g[1][0], ind)
        return "(" + ", ".join(render(a, ind) for a in g[1]) + ")"
    if t == "list":
        return "[" + "; ".join(render(a, ind) for a in g[1]) + "]"
    if t == "let":
        return f"let {pat_s(g[1])} := {render(g[2], ind + 2)} in\n{sp}{render(g[3], ind)}"
    if t == "if":
        return (f"if {render(g[1], ind + 2)}\n{sp}then {atom(render(g[2], ind + 2))}\n"
                f"{sp}else {atom(render(g[3], ind + 2))}")
    if t == "checked":
        return render(g[2], ind)
    if t == "assert":
        return render(g[2], ind)
    if t == "some":
        return "Some " + atom(render(g[1], ind))
    if t == "none":
        return "None"
    if t == "bindopt":
        return (f"match {render(g[2], ind + 2)} with\n{sp}| None => None\n"
                f"{sp}| Some {pat_s(g[1]).lstrip(chr(39))} =>\n{sp}  {render(g[3], ind + 2)}\n{sp}end")
    if t == "fun":
        return "fun " + " ".join(pat_s(p) for p in g[1]) + " => " + atom(render(g[2], ind + 2))
    raise ValueError(t)


TRUE = ("lit", "true")


def conj(a, b):
    if a == TRUE:
        return b
    if b == TRUE:
        return a
    return ("app", "andb", [a, b])


def ok_of(g, okfns):
    """Return a G term of type bool stating that no checked operation in g fails.
    okfns: dict gallina-fn-name -> ok-fn-name for callees that have side conditions."""
    t = g[0]
    if t in ("var", "lit", "none"):
        return TRUE
    if t == "app" and len(g) > 3 and g[3] == "lazy":
        # Rust `a && b` / `a || b`: b (and its checked operations) is evaluated only if a is true / false
        a, b = ok_of(g[2][0], okfns), ok_of(g[2][1], okfns)
        if b == TRUE:
            return a
        guard = ("if", strip(g[2][0]), b, TRUE) if g[1] == "andb" else ("if", strip(g[2][0]), TRUE, b)
        return conj(a, guard)
    if t == "app":
        c = TRUE
        for a in g[2]:
            c = conj(c, ok_of(a, okfns))
        if g[1] in okfns:
            c = conj(c, ("app", okfns[g[1]], [strip(a) for a in g[2]]))
        return c
    if t in ("tuple", "list"):
        c = TRUE
        for a in g[1]:
            c = conj(c, ok_of(a, okfns))
        return c
    if t == "let":
        body = ok_of(g[3], okfns)
        if body == TRUE:
            return ok_of(g[2], okfns)
        return conj(ok_of(g[2], okfns), ("let", g[1], strip(g[2]), body))
    if t == "if":
        a, b = ok_of(g[2], okfns), ok_of(g[3], okfns)
        if a == TRUE and b == TRUE:
            return ok_of(g[1], okfns)
        return conj(ok_of(g[1], okfns), ("if", strip(g[1]), a, b))
    if t == "checked":
        return conj(ok_of(g[2], okfns), strip(g[1]))
    if t == "assert":
        return conj(conj(ok_of(g[1], okfns), strip(g[1])), ok_of(g[2], okfns))
    if t == "some":
        return ok_of(g[1], okfns)
    if t == "bindopt":
        # C07 round 2: `match callee fuel args with None => None | Some r => <no further checks>`:
        # the side conditions are those of the bound call's arguments (a loop there still raises below)
        if ok_of(g[3], okfns) == TRUE:
            return ok_of(g[2], okfns)
        raise NotImplementedError("ok rendering of loops")
    if t == "fun":
        raise NotImplementedError("ok rendering of loops")
    raise ValueError(t)


def strip(g):
    """Remove checked/assert wrappers (value view)."""
    t = g[0]
    if t in ("var", "lit", "none"):
        return g
    if t == "app":
        return ("app", g[1], [strip(a) for a in g[2]])
    if t in ("tuple", "list"):
        return (t, [strip(a) for a in g[1]])
    if t == "let":
        return ("let", g[1], strip(g[2]), strip(g[3]))
    if t == "if":
        return ("if", strip(g[1]), strip(g[2]), strip(g[3]))
    if t == "checked":
        return strip(g[2])
    if t == "assert":
        return strip(g[2])
    if t == "some":
        return ("some", strip(g[1]))
    if t == "bindopt":
        return ("bindopt", g[1], strip(g[2]), strip(g[3]))
    if t == "fun":
        return ("fun", g[1], strip(g[2]))
    raise ValueError(t)
