"""Tokenizer and item scanner for the Rust subset handled by rs2v."""
import re

TOKEN_RE = re.compile(r"""
    (?P<ws>\s+)
  | (?P<lcomment>//[^\n]*)
  | (?P<bcomment>/\*.*?\*/)
  | (?P<str>b?"(?:\\.|[^"\\])*")
  | (?P<lifetime>'[A-Za-z_][A-Za-z_0-9]*(?!'))
  | (?P<char>b?'(?:\\.|[^'\\])')
  | (?P<num>0x[0-9a-fA-F_]+(?:[iu](?:8|16|32|64|128|size))?|[0-9][0-9_]*(?:\.[0-9][0-9_]*)?(?:[iu](?:8|16|32|64|128|size)|f32|f64)?)
  | (?P<ident>[A-Za-z_][A-Za-z_0-9]*)
  | (?P<punct><<=|>>=|\.\.=|\.\.\.|::|->|=>|<<|>>|<=|>=|==|!=|&&|\|\||\+=|-=|\*=|/=|%=|\^=|\|=|&=|\.\.|[-+*/%^!&|=<>@.,;:#$?~(){}\[\]])
""", re.X | re.S)


class Tok:
    __slots__ = ("kind", "val", "pos")

    def __init__(self, kind, val, pos):
        self.kind, self.val, self.pos = kind, val, pos

    def __repr__(self):
        return f"{self.kind}:{self.val}"


def tokenize(src):
    toks = []
    i = 0
    n = len(src)
    while i < n:
        m = TOKEN_RE.match(src, i)
        if not m:
            raise SyntaxError(f"rs2v: cannot tokenize at offset {i}: {src[i:i+30]!r}")
        k = m.lastgroup
        if k not in ("ws", "lcomment", "bcomment"):
            toks.append(Tok(k, m.group(k), i))
        i = m.end()
    return toks


def match_brace(toks, i, open_="{", close="}"):
    """toks[i] is an opening token; return index of the matching closing token."""
    depth = 0
    j = i
    while j < len(toks):
        v = toks[j].val
        if toks[j].kind == "punct":
            if v == open_:
                depth += 1
            elif v == close:
                depth -= 1
                if depth == 0:
                    return j
        j += 1
    raise SyntaxError("rs2v: unbalanced braces")


class Item:
    def __init__(self, kind, header, name, toks):
        self.kind = kind      # 'fn' | 'const'
        self.header = header  # impl header string ('' for top-level)
        self.name = name
        self.toks = toks      # tokens of the whole item


def scan_items(toks, header=""):
    """Yield fn / const items at the top level and inside impl blocks (one level)."""
    i = 0
    n = len(toks)
    out = []
    while i < n:
        t = toks[i]
        if t.kind == "punct" and t.val == "#":
            # attribute: # [ ... ]  or #![...]
            j = i + 1
            if toks[j].val == "!":
                j += 1
            j = match_brace(toks, j, "[", "]")
            i = j + 1
            continue
        if t.kind == "ident" and t.val == "impl":
            j = i + 1
            while not (toks[j].kind == "punct" and toks[j].val == "{"):
                j += 1
            hdr = " ".join(x.val for x in toks[i + 1:j])
            k = match_brace(toks, j)
            out.extend(scan_items(toks[j + 1:k], hdr))
            i = k + 1
            continue
        if t.kind == "ident" and t.val == "trait" and header == "":
            j = i + 1
            while not (toks[j].kind == "punct" and toks[j].val == "{"):
                j += 1
            hdr = "trait " + " ".join(x.val for x in toks[i + 1:j])
            k = match_brace(toks, j)
            out.extend(scan_items(toks[j + 1:k], hdr))
            i = k + 1
            continue
        if t.kind == "ident" and t.val in ("mod",) and header == "":
            # mod foo; | mod foo { ... } | trait Foo { ... }: skipped
            j = i
            while toks[j].val not in (";", "{"):
                j += 1
            if toks[j].val == "{":
                j = match_brace(toks, j)
            i = j + 1
            continue
        if t.kind == "ident" and t.val == "fn":
            name = toks[i + 1].val
            j = i
            while toks[j].val not in ("{", ";"):
                # skip over parenthesised/bracketed groups (array types contain ';')
                if toks[j].val == "(":
                    j = match_brace(toks, j, "(", ")")
                elif toks[j].val == "[":
                    j = match_brace(toks, j, "[", "]")
                j += 1
            if toks[j].val == ";":
                i = j + 1
                continue
            k = match_brace(toks, j)
            out.append(Item("fn", header, name, toks[i:k + 1]))
            i = k + 1
            continue
        if t.kind == "ident" and t.val == "const" and toks[i + 1].kind == "ident" and toks[i + 1].val != "fn":
            name = toks[i + 1].val
            j = i
            depth = 0
            while True:
                v = toks[j].val
                if v in ("(", "[", "{"):
                    depth += 1
                elif v in (")", "]", "}"):
                    depth -= 1
                elif v == ";" and depth == 0:
                    break
                j += 1
            out.append(Item("const", header, name, toks[i:j + 1]))
            i = j + 1
            continue
        if t.kind == "punct" and t.val == "{":
            i = match_brace(toks, i) + 1
            continue
        i += 1
    return out
