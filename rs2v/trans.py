"""Typed translation of the parsed Rust subset into Gallina (see DESIGN.md 2.1).

Integer values are Z with explicit wrap; the unit's element newtype (`BaseElement`)
is its inner word.  Checked operators produce ('checked', cond, value) nodes so
that a `<fn>_ok` side-condition function can be rendered next to `<fn>`."""
from parser import Unsupported
from gallina import render, ok_of, strip, TRUE

RESERVED = {"fun", "let", "in", "end", "match", "with", "as", "at", "by", "exists", "forall", "fix",
            "cofix", "if", "then", "else", "return", "Type", "Prop", "Set", "mod", "using", "where",
            "for", "S", "O", "Z", "N", "nat", "list", "pair", "fst", "snd", "Some", "None", "wrap",
            "swrap", "shl", "shr", "true", "false", "bool", "map", "rev", "seq", "length", "app"}

U = lambda n: ("u", n)
S = lambda n: ("s", n)
BOOL = ("bool",)
ELEM = ("elem",)
LIT = ("litint",)
UNIT = ("unit",)

INT_NAMES = {"u8": U(8), "u16": U(16), "u32": U(32), "u64": U(64), "u128": U(128), "usize": U(64),
             "i8": S(8), "i16": S(16), "i32": S(32), "i64": S(64), "i128": S(128), "isize": S(64)}


def is_int(t):
    return t[0] in ("u", "s")


def z(n):
    return ("lit", str(n) if n >= 0 else f"({n})")


def parse_num(s):
    s = s.replace("_", "")
    suffix = None
    for name in sorted(INT_NAMES, key=len, reverse=True):
        if s.endswith(name) and not (s.startswith("0x") and name[0] not in "ui"):
            suffix = INT_NAMES[name]
            s = s[: -len(name)]
            break
    v = int(s, 16) if s.startswith("0x") else int(s)
    return v, suffix


class FnSig:
    def __init__(self, gname, params, ret, fuel=False, has_ok=False, cgen=(), ring=False):
        self.gname, self.params, self.ret = gname, params, ret
        self.fuel, self.has_ok, self.cgen, self.ring = fuel, has_ok, list(cgen), ring


class Unit:
    """A translation unit: one Rust file, one element newtype."""

    def __init__(self, prefix, elem_name="BaseElement", elem_inner=U(64), posint=U(64)):
        self.prefix = prefix
        self.elem_name = elem_name
        self.elem_inner = elem_inner
        self.posint = posint
        self.self_ty = None  # see rtype
        self.consts = {}     # rust name -> (gname, type)
        self.free = {}       # rust free fn name -> FnSig
        self.methods = {}    # method / assoc fn name on the element type -> FnSig
        self.okfns = {}      # gname -> ok gname
        self.out = []        # emitted Gallina text
        self.defaults = {}   # default trait methods: name -> lambda(tr, args)
        self.structs = {}    # C18: opaque struct types: rust name -> {'gtype': str, 'methods': {name: (gallina fn, type)}}

    def rtype(self, t):
        k = t[0]
        if k == "name":
            n = t[1]
            if n in INT_NAMES:
                return INT_NAMES[n]
            if n == "bool":
                return BOOL
            if n == "()":
                return UNIT
            if n in self.structs and (n == "Self" or "canon" in self.structs[n]):
                # C16: a unit whose `Self` is an opaque struct (not the field element newtype); several Rust
                # spellings (`Self`, `Assertion<E>`, `Assertion`) share one canonical struct name
                return ("struct", self.structs[n].get("canon", n), self.structs[n]["gtype"])
            if n == "Self" and getattr(self, "self_ty", None) is not None:
                # C07 coverage round: `impl From<BaseElement> for u64` etc.: Self is the integer type of the impl header
                return self.self_ty
            if n in ("Self", self.elem_name, "Self::BaseField"):
                return ELEM
            if n == "Self::PositiveInteger":
                return self.posint
            if n in self.structs:
                return ("struct", n, self.structs[n]["gtype"])
            if n.startswith("Result<") or n.startswith("Option<"):
                inner = n[n.index("<") + 1:]
                inner = inner.split(",")[0].rstrip(">")
                return ("option", self.rtype(("name", inner)))
            raise Unsupported(f"type {n}")
        if k == "tuple":
            if not t[1]:
                return UNIT
            return ("tuple", [self.rtype(x) for x in t[1]])
        if k == "array":
            n = t[2]
            if n[0] != "num":
                raise Unsupported("array length not literal")
            return ("array", self.rtype(t[1]), parse_num(n[1])[0])
        if k == "ref":
            return self.rtype(t[1])
        raise Unsupported(f"type {t}")


class Env:
    def __init__(self, parent=None):
        self.vars = dict(parent.vars) if parent else {}
        self.order = list(parent.order) if parent else []

    def bind(self, name, ty):
        g = name + "_" if name in RESERVED else name
        self.vars[name] = (g, ty)
        if name not in self.order:
            self.order.append(name)
        return g

    def copy(self):
        return Env(self)


class FnTr:
    def __init__(self, unit, fuel_fn, ring=False):
        self.u = unit
        self.fuel_fn = fuel_fn
        self.ring = ring
        self.tmp = 0
        self.binds = []      # hoisted option binds for the current statement
        self.cgen = {}
        self.litdef = None   # type given to unsuffixed literals with no expectation (per-fn option)

    # ------------------------------------------------------------------ helpers
    def fresh(self, base="t"):
        self.tmp += 1
        return f"{base}__{self.tmp}"

    def width(self, t):
        if is_int(t):
            return t[1]
        raise Unsupported(f"not an integer type: {t}")

    def in_range(self, t, g):
        return ("app", "in_u" if t[0] == "u" else "in_s", [z(t[1]), g])

    def wrapv(self, t, g):
        return ("app", "wrap" if t[0] == "u" else "swrap", [z(t[1]), g])

    def coerce_lit(self, g, ty, want):
        if ty == LIT and want is not None and is_int(want):
            return g, want
        return g, ty

    def fop(self, name, args):
        return ("app", f"(O.({name}))", args)

    # ------------------------------------------------------------------ expressions
    def expr(self, e, env, expect=None):
        k = e[0]
        if k == "paren":
            return self.expr(e[1], env, expect)
        if k == "num":
            v, suf = parse_num(e[1])
            if suf is None:
                suf = expect if (expect and is_int(expect)) else (self.litdef or LIT)
            return z(v), suf
        if k == "path":
            return self.path(e, env, expect)
        if k == "cast":
            return self.cast(e, env)
        if k == "bin":
            return self.binop(e, env, expect)
        if k == "neg":
            g, t = self.expr(e[1], env, expect)
            if t == ELEM:
                return self.elem_call("neg", [g]), ELEM
            if t == LIT:
                return ("lit", f"(- {render(g)})"), LIT
            if t[0] == "s":
                n = t[1]
                return ("checked", ("app", "negb", [("app", "Z.eqb", [g, z(-(2 ** (n - 1)))])]),
                        self.wrapv(t, ("app", "Z.opp", [g]))), t
            raise Unsupported("negation of unsigned")
        if k == "not":
            g, t = self.expr(e[1], env, expect)
            if t == BOOL:
                return ("app", "negb", [g]), BOOL
            if t[0] == "u":
                return ("app", "unot", [z(t[1]), g]), t
            if t[0] == "s":
                return ("app", "Z.lnot", [g]), t
            raise Unsupported("! on " + str(t))
        if k in ("deref", "addr"):
            return self.expr(e[1], env, expect)
        if k == "field":
            g, t = self.expr(e[1], env)
            if t == ELEM and e[2] == "0":
                return g, self.u.elem_inner
            if t[0] == "struct":
                # C16: named field of an opaque struct, resolved through the unit's accessor table
                acc = self.u.structs[t[1]].get("fields", {}).get(e[2])
                if acc is None:
                    raise Unsupported(f"field .{e[2]} of struct {t[1]}")
                rt = acc[1] if not isinstance(acc[1], str) else self.u.rtype(("name", acc[1]))
                return ("app", acc[0], [g]), rt
            if t[0] == "tuple" and e[2].isdigit():
                i = int(e[2])
                n = len(t[1])
                return self.proj(g, i, n), t[1][i]
            raise Unsupported(f"field .{e[2]} on {t}")
        if k == "index":
            g, t = self.expr(e[1], env)
            idx = e[2]
            if t[0] == "array" and idx[0] == "num":
                i = parse_num(idx[1])[0]
                return self.proj(g, i, t[2]), t[1]
            raise Unsupported("index")
        if k == "tuple":
            ex = expect[1] if (expect and expect[0] == "tuple") else [None] * len(e[1])
            gs, ts = zip(*[self.expr(x, env, ex[i]) for i, x in enumerate(e[1])]) if e[1] else ((), ())
            return ("tuple", list(gs)), ("tuple", list(ts))
        if k == "array":
            el = expect[1] if (expect and expect[0] == "array") else None
            gs, ts = zip(*[self.expr(x, env, el) for x in e[1]])
            return ("tuple", list(gs)), ("array", ts[0], len(gs))
        if k == "call":
            return self.call(e, env, expect)
        if k == "mcall":
            return self.mcall(e, env, expect)
        if k == "if":
            return self.if_value(e, env, expect)
        if k == "block":
            return self.block_value(e, env, expect)
        if k == "macro":
            vk = [k for k in self.u.structs if k.startswith("Vec<")]
            if e[1] == "vec" and vk and all(a[0] != "str" for a in e[2]):
                # C16: vec![a, b, ..] of an opaque vector represented by its length
                for a in e[2]:
                    self.expr(a, env, None)
                return z(len(e[2])), self.u.rtype(("name", vk[0]))
            raise Unsupported(f"macro {e[1]}!")
        if k == "structlit":
            # C16: `Name { f1, f2: e, .. }` of an opaque struct with a declared constructor
            sd = self.u.structs.get(e[1])
            if sd is None or "ctor" not in sd:
                raise Unsupported(f"struct literal {e[1]}")
            cname, order = sd["ctor"]
            given = dict(e[2])
            if sorted(given) != sorted(order):
                raise Unsupported(f"struct literal {e[1]}: fields {sorted(given)}")
            gs = []
            for f in order:
                acc = sd["fields"][f]
                ft = acc[1] if not isinstance(acc[1], str) else self.u.rtype(("name", acc[1]))
                g, t = self.expr(given[f], env, ft)
                if t == LIT:
                    t = ft
                if t != ft:
                    raise Unsupported(f"struct literal field {f}: {t} vs {ft}")
                gs.append(g)
            return ("app", cname, gs), ("struct", e[1], sd["gtype"])
        raise Unsupported(f"expression {k}")

    def proj(self, g, i, n):
        if g[0] == "tuple":
            return g[1][i]
        # right-nested? Coq tuples are left-nested pairs: (a,b,c) = ((a,b),c)
        r = g
        for _ in range(n - 1 - i):
            r = ("app", "fst", [r])
        if i > 0:
            r = ("app", "snd", [r])
        return r

    def path(self, e, env, expect):
        name = e[1]
        if name in env.vars:
            g, t = env.vars[name]
            return ("var", g), t
        if name in self.cgen:
            return ("var", name), self.cgen[name]
        if name in ("true", "false"):
            return ("lit", name), BOOL
        base = name.split("::")[-1]
        if self.ring and name in ("Self::ZERO", "Self::ONE", self.u.elem_name + "::ZERO", self.u.elem_name + "::ONE"):
            return ("lit", "(O.(fzero))" if base == "ZERO" else "(O.(fone))"), ELEM
        if name in self.u.consts:
            g, t = self.u.consts[name]
            return ("var", g), t
        if name.startswith(("Self::", self.u.elem_name + "::")) and ("assoc::" + base) in self.u.consts:
            g, t = self.u.consts["assoc::" + base]
            return ("var", g), t
        if name.endswith("::MAX") and name.split("::")[0] in INT_NAMES:
            t = INT_NAMES[name.split("::")[0]]
            return z(2 ** t[1] - 1 if t[0] == "u" else 2 ** (t[1] - 1) - 1), t
        if name.endswith("::BITS") and name.split("::")[0] in INT_NAMES:
            return z(INT_NAMES[name.split("::")[0]][1]), U(32)
        raise Unsupported(f"unknown path {name}")

    def cast(self, e, env):
        to = self.u.rtype(e[2])
        g, t = self.expr(e[1], env, None)
        if t == LIT:
            return g, to
        if t == BOOL:
            if not is_int(to):
                raise Unsupported("bool cast")
            return ("app", "b2z", [g]), to
        if not (is_int(t) and is_int(to)):
            raise Unsupported(f"cast {t} -> {to}")
        if to[0] == "u":
            if t[0] == "u" and t[1] <= to[1]:
                return g, to
            return ("app", "wrap", [z(to[1]), g]), to
        # to signed
        if t[0] == "u" and t[1] < to[1]:
            return g, to
        if t[0] == "s" and t[1] <= to[1]:
            return g, to
        return ("app", "swrap", [z(to[1]), g]), to

    def binop(self, e, env, expect):
        op, a, b = e[1], e[2], e[3]
        if op in ("&&", "||"):
            ga, _ = self.expr(a, env, BOOL)
            gb, _ = self.expr(b, env, BOOL)
            # tagged "lazy": the right operand's checked operations are only reached when the left one does not decide
            return ("app", "andb" if op == "&&" else "orb", [ga, gb], "lazy"), BOOL
        cmp_ops = {"==": "Z.eqb", "!=": None, "<": "Z.ltb", "<=": "Z.leb", ">": "Z.gtb", ">=": "Z.geb"}
        if op in cmp_ops:
            ga, ta = self.expr(a, env, None)
            gb, tb = self.expr(b, env, ta if ta != LIT else None)
            if ta == LIT and tb != LIT:
                ga, ta = self.expr(a, env, tb)
            if ta == ELEM or tb == ELEM:
                if op == "==":
                    return self.elem_call("eq", [ga, gb]), BOOL
                if op == "!=":
                    return ("app", "negb", [self.elem_call("eq", [ga, gb])]), BOOL
                raise Unsupported("ordering on elements")
            if ta == BOOL:
                if op == "==":
                    return ("app", "Bool.eqb", [ga, gb]), BOOL
                raise Unsupported("bool compare")
            if op == "!=":
                return ("app", "negb", [("app", "Z.eqb", [ga, gb])]), BOOL
            return ("app", cmp_ops[op], [ga, gb]), BOOL
        if op in ("<<", ">>"):
            ga, ta = self.expr(a, env, expect)
            gb, tb = self.expr(b, env, U(32))
            if ta == LIT:
                if expect and is_int(expect):
                    ta = expect
                else:
                    raise Unsupported("shift of untyped literal")
            n = self.width(ta)
            cond = ("app", "Z.ltb", [gb, z(n)])
            if gb[0] == "lit" and gb[1].isdigit() and int(gb[1]) < n:
                cond = None
            if op == ">>":
                v = ("app", "shr", [ga, gb])
            elif ta[0] == "u":
                v = ("app", "shl", [z(n), ga, gb])
            else:
                v = ("app", "sshl", [z(n), ga, gb])
            return (("checked", cond, v) if cond else v), ta
        # arithmetic / bitwise
        ga, ta = self.expr(a, env, expect)
        gb, tb = self.expr(b, env, ta if ta != LIT else expect)
        if ta == LIT and tb != LIT:
            ga, ta = self.expr(a, env, tb)
        if tb == LIT and ta != LIT:
            gb, tb = self.expr(b, env, ta)
        if ta == ELEM and tb == ELEM:
            m = {"+": "add", "-": "sub", "*": "mul", "/": "div"}.get(op)
            if not m:
                raise Unsupported(f"{op} on elements")
            return self.elem_call(m, [ga, gb]), ELEM
        if ta == LIT and tb == LIT:
            pyop = {"+": "+", "-": "-", "*": "*", "&": "&", "|": "|", "^": "^"}.get(op)
            if pyop is None:
                raise Unsupported("literal arithmetic " + op)
            v = eval(f"({render(ga)}) {pyop} ({render(gb)})")
            return z(v), LIT
        if ta == BOOL and tb == BOOL:
            m = {"&": "andb", "|": "orb", "^": "xorb"}.get(op)
            if not m:
                raise Unsupported(f"{op} on bool")
            return ("app", m, [ga, gb]), BOOL
        if not (is_int(ta) and ta == tb):
            raise Unsupported(f"operator {op} on {ta} and {tb}")
        t = ta
        if op in ("+", "-", "*"):
            zop = {"+": "Z.add", "-": "Z.sub", "*": "Z.mul"}[op]
            raw = ("app", zop, [ga, gb])
            return ("checked", self.in_range(t, raw), self.wrapv(t, raw)), t
        if op == "/":
            f = "Z.div" if t[0] == "u" else "Z.quot"
            return ("checked", ("app", "negb", [("app", "Z.eqb", [gb, z(0)])]), ("app", f, [ga, gb])), t
        if op == "%":
            f = "Z.modulo" if t[0] == "u" else "Z.rem"
            return ("checked", ("app", "negb", [("app", "Z.eqb", [gb, z(0)])]), ("app", f, [ga, gb])), t
        if op in ("&", "|", "^"):
            f = {"&": "Z.land", "|": "Z.lor", "^": "Z.lxor"}[op]
            return ("app", f, [ga, gb]), t
        raise Unsupported("operator " + op)

    def elem_call(self, m, args):
        if self.ring:
            name = {"add": "fadd", "sub": "fsub", "mul": "fmul", "neg": "fneg", "double": "fdouble",
                    "square": "fsquare", "new": "fofz", "inv": "finv", "eq": "feqb", "div": "fdiv"}.get(m)
            if name is None:
                raise Unsupported(f"ring-mode method {m}")
            return self.fop(name, args)
        sig = self.u.methods.get(m)
        if sig is None:
            if m in self.u.defaults:
                return self.u.defaults[m](self, args)
            raise Unsupported(f"element operation {m} not translated yet")
        return self.apply(sig, args)

    def apply(self, sig, args, cargs=()):
        allargs = list(cargs) + list(args)
        if sig.fuel:
            if not self.fuel_fn:
                raise Unsupported(f"call to fuelled {sig.gname} from non-fuelled function")
            tmp = self.fresh("r")
            self.binds.append((tmp, ("app", sig.gname, [("var", "fuel")] + allargs)))
            return ("var", tmp)
        return ("app", sig.gname, allargs)

    def args(self, sig, args, env, skip_self=False):
        ps = sig.params[1:] if skip_self else sig.params
        if len(ps) != len(args):
            raise Unsupported(f"arity mismatch calling {sig.gname}")
        out = []
        for (pn, pt), a in zip(ps, args):
            g, t = self.expr(a, env, pt)
            if t == LIT:
                t = pt
            if t != pt:
                raise Unsupported(f"argument type {t} for parameter {pn}:{pt} of {sig.gname}")
            out.append(g)
        return out

    def call(self, e, env, expect):
        f, args = e[1], e[2]
        if f[0] != "path":
            raise Unsupported("call of non-path")
        name, targs = f[1], f[2]
        en = self.u.elem_name
        if name in ("Self", en):
            g, t = self.expr(args[0], env, self.u.elem_inner)
            return g, ELEM
        if name in ("Ok", "Some"):
            inner = expect[1] if (expect and expect[0] == "option") else None
            g, t = self.expr(args[0], env, inner)
            return ("some", g), ("option", t)
        if name == "Err":
            if getattr(self.u, "err_payload", False):
                # C16: the error value is built before it is returned: its checked operations can panic
                def payload(a):
                    if a[0] == "call" and a[1][0] == "path" and a[1][1].split("::")[-1][:1].isupper() \
                            and a[1][1] not in self.u.free:
                        return [x for b in a[2] for x in payload(b)]
                    if a[0] == "str":
                        return []
                    return [self.expr(a, env, None)[0]]
                gs = [x for a in args for x in payload(a)]
                if any(ok_of(x, self.u.okfns) != TRUE for x in gs):
                    return ("let", "_", ("tuple", gs), ("none",)), expect if expect else ("option", None)
            return ("none",), expect if expect else ("option", None)
        if name in ("cmp::min", "cmp::max", "core::cmp::min", "core::cmp::max") and len(args) == 2:
            ga, ta = self.expr(args[0], env, expect)
            gb, tb = self.expr(args[1], env, ta if ta != LIT else expect)
            if ta == LIT and tb != LIT:
                ga, ta = self.expr(args[0], env, tb)
            if tb == LIT:
                tb = ta
            if not (is_int(ta) and ta == tb):
                raise Unsupported(f"{name} on {ta} and {tb}")
            return ("app", "Z." + name.split("::")[-1], [ga, gb]), ta
        if name in (f"Self::from_mont", f"{en}::from_mont"):
            g, t = self.expr(args[0], env, self.u.elem_inner)
            return g, ELEM
        if name == "Self::PositiveInteger::from":
            g, t = self.expr(args[0], env, None)
            return g, self.u.posint
        if name.split("::")[0] in INT_NAMES and name.endswith("::from"):
            to = INT_NAMES[name.split("::")[0]]
            g, t = self.expr(args[0], env, None)
            if t == LIT:
                return g, to
            if t == BOOL:
                return ("app", "b2z", [g]), to
            return g, to
        if name.split("::")[0] in INT_NAMES and name.endswith("::from_le_bytes"):
            to = INT_NAMES[name.split("::")[0]]
            g, t = self.expr(args[0], env, None)
            return ("app", "of_le_bytes", [g]), to
        if name.startswith(("Self::", en + "::")):
            m = name.split("::", 1)[1]
            if self.ring and m == "new":
                g, t = self.expr(args[0], env, U(64))
                return self.fop("fofz", [g]), ELEM
            if m == "try_from" and len(args) == 1:
                g0, t0 = self.expr(args[0], env, None)
                if is_int(t0):
                    m = f"try_from_u{t0[1]}"
            sig = self.u.methods.get(m)
            if sig is None:
                raise Unsupported(f"associated function {m} not translated")
            gs = self.args(sig, args, env)
            return self.apply(sig, gs), sig.ret
        if name in self.u.free:
            sig = self.u.free[name]
            cargs = []
            if sig.cgen:
                if not targs or len(targs) != len(sig.cgen):
                    raise Unsupported("const generic arguments")
                for ta in targs:
                    if ta[0] != "num":
                        raise Unsupported("non-literal const generic")
                    cargs.append(z(parse_num(ta[1])[0]))
            gs = self.args(sig, args, env)
            return self.apply(sig, gs, cargs), sig.ret
        raise Unsupported(f"call to untranslated function {name}")

    def mcall(self, e, env, expect):
        recv, name, args = e[1], e[2], e[3]
        if name == "map_err" and len(args) == 1 and expect is not None and expect[0] == "option":
            # C07 coverage round: Result::map_err only rewrites the error payload, which the option view drops
            return self.expr(recv, env, expect)
        # (lo..hi).rev() handled by for-loops only
        g, t = self.expr(recv, env, None)
        if t == LIT and name in ("wrapping_sub", "wrapping_add"):
            raise Unsupported("method on untyped literal")
        if t[0] == "struct":
            acc = self.u.structs[t[1]]["methods"].get(name)
            if acc is None and self.u.structs[t[1]].get("translated") and name in self.u.methods:
                # C16: a method of the struct that this unit has itself translated
                sig = self.u.methods[name]
                gs = self.args(sig, args, env, skip_self=True)
                return self.apply(sig, [g] + gs), sig.ret
            if acc is None or args:
                raise Unsupported(f"accessor {name} on struct {t[1]}")
            rt = acc[1] if not isinstance(acc[1], str) else self.u.rtype(("name", acc[1]))
            return ("app", acc[0], [g]), rt
        if t == ELEM:
            if name in ("inner",):
                return g, self.u.elem_inner
            if name in ("clone", "conjugate") and not args and name == "clone":
                return g, ELEM
            if self.ring:
                if name in ("double", "square", "inv") and not args:
                    return self.elem_call(name, [g]), ELEM
                raise Unsupported(f"ring-mode method {name}")
            sig = self.u.methods.get(name)
            if sig is None:
                if name in self.u.defaults:
                    gs = [self.expr(a, env, None)[0] for a in args]
                    return self.u.defaults[name](self, [g] + gs), ELEM
                raise Unsupported(f"method {name} not translated")
            gs = self.args(sig, args, env, skip_self=True)
            return self.apply(sig, [g] + gs), sig.ret
        if name == "into" or name == "try_into":
            if expect is None:
                raise Unsupported("into() without expected type")
            want = expect[1] if (name == "try_into" and expect[0] == "option") else expect
            if t == BOOL and is_int(want):
                return ("app", "b2z", [g]), want
            if name == "try_into" and expect[0] == "option" and is_int(t) and is_int(want):
                # C07 coverage round: uN::try_from(x) = Ok(x) iff x fits in uN
                return ("if", self.in_range(want, g), ("some", g), ("none",)), expect
            if is_int(t) and is_int(want) and name == "into":
                return g, want
            if want == ELEM and t[0] == "array":
                # [u8; N].try_into() -> Self  : TryFrom<[u8; N]>
                sig = self.u.methods.get("try_from_bytes")
                if sig:
                    return self.apply(sig, [g]), sig.ret
            if want == ELEM and is_int(t):
                sig = self.u.methods.get(f"try_from_u{t[1]}")
                if sig:
                    return self.apply(sig, [g]), sig.ret
            raise Unsupported(f"into {t} -> {expect}")
        if is_int(t):
            n = t[1]
            if name in ("wrapping_add", "wrapping_sub", "wrapping_mul"):
                gb, tb = self.expr(args[0], env, t)
                zop = {"wrapping_add": "Z.add", "wrapping_sub": "Z.sub", "wrapping_mul": "Z.mul"}[name]
                return self.wrapv(t, ("app", zop, [g, gb])), t
            if name == "wrapping_neg":
                return self.wrapv(t, ("app", "Z.opp", [g])), t
            if name == "saturating_sub" and t[0] == "u":
                gb, tb = self.expr(args[0], env, t)
                return ("app", "Z.max", [z(0), ("app", "Z.sub", [g, gb])]), t
            if name == "saturating_add" and t[0] == "u":   # C12
                gb, tb = self.expr(args[0], env, t)
                return ("app", "Z.min", [z(2 ** n - 1), ("app", "Z.add", [g, gb])]), t
            if name in ("overflowing_add", "overflowing_sub") and t[0] == "u":
                gb, tb = self.expr(args[0], env, t)
                return ("app", "ovf_add" if name.endswith("add") else "ovf_sub", [z(n), g, gb]), ("tuple", [t, BOOL])
            if name == "leading_zeros" and t[0] == "u":
                return ("app", "clz", [z(n), g]), U(32)
            if name == "trailing_zeros" and t[0] == "u":
                return ("app", "ctz", [z(n), g]), U(32)
            if name == "reverse_bits" and t[0] == "u" and not args:      # C09 (defined by bits in the unit's raw block)
                return ("app", "reverse_bits", [z(n), g]), t
            if name == "count_zeros" and t[0] == "u" and not args:       # C09
                return ("app", "count_zeros", [z(n), g]), U(32)
            if name == "wrapping_shr" and t[0] == "u":                   # C09: the shift amount is masked to the bit width
                gb, tb = self.expr(args[0], env, U(32))
                return ("app", "shr", [g, ("app", "Z.modulo", [gb, z(n)])]), t
            if name == "ilog2" and t[0] == "u":
                return ("checked", ("app", "Z.ltb", [z(0), g]), ("app", "Z.log2", [g])), U(32)
            if name == "is_power_of_two" and t[0] == "u":
                return ("app", "is_pow2", [g]), BOOL
            if name == "next_power_of_two" and t[0] == "u":
                raw = ("app", "next_pow2", [g])
                return ("checked", self.in_range(t, raw), self.wrapv(t, raw)), t
            if name == "pow":
                gb, tb = self.expr(args[0], env, U(32))
                raw = ("app", "Z.pow", [g, gb])
                return ("checked", self.in_range(t, raw), self.wrapv(t, raw)), t
            if name in ("min", "max"):
                gb, tb = self.expr(args[0], env, t)
                return ("app", "Z." + name, [g, gb]), t
            if name == "to_le_bytes":
                return ("app", "to_le_bytes", [("lit", f"{n // 8}%nat"), g]), ("array", U(8), n // 8)
        raise Unsupported(f"method {name} on {t}")

    # ------------------------------------------------------------------ blocks
    def if_value(self, e, env, expect):
        c, _ = self.expr(e[1], env, BOOL)
        if e[3] is None:
            raise Unsupported("if without else used as a value")
        gt, tt = self.block_value(e[2], env, expect)
        ge, te = self.block_value(e[3], env, expect if tt == LIT else tt)
        if tt == LIT and te != LIT:
            gt, tt = self.block_value(e[2], env, te)
        return ("if", c, gt, ge), tt

    def block_value(self, b, env, expect):
        """A block used as a pure value."""
        saved_binds, self.binds = self.binds, []
        res = {}
        g = self.stmts(b[1], env.copy(), ("value", expect, res), opt=False)
        if self.binds:
            raise Unsupported("fuelled call inside a value block")
        self.binds = saved_binds
        return g, res.get("type", expect)

    def assigned(self, node, acc):
        """Collect names assigned (not declared) within a statement/block."""
        k = node[0]
        if k == "block":
            declared = set()
            for s in node[1]:
                if s[0] == "let":
                    self.pat_names(s[1], declared)
                sub = []
                self.assigned(s, sub)
                for n in sub:
                    if n not in declared and n not in acc:
                        acc.append(n)
        elif k == "assign":
            lhs = node[2]
            while lhs[0] in ("field", "index", "paren", "deref"):
                lhs = lhs[1]
            if lhs[0] == "path" and lhs[1] not in acc:
                acc.append(lhs[1])
        elif k in ("expr", "tail"):
            self.assigned(node[1], acc)
        elif k == "if":
            self.assigned(node[2], acc)
            if node[3]:
                self.assigned(node[3], acc)
        elif k == "for":
            self.assigned(node[3], acc)
        elif k == "while":
            self.assigned(node[2], acc)

    def pat_names(self, p, acc):
        if p[0] == "pvar":
            acc.add(p[1])
        elif p[0] == "ptuple":
            for x in p[1]:
                self.pat_names(x, acc)

    def has_while(self, node):
        if isinstance(node, tuple):
            if node and node[0] == "while":
                return True
            if node and node[0] in ("call",) and node[1][0] == "path":
                nm = node[1][1]
                sig = self.u.free.get(nm) or self.u.methods.get(nm.split("::")[-1])
                if sig is not None and sig.fuel:
                    return True
            if node and node[0] == "mcall":
                sig = self.u.methods.get(node[2])
                if sig is not None and sig.fuel:
                    return True
            if node and node[0] == "bin" and node[1] == "/":
                sig = self.u.methods.get("div")
                if sig is not None and sig.fuel:
                    return True
            return any(self.has_while(x) for x in node)
        if isinstance(node, list):
            return any(self.has_while(x) for x in node)
        return False

    def ends_with_return(self, block):
        return bool(block[1]) and block[1][-1][0] == "return"

    def bind_pat(self, p, ty, env):
        if p[0] == "pvar":
            return env.bind(p[1], ty)
        if p[0] == "pwild":
            return "_"
        if p[0] == "ptuple":
            if ty[0] == "tuple":
                tys = ty[1]
            elif ty[0] == "array":
                tys = [ty[1]] * ty[2]
            else:
                raise Unsupported(f"tuple pattern for {ty}")
            if len(tys) != len(p[1]):
                raise Unsupported("tuple pattern arity")
            return ("ptuple", [self.bind_pat(x, t, env) for x, t in zip(p[1], tys)])
        raise Unsupported("pattern")

    def state_tuple(self, names, env):
        return ("tuple", [("var", env.vars[n][0]) for n in names])

    def state_pat(self, names, env):
        return ("ptuple", [env.vars[n][0] for n in names])

    def finish(self, g, opt):
        return ("some", g) if opt else g

    def wrap_binds(self, g, opt):
        if self.binds and not opt:
            raise Unsupported("fuelled call in pure context")
        for tmp, call in reversed(self.binds):
            g = ("bindopt", tmp, call, g)
        self.binds = []
        return g

    def stmts(self, ss, env, mode, opt):
        """Translate a statement list.  mode = ('value', expect, resdict) | ('state', [names])."""
        if not ss:
            if mode[0] == "state":
                return self.finish(self.state_tuple(mode[1], env), opt)
            if mode[0] == "value":
                mode[2]["type"] = UNIT
                return self.finish(("tuple", []), opt)
        s, rest = ss[0], ss[1:]
        k = s[0]
        cont = lambda e2: self.stmts(rest, e2, mode, opt)

        if k == "let":
            p, t, e = s[1], s[2], s[3]
            ty = self.u.rtype(t) if t else None
            if e is None:
                if p[0] != "pvar" or ty is None:
                    raise Unsupported("uninitialised let")
                # Rust guarantees definite assignment before use: the dummy is never observed
                gn = env.bind(p[1], ty)
                return ("let", gn, z(0), cont(env))
            assert not self.binds
            g, gt = self.expr(e, env, ty)
            binds, self.binds = self.binds, []
            if gt == LIT:
                gt = ty or U(64) if ty else LIT
                if gt == LIT:
                    raise Unsupported("cannot infer type of literal in let")
            if ty is not None and gt != ty and not (gt[0] == "option"):
                raise Unsupported(f"let type mismatch {gt} vs {ty}")
            pat = self.bind_pat(p, gt, env)
            body = cont(env)
            out = ("let", pat, g, body)
            self.binds = binds
            return self.wrap_binds(out, opt)

        if k == "assign":
            op, lhs, rhs = s[1], s[2], s[3]
            target = lhs
            inner_field = False
            if target[0] == "field" and target[2] == "0":
                target = target[1]
                inner_field = True
            if target[0] != "path" or target[1] not in env.vars:
                raise Unsupported("assignment target")
            name = target[1]
            gname, ty = env.vars[name]
            vty = self.u.elem_inner if inner_field else ty
            if op == "=":
                g, gt = self.expr(rhs, env, vty)
            else:
                bop = op[:-1]
                g, gt = self.expr(("bin", bop, lhs, rhs), env, vty)
            binds, self.binds = self.binds, []
            gname2 = env.bind(name, ty)
            body = cont(env)
            self.binds = binds
            return self.wrap_binds(("let", gname2, g, body), opt)

        if k == "assert":
            name, args = s[1], s[2]
            if name.startswith("debug_"):
                return cont(env)
            if name == "assert":
                c, _ = self.expr(args[0], env, BOOL)
            elif name == "assert_eq":
                c, _ = self.expr(("bin", "==", args[0], args[1]), env, BOOL)
            else:
                c, _ = self.expr(("bin", "!=", args[0], args[1]), env, BOOL)
            return ("assert", c, cont(env))

        if k == "return" or k == "tail":
            e = s[1]
            if rest:
                raise Unsupported("statements after return")
            if mode[0] != "value":
                if k == "tail" and e[0] == "if":
                    return self.stmt_if(e, rest, env, mode, opt)
                raise Unsupported("value in state position")
            if e[0] == "if":
                return self.tail_if(e, env, mode, opt)
            if e[0] == "block":
                return self.stmts(e[1], env.copy(), mode, opt)
            g, gt = self.expr(e, env, mode[1])
            if gt == LIT and mode[1]:
                gt = mode[1]
            mode[2]["type"] = gt
            if gt[0] == "option" and opt:
                raise Unsupported("option-valued function with fuel")
            return self.wrap_binds(self.finish(g, opt), opt)

        if k == "expr":
            e = s[1]
            if e[0] == "if":
                return self.stmt_if(e, rest, env, mode, opt)
            if e[0] == "call" and e[1][0] == "path" and e[1][1] in self.u.free and self.u.free[e[1][1]].ret == UNIT:
                # C16: `helper(args);` whose only effect is its asserts: keep the call so that <fn>_ok includes helper_ok
                g, _ = self.expr(e, env, UNIT)
                return ("let", "_", g, cont(env))
            if (e[0] == "mcall" and e[2] == "unwrap_or_else" and len(e[3]) == 1 and e[3][0][0] == "closure"
                    and self.is_panic_body(e[3][0][2])):
                # C16: `opt.unwrap_or_else(|_| panic!(..));` at statement position = assert!(opt.is_some())
                g, t = self.expr(e[1], env, None)
                if t[0] != "option":
                    raise Unsupported("unwrap_or_else on non-option")
                return ("assert", ("app", "opt_is_some", [g]), cont(env))
            raise Unsupported(f"expression statement {e[0]}")

        if k == "for":
            return self.stmt_for(s, rest, env, mode, opt)
        if k == "while":
            return self.stmt_while(s, rest, env, mode, opt)
        raise Unsupported("statement " + k)

    def is_panic_body(self, b):
        while b[0] == "block" and len(b[1]) == 1 and b[1][0][0] in ("tail", "expr"):
            b = b[1][0][1]
        return b[0] == "macro" and b[1] == "panic"

    def contains_return(self, node):
        if isinstance(node, tuple):
            if node and node[0] == "return":
                return True
            if node and node[0] == "closure":
                return False
            return any(self.contains_return(x) for x in node)
        if isinstance(node, list):
            return any(self.contains_return(x) for x in node)
        return False

    def tail_if(self, e, env, mode, opt):
        c, _ = self.expr(e[1], env, BOOL)
        if self.binds:
            raise Unsupported("fuelled call in condition")
        if e[3] is None:
            raise Unsupported("tail if without else")
        gt = self.stmts(e[2][1], env.copy(), mode, opt)
        if mode[1] is None and "type" in mode[2]:
            mode = ("value", mode[2]["type"], mode[2])
        ge = self.stmts(e[3][1], env.copy(), mode, opt)
        return ("if", c, gt, ge)

    def stmt_if(self, e, rest, env, mode, opt):
        c, _ = self.expr(e[1], env, BOOL)
        if self.binds:
            raise Unsupported("fuelled call in condition")
        then_b, else_b = e[2], e[3]
        if self.ends_with_return(then_b):
            gt = self.stmts(then_b[1], env.copy(), mode, opt)
            else_stmts = (else_b[1] if else_b else [])
            # `else { if .. }` chains arrive as a block with a tail-if
            if else_b and len(else_stmts) == 1 and else_stmts[0][0] == "tail" and else_stmts[0][1][0] == "if":
                else_stmts = [("expr", else_stmts[0][1])]
            ge = self.stmts(list(else_stmts) + list(rest), env.copy(), mode, opt)
            return ("if", c, gt, ge)
        if (self.contains_return(then_b) or (else_b and self.contains_return(else_b))) and not self.has_while(e):
            # C16: a `return` nested deeper in a branch: duplicate the continuation into both branches
            def untail(stmts):
                stmts = list(stmts)
                if stmts and stmts[-1][0] == "tail" and rest:
                    if stmts[-1][1][0] != "if":
                        raise Unsupported("value-producing branch before further statements")
                    stmts[-1] = ("expr", stmts[-1][1])
                return stmts
            declared = set()
            for b in (then_b, else_b):
                if b:
                    for st in b[1]:
                        if st[0] == "let":
                            self.pat_names(st[1], declared)
            if declared & set(env.vars):
                raise Unsupported("branch with nested return shadows an outer variable")
            gt = self.stmts(untail(then_b[1]) + list(rest), env.copy(), mode, opt)
            ge = self.stmts(untail(else_b[1] if else_b else []) + list(rest), env.copy(), mode, opt)
            return ("if", c, gt, ge)
        names = []
        self.assigned(then_b, names)
        if else_b:
            self.assigned(else_b, names)
        names = [n for n in names if n in env.vars]
        impure = self.has_while(e)
        if impure and not self.fuel_fn:
            raise Unsupported("loop in non-fuel function")
        sub_opt = impure
        smode = ("state", names)
        gt = self.stmts(then_b[1], env.copy(), smode, sub_opt)
        ge = self.stmts(else_b[1], env.copy(), smode, sub_opt) if else_b else self.finish(self.state_tuple(names, env), sub_opt)
        ifg = ("if", c, gt, ge)
        env2 = env
        pat = ("ptuple", [env2.bind(n, env.vars[n][1]) for n in names])
        body = self.stmts(rest, env2, mode, opt)
        if sub_opt:
            if not opt:
                raise Unsupported("impure if in pure position")
            return ("bindopt", pat, ifg, body)
        return ("let", pat, ifg, body)

    def range_of(self, it, env):
        down = False
        if it[0] == "mcall" and it[2] == "rev":
            down = True
            it = it[1]
        while it[0] == "paren":
            it = it[1]
        if it[0] != "range":
            raise Unsupported("for over non-range")
        lo, tl = self.expr(it[1], env, None)
        hi, th = self.expr(it[2], env, tl if tl != LIT else None)
        ty = th if th != LIT else (tl if tl != LIT else U(32))
        return down, lo, hi, ty

    def stmt_for(self, s, rest, env, mode, opt):
        p, it, body = s[1], s[2], s[3]
        if self.has_while(body):
            raise Unsupported("while inside for")
        down, lo, hi, ity = self.range_of(it, env)
        names = []
        self.assigned(body, names)
        names = [n for n in names if n in env.vars]
        benv = env.copy()
        ivar = self.bind_pat(p, ity, benv)
        if not isinstance(ivar, str):
            raise Unsupported("for pattern")
        st_pat = self.state_pat(names, benv)
        gb = self.stmts(body[1], benv, ("state", names), False)
        loop = ("app", "for_down" if down else "for_up",
                [lo, hi, ("fun", [ivar, st_pat], gb), self.state_tuple(names, env)])
        pat = ("ptuple", [env.bind(n, env.vars[n][1]) for n in names])
        return ("let", pat, loop, self.stmts(rest, env, mode, opt))

    def stmt_while(self, s, rest, env, mode, opt):
        if not (self.fuel_fn and opt):
            raise Unsupported("while loop outside a fuelled function")
        c, body = s[1], s[2]
        names = []
        self.assigned(body, names)
        names = [n for n in names if n in env.vars]
        benv = env.copy()
        st_pat = self.state_pat(names, benv)
        gc, _ = self.expr(c, benv, BOOL)
        if self.binds:
            raise Unsupported("fuelled call in loop condition")
        nested = self.has_while(body)
        gb = self.stmts(body[1], benv.copy(), ("state", names), nested)
        fn = "while_loop_o" if nested else "while_loop"
        loop = ("app", fn, [("var", "fuel"), ("fun", [st_pat], gc), ("fun", [st_pat], gb),
                            self.state_tuple(names, env)])
        pat = ("ptuple", [env.bind(n, env.vars[n][1]) for n in names])
        return ("bindopt", pat, loop, self.stmts(rest, env, mode, opt))


def gtype(t, ring=False):
    if t is None:
        return "_"
    k = t[0]
    if k in ("u", "s", "litint"):
        return "Z"
    if k == "elem":
        return "F" if ring else "Z"
    if k == "bool":
        return "bool"
    if k == "unit":
        return "unit"
    if k == "tuple":
        return "(" + " * ".join(gtype(x, ring) for x in t[1]) + ")"
    if k == "array":
        if t[1] == U(8) and t[2] > 4:
            return "(list Z)"
        return "(" + " * ".join([gtype(t[1], ring)] * t[2]) + ")"
    if k == "option":
        return "(option " + gtype(t[1], ring) + ")"
    if k == "struct":
        return t[2]
    raise Unsupported(f"gtype {t}")
